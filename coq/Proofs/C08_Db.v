(* C08: the stored row always carries the verdict of the LATEST verification, and (as long as headers are
   only appended) a row flagged verified checks against the header the wallet holds at the row's height. *)
From Coq Require Import NArith ZArith List Bool Lia.
From Coq.Strings Require Import Byte.
From LV Require Import Lib.Bytes Model.C08 Model.C08_Cache Model.C08_Db Proofs.C08 Proofs.C08_Cache.
Import ListNotations.

Section Db.
Variable dsha : bytes -> bytes.

Lemma row_lookup_replace k v r : row_lookup k (row_replace k v r) = Some v.
Proof.
  induction r as [|[k' v'] t IH]; cbn [row_replace row_lookup].
  - rewrite bytes_eqb_refl. reflexivity.
  - destruct (bytes_eqb k k') eqn:E; cbn [row_lookup]; rewrite ?bytes_eqb_refl, ?E; [reflexivity | exact IH].
Qed.

(* the row read back after a sync that ran to its end is exactly what maybe_verify_transaction produced
   from a fresh transaction at the height the server reported: no memory of earlier verdicts *)
Theorem row_is_latest_verdict s key raw h arg net :
  let r := maybe_verify dsha (d_headers s) (fresh h) raw h arg net in
  (mv_outcome r = RetTx \/ mv_outcome r = RetNone) ->
  row_lookup key (d_rows (dstep dsha s (DSync key raw h arg net))) =
  Some {| c_raw := raw; c_resp := effective arg net; c_st := mv_state r |}.
Proof.
  cbv zeta. intros [E|E]; cbn [dstep]; rewrite E; cbn [d_rows]; apply row_lookup_replace.
Qed.

(* hence: a re-sync at a height without header, or with a proof that does not lead to that header's
   root, leaves the row unverified at the new height, whatever the row said before *)
Theorem resync_without_proof_unverifies s key raw h arg net :
  let r := maybe_verify dsha (d_headers s) (fresh h) raw h arg net in
  (mv_outcome r = RetTx \/ mv_outcome r = RetNone) ->
  ~ (in_range (d_headers s) h /\ proof_checks dsha (d_headers s) raw h (effective arg net)) ->
  exists e, row_lookup key (d_rows (dstep dsha s (DSync key raw h arg net))) = Some e /\
            t_verified (c_st e) = false /\ t_height (c_st e) = h.
Proof.
  cbv zeta. intros Ho Hn. eexists. split; [apply row_is_latest_verdict; exact Ho|]. cbn [c_st]. split.
  - destruct (t_verified (mv_state _)) eqn:V; [|reflexivity]. exfalso. apply Hn.
    apply (verified_iff dsha) in V; [exact V | reflexivity].
  - apply height_recorded.
Qed.

Definition rows_ok (s : dstate) : Prop := Forall (fun kv => entry_ok dsha (d_headers s) (snd kv)) (d_rows s).

Lemma row_replace_ok headers r k v : Forall (fun kv => entry_ok dsha headers (snd kv)) r -> entry_ok dsha headers v ->
  Forall (fun kv => entry_ok dsha headers (snd kv)) (row_replace k v r).
Proof.
  induction r as [|[k' v'] t IH]; intros H Hv; cbn [row_replace].
  - constructor; [exact Hv | constructor].
  - inversion H; subst. destruct (bytes_eqb k k'); constructor; auto.
Qed.

Lemma dstep_ok s op : rows_ok s -> rows_ok (dstep dsha s op).
Proof.
  intro H. destruct op as [key raw h arg net | newh | ]; cbn [dstep]; [| |exact H].
  - destruct (mv_outcome _); try exact H; unfold rows_ok; cbn [d_headers d_rows];
      (apply row_replace_ok; [exact H | apply fetched_entry_ok]).
  - unfold rows_ok in *. cbn [d_headers d_rows]. eapply Forall_impl; [|exact H].
    intros [k e] Hk. cbn [snd] in *. apply entry_ok_app, Hk.
Qed.

(* for EVERY sequence of history syncs, header extensions and restarts from an empty table: a row flagged
   verified has a header at its height and its stored proof leads to that header's root *)
Theorem db_rows_sound headers0 ops key e :
  let s := drun dsha {| d_headers := headers0; d_rows := [] |} ops in
  row_lookup key (d_rows s) = Some e -> t_verified (c_st e) = true ->
  in_range (d_headers s) (t_height (c_st e)) /\
  proof_checks dsha (d_headers s) (c_raw e) (t_height (c_st e)) (c_resp e).
Proof.
  cbv zeta.
  assert (Hinv : forall ops s, rows_ok s -> rows_ok (drun dsha s ops)).
  { induction ops0 as [|op r IH]; intros s H; cbn [drun fold_left]; [exact H|]. apply IH, dstep_ok, H. }
  specialize (Hinv ops {| d_headers := headers0; d_rows := [] |} (Forall_nil _)).
  set (s := drun dsha _ ops) in *. clearbody s.
  intros L V. unfold rows_ok in Hinv.
  induction (d_rows s) as [|[k' v'] t IH]; cbn [row_lookup] in L; [discriminate|].
  inversion Hinv; subst. destruct (bytes_eqb key k').
  - inversion L; subst. cbn [snd] in *. auto.
  - apply IH; assumption.
Qed.

End Db.
