(* C17 proofs, part 7: the LRU cache behind the failure records keeps the entry that was just set. No axioms. *)
From Coq Require Import NArith ZArith List Bool Lia.
From LV Require Import Lib.Bytes Model.C17.
Import ListNotations.

Lemma filter_length_le {A} (f : A -> bool) (l : list A) : (length (filter f l) <= length l)%nat.
Proof. induction l as [|x r IH]; cbn [filter length]; [lia|]. destruct (f x); cbn [length]; lia. Qed.

Section LRUFacts.
  Variables K V : Type.
  Variable keqb : K -> K -> bool.
  Hypothesis keqb_spec : forall a b, keqb a b = true <-> a = b.

  Lemma keqb_refl k : keqb k k = true.
  Proof. apply keqb_spec. reflexivity. Qed.

  Lemma find_none_app (f : K * V -> bool) (c : list (K * V)) x :
    (forall p, In p c -> f p = false) -> f x = true -> find f (c ++ [x]) = Some x.
  Proof.
    intros Hc Hx. induction c as [|p r IH]; cbn [app find].
    - rewrite Hx. reflexivity.
    - rewrite (Hc p (or_introl eq_refl)). apply IH. intros q Hq. apply Hc. right. exact Hq.
  Qed.

  Lemma remove_no_key c k p : In p (lru_remove K V keqb c k) -> keqb (fst p) k = false.
  Proof. unfold lru_remove. intro H. apply filter_In in H as [_ H]. apply negb_true_iff in H. exact H. Qed.

  Lemma has_false_no_key c k p : lru_has K V keqb c k = false -> In p c -> keqb (fst p) k = false.
  Proof.
    unfold lru_has. intros H Hp. destruct (keqb (fst p) k) eqn:E; [|reflexivity].
    assert (existsb (fun q => keqb (fst q) k) c = true) by (apply existsb_exists; exists p; split; assumption).
    congruence.
  Qed.

  Lemma In_tl {A} (l : list A) x : In x (tl l) -> In x l.
  Proof. destruct l; simpl; [trivial | intro H; right; exact H]. Qed.

  (* the key that was just set is present, with the value that was set -- whatever the capacity and however
     full the cache is (the seeded 'simplification' that evicts the newest entry of a full cache breaks this) *)
  Theorem lru_set_peek cap c k v : lru_peek K V keqb (lru_set K V keqb cap c k v) k = Some v.
  Proof.
    unfold lru_peek, lru_set.
    rewrite (find_none_app (fun p => keqb (fst p) k) _ (k, v)); [reflexivity | | apply keqb_refl].
    intros p Hp. destruct (lru_has K V keqb c k) eqn:E.
    - eapply remove_no_key. exact Hp.
    - apply (has_false_no_key c k p E). destruct (cap <=? length c)%nat; [apply In_tl|]; exact Hp.
  Qed.

  Lemma remove_length c k : (length (lru_remove K V keqb c k) <= length c)%nat.
  Proof. unfold lru_remove. apply filter_length_le. Qed.

  Lemma has_true_remove_shorter c k : lru_has K V keqb c k = true -> (length (lru_remove K V keqb c k) < length c)%nat.
  Proof.
    unfold lru_has, lru_remove. induction c as [|p r IH]; cbn [existsb filter length]; intro H; [discriminate|].
    destruct (keqb (fst p) k) eqn:E; cbn [negb].
    - pose proof (filter_length_le (fun p0 : K * V => negb (keqb (fst p0) k)) r). lia.
    - cbn [orb] in H. specialize (IH H). cbn [length]. lia.
  Qed.

  (* the capacity is respected *)
  Theorem lru_set_length cap c k v : (1 <= cap)%nat -> (length c <= cap)%nat ->
    (length (lru_set K V keqb cap c k v) <= cap)%nat.
  Proof.
    intros Hc Hl. unfold lru_set. rewrite app_length. cbn [length].
    destruct (lru_has K V keqb c k) eqn:E.
    - pose proof (has_true_remove_shorter c k E). lia.
    - destruct (cap <=? length c)%nat eqn:E2.
      + apply Nat.leb_le in E2. destruct c; cbn [tl length] in *; lia.
      + apply Nat.leb_gt in E2. lia.
  Qed.

  (* when nothing has to be evicted (the key is present, or there is room), every other key keeps its value *)
  Theorem lru_set_other cap c k v k' : k' <> k ->
    (lru_has K V keqb c k = true \/ (length c < cap)%nat) ->
    lru_peek K V keqb (lru_set K V keqb cap c k v) k' = lru_peek K V keqb c k'.
  Proof.
    intros Hk Hroom.
    assert (Hkk : keqb k k' = false).
    { destruct (keqb k k') eqn:E; [|reflexivity]. apply keqb_spec in E. congruence. }
    unfold lru_peek, lru_set.
    assert (Hrm : forall c0, find (fun p => keqb (fst p) k') (lru_remove K V keqb c0 k ++ [(k, v)])
                             = find (fun p => keqb (fst p) k') c0).
    { induction c0 as [|p r IH]; cbn [lru_remove filter app find].
      - cbn [fst]. rewrite Hkk. reflexivity.
      - destruct (keqb (fst p) k) eqn:E; cbn [negb].
        + fold (lru_remove K V keqb r k). rewrite IH.
          apply keqb_spec in E. rewrite E, Hkk. reflexivity.
        + cbn [app find]. fold (lru_remove K V keqb r k). rewrite IH. reflexivity. }
    destruct (lru_has K V keqb c k) eqn:E.
    - rewrite Hrm. reflexivity.
    - destruct Hroom as [H|H]; [congruence|].
      replace (cap <=? length c)%nat with false by (symmetry; apply Nat.leb_gt; exact H).
      clear E. induction c as [|p r IH]; cbn [app find].
      + cbn [fst]. rewrite Hkk. reflexivity.
      + destruct (keqb (fst p) k'); [reflexivity|]. apply IH. cbn [length] in H. lia.
  Qed.

End LRUFacts.

Section FailureTable.
  Variable K : Type.
  Variable keqb : K -> K -> bool.
  Hypothesis keqb_spec : forall a b, keqb a b = true <-> a = b.

  (* PeerManager.report_failure: afterwards the sender has a failure record whose newest entry is [now] and whose
     older entry is the previous newest one -- also when the table is FULL of other senders *)
  Theorem report_failure_recorded cap (c : lru K (option N * option N)) addr now :
    lru_peek K _ keqb (report_failure keqb cap c addr now) addr
    = Some (match lru_peek K _ keqb c addr with Some (_, last) => last | None => None end, Some now).
  Proof. unfold report_failure. apply lru_set_peek. exact keqb_spec. Qed.

  Theorem report_failure_bounded cap (c : lru K (option N * option N)) addr now :
    (1 <= cap)%nat -> (length c <= cap)%nat -> (length (report_failure keqb cap c addr now) <= cap)%nat.
  Proof.
    intros H1 H2. unfold report_failure. apply lru_set_length; [exact keqb_spec | exact H1 |].
    pose proof (remove_length K _ keqb c addr). lia.
  Qed.
End FailureTable.
