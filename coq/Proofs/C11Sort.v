(* C11 proofs: the stable insertion sort used for list.sort(key=...) *)
From Coq Require Import NArith ZArith List Bool Lia Permutation Arith.
From LV Require Import Model.C11 Model.C11Spec Proofs.C11Base.
Import ListNotations.
Local Open Scope N_scope.

Fixpoint sorted (key : peer -> N) (l : list peer) : Prop :=
  match l with
  | [] => True
  | x :: r => Forall (fun y => key x <= key y) r /\ sorted key r
  end.

Lemma insert_by_perm key x l : Permutation (insert_by key x l) (x :: l).
Proof.
  induction l as [| y r IH]; cbn; [reflexivity |].
  destruct (key x <=? key y); [reflexivity |].
  rewrite IH. apply perm_swap.
Qed.

Lemma sort_by_perm key l : Permutation (sort_by key l) l.
Proof. induction l as [| x r IH]; cbn; [constructor |]. rewrite insert_by_perm. constructor. exact IH. Qed.

Lemma insert_by_sorted key x l : sorted key l -> sorted key (insert_by key x l).
Proof.
  induction l as [| y r IH]; cbn; [auto |]. intros (F & S).
  destruct (key x <=? key y) eqn:E.
  - apply N.leb_le in E. cbn. split; [| auto]. constructor; [exact E |].
    eapply Forall_impl; [| exact F]. cbn. intros. lia.
  - apply N.leb_gt in E. cbn. split; [| auto].
    eapply Permutation_Forall; [symmetry; apply insert_by_perm |]. constructor; [lia | exact F].
Qed.

Lemma sort_by_sorted key l : sorted key (sort_by key l).
Proof. induction l; cbn; [exact I | apply insert_by_sorted; assumption]. Qed.

Lemma filter_length_perm {A} (f : A -> bool) l l' : Permutation l l' -> length (filter f l) = length (filter f l').
Proof. induction 1; cbn; try destruct (f x); try destruct (f y); cbn; congruence. Qed.

(* the n-th element of a sorted list has at least n+1 elements at or below it *)
Lemma sorted_nth_count key s : forall n x v,
  sorted key s -> nth_error s n = Some x -> key x <= v ->
  (n < length (filter (fun c => (key c <=? v)%N) s))%nat.
Proof.
  induction s as [| y r IH]; intros [| n] x v S E L; cbn in *; try discriminate.
  - inversion E; subst. assert (H : (key x <=? v) = true) by (apply N.leb_le; exact L). rewrite H. cbn. lia.
  - destruct S as (F & S). assert (In x r) by (eapply nth_error_In; eauto).
    rewrite Forall_forall in F. specialize (F _ H).
    assert (H' : (key y <=? v) = true) by (apply N.leb_le; lia). rewrite H'. cbn.
    specialize (IH n x v S E L). lia.
Qed.

Lemma in_skipn {A} n (l : list A) x : In x (skipn n l) -> In x l.
Proof. revert l. induction n; intros [| a l]; cbn; auto. Qed.

(* a strictly sorted prefix: everything taken is closer than everything left *)
Lemma sorted_firstn_skipn key s n x y :
  sorted key s -> In x (firstn n s) -> In y (skipn n s) -> key x <= key y.
Proof.
  revert n. induction s as [| z r IH]; intros [| n]; cbn; try tauto.
  intros (F & S) [-> | Hx] Hy.
  - rewrite Forall_forall in F. apply F. eapply in_skipn. exact Hy.
  - eauto.
Qed.

Lemma sorted_sub key l' l : sub l' l -> sorted key l -> sorted key l'.
Proof.
  induction 1; cbn; auto.
  - tauto.
  - intros (F & S). split; [eapply sub_Forall; eauto | auto].
Qed.

Lemma firstn_sub {A} n (l : list A) : sub (firstn n l) l.
Proof.
  revert n. induction l; intros [| n]; cbn; try apply sub_nil_l; try apply sub_refl. apply sub_keep. auto.
Qed.
