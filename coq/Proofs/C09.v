(* C09 proofs: invariants of the wallet-sync model over arbitrary step interleavings. *)
From Coq Require Import NArith ZArith List Bool Arith Lia Permutation.
From LV Require Import Model.C09.
Import ListNotations.

(* ---------- reflection of the boolean equalities ---------- *)
Lemma addr_eqb_eq a b : addr_eqb a b = true <-> a = b.
Proof.
  destruct a, b; simpl; split; intro H; try discriminate; try congruence.
  - apply andb_true_iff in H. destruct H as [H1 H2].
    apply N.eqb_eq in H1. apply Nat.eqb_eq in H2. congruence.
  - inversion H; subst. rewrite N.eqb_refl, Nat.eqb_refl. reflexivity.
  - apply N.eqb_eq in H. congruence.
  - inversion H; subst. apply N.eqb_refl.
Qed.
Lemma addr_eqb_refl a : addr_eqb a a = true.
Proof. apply addr_eqb_eq. reflexivity. Qed.
Lemma addr_eqb_neq a b : addr_eqb a b = false <-> a <> b.
Proof.
  split; intro H.
  - intro E. apply addr_eqb_eq in E. congruence.
  - destruct (addr_eqb a b) eqn:E; auto. apply addr_eqb_eq in E. contradiction.
Qed.
Lemma addr_eqb_sym a b : addr_eqb a b = addr_eqb b a.
Proof.
  destruct (addr_eqb a b) eqn:E.
  - apply addr_eqb_eq in E. subst. symmetry. apply addr_eqb_refl.
  - symmetry. apply addr_eqb_neq. apply addr_eqb_neq in E. congruence.
Qed.

Lemma entry_eqb_eq (x y : entry) : entry_eqb x y = true <-> x = y.
Proof.
  destruct x as [a b], y as [c d]. unfold entry_eqb. simpl. split; intro H.
  - apply andb_true_iff in H. destruct H as [H1 H2]. apply N.eqb_eq in H1. apply Z.eqb_eq in H2. congruence.
  - inversion H; subst. rewrite N.eqb_refl, Z.eqb_refl. reflexivity.
Qed.
Lemma hist_eqb_eq l r : hist_eqb l r = true <-> l = r.
Proof.
  revert r. induction l as [|x l IH]; destruct r as [|y r]; simpl; split; intro H; try discriminate; auto.
  - apply andb_true_iff in H. destruct H as [H1 H2]. apply entry_eqb_eq in H1. apply IH in H2. congruence.
  - inversion H; subst. apply andb_true_iff. split. apply entry_eqb_eq; auto. apply IH; auto.
Qed.
Lemma mem_entry_In e l : mem_entry e l = true <-> In e l.
Proof.
  unfold mem_entry. rewrite existsb_exists. split.
  - intros [x [H1 H2]]. apply entry_eqb_eq in H2. subst. auto.
  - intro H. exists e. split; auto. apply entry_eqb_eq. reflexivity.
Qed.
Lemma mem_id_In p l : mem_id p l = true <-> In p l.
Proof.
  unfold mem_id. rewrite existsb_exists. split.
  - intros [x [H1 H2]]. apply N.eqb_eq in H2. subst. auto.
  - intro H. exists p. split; auto. apply N.eqb_refl.
Qed.

Lemma list_eqb_eq {A} (f : A -> A -> bool) :
  (forall x y, f x y = true -> x = y) -> forall l r, list_eqb f l r = true -> l = r.
Proof.
  intros Hf. induction l as [|x l IH]; destruct r as [|y r]; simpl; intro H; try discriminate; auto.
  apply andb_true_iff in H. destruct H as [H1 H2]. apply Hf in H1. apply IH in H2. congruence.
Qed.
Lemma output_eqb_eq o o' : output_eqb o o' = true -> o = o'.
Proof.
  destruct o as [k a w p], o' as [k' a' w' p']. unfold output_eqb. simpl. intro H.
  apply andb_true_iff in H. destruct H as [H Hp].
  apply andb_true_iff in H. destruct H as [H Hw].
  apply andb_true_iff in H. destruct H as [Hk Ha].
  apply N.eqb_eq in Ha. apply N.eqb_eq in Hw. apply Bool.eqb_prop in Hp. subst.
  destruct k, k'; try discriminate.
  - apply addr_eqb_eq in Hk. subst. reflexivity.
  - apply N.eqb_eq in Hk. subst. reflexivity.
  - reflexivity.
Qed.
Lemma tx_eqb_eq t t' : tx_eqb t t' = true -> t = t'.
Proof.
  destruct t as [i ins outs], t' as [i' ins' outs']. unfold tx_eqb. simpl. intro H.
  apply andb_true_iff in H. destruct H as [H Ho].
  apply andb_true_iff in H. destruct H as [Hi Hn].
  apply N.eqb_eq in Hi. apply list_eqb_eq in Hn. apply list_eqb_eq in Ho. congruence.
  - apply output_eqb_eq.
  - intros [a b] [c d] E. simpl in E. apply andb_true_iff in E. destruct E as [E1 E2].
    apply N.eqb_eq in E1. apply Nat.eqb_eq in E2. congruence.
Qed.

(* ---------- association lists ---------- *)
Lemma aget_aset_same {V} (l : list (addr * V)) a v : aget (aset l a v) a = Some v.
Proof. unfold aset. simpl. rewrite addr_eqb_refl. reflexivity. Qed.
Lemma aget_filter_other {V} (l : list (addr * V)) a b :
  a <> b -> aget (filter (fun x => negb (addr_eqb (fst x) a)) l) b = aget l b.
Proof.
  intro N. induction l as [|[c v] l IH]; simpl; auto.
  destruct (addr_eqb c a) eqn:E; simpl.
  - apply addr_eqb_eq in E. subst. destruct (addr_eqb a b) eqn:E2.
    + apply addr_eqb_eq in E2. contradiction.
    + exact IH.
  - destruct (addr_eqb c b); auto.
Qed.
Lemma aget_aset_other {V} (l : list (addr * V)) a b v : a <> b -> aget (aset l a v) b = aget l b.
Proof.
  intro N. unfold aset. simpl. destruct (addr_eqb a b) eqn:E.
  - apply addr_eqb_eq in E. contradiction.
  - apply aget_filter_other; auto.
Qed.
Lemma aget_adel_same {V} (l : list (addr * V)) a : aget (adel l a) a = None.
Proof.
  unfold adel. induction l as [|[c v] l IH]; simpl; auto.
  destruct (addr_eqb c a) eqn:E; simpl; auto. rewrite E. exact IH.
Qed.
Lemma aget_adel_other {V} (l : list (addr * V)) a b : a <> b -> aget (adel l a) b = aget l b.
Proof. apply aget_filter_other. Qed.

Lemma nget_nset_same l c v : nget (nset l c v) c = v.
Proof. unfold nset. simpl. rewrite N.eqb_refl. reflexivity. Qed.
Lemma nget_nset_other l c d v : c <> d -> nget (nset l c v) d = nget l d.
Proof.
  intro N. unfold nset. simpl. destruct (N.eqb c d) eqn:E.
  - apply N.eqb_eq in E. contradiction.
  - induction l as [|[x y] l IH]; simpl; auto.
    destruct (N.eqb x c) eqn:E2; simpl.
    + apply N.eqb_eq in E2. subst. rewrite E. exact IH.
    + destruct (N.eqb x d); auto.
Qed.

(* ---------- find / enum ---------- *)
Lemma find_tx_some S p t : find_tx S p = Some t -> t_id t = p /\ exists h, In (t, h) S.
Proof.
  unfold find_tx. match goal with |- context [find ?f S] => destruct (find f S) as [[t' h]|] eqn:E end; intro H; inversion H; subst.
  apply find_some in E. destruct E as [E1 E2]. simpl in E2. apply N.eqb_eq in E2. simpl in *. split; [exact E2 | exists h; exact E1].
Qed.
Lemma find_tx_none S p : find_tx S p = None -> forall t h, In (t, h) S -> t_id t <> p.
Proof.
  unfold find_tx. match goal with |- context [find ?f S] => destruct (find f S) as [x|] eqn:E end; intro H; try discriminate.
  intros t h I Q. eapply find_none in E; eauto. simpl in E. apply N.eqb_neq in E. contradiction.
Qed.
Lemma find_tx_exists S t h : In (t, h) S -> exists t', find_tx S (t_id t) = Some t'.
Proof.
  intro I. destruct (find_tx S (t_id t)) eqn:E; eauto.
  exfalso. eapply find_tx_none in E; eauto.
Qed.

Lemma enum_In_gen {A} (l : list A) k x b :
  In (k, x) (combine (seq b (length l)) l) <-> (b <= k /\ nth_error l (k - b) = Some x).
Proof.
  revert b. induction l as [|y l IH]; intro b; simpl.
  - split; [tauto|]. intros [_ H]. destruct (k - b); discriminate.
  - rewrite IH. split.
    + intros [H|[H1 H2]].
      * inversion H; subst. rewrite Nat.sub_diag. simpl. auto.
      * split; [lia|]. replace (k - b) with (S (k - S b)) by lia. simpl. auto.
    + intros [H1 H2]. destruct (Nat.eq_dec b k).
      * subst. rewrite Nat.sub_diag in H2. simpl in H2. inversion H2. auto.
      * right. split; [lia|]. replace (k - b) with (S (k - S b)) in H2 by lia. simpl in H2. auto.
Qed.
Lemma enum_In {A} (l : list A) k x : In (k, x) (enum l) <-> nth_error l k = Some x.
Proof.
  unfold enum. rewrite enum_In_gen. rewrite Nat.sub_0_r. split; [tauto|]. intro; split; auto. lia.
Qed.
