(* C09 proofs: invariants of the wallet-sync model over arbitrary step interleavings. *)
From Coq Require Import NArith ZArith List Bool Arith Lia Permutation.
From LV Require Import Model.C09.
Import ListNotations.

(* ---------- reflection of the boolean equalities ---------- *)
Lemma addr_eqb_eq a b : addr_eqb a b = true <-> a = b.
Proof.
  destruct a, b; simpl; split; intro H; try discriminate; try congruence.
  - apply andb_true_iff in H. destruct H as [H1 H2].
    apply N.eqb_eq in H1. apply Nat.eqb_eq in H2. congruence.
  - inversion H; subst. rewrite N.eqb_refl, Nat.eqb_refl. reflexivity.
  - apply N.eqb_eq in H. congruence.
  - inversion H; subst. apply N.eqb_refl.
Qed.
Lemma addr_eqb_refl a : addr_eqb a a = true.
Proof. apply addr_eqb_eq. reflexivity. Qed.
Lemma addr_eqb_neq a b : addr_eqb a b = false <-> a <> b.
Proof.
  split; intro H.
  - intro E. apply addr_eqb_eq in E. congruence.
  - destruct (addr_eqb a b) eqn:E; auto. apply addr_eqb_eq in E. contradiction.
Qed.
Lemma addr_eqb_sym a b : addr_eqb a b = addr_eqb b a.
Proof.
  destruct (addr_eqb a b) eqn:E.
  - apply addr_eqb_eq in E. subst. symmetry. apply addr_eqb_refl.
  - symmetry. apply addr_eqb_neq. apply addr_eqb_neq in E. congruence.
Qed.

Lemma entry_eqb_eq (x y : entry) : entry_eqb x y = true <-> x = y.
Proof.
  destruct x as [a b], y as [c d]. unfold entry_eqb. simpl. split; intro H.
  - apply andb_true_iff in H. destruct H as [H1 H2]. apply N.eqb_eq in H1. apply Z.eqb_eq in H2. congruence.
  - inversion H; subst. rewrite N.eqb_refl, Z.eqb_refl. reflexivity.
Qed.
Lemma hist_eqb_eq l r : hist_eqb l r = true <-> l = r.
Proof.
  revert r. induction l as [|x l IH]; destruct r as [|y r]; simpl; split; intro H; try discriminate; auto.
  - apply andb_true_iff in H. destruct H as [H1 H2]. apply entry_eqb_eq in H1. apply IH in H2. congruence.
  - inversion H; subst. apply andb_true_iff. split. apply entry_eqb_eq; auto. apply IH; auto.
Qed.
Lemma mem_entry_In e l : mem_entry e l = true <-> In e l.
Proof.
  unfold mem_entry. rewrite existsb_exists. split.
  - intros [x [H1 H2]]. apply entry_eqb_eq in H2. subst. auto.
  - intro H. exists e. split; auto. apply entry_eqb_eq. reflexivity.
Qed.
Lemma mem_id_In p l : mem_id p l = true <-> In p l.
Proof.
  unfold mem_id. rewrite existsb_exists. split.
  - intros [x [H1 H2]]. apply N.eqb_eq in H2. subst. auto.
  - intro H. exists p. split; auto. apply N.eqb_refl.
Qed.

Lemma list_eqb_eq {A} (f : A -> A -> bool) :
  (forall x y, f x y = true -> x = y) -> forall l r, list_eqb f l r = true -> l = r.
Proof.
  intros Hf. induction l as [|x l IH]; destruct r as [|y r]; simpl; intro H; try discriminate; auto.
  apply andb_true_iff in H. destruct H as [H1 H2]. apply Hf in H1. apply IH in H2. congruence.
Qed.
Lemma output_eqb_eq o o' : output_eqb o o' = true -> o = o'.
Proof.
  destruct o as [k a w p], o' as [k' a' w' p']. unfold output_eqb. simpl. intro H.
  apply andb_true_iff in H. destruct H as [H Hp].
  apply andb_true_iff in H. destruct H as [H Hw].
  apply andb_true_iff in H. destruct H as [Hk Ha].
  apply N.eqb_eq in Ha. apply N.eqb_eq in Hw. apply Bool.eqb_prop in Hp. subst.
  destruct k, k'; try discriminate.
  - apply addr_eqb_eq in Hk. subst. reflexivity.
  - apply N.eqb_eq in Hk. subst. reflexivity.
  - reflexivity.
Qed.
Lemma tx_eqb_eq t t' : tx_eqb t t' = true -> t = t'.
Proof.
  destruct t as [i ins outs], t' as [i' ins' outs']. unfold tx_eqb. simpl. intro H.
  apply andb_true_iff in H. destruct H as [H Ho].
  apply andb_true_iff in H. destruct H as [Hi Hn].
  apply N.eqb_eq in Hi. apply list_eqb_eq in Hn. apply list_eqb_eq in Ho. congruence.
  - apply output_eqb_eq.
  - intros [a b] [c d] E. simpl in E. apply andb_true_iff in E. destruct E as [E1 E2].
    apply N.eqb_eq in E1. apply Nat.eqb_eq in E2. congruence.
Qed.

(* ---------- association lists ---------- *)
Lemma aget_aset_same {V} (l : list (addr * V)) a v : aget (aset l a v) a = Some v.
Proof. unfold aset. simpl. rewrite addr_eqb_refl. reflexivity. Qed.
Lemma aget_filter_other {V} (l : list (addr * V)) a b :
  a <> b -> aget (filter (fun x => negb (addr_eqb (fst x) a)) l) b = aget l b.
Proof.
  intro N. induction l as [|[c v] l IH]; simpl; auto.
  destruct (addr_eqb c a) eqn:E; simpl.
  - apply addr_eqb_eq in E. subst. destruct (addr_eqb a b) eqn:E2.
    + apply addr_eqb_eq in E2. contradiction.
    + exact IH.
  - destruct (addr_eqb c b); auto.
Qed.
Lemma aget_aset_other {V} (l : list (addr * V)) a b v : a <> b -> aget (aset l a v) b = aget l b.
Proof.
  intro N. unfold aset. simpl. destruct (addr_eqb a b) eqn:E.
  - apply addr_eqb_eq in E. contradiction.
  - apply aget_filter_other; auto.
Qed.
Lemma aget_adel_same {V} (l : list (addr * V)) a : aget (adel l a) a = None.
Proof.
  unfold adel. induction l as [|[c v] l IH]; simpl; auto.
  destruct (addr_eqb c a) eqn:E; simpl; auto. rewrite E. exact IH.
Qed.
Lemma aget_adel_other {V} (l : list (addr * V)) a b : a <> b -> aget (adel l a) b = aget l b.
Proof. apply aget_filter_other. Qed.

Lemma nget_nset_same l c v : nget (nset l c v) c = v.
Proof. unfold nset. simpl. rewrite N.eqb_refl. reflexivity. Qed.
Lemma nget_nset_other l c d v : c <> d -> nget (nset l c v) d = nget l d.
Proof.
  intro N. unfold nset. simpl. destruct (N.eqb c d) eqn:E.
  - apply N.eqb_eq in E. contradiction.
  - induction l as [|[x y] l IH]; simpl; auto.
    destruct (N.eqb x c) eqn:E2; simpl.
    + apply N.eqb_eq in E2. subst. rewrite E. exact IH.
    + destruct (N.eqb x d); auto.
Qed.

(* ---------- find / enum ---------- *)
Lemma find_tx_some S p t : find_tx S p = Some t -> t_id t = p /\ exists h, In (t, h) S.
Proof.
  unfold find_tx. match goal with |- context [find ?f S] => destruct (find f S) as [[t' h]|] eqn:E end; intro H; inversion H; subst.
  apply find_some in E. destruct E as [E1 E2]. simpl in E2. apply N.eqb_eq in E2. simpl in *. split; [exact E2 | exists h; exact E1].
Qed.
Lemma find_tx_none S p : find_tx S p = None -> forall t h, In (t, h) S -> t_id t <> p.
Proof.
  unfold find_tx. match goal with |- context [find ?f S] => destruct (find f S) as [x|] eqn:E end; intro H; try discriminate.
  intros t h I Q. eapply find_none in E; eauto. simpl in E. apply N.eqb_neq in E. contradiction.
Qed.
Lemma find_tx_exists S t h : In (t, h) S -> exists t', find_tx S (t_id t) = Some t'.
Proof.
  intro I. destruct (find_tx S (t_id t)) eqn:E; eauto.
  exfalso. eapply find_tx_none in E; eauto.
Qed.

Lemma enum_In_gen {A} (l : list A) k x b :
  In (k, x) (combine (seq b (length l)) l) <-> (b <= k /\ nth_error l (k - b) = Some x).
Proof.
  revert b. induction l as [|y l IH]; intro b; simpl.
  - split; [tauto|]. intros [_ H]. destruct (k - b); discriminate.
  - rewrite IH. split.
    + intros [H|[H1 H2]].
      * inversion H; subst. rewrite Nat.sub_diag. simpl. auto.
      * split; [lia|]. replace (k - b) with (S (k - S b)) by lia. simpl. auto.
    + intros [H1 H2]. destruct (Nat.eq_dec b k).
      * subst. rewrite Nat.sub_diag in H2. simpl in H2. inversion H2. auto.
      * right. split; [lia|]. replace (k - b) with (S (k - S b)) in H2 by lia. simpl in H2. auto.
Qed.
Lemma enum_In {A} (l : list A) k x : In (k, x) (enum l) <-> nth_error l k = Some x.
Proof.
  unfold enum. rewrite enum_In_gen. rewrite Nat.sub_0_r. split; [tauto|]. intro; split; auto. lia.
Qed.

(* ---------- insert-or-ignore tables ---------- *)
Lemma has_txo_In l p i : has_txo l p i = true <-> exists r, In r l /\ r_txid r = p /\ r_pos r = i.
Proof.
  unfold has_txo. rewrite existsb_exists. split.
  - intros [r [H1 H2]]. apply andb_true_iff in H2. destruct H2 as [A B].
    apply N.eqb_eq in A. apply Nat.eqb_eq in B. eauto.
  - intros [r [H1 [A B]]]. exists r. split; auto. subst. rewrite N.eqb_refl, Nat.eqb_refl. reflexivity.
Qed.
Lemma has_txi_In l p i : has_txi l p i = true <-> exists r, In r l /\ i_prev r = p /\ i_ppos r = i.
Proof.
  unfold has_txi. rewrite existsb_exists. split.
  - intros [r [H1 H2]]. apply andb_true_iff in H2. destruct H2 as [A B].
    apply N.eqb_eq in A. apply Nat.eqb_eq in B. eauto.
  - intros [r [H1 [A B]]]. exists r. split; auto. subst. rewrite N.eqb_refl, Nat.eqb_refl. reflexivity.
Qed.

Lemma ins_txo_incl l r x : In x l -> In x (ins_txo l r).
Proof. unfold ins_txo. destruct (has_txo l _ _); auto. intro. apply in_or_app. auto. Qed.
Lemma ins_txo_has l r : has_txo (ins_txo l r) (r_txid r) (r_pos r) = true.
Proof.
  unfold ins_txo. destruct (has_txo l (r_txid r) (r_pos r)) eqn:E; auto.
  apply has_txo_In. exists r. split; auto. apply in_or_app. right. simpl. auto.
Qed.
Lemma ins_txo_inv l r x : In x (ins_txo l r) -> In x l \/ x = r.
Proof.
  unfold ins_txo. destruct (has_txo l _ _); auto. intro H. apply in_app_or in H. destruct H as [H|[H|[]]]; auto.
Qed.
Lemma fold_ins_txo_incl rows : forall l x, In x l -> In x (fold_left ins_txo rows l).
Proof. induction rows as [|r rows IH]; simpl; auto. intros. apply IH. apply ins_txo_incl. auto. Qed.
Lemma has_txo_mono l l' p i : (forall x, In x l -> In x l') -> has_txo l p i = true -> has_txo l' p i = true.
Proof. intros M H. apply has_txo_In in H. destruct H as [r [H1 H2]]. apply has_txo_In. exists r. split; auto. Qed.
Lemma fold_ins_txo_has rows : forall l r, In r rows -> has_txo (fold_left ins_txo rows l) (r_txid r) (r_pos r) = true.
Proof.
  induction rows as [|r0 rows IH]; simpl; intros l r H; [contradiction|].
  destruct H as [H|H].
  - subst. eapply has_txo_mono. intros x Hx. apply fold_ins_txo_incl. exact Hx. apply ins_txo_has.
  - apply IH. auto.
Qed.
Lemma fold_ins_txo_inv rows : forall l x, In x (fold_left ins_txo rows l) -> In x l \/ In x rows.
Proof.
  induction rows as [|r rows IH]; simpl; auto. intros l x H. apply IH in H. destruct H as [H|H]; auto.
  apply ins_txo_inv in H. destruct H; auto.
Qed.

Lemma ins_txi_incl l r x : In x l -> In x (ins_txi l r).
Proof. unfold ins_txi. destruct (has_txi l _ _); auto. intro. apply in_or_app. auto. Qed.
Lemma ins_txi_has l r : has_txi (ins_txi l r) (i_prev r) (i_ppos r) = true.
Proof.
  unfold ins_txi. destruct (has_txi l (i_prev r) (i_ppos r)) eqn:E; auto.
  apply has_txi_In. exists r. split; auto. apply in_or_app. right. simpl. auto.
Qed.
Lemma ins_txi_inv l r x : In x (ins_txi l r) -> In x l \/ x = r.
Proof.
  unfold ins_txi. destruct (has_txi l _ _); auto. intro H. apply in_app_or in H. destruct H as [H|[H|[]]]; auto.
Qed.
Lemma fold_ins_txi_incl rows : forall l x, In x l -> In x (fold_left ins_txi rows l).
Proof. induction rows as [|r rows IH]; simpl; auto. intros. apply IH. apply ins_txi_incl. auto. Qed.
Lemma has_txi_mono l l' p i : (forall x, In x l -> In x l') -> has_txi l p i = true -> has_txi l' p i = true.
Proof. intros M H. apply has_txi_In in H. destruct H as [r [H1 H2]]. apply has_txi_In. exists r. split; auto. Qed.
Lemma fold_ins_txi_has rows : forall l r, In r rows -> has_txi (fold_left ins_txi rows l) (i_prev r) (i_ppos r) = true.
Proof.
  induction rows as [|r0 rows IH]; simpl; intros l r H; [contradiction|].
  destruct H as [H|H].
  - subst. eapply has_txi_mono. intros x Hx. apply fold_ins_txi_incl. exact Hx. apply ins_txi_has.
  - apply IH. auto.
Qed.
Lemma fold_ins_txi_inv rows : forall l x, In x (fold_left ins_txi rows l) -> In x l \/ In x rows.
Proof.
  induction rows as [|r rows IH]; simpl; auto. intros l x H. apply IH in H. destruct H as [H|H]; auto.
  apply ins_txi_inv in H. destruct H; auto.
Qed.

Lemma upsert_inv l y x : In x (upsert_tx l y) -> In x l \/ x = y.
Proof.
  unfold upsert_tx. intro H. apply in_app_or in H. destruct H as [H|[H|[]]]; auto.
  apply filter_In in H. tauto.
Qed.
Lemma ids_In S p : In p (ids S) <-> exists t h, In (t, h) S /\ t_id t = p.
Proof.
  unfold ids. rewrite in_map_iff. split.
  - intros [[t h] [A B]]. simpl in A. eauto.
  - intros [t [h [A B]]]. exists (t, h). auto.
Qed.
Lemma upsert_mem l y p : mem_id p (ids l) = true -> mem_id p (ids (upsert_tx l y)) = true.
Proof.
  rewrite !mem_id_In, !ids_In. intros [t [h [A B]]]. unfold upsert_tx.
  destruct (N.eqb (t_id t) (t_id (fst y))) eqn:E.
  - apply N.eqb_eq in E. destruct y as [ty hy]. exists ty, hy. split. apply in_or_app. right. simpl. auto. simpl in E. congruence.
  - exists t, h. split; auto. apply in_or_app. left. apply filter_In. split; auto. simpl. rewrite E. reflexivity.
Qed.
Lemma upsert_mem_self l y : mem_id (t_id (fst y)) (ids (upsert_tx l y)) = true.
Proof.
  rewrite mem_id_In, ids_In. destruct y as [ty hy]. exists ty, hy. split; auto.
  unfold upsert_tx. apply in_or_app. right. simpl. auto.
Qed.

(* ---------- saving a list of (transaction, resolved txi rows) ---------- *)
Definition mine_of (rows : list txi_row) : bool := match rows with [] => false | _ => true end.
Definition save_list (a : addr) (L : list (stx * list txi_row)) (d : db) : db :=
  fold_left (fun d xr => save_one a d (fst xr) (snd xr)) L d.

Lemma save_list_mono a L : forall d,
  (forall r, In r (d_txo d) -> In r (d_txo (save_list a L d))) /\
  (forall r, In r (d_txi d) -> In r (d_txi (save_list a L d))) /\
  (forall p, mem_id p (ids (d_tx d)) = true -> mem_id p (ids (d_tx (save_list a L d))) = true).
Proof.
  induction L as [|xr L IH]; intro d; simpl; auto.
  destruct (IH (save_one a d (fst xr) (snd xr))) as [A [B C]].
  split; [|split]; intros.
  - apply A. simpl. apply fold_ins_txo_incl. auto.
  - apply B. simpl. apply fold_ins_txi_incl. auto.
  - apply C. simpl. apply upsert_mem. auto.
Qed.

Lemma save_list_inv a L : forall d,
  (forall r, In r (d_txo (save_list a L d)) ->
     In r (d_txo d) \/ exists xr, In xr L /\ In r (new_txo a (mine_of (snd xr)) (fst (fst xr)))) /\
  (forall r, In r (d_txi (save_list a L d)) -> In r (d_txi d) \/ exists xr, In xr L /\ In r (snd xr)) /\
  (forall x, In x (d_tx (save_list a L d)) -> In x (d_tx d) \/ exists xr, In xr L /\ x = fst xr).
Proof.
  induction L as [|xr L IH]; intro d; simpl.
  - split; [|split]; auto.
  - destruct (IH (save_one a d (fst xr) (snd xr))) as [A [B C]].
    split; [|split]; intros r H.
    + apply A in H. destruct H as [H|[xr' [H1 H2]]].
      * simpl in H. apply fold_ins_txo_inv in H. destruct H as [H|H]; auto.
        right. exists xr. split; [simpl; auto | exact H].
      * right. exists xr'. auto.
    + apply B in H. destruct H as [H|[xr' [H1 H2]]].
      * simpl in H. apply fold_ins_txi_inv in H. destruct H as [H|H]; auto. right. exists xr. auto.
      * right. exists xr'. auto.
    + apply C in H. destruct H as [H|[xr' [H1 H2]]].
      * simpl in H. apply upsert_inv in H. destruct H as [H|H]; auto. right. exists xr. auto.
      * right. exists xr'. auto.
Qed.

Lemma save_list_has a L : forall d xr, In xr L ->
  (forall r, In r (new_txo a (mine_of (snd xr)) (fst (fst xr))) ->
     has_txo (d_txo (save_list a L d)) (r_txid r) (r_pos r) = true) /\
  (forall r, In r (snd xr) -> has_txi (d_txi (save_list a L d)) (i_prev r) (i_ppos r) = true) /\
  mem_id (t_id (fst (fst xr))) (ids (d_tx (save_list a L d))) = true.
Proof.
  induction L as [|x0 L IH]; intros d xr H; [contradiction|].
  simpl. destruct H as [H|H].
  - subst x0. destruct (save_list_mono a L (save_one a d (fst xr) (snd xr))) as [A [B C]].
    split; [|split].
    + intros r Hr. eapply has_txo_mono. exact A. simpl. apply fold_ins_txo_has. exact Hr.
    + intros r Hr. eapply has_txi_mono. exact B. simpl. apply fold_ins_txi_has. exact Hr.
    + apply C. simpl. apply upsert_mem_self.
  - apply IH. exact H.
Qed.

(* ---------- consistency of a server state ---------- *)
Lemma nodup_ids_inj S : nodup_ids (ids S) = true ->
  forall t h t' h', In (t, h) S -> In (t', h') S -> t_id t = t_id t' -> (t, h) = (t', h').
Proof.
  induction S as [|[t0 h0] S IH]; simpl; intros N t h t' h' I1 I2 E; [contradiction|].
  apply andb_true_iff in N. destruct N as [N1 N2]. apply negb_true_iff in N1.
  assert (Q: forall u g, In (u, g) S -> t_id u <> t_id t0).
  { intros u g I Q. assert (mem_id (t_id t0) (ids S) = true); [|congruence].
    apply mem_id_In. apply ids_In. exists u, g. auto. }
  destruct I1 as [I1|I1], I2 as [I2|I2].
  - congruence.
  - inversion I1; subst. exfalso. eapply Q; eauto.
  - inversion I2; subst. exfalso. eapply Q; eauto.
  - eapply IH; eauto.
Qed.

Lemma ok_parts S : server_ok_b S = true ->
  nodup_ids (ids S) = true /\ (forall t h, In (t, h) S -> t_id t <> 0%N) /\
  (forall t h inp, In (t, h) S -> In inp (t_ins t) -> fst inp = 0%N \/ In (fst inp) (ids S)).
Proof.
  unfold server_ok_b. intro H. apply andb_true_iff in H. destruct H as [H _].
  apply andb_true_iff in H. destruct H as [H C].
  apply andb_true_iff in H. destruct H as [N Z]. apply negb_true_iff in Z.
  split; [exact N|split].
  - intros t h I E. assert (mem_id 0%N (ids S) = true); [|congruence].
    apply mem_id_In. apply ids_In. exists t, h. auto.
  - intros t h inp I J. unfold closed_b in C. rewrite forallb_forall in C. specialize (C _ I). simpl in C.
    rewrite forallb_forall in C. specialize (C _ J). apply orb_true_iff in C. destruct C as [C|C].
    + left. apply N.eqb_eq. exact C.
    + right. apply mem_id_In. exact C.
Qed.

Lemma grows_sound S S' : grows_b S S' = true -> forall t h, In (t, h) S -> exists h', In (t, h') S'.
Proof.
  unfold grows_b. rewrite forallb_forall. intros G t h I. specialize (G _ I). simpl in G.
  apply existsb_exists in G. destruct G as [[t' h'] [A B]]. simpl in B. apply tx_eqb_eq in B. subst. eauto.
Qed.

Lemma common_prefix_In l : forall r e, In e (common_prefix l r) -> In e l /\ In e r.
Proof.
  induction l as [|x l IH]; destruct r as [|y r]; simpl; intros e H; try contradiction.
  destruct (entry_eqb x y) eqn:E; [|contradiction]. apply entry_eqb_eq in E. subst.
  destruct H as [H|H]; auto. apply IH in H. tauto.
Qed.

Lemma server_hist_In S a e : In e (server_hist S a) <->
  exists t h, In (t, h) S /\ touches S a t = true /\ e = (t_id t, h).
Proof.
  unfold server_hist. rewrite in_map_iff. split.
  - intros [[t h] [A B]]. apply filter_In in B. simpl in *. destruct B. exists t, h. auto.
  - intros [t [h [A [B C]]]]. exists (t, h). split; auto. apply filter_In. auto.
Qed.

Lemma ensure_gap_fields s c :
  server (ensure_gap s c) = server s /\ tx_t (ensure_gap s c) = tx_t s /\ txo_t (ensure_gap s c) = txo_t s /\
  txi_t (ensure_gap s c) = txi_t s /\ hists (ensure_gap s c) = hists s /\ pend (ensure_gap s c) = pend s /\
  gaps (ensure_gap s c) = gaps s.
Proof. unfold ensure_gap. destruct (Nat.eqb _ _); simpl; repeat split; reflexivity. Qed.

Lemma fold_gap_fields L : forall s,
  server (fold_left ensure_gap L s) = server s /\ tx_t (fold_left ensure_gap L s) = tx_t s /\
  txo_t (fold_left ensure_gap L s) = txo_t s /\ txi_t (fold_left ensure_gap L s) = txi_t s /\
  hists (fold_left ensure_gap L s) = hists s /\ pend (fold_left ensure_gap L s) = pend s /\
  gaps (fold_left ensure_gap L s) = gaps s.
Proof.
  induction L as [|c L IH]; intro s; simpl.
  - repeat split; reflexivity.
  - destruct (IH (ensure_gap s c)) as [A [B [C [D [E [G H]]]]]].
    destruct (ensure_gap_fields s c) as [A' [B' [C' [D' [E' [G' H']]]]]].
    repeat split; congruence.
Qed.
Lemma restart_fields s :
  server (restart s) = server s /\ tx_t (restart s) = tx_t s /\ txo_t (restart s) = txo_t s /\
  txi_t (restart s) = txi_t s /\ hists (restart s) = hists s /\ pend (restart s) = [] /\ gaps (restart s) = gaps s.
Proof. unfold restart. destruct (fold_gap_fields (map fst (gaps s)) (set_pend s [])) as [A [B [C [D [E [G H]]]]]]. repeat split; assumption. Qed.

(* ================================================================================================ *)
Section Conv.
Variable F : list stx.                       (* the server state the run ends with *)
Hypothesis okF : server_ok_b F = true.

Definition InF (t : tx) : Prop := exists h, In (t, h) F.
Definition sub (S : list stx) : Prop := forall t h, In (t, h) S -> InF t.

Lemma F_inj t t' : InF t -> InF t' -> t_id t = t_id t' -> t = t'.
Proof.
  intros [h A] [h' B] E. destruct (ok_parts _ okF) as [N _].
  assert (Q := nodup_ids_inj F N _ _ _ _ A B E). congruence.
Qed.
Lemma F_no0 t : InF t -> t_id t <> 0%N.
Proof. intros [h A]. destruct (ok_parts _ okF) as [_ [Z _]]. eapply Z; eauto. Qed.

Definition cov (s : state) (a : addr) (t : tx) : Prop :=
  (forall pos o, nth_error (t_outs t) pos = Some o -> pays a o = true -> has_txo (txo_t s) (t_id t) pos = true) /\
  (forall k p i t' o, nth_error (t_ins t) k = Some (p, i) -> InF t' -> t_id t' = p ->
     nth_error (t_outs t') i = Some o -> pays a o = true -> has_txi (txi_t s) p i = true) /\
  mem_id (t_id t) (ids (tx_t s)) = true.

Definition covered (s : state) (a : addr) (e : entry) : Prop := exists t, InF t /\ t_id t = fst e /\ cov s a t.

Definition closedH (a : addr) (H : hist) (t : tx) : Prop :=
  forall k p i t' o, nth_error (t_ins t) k = Some (p, i) -> InF t' -> t_id t' = p ->
    nth_error (t_outs t') i = Some o -> pays a o = true -> mem_id p (map fst H) = true.

Definition pend_ok (s : state) (a : addr) (st : stage) : Prop :=
  match st with
  | Fetched H B =>
      (forall x, In x B -> InF (fst x)) /\
      (forall e, In e H -> (exists t h, In (t, h) B /\ t_id t = fst e /\ closedH a H t) \/ covered s a e)
  | Saved H => forall e, In e H -> covered s a e
  | HistSet => True
  end.

Definition txo_sound (r : txo_row) : Prop :=
  exists t, InF t /\ r_txid r = t_id t /\ nth_error (t_outs t) (r_pos r) = Some (r_out r) /\
            r_type r = txo_type t (r_pos r) (r_out r).
Definition txi_sound (i : txi_row) : Prop :=
  exists t t' o, InF t /\ i_txid i = t_id t /\ nth_error (t_ins t) (i_ipos i) = Some (i_prev i, i_ppos i) /\
                 InF t' /\ t_id t' = i_prev i /\ nth_error (t_outs t') (i_ppos i) = Some o /\ pays (i_addr i) o = true.

Record Inv (s : state) : Prop := mkInv {
  inv_sub : sub (server s);
  inv_ok : server_ok_b (server s) = true;
  inv_tx : forall x, In x (tx_t s) -> InF (fst x);
  inv_txo : forall r, In r (txo_t s) -> txo_sound r;
  inv_txi : forall i, In i (txi_t s) -> txi_sound i;
  inv_hist : forall a e, In e (get_hist s a) -> covered s a e;
  inv_pend : forall a st, aget (pend s) a = Some st -> pend_ok s a st
}.

Definition tables_le (s s' : state) : Prop :=
  (forall r, In r (txo_t s) -> In r (txo_t s')) /\ (forall r, In r (txi_t s) -> In r (txi_t s')) /\
  (forall p, mem_id p (ids (tx_t s)) = true -> mem_id p (ids (tx_t s')) = true).

Lemma tables_le_refl s s' : txo_t s' = txo_t s -> txi_t s' = txi_t s -> tx_t s' = tx_t s -> tables_le s s'.
Proof. intros A B C. unfold tables_le. rewrite A, B, C. auto. Qed.

Lemma cov_mono s s' a t : tables_le s s' -> cov s a t -> cov s' a t.
Proof.
  intros [A [B C]] [X [Y Z]]. split; [|split].
  - intros. eapply has_txo_mono. exact A. eauto.
  - intros. eapply has_txi_mono. exact B. eauto.
  - auto.
Qed.
Lemma covered_mono s s' a e : tables_le s s' -> covered s a e -> covered s' a e.
Proof. intros L [t [A [B C]]]. exists t. split; [|split]; auto. eapply cov_mono; eauto. Qed.
Lemma pend_ok_mono s s' a st : tables_le s s' -> pend_ok s a st -> pend_ok s' a st.
Proof.
  intros L. destruct st as [H B|H|]; simpl; auto.
  - intros [X Y]. split; auto. intros e I. destruct (Y e I) as [Q|Q]; auto. right. eapply covered_mono; eauto.
  - intros Y e I. eapply covered_mono; eauto.
Qed.

(* --- resolution of an input --- *)
Lemma resolve_sound s R B inp o :
  (forall x, In x B -> InF (fst x)) -> Inv s ->
  resolve R B (txo_t s) (tx_t s) inp = Some o ->
  exists t', InF t' /\ t_id t' = fst inp /\ nth_error (t_outs t') (snd inp) = Some o.
Proof.
  intros HB I. unfold resolve. destruct (mem_id (fst inp) R); [|discriminate].
  destruct (find_tx B (fst inp)) as [t|] eqn:E1.
  - intro H. apply find_tx_some in E1. destruct E1 as [E1 [h E2]]. exists t. split; [|split]; auto.
    apply (HB _ E2).
  - destruct (find_txo (txo_t s) (fst inp) (snd inp)) as [r|] eqn:E2.
    + intro H. inversion H; subst. unfold find_txo in E2. apply find_some in E2. destruct E2 as [E2 E3].
      apply andb_true_iff in E3. destruct E3 as [E3 E4]. apply N.eqb_eq in E3. apply Nat.eqb_eq in E4.
      destruct (inv_txo s I r E2) as [t [A [B' [C D]]]]. exists t. split; [|split]; auto; congruence.
    + destruct (find_tx (tx_t s) (fst inp)) as [t|] eqn:E3; [|discriminate].
      intro H. apply find_tx_some in E3. destruct E3 as [E3 [h E4]]. exists t. split; [|split]; auto.
      apply (inv_tx s I _ E4).
Qed.

Lemma resolve_complete s a H B p i t' o :
  Inv s -> pend_ok s a (Fetched H B) ->
  mem_id p (map fst H) = true -> InF t' -> t_id t' = p -> nth_error (t_outs t') i = Some o ->
  resolve (map fst H) B (txo_t s) (tx_t s) (p, i) = Some o.
Proof.
  intros I [HB HH] M T' E O. unfold resolve. simpl. rewrite M.
  destruct (find_tx B p) as [t|] eqn:E1.
  - apply find_tx_some in E1. destruct E1 as [E1 [h E2]].
    assert (t = t'). { apply F_inj; auto. apply (HB _ E2). congruence. } subst. exact O.
  - apply mem_id_In in M. apply in_map_iff in M. destruct M as [e [M1 M2]].
    destruct (HH e M2) as [[t [h [Q1 [Q2 _]]]]|[t [Q1 [Q2 [_ [_ Q3]]]]]].
    + exfalso. apply (find_tx_none _ _ E1 _ _ Q1). congruence.
    + assert (t = t'). { apply F_inj; auto. congruence. } subst t.
      destruct (find_txo (txo_t s) p i) as [r|] eqn:E2.
      * unfold find_txo in E2. apply find_some in E2. destruct E2 as [E2 E3].
        apply andb_true_iff in E3. destruct E3 as [E3 E4]. apply N.eqb_eq in E3. apply Nat.eqb_eq in E4.
        destruct (inv_txo s I r E2) as [t [A [B' [C D]]]].
        assert (t = t'). { apply F_inj; auto. congruence. } subst t. congruence.
      * apply mem_id_In in Q3. apply ids_In in Q3. destruct Q3 as [t [h [Q3 Q4]]].
        destruct (find_tx_exists _ _ _ Q3) as [t5 Q5]. rewrite Q4, E in Q5. rewrite Q5.
        apply find_tx_some in Q5. destruct Q5 as [Q5 [h5 Q6]].
        assert (t5 = t'). { apply F_inj; auto. apply (inv_tx s I _ Q6). congruence. } subst. exact O.
Qed.

Lemma touches_pays S a t i o : nth_error (t_outs t) i = Some o -> pays a o = true -> touches S a t = true.
Proof.
  intros N P. unfold touches. apply orb_true_iff. left. apply existsb_exists. exists o. split; auto.
  eapply nth_error_In; eauto.
Qed.

Lemma closedH_server s a t h : Inv s -> In (t, h) (server s) -> closedH a (server_hist (server s) a) t.
Proof.
  intros I T k p i t' o N T' E O P.
  destruct (ok_parts _ (inv_ok s I)) as [_ [_ C]].
  assert (J: In (p, i) (t_ins t)) by (eapply nth_error_In; eauto).
  destruct (C _ _ _ T J) as [Z|Z]; simpl in Z.
  - exfalso. apply (F_no0 t' T'). congruence.
  - apply ids_In in Z. destruct Z as [t3 [h3 [Z1 Z2]]].
    assert (t3 = t'). { apply F_inj; auto. apply (inv_sub s I _ _ Z1). congruence. } subst t3.
    apply mem_id_In. apply in_map_iff. exists (p, h3). split; auto.
    apply server_hist_In. exists t', h3. split; [|split]; auto.
    + eapply touches_pays; eauto.
    + congruence.
Qed.

Lemma inv_set_pend_other s p a : Inv s ->
  (forall b st, aget p b = Some st -> b <> a -> aget (pend s) b = Some st) ->
  (forall st, aget p a = Some st -> pend_ok s a st) ->
  Inv (set_pend s p).
Proof.
  intros I O A. constructor.
  - apply I.
  - apply I.
  - apply I.
  - apply I.
  - apply I.
  - intros b e J. eapply covered_mono; [|apply (inv_hist s I b e J)]. apply tables_le_refl; reflexivity.
  - simpl. intros b st G. eapply pend_ok_mono with (s := s). apply tables_le_refl; reflexivity.
    destruct (addr_eqb b a) eqn:E.
    + apply addr_eqb_eq in E. subst. auto.
    + apply addr_eqb_neq in E. apply (inv_pend s I). auto.
Qed.

Lemma inv_begin s a st : Inv s -> Inv (begin s a st).
Proof.
  intro I. unfold begin.
  destruct (hist_eqb (get_hist s a) st); auto.
  match goal with |- Inv (match ?x with _ => _ end) => destruct x as [|e0 need] eqn:En end; auto.
  apply inv_set_pend_other with (a := a); auto.
  - intros b st0 G N. rewrite aget_aset_other in G; auto.
  - intros st0 G. rewrite aget_aset_same in G. inversion G; subst; clear G. simpl. split.
    + intros x J. unfold fetch_batch in J. apply in_flat_map in J. destruct J as [e [J1 J2]].
      destruct (find_tx (server s) (fst e)) as [t|] eqn:E; [|contradiction].
      destruct J2 as [J2|[]]. subst x. simpl. apply find_tx_some in E. destruct E as [_ [h E]].
      apply (inv_sub s I _ _ E).
    + intros e J.
      destruct (mem_entry e (common_prefix (get_hist s a) (server_hist (server s) a))) eqn:M.
      * right. apply mem_entry_In in M. apply common_prefix_In in M. destruct M as [M _].
        apply (inv_hist s I a e M).
      * left. assert (J' := J). apply server_hist_In in J'. destruct J' as [t0 [h0 [T0 [_ E0]]]].
        destruct (find_tx_exists _ _ _ T0) as [t1 Q]. assert (Q' := Q).
        apply find_tx_some in Q'. destruct Q' as [Q1 [h1 Q2]].
        exists t1, (snd e). split; [|split].
        -- unfold fetch_batch. apply in_flat_map. exists e. split.
           ++ apply filter_In. split; auto. rewrite M. reflexivity.
           ++ subst e. simpl. rewrite Q. simpl. auto.
        -- subst e. simpl. exact Q1.
        -- eapply closedH_server; eauto.
Qed.

Lemma new_txo_In a m t r : In r (new_txo a m t) ->
  r_txid r = t_id t /\ nth_error (t_outs t) (r_pos r) = Some (r_out r) /\ r_type r = txo_type t (r_pos r) (r_out r).
Proof.
  unfold new_txo. intro H. apply in_flat_map in H. destruct H as [[k o] [H1 H2]]. simpl in H2.
  destruct (store_out a m o); [|contradiction]. destruct H2 as [H2|[]]. subst r. simpl.
  apply enum_In in H1. auto.
Qed.
Lemma new_txo_complete a m t pos o : nth_error (t_outs t) pos = Some o -> pays a o = true ->
  In (mkTxo (t_id t) pos o (txo_type t pos o)) (new_txo a m t).
Proof.
  intros N P. unfold new_txo. apply in_flat_map. exists (pos, o). split. apply enum_In; auto.
  simpl. unfold store_out. unfold pays in P. destruct (o_kind o); try discriminate.
  rewrite P. simpl. auto.
Qed.
Lemma new_txi_In a R B txo txt t r : In r (new_txi a R B txo txt t) ->
  exists o, i_txid r = t_id t /\ nth_error (t_ins t) (i_ipos r) = Some (i_prev r, i_ppos r) /\
            resolve R B txo txt (i_prev r, i_ppos r) = Some o /\ pays a o = true /\ i_addr r = a.
Proof.
  unfold new_txi. intro H. apply in_flat_map in H. destruct H as [[k [p i]] [H1 H2]]. simpl in H2.
  destruct (resolve R B txo txt (p, i)) as [o|] eqn:E; [|contradiction].
  destruct (pays a o) eqn:P; [|contradiction]. destruct H2 as [H2|[]]. subst r. simpl.
  apply enum_In in H1. exists o. auto.
Qed.
Lemma new_txi_complete a R B txo txt t k p i o : nth_error (t_ins t) k = Some (p, i) ->
  resolve R B txo txt (p, i) = Some o -> pays a o = true ->
  In (mkTxi (t_id t) k p i a) (new_txi a R B txo txt t).
Proof.
  intros N E P. unfold new_txi. apply in_flat_map. exists (k, (p, i)). split. apply enum_In; auto.
  simpl. rewrite E, P. simpl. auto.
Qed.

Lemma save_tables_le s a H B : tables_le s (save s a H B).
Proof.
  unfold save, save_batch. simpl.
  match goal with |- context [fold_left ?f ?L ?d] => change (fold_left f L d) with (save_list a L d);
    destruct (save_list_mono a L d) as [X [Y Z]] end.
  split; [|split]; simpl; auto.
Qed.

Lemma inv_save s a H B : Inv s -> aget (pend s) a = Some (Fetched H B) -> Inv (save s a H B).
Proof.
  intros I G. assert (PO := inv_pend s I a _ G). assert (PO' := PO). destruct PO' as [HB HH].
  assert (LE := save_tables_le s a H B).
  set (d := mkDb (tx_t s) (txo_t s) (txi_t s)).
  set (L := map (fun x : stx => (x, new_txi a (map fst H) B (d_txo d) (d_tx d) (fst x))) B).
  assert (SV: save s a H B = mkState (server s) (d_tx (save_list a L d)) (d_txo (save_list a L d))
               (d_txi (save_list a L d)) (aset (hists s) a []) (aset (pend s) a (Saved H)) (gaps s) (kcs s)) by reflexivity.
  destruct (save_list_inv a L d) as [V1 [V2 V3]].
  assert (InL: forall xr, In xr L -> In (fst xr) B /\ snd xr = new_txi a (map fst H) B (txo_t s) (tx_t s) (fst (fst xr))).
  { intros xr J. unfold L in J. apply in_map_iff in J. destruct J as [x [J1 J2]]. subst xr. simpl. auto. }
  constructor.
  - rewrite SV. simpl. apply I.
  - rewrite SV. simpl. apply I.
  - rewrite SV. simpl. intros x J. apply V3 in J. destruct J as [J|[xr [J1 J2]]].
    + apply (inv_tx s I _ J).
    + subst x. apply HB. apply InL. auto.
  - rewrite SV. simpl. intros r J. apply V1 in J. destruct J as [J|[xr [J1 J2]]].
    + apply (inv_txo s I _ J).
    + apply new_txo_In in J2. destruct J2 as [A [B' C]]. exists (fst (fst xr)). split; [|split; [|split]]; auto.
      apply HB. apply InL. auto.
  - rewrite SV. simpl. intros r J. apply V2 in J. destruct J as [J|[xr [J1 J2]]].
    + apply (inv_txi s I _ J).
    + destruct (InL _ J1) as [Q1 Q2]. rewrite Q2 in J2. apply new_txi_In in J2.
      destruct J2 as [o [A [B' [C [D E]]]]].
      destruct (resolve_sound s _ _ _ _ HB I C) as [t' [T1 [T2 T3]]]. simpl in T2, T3.
      exists (fst (fst xr)), t', o. rewrite E.
      split; [apply HB; exact Q1|]. split; [exact A|]. split; [exact B'|]. split; [exact T1|].
      split; [exact T2|]. split; [exact T3|exact D].
  - intros b e J. destruct (addr_eqb a b) eqn:E.
    + apply addr_eqb_eq in E. subst b. rewrite SV in J. unfold get_hist in J. simpl in J.
      rewrite addr_eqb_refl in J. contradiction.
    + apply addr_eqb_neq in E. eapply covered_mono. exact LE. apply (inv_hist s I b e).
      rewrite SV in J. unfold get_hist in *. simpl in J. rewrite E' in J || idtac.
      assert (Q: aget (aset (hists s) a []) b = aget (hists s) b) by (apply aget_aset_other; auto).
      unfold aset in Q. simpl in Q. simpl in J. rewrite Q in J. exact J.
  - intros b st0 G0. destruct (addr_eqb a b) eqn:E.
    + apply addr_eqb_eq in E. subst b. rewrite SV in G0. simpl in G0. rewrite addr_eqb_refl in G0.
      inversion G0; subst st0; clear G0. simpl. intros e J.
      destruct (HH e J) as [[t [h [Q1 [Q2 Q3]]]]|Q].
      * exists t. split; [apply (HB _ Q1)|split; [exact Q2|]].
        set (xr := ((t, h), new_txi a (map fst H) B (d_txo d) (d_tx d) t)).
        assert (JL: In xr L). { unfold L. apply in_map_iff. exists (t, h). split; auto. }
        destruct (save_list_has a L d xr JL) as [W1 [W2 W3]].
        rewrite SV. split; [|split]; simpl.
        -- intros pos o N P. apply (W1 _ (new_txo_complete a _ t pos o N P)).
        -- intros k p i t' o N T' E' O P.
           assert (M := Q3 k p i t' o N T' E' O P).
           assert (R := resolve_complete s a H B p i t' o I PO M T' E' O).
           apply (W2 _ (new_txi_complete a _ _ _ _ t k p i o N R P)).
        -- exact W3.
      * eapply covered_mono; eauto.
    + apply addr_eqb_neq in E. eapply pend_ok_mono. exact LE. apply (inv_pend s I).
      rewrite SV in G0. simpl in G0.
      assert (Q: aget (aset (pend s) a (Saved H)) b = aget (pend s) b) by (apply aget_aset_other; auto).
      unfold aset in Q. simpl in Q. rewrite Q in G0. exact G0.
Qed.

Lemma inv_ext s s' : Inv s -> server s' = server s -> tx_t s' = tx_t s -> txo_t s' = txo_t s ->
  txi_t s' = txi_t s -> hists s' = hists s -> pend s' = pend s -> Inv s'.
Proof.
  intros I A B C D E G.
  assert (LE: tables_le s s') by (apply tables_le_refl; auto).
  constructor.
  - rewrite A. apply I.
  - rewrite A. apply I.
  - rewrite B. apply I.
  - rewrite C. apply I.
  - rewrite D. apply I.
  - intros b e J. eapply covered_mono. exact LE. apply (inv_hist s I). unfold get_hist in *. rewrite E in J. exact J.
  - intros b st J. eapply pend_ok_mono. exact LE. apply (inv_pend s I). rewrite G in J. exact J.
Qed.

Lemma inv_ensure_gap s c : Inv s -> Inv (ensure_gap s c).
Proof.
  intro I. destruct (ensure_gap_fields s c) as [A [B [C [D [E [G _]]]]]]. eapply inv_ext; eauto.
Qed.

Lemma aget_aset_if {V} (l : list (addr * V)) a b v :
  aget (aset l a v) b = if addr_eqb a b then Some v else aget l b.
Proof.
  destruct (addr_eqb a b) eqn:E.
  - apply addr_eqb_eq in E. subst. apply aget_aset_same.
  - apply aget_aset_other. apply addr_eqb_neq. exact E.
Qed.

Lemma inv_sethist s a H : Inv s -> aget (pend s) a = Some (Saved H) -> Inv (set_history s a H).
Proof.
  intros I G. assert (PO := inv_pend s I a _ G). simpl in PO.
  assert (LE: tables_le s (set_history s a H)) by (apply tables_le_refl; reflexivity).
  constructor; try apply I.
  - intros b e J. eapply covered_mono. exact LE. unfold get_hist, set_history in J. cbn [hists] in J.
    rewrite aget_aset_if in J. destruct (addr_eqb a b) eqn:E.
    + apply addr_eqb_eq in E. subst b. apply PO. exact J.
    + apply (inv_hist s I b e). exact J.
  - intros b st J. unfold set_history in J. cbn [pend] in J. rewrite aget_aset_if in J.
    destruct (addr_eqb a b) eqn:E.
    + inversion J; subst. exact Logic.I.
    + eapply pend_ok_mono. exact LE. apply (inv_pend s I). exact J.
Qed.

Lemma inv_fold_gap L : forall s, Inv s -> Inv (fold_left ensure_gap L s).
Proof. induction L as [|c L IH]; intros s I; simpl; auto. apply IH. apply inv_ensure_gap. exact I. Qed.
Lemma inv_set_pend_nil s : Inv s -> Inv (set_pend s []).
Proof.
  intro I. constructor.
  - apply I.
  - apply I.
  - apply I.
  - apply I.
  - apply I.
  - intros b e J. eapply covered_mono; [|apply (inv_hist s I b e J)]. apply tables_le_refl; reflexivity.
  - simpl. intros b st J. discriminate.
Qed.

Lemma inv_step s o s' : step s o = Some s' -> sub (server s') -> Inv s -> Inv s'.
Proof.
  intros ST SB I. destruct o as [S'|a st|a|a|a|c|]; simpl in ST.
  - destruct (server_ok_b S' && grows_b (server s) S') eqn:E; [|discriminate]. inversion ST; subst; clear ST.
    apply andb_true_iff in E. destruct E as [E1 E2]. simpl in SB.
    constructor.
    + exact SB.
    + exact E1.
    + apply I.
    + apply I.
    + apply I.
    + intros b e J. eapply covered_mono; [|apply (inv_hist s I b e J)]. apply tables_le_refl; reflexivity.
    + intros b st J. eapply pend_ok_mono; [|apply (inv_pend s I b st J)]. apply tables_le_refl; reflexivity.
  - destruct (known s a); [|discriminate]. destruct (aget (pend s) a); [discriminate|].
    inversion ST; subst. apply inv_begin. exact I.
  - destruct (aget (pend s) a) as [[H B|H|]|] eqn:G; try discriminate. inversion ST; subst.
    apply inv_save; auto.
  - destruct (aget (pend s) a) as [[H B|H|]|] eqn:G; try discriminate. inversion ST; subst.
    apply inv_sethist; auto.
  - destruct (aget (pend s) a) as [[H B|H|]|] eqn:G; try discriminate.
    destruct (chain_of a) as [c|]; [|discriminate]. inversion ST; subst.
    apply inv_ensure_gap. apply inv_set_pend_other with (a := a); auto.
    + intros b st J N. rewrite aget_adel_other in J; auto.
    + intros st J. rewrite aget_adel_same in J. discriminate.
  - inversion ST; subst. apply inv_ensure_gap. exact I.
  - inversion ST; subst. unfold restart. apply inv_fold_gap. apply inv_set_pend_nil. exact I.
Qed.

Lemma inv_init g : Inv (init g).
Proof.
  constructor; simpl.
  - intros t h [].
  - reflexivity.
  - intros x [].
  - intros r [].
  - intros i [].
  - intros a e [].
  - intros a st J. discriminate.
Qed.

End Conv.

(* ================================================================================================ *)
(* runs *)
Lemma begin_server s a st : server (begin s a st) = server s.
Proof.
  unfold begin. destruct (hist_eqb _ _); auto.
  match goal with |- server (match ?x with _ => _ end) = _ => destruct x end; reflexivity.
Qed.

Lemma step_server s o s' : step s o = Some s' ->
  server s' = server s \/
  (exists S', o = Server S' /\ server s' = S' /\ server_ok_b S' = true /\ grows_b (server s) S' = true).
Proof.
  intro ST. destruct o as [S'|a st|a|a|a|c|]; simpl in ST.
  - destruct (server_ok_b S' && grows_b (server s) S') eqn:E; [|discriminate]. inversion ST; subst.
    apply andb_true_iff in E. destruct E. right. exists S'. simpl. auto.
  - destruct (known s a); [|discriminate]. destruct (aget (pend s) a); [discriminate|].
    inversion ST; subst. left. apply begin_server.
  - destruct (aget (pend s) a) as [[H B|H|]|]; try discriminate. inversion ST; subst. left. reflexivity.
  - destruct (aget (pend s) a) as [[H B|H|]|]; try discriminate. inversion ST; subst. left. reflexivity.
  - destruct (aget (pend s) a) as [[H B|H|]|]; try discriminate.
    destruct (chain_of a); [|discriminate]. inversion ST; subst. left.
    destruct (ensure_gap_fields (set_pend s (adel (pend s) a)) n) as [A _]. rewrite A. reflexivity.
  - inversion ST; subst. left. destruct (ensure_gap_fields s c) as [A _]. exact A.
  - inversion ST; subst. left. destruct (restart_fields s) as [A _]. exact A.
Qed.

Lemma run_grows ops : forall s s', run s ops = Some s' ->
  (server_ok_b (server s) = true -> server_ok_b (server s') = true) /\
  (forall t h, In (t, h) (server s) -> exists h', In (t, h') (server s')).
Proof.
  induction ops as [|o ops IH]; simpl; intros s s' R.
  - inversion R; subst. split; eauto.
  - destruct (step s o) as [s1|] eqn:ST; [|discriminate].
    destruct (IH _ _ R) as [A B]. destruct (step_server _ _ _ ST) as [E|[S' [_ [E1 [E2 E3]]]]].
    + rewrite E in *. split; auto.
    + split.
      * intros _. apply A. rewrite E1. exact E2.
      * intros t h J. destruct (grows_sound _ _ E3 _ _ J) as [h1 J1]. rewrite <- E1 in J1. eapply B; eauto.
Qed.

Lemma inv_run ops : forall s s', run s ops = Some s' -> server_ok_b (server s') = true ->
  Inv (server s') s -> Inv (server s') s'.
Proof.
  induction ops as [|o ops IH]; simpl; intros s s' R OK I.
  - inversion R; subst. exact I.
  - destruct (step s o) as [s1|] eqn:ST; [|discriminate].
    apply (IH s1 s' R OK). apply (inv_step (server s') OK s o s1 ST); auto.
    intros t h J. destruct (run_grows _ _ _ R) as [_ B]. destruct (B _ _ J) as [h' J']. exists h'. exact J'.
Qed.

Lemma reach_inv g ops s : run (init g) ops = Some s -> server_ok_b (server s) = true /\ Inv (server s) s.
Proof.
  intro R. destruct (run_grows _ _ _ R) as [A _].
  assert (OK: server_ok_b (server s) = true) by (apply A; reflexivity).
  split; auto. eapply inv_run; eauto. apply inv_init.
Qed.

Definition quiescent (s : state) : Prop := forall a, aget (pend s) a = None.
Definition in_sync (s : state) : Prop :=
  forall a, known s a = true -> incl (server_hist (server s) a) (get_hist s a).

Lemma pays_PKH a o : o_kind o = PKH a -> pays a o = true.
Proof. unfold pays. intro E. rewrite E. apply addr_eqb_refl. Qed.
Lemma pays_inv a o : pays a o = true -> o_kind o = PKH a.
Proof. unfold pays. destruct (o_kind o); try discriminate. intro E. apply addr_eqb_eq in E. congruence. Qed.

Section Converged.
Variables (g : list (N * nat)) (ops : list op) (s : state).
Hypothesis R : run (init g) ops = Some s.
Hypothesis SY : in_sync s.

Let okF := proj1 (reach_inv g ops s R).
Let I := proj2 (reach_inv g ops s R).

Lemma self_sub t h : In (t, h) (server s) -> InF (server s) t.
Proof. intro J. exists h. exact J. Qed.

Lemma conv_cov a t h : known s a = true -> In (t, h) (server s) -> touches (server s) a t = true ->
  cov (server s) s a t.
Proof.
  intros K T TO.
  assert (J: In (t_id t, h) (get_hist s a)).
  { apply SY; auto. apply server_hist_In. exists t, h. auto. }
  destruct (inv_hist _ _ I a _ J) as [t2 [A [B C]]]. simpl in B.
  assert (t2 = t). { apply (F_inj _ okF); auto. eapply self_sub; eauto. } subst. exact C.
Qed.

(* every output paying a generated address is recorded *)
Lemma conv_txo t h pos o a : In (t, h) (server s) -> nth_error (t_outs t) pos = Some o -> o_kind o = PKH a ->
  known s a = true -> has_txo (txo_t s) (t_id t) pos = true.
Proof.
  intros T N P K. apply pays_PKH in P.
  destruct (conv_cov a t h K T (touches_pays _ _ _ _ _ N P)) as [A _]. eapply A; eauto.
Qed.

(* every spend of such an output by a transaction the server knows is recorded *)
Lemma conv_txi t h k p i t' h' o a : In (t, h) (server s) -> nth_error (t_ins t) k = Some (p, i) ->
  In (t', h') (server s) -> t_id t' = p -> nth_error (t_outs t') i = Some o -> o_kind o = PKH a ->
  known s a = true -> has_txi (txi_t s) p i = true.
Proof.
  intros T N T' E O P K. apply pays_PKH in P.
  assert (TO: touches (server s) a t = true).
  { unfold touches. apply orb_true_iff. right. apply existsb_exists. exists (p, i). split.
    eapply nth_error_In; eauto. unfold spends_from, out_at. simpl.
    destruct (find_tx_exists _ _ _ T') as [t2 Q]. rewrite E in Q. rewrite Q.
    apply find_tx_some in Q. destruct Q as [Q1 [h2 Q2]].
    assert (t2 = t'). { apply (F_inj _ okF). eapply self_sub; eauto. eapply self_sub; eauto. congruence. }
    subst. rewrite O. exact P. }
  destruct (conv_cov a t h K T TO) as [_ [B _]]. eapply B; eauto. eapply self_sub; eauto.
Qed.

Lemma row_mine_inv cs r : row_mine s cs r = true ->
  exists a, o_kind (r_out r) = PKH a /\ known s a = true /\ in_chains cs a = true.
Proof.
  unfold row_mine. destruct (o_kind (r_out r)) as [a| |]; try discriminate. intro H.
  apply andb_true_iff in H. destruct H. exists a. auto.
Qed.

Lemma all_outputs_In S r : In r (all_outputs S) <->
  exists t h, In (t, h) S /\ nth_error (t_outs t) (r_pos r) = Some (r_out r) /\ r_txid r = t_id t /\
              r_type r = txo_type t (r_pos r) (r_out r).
Proof.
  unfold all_outputs. rewrite in_flat_map. split.
  - intros [[t h] [A B]]. simpl in B. apply in_map_iff in B. destruct B as [[k o] [B1 B2]]. subst r. simpl.
    apply enum_In in B2. exists t, h. auto.
  - intros [t [h [A [B [C D]]]]]. exists (t, h). split; auto. simpl. apply in_map_iff.
    exists (r_pos r, r_out r). split. destruct r; simpl in *. subst. reflexivity. apply enum_In. exact B.
Qed.

Lemma spent_in_true S p i : spent_in S p i = true <->
  exists t h k, In (t, h) S /\ nth_error (t_ins t) k = Some (p, i).
Proof.
  unfold spent_in. rewrite existsb_exists. split.
  - intros [[t h] [A B]]. simpl in B. apply existsb_exists in B. destruct B as [[p' i'] [B1 B2]]. simpl in B2.
    apply andb_true_iff in B2. destruct B2 as [B2 B3]. apply N.eqb_eq in B2. apply Nat.eqb_eq in B3. subst.
    apply In_nth_error in B1. destruct B1 as [k B1]. exists t, h, k. auto.
  - intros [t [h [k [A B]]]]. exists (t, h). split; auto. simpl. apply existsb_exists. exists (p, i). split.
    eapply nth_error_In; eauto. simpl. rewrite N.eqb_refl, Nat.eqb_refl. reflexivity.
Qed.

(* the unspent set the wallet reports is exactly the specification set *)
Lemma conv_utxos cs r : In r (utxos s cs) <-> In r (spec_utxos (server s) s cs).
Proof.
  unfold utxos, spec_utxos. rewrite !filter_In. split.
  - intros [A B]. apply andb_true_iff in B. destruct B as [M U]. apply negb_true_iff in U.
    destruct (inv_txo _ _ I r A) as [t [[h T] [E [O TY]]]].
    split.
    + apply all_outputs_In. exists t, h. auto.
    + rewrite M. simpl. apply negb_true_iff. destruct (spent_in (server s) (r_txid r) (r_pos r)) eqn:SP; auto.
      exfalso. apply spent_in_true in SP. destruct SP as [t2 [h2 [k [T2 N2]]]].
      destruct (row_mine_inv _ _ M) as [a [P [K _]]].
      assert (has_txi (txi_t s) (r_txid r) (r_pos r) = true); [|congruence].
      apply (conv_txi t2 h2 k (r_txid r) (r_pos r) t h (r_out r) a T2 N2 T (eq_sym E) O P K).
  - intros [A B]. apply andb_true_iff in B. destruct B as [M U]. apply negb_true_iff in U.
    apply all_outputs_In in A. destruct A as [t [h [T [O [E TY]]]]].
    destruct (row_mine_inv _ _ M) as [a [P [K _]]].
    assert (HT := conv_txo t h _ _ a T O P K). apply has_txo_In in HT. destruct HT as [r' [R1 [R2 R3]]].
    destruct (inv_txo _ _ I r' R1) as [t2 [T2 [E2 [O2 TY2]]]].
    assert (t2 = t). { apply (F_inj _ okF); auto. eapply self_sub; eauto. congruence. } subst t2.
    assert (r' = r).
    { destruct r, r'; simpl in *. subst. rewrite O in O2. inversion O2; subst. reflexivity. }
    subst r'. split; auto. rewrite M. simpl. apply negb_true_iff.
    destruct (has_txi (txi_t s) (r_txid r) (r_pos r)) eqn:HI; auto. exfalso.
    apply has_txi_In in HI. destruct HI as [i [I1 [I2 I3]]].
    destruct (inv_txi _ _ I i I1) as [t3 [t4 [o4 [[h3 T3] [_ [N3 _]]]]]].
    assert (spent_in (server s) (r_txid r) (r_pos r) = true); [|congruence].
    apply spent_in_true. exists t3, h3, (i_ipos i). split; auto. rewrite N3. congruence.
Qed.

End Converged.

(* ================================================================================================ *)
(* rows only grow *)
Lemma known_ensure_gap s c a : known s a = true -> known (ensure_gap s c) a = true.
Proof.
  unfold ensure_gap. destruct (Nat.eqb _ _); auto. destruct a as [c' n|k]; auto.
  unfold known. cbn [kcs]. intro H. apply Nat.ltb_lt in H. apply Nat.ltb_lt.
  destruct (N.eq_dec c c') as [E|E].
  - subst. rewrite nget_nset_same. lia.
  - rewrite nget_nset_other; auto.
Qed.

Lemma known_fold_gap L : forall s a, known s a = true -> known (fold_left ensure_gap L s) a = true.
Proof. induction L as [|c L IH]; intros s a K; simpl; auto. apply IH. apply known_ensure_gap. exact K. Qed.

Definition state_le (s s' : state) : Prop :=
  tables_le s s' /\ (forall a, known s a = true -> known s' a = true).

Lemma begin_fields s a st :
  tx_t (begin s a st) = tx_t s /\ txo_t (begin s a st) = txo_t s /\ txi_t (begin s a st) = txi_t s /\
  hists (begin s a st) = hists s /\ kcs (begin s a st) = kcs s /\ gaps (begin s a st) = gaps s.
Proof.
  unfold begin. destruct (hist_eqb _ _); auto 10.
  match goal with |- context [match ?x with _ => _ end] => destruct x end; simpl; auto 10.
Qed.

Lemma step_le s o s' : step s o = Some s' -> state_le s s'.
Proof.
  intro ST. destruct o as [S'|a st|a|a|a|c|]; simpl in ST.
  - destruct (server_ok_b S' && grows_b (server s) S'); [|discriminate]. inversion ST; subst.
    split; auto. apply tables_le_refl; reflexivity.
  - destruct (known s a); [|discriminate]. destruct (aget (pend s) a); [discriminate|]. inversion ST; subst.
    destruct (begin_fields s a st) as [A [B [C [D [E G]]]]]. split.
    + apply tables_le_refl; auto.
    + intros b. unfold known. rewrite E. auto.
  - destruct (aget (pend s) a) as [[H B|H|]|]; try discriminate. inversion ST; subst. split; auto.
    apply save_tables_le.
  - destruct (aget (pend s) a) as [[H B|H|]|]; try discriminate. inversion ST; subst. split; auto.
    apply tables_le_refl; reflexivity.
  - destruct (aget (pend s) a) as [[H B|H|]|]; try discriminate.
    destruct (chain_of a); [|discriminate]. inversion ST; subst.
    destruct (ensure_gap_fields (set_pend s (adel (pend s) a)) n) as [_ [B [C [D _]]]]. split.
    + apply tables_le_refl; auto.
    + intros b K. apply known_ensure_gap. exact K.
  - inversion ST; subst. destruct (ensure_gap_fields s c) as [_ [B [C [D _]]]]. split.
    + apply tables_le_refl; auto.
    + intros b K. apply known_ensure_gap. exact K.
  - inversion ST; subst. destruct (restart_fields s) as [_ [B [C [D _]]]]. split.
    + apply tables_le_refl; auto.
    + intros b K. unfold restart. apply known_fold_gap. exact K.
Qed.

Lemma state_le_trans s1 s2 s3 : state_le s1 s2 -> state_le s2 s3 -> state_le s1 s3.
Proof.
  intros [[A [B C]] D] [[A' [B' C']] D']. split; [split; [|split]|]; auto.
Qed.

Lemma run_le ops : forall s s', run s ops = Some s' -> state_le s s'.
Proof.
  induction ops as [|o ops IH]; simpl; intros s s' R.
  - inversion R; subst. split; auto. apply tables_le_refl; reflexivity.
  - destruct (step s o) as [s1|] eqn:ST; [|discriminate].
    eapply state_le_trans. eapply step_le; eauto. apply IH. exact R.
Qed.

(* ================================================================================================ *)
(* the address gap *)
Lemma lead_le u k f : lead u k f <= f.
Proof. revert k. induction f as [|f IH]; intro k; destruct k as [|k]; simpl; try lia. destruct (u k); [lia|]. specialize (IH k). lia. Qed.

Lemma lead_shrink u : forall g k e, lead u k g = e -> lead u k e = e.
Proof.
  induction g as [|g IH]; intros k e H.
  - destruct k; simpl in H; subst; reflexivity.
  - destruct k as [|k]; simpl in H.
    + subst. reflexivity.
    + destruct (u k) eqn:U.
      * subst. reflexivity.
      * subst e. simpl. rewrite U. f_equal. apply IH. reflexivity.
Qed.

Lemma lead_extend u k : (forall n, k <= n -> u n = false) ->
  forall m g, m <= g -> lead u (k + m) g = m + lead u k (g - m).
Proof.
  intros Z. induction m as [|m IH]; intros g L.
  - rewrite Nat.add_0_r, Nat.sub_0_r. reflexivity.
  - destruct g as [|g]; [lia|]. replace (k + S m) with (S (k + m)) by lia. simpl.
    rewrite Z by lia. rewrite IH by lia. reflexivity.
Qed.

Lemma lead_full u : forall g k n, lead u k g = g -> n < k -> u n = true -> n + g < k.
Proof.
  induction g as [|g IH]; intros k n H L U; [lia|].
  destruct k as [|k]; simpl in H; [discriminate|]. destruct (u k) eqn:UK; [discriminate|].
  inversion H as [H']. assert (n <> k) by congruence. assert (n + g < k); [|lia]. apply (IH k n); auto. lia.
Qed.

Lemma lead_ext u u' : (forall n, u' n = true -> u n = true) -> forall g k, lead u k g = g -> lead u' k g = g.
Proof.
  intros M. induction g as [|g IH]; intros k H; [destruct k; reflexivity|].
  destruct k as [|k]; simpl in *; [discriminate|]. destruct (u k) eqn:UK; [discriminate|].
  destruct (u' k) eqn:UK'. apply M in UK'. congruence. f_equal. apply IH. congruence.
Qed.

Definition chain_ok (s : state) (c : N) : Prop :=
  lead (fun n => used s (W c n)) (nget (kcs s) c) (nget (gaps s) c) = nget (gaps s) c.

Record GInv (s : state) : Prop := mkGInv {
  g_known_pend : forall a st, aget (pend s) a = Some st -> known s a = true;
  g_known_hist : forall a, used s a = true -> known s a = true;
  g_chain : forall c, nget (kcs s) c = 0 \/ chain_ok s c \/ exists n, aget (pend s) (W c n) = Some HistSet
}.

Lemma used_ext s s' a : hists s' = hists s -> used s' a = used s a.
Proof. intro E. unfold used, get_hist. rewrite E. reflexivity. Qed.

Lemma chain_ok_ext s s' c : hists s' = hists s -> kcs s' = kcs s -> gaps s' = gaps s -> chain_ok s c -> chain_ok s' c.
Proof.
  intros A B C. unfold chain_ok. rewrite B, C. intro H.
  apply lead_ext with (u := fun n => used s (W c n)); auto.
  intros n. rewrite (used_ext s s'); auto.
Qed.

Lemma ensure_gap_chain s c : (forall a, used s a = true -> known s a = true) -> chain_ok (ensure_gap s c) c.
Proof.
  intro KH. unfold ensure_gap.
  destruct (Nat.eqb (lead (fun n => used s (W c n)) (nget (kcs s) c) (nget (gaps s) c)) (nget (gaps s) c)) eqn:E.
  - apply Nat.eqb_eq in E. exact E.
  - unfold chain_ok. cbn [kcs gaps]. rewrite nget_nset_same.
    set (u := fun n => used s (W c n)). set (k := nget (kcs s) c). set (gp := nget (gaps s) c).
    set (e := lead u k gp). assert (LE: e <= gp) by apply lead_le.
    change (lead (fun n => used _ (W c n)) (k + (gp - e)) gp) with (lead u (k + (gp - e)) gp).
    rewrite lead_extend.
    + replace (gp - (gp - e)) with e by lia. rewrite (lead_shrink u gp k e); [lia|reflexivity].
    + intros n L. destruct (u n) eqn:U; auto. unfold u in U. apply KH in U. simpl in U.
      apply Nat.ltb_lt in U. fold k in U. lia.
    + lia.
Qed.

Lemma ensure_gap_other s c c' : c <> c' -> chain_ok s c' -> chain_ok (ensure_gap s c) c'.
Proof.
  intros N H. unfold ensure_gap. destruct (Nat.eqb _ _); auto.
  unfold chain_ok in *. cbn [kcs gaps]. rewrite nget_nset_other; auto.
Qed.

Lemma ensure_gap_k0 s c c' : nget (kcs s) c' = 0 -> c <> c' -> nget (kcs (ensure_gap s c)) c' = 0.
Proof.
  intros H N. unfold ensure_gap. destruct (Nat.eqb _ _); auto. cbn [kcs]. rewrite nget_nset_other; auto.
Qed.

Definition chain_disj (s : state) (c : N) : Prop :=
  nget (kcs s) c = 0 \/ chain_ok s c \/ exists n, aget (pend s) (W c n) = Some HistSet.

Lemma ginv_ensure_gap_weak s c :
  (forall a st, aget (pend s) a = Some st -> known s a = true) ->
  (forall a, used s a = true -> known s a = true) ->
  (forall c', c' <> c -> chain_disj s c') -> GInv (ensure_gap s c).
Proof.
  intros KP KH CD. destruct (ensure_gap_fields s c) as [_ [_ [_ [_ [EH [EP _]]]]]].
  constructor.
  - intros a st J. rewrite EP in J. apply known_ensure_gap. eapply KP; eauto.
  - intros a U. rewrite (used_ext s) in U; auto. apply known_ensure_gap. apply KH. exact U.
  - intro c'. destruct (N.eq_dec c c') as [E|E].
    + subst. right. left. apply ensure_gap_chain. exact KH.
    + destruct (CD c') as [H|[H|[n H]]]; [congruence| | |].
      * left. apply ensure_gap_k0; auto.
      * right. left. apply ensure_gap_other; auto.
      * right. right. exists n. rewrite EP. exact H.
Qed.

Lemma ginv_ensure_gap s c : GInv s -> GInv (ensure_gap s c).
Proof.
  intro G. apply ginv_ensure_gap_weak.
  - apply (g_known_pend s G).
  - apply (g_known_hist s G).
  - intros c' _. apply (g_chain s G).
Qed.

Lemma ginv_ext s s' : hists s' = hists s -> pend s' = pend s -> kcs s' = kcs s -> gaps s' = gaps s ->
  GInv s -> GInv s'.
Proof.
  intros A B C D G. constructor.
  - intros a st J. rewrite B in J. unfold known. rewrite C. eapply (g_known_pend s G); eauto.
  - intros a U. rewrite (used_ext s) in U; auto. unfold known. rewrite C. apply (g_known_hist s G). exact U.
  - intro c. destruct (g_chain s G c) as [H|[H|[n H]]].
    + left. rewrite C. exact H.
    + right. left. eapply chain_ok_ext; eauto.
    + right. right. exists n. rewrite B. exact H.
Qed.

Lemma begin_pend s a st : pend (begin s a st) = pend s \/ exists H B, pend (begin s a st) = aset (pend s) a (Fetched H B).
Proof.
  unfold begin. destruct (hist_eqb _ _); auto.
  match goal with |- context [match ?x with _ => _ end] => destruct x end; auto.
  right. eexists. eexists. reflexivity.
Qed.

Lemma used_aset_other s' s a b v : hists s' = aset (hists s) a v -> a <> b -> used s' b = used s b.
Proof. intros E N. unfold used, get_hist. rewrite E. rewrite aget_aset_other; auto. Qed.

Lemma lead_fuel0 u k : lead u k 0 = 0.
Proof. destruct k; reflexivity. Qed.
Lemma nget_notin l c : ~ In c (map fst l) -> nget l c = 0.
Proof.
  induction l as [|[d v] l IH]; simpl; intro N; auto.
  destruct (N.eqb d c) eqn:E.
  - apply N.eqb_eq in E. exfalso. apply N. auto.
  - apply IH. intro J. apply N. auto.
Qed.

Lemma fold_gap_chains L : forall s, (forall a, used s a = true -> known s a = true) ->
  (forall a, used (fold_left ensure_gap L s) a = true -> known (fold_left ensure_gap L s) a = true) /\
  (forall c, chain_ok s c -> chain_ok (fold_left ensure_gap L s) c) /\
  (forall c, In c L -> chain_ok (fold_left ensure_gap L s) c).
Proof.
  induction L as [|c0 L IH]; intros s KH; simpl.
  - split; [exact KH|split]; auto. intros c [].
  - assert (KH1: forall a, used (ensure_gap s c0) a = true -> known (ensure_gap s c0) a = true).
    { intros a U. destruct (ensure_gap_fields s c0) as [_ [_ [_ [_ [EH _]]]]].
      rewrite (used_ext s) in U; auto. apply known_ensure_gap. apply KH. exact U. }
    destruct (IH (ensure_gap s c0) KH1) as [A [B C]]. split; [exact A|split].
    + intros c OK. apply B. destruct (N.eq_dec c0 c) as [E|E].
      * subst. apply ensure_gap_chain. exact KH.
      * apply ensure_gap_other; auto.
    + intros c [J|J].
      * subst. apply B. apply ensure_gap_chain. exact KH.
      * apply C. exact J.
Qed.

Lemma ginv_restart s : GInv s -> GInv (restart s).
Proof.
  intro G. destruct (restart_fields s) as [_ [_ [_ [_ [EH [EP EG]]]]]].
  assert (KH0: forall a, used (set_pend s []) a = true -> known (set_pend s []) a = true).
  { intros a U. apply (g_known_hist s G). exact U. }
  destruct (fold_gap_chains (map fst (gaps s)) (set_pend s []) KH0) as [A [B C]].
  constructor.
  - intros a st J. rewrite EP in J. discriminate.
  - exact A.
  - intro c. right. left. destruct (in_dec N.eq_dec c (map fst (gaps s))) as [J|J].
    + apply C. exact J.
    + unfold chain_ok. rewrite EG. rewrite (nget_notin _ _ J). apply lead_fuel0.
Qed.

Lemma ginv_step s o s' : step s o = Some s' -> GInv s -> GInv s'.
Proof.
  intros ST G. destruct o as [S'|a st|a|a|a|c|]; simpl in ST.
  - destruct (server_ok_b S' && grows_b (server s) S'); [|discriminate]. inversion ST; subst.
    apply (ginv_ext s); auto.
  - destruct (known s a) eqn:KA; [|discriminate]. destruct (aget (pend s) a) eqn:PA; [discriminate|].
    inversion ST; subst. destruct (begin_fields s a st) as [_ [_ [_ [EH [EK EG]]]]].
    destruct (begin_pend s a st) as [EP|[H [B EP]]].
    + apply (ginv_ext s); auto.
    + constructor.
      * intros b st0 J. unfold known. rewrite EK. rewrite EP, aget_aset_if in J.
        destruct (addr_eqb a b) eqn:E.
        -- apply addr_eqb_eq in E. subst. exact KA.
        -- eapply (g_known_pend s G); eauto.
      * intros b U. rewrite (used_ext s) in U; auto. unfold known. rewrite EK. apply (g_known_hist s G). exact U.
      * intro c. destruct (g_chain s G c) as [Q|[Q|[n Q]]].
        -- left. rewrite EK. exact Q.
        -- right. left. eapply chain_ok_ext; eauto.
        -- right. right. exists n. rewrite EP, aget_aset_other; auto. intro X. subst. congruence.
  - destruct (aget (pend s) a) as [[H B|H|]|] eqn:PA; try discriminate. inversion ST; subst; clear ST.
    assert (KA := g_known_pend s G a _ PA).
    constructor.
    + intros b st0 J. unfold known, save in *. cbn [kcs pend] in *. rewrite aget_aset_if in J.
      destruct (addr_eqb a b) eqn:E.
      * apply addr_eqb_eq in E. subst. exact KA.
      * eapply (g_known_pend s G); eauto.
    + intros b U. destruct (addr_eqb a b) eqn:E.
      * apply addr_eqb_eq in E. subst. exact KA.
      * apply addr_eqb_neq in E. rewrite (used_aset_other _ s a b []) in U; auto.
        apply (g_known_hist s G) in U. exact U.
    + intro c. destruct (g_chain s G c) as [Q|[Q|[n Q]]].
      * left. exact Q.
      * right. left. unfold chain_ok in *. unfold save. cbn [kcs gaps].
        apply lead_ext with (u := fun n => used s (W c n)); auto. intros n U.
        destruct (addr_eqb a (W c n)) eqn:E.
        -- apply addr_eqb_eq in E. subst. unfold used, get_hist in U. cbn [hists] in U.
           rewrite aget_aset_same in U. discriminate.
        -- apply addr_eqb_neq in E. rewrite (used_aset_other _ s a (W c n) []) in U; auto.
      * right. right. exists n. unfold save. cbn [pend]. rewrite aget_aset_other; auto.
        intro X. subst. congruence.
  - destruct (aget (pend s) a) as [[H B|H|]|] eqn:PA; try discriminate. inversion ST; subst; clear ST.
    assert (KA := g_known_pend s G a _ PA).
    constructor.
    + intros b st0 J. unfold known, set_history in *. cbn [kcs pend] in *. rewrite aget_aset_if in J.
      destruct (addr_eqb a b) eqn:E.
      * apply addr_eqb_eq in E. subst. exact KA.
      * eapply (g_known_pend s G); eauto.
    + intros b U. destruct (addr_eqb a b) eqn:E.
      * apply addr_eqb_eq in E. subst. exact KA.
      * apply addr_eqb_neq in E. rewrite (used_aset_other _ s a b H) in U; auto.
        apply (g_known_hist s G) in U. exact U.
    + intro c. destruct a as [ca na|k].
      * destruct (N.eq_dec ca c) as [E|E].
        -- subst. right. right. exists na. unfold set_history. cbn [pend]. apply aget_aset_same.
        -- destruct (g_chain s G c) as [Q|[Q|[n Q]]].
           ++ left. exact Q.
           ++ right. left. unfold chain_ok in *. unfold set_history. cbn [kcs gaps].
              apply lead_ext with (u := fun n => used s (W c n)); auto. intros n U.
              rewrite (used_aset_other _ s (W ca na) (W c n) H) in U; auto. congruence.
           ++ right. right. exists n. unfold set_history. cbn [pend]. rewrite aget_aset_other; auto. congruence.
      * simpl in KA. discriminate.
  - destruct (aget (pend s) a) as [[H B|H|]|] eqn:PA; try discriminate.
    destruct a as [c n|k]; simpl in ST; [|discriminate]. inversion ST; subst; clear ST.
    apply ginv_ensure_gap_weak.
    + intros b st0 J. cbn [pend set_pend] in J. destruct (addr_eqb (W c n) b) eqn:E.
      * apply addr_eqb_eq in E. subst. rewrite aget_adel_same in J. discriminate.
      * apply addr_eqb_neq in E. rewrite aget_adel_other in J; auto. eapply (g_known_pend s G); eauto.
    + intros b U. apply (g_known_hist s G). exact U.
    + intros c' N. destruct (g_chain s G c') as [Q|[Q|[n' Q]]].
      * left. exact Q.
      * right. left. exact Q.
      * right. right. exists n'. cbn [pend set_pend]. rewrite aget_adel_other; auto. congruence.
  - inversion ST; subst. apply ginv_ensure_gap. exact G.
  - inversion ST; subst. apply ginv_restart. exact G.
Qed.

Lemma ginv_init g : GInv (init g).
Proof.
  constructor; simpl.
  - intros a st J. discriminate.
  - intros a U. unfold used, get_hist in U. simpl in U. discriminate.
  - intro c. left. reflexivity.
Qed.

Lemma ginv_run ops : forall s s', run s ops = Some s' -> GInv s -> GInv s'.
Proof.
  induction ops as [|o ops IH]; simpl; intros s s' R G.
  - inversion R; subst. exact G.
  - destruct (step s o) as [s1|] eqn:ST; [|discriminate]. eapply IH; eauto. eapply ginv_step; eauto.
Qed.

(* at a quiescent point every chain has its full gap of unused addresses behind the last used one *)
Lemma gap_quiescent g ops s : run (init g) ops = Some s -> quiescent s ->
  forall c n n', known s (W c n') = true -> used s (W c n') = true -> n <= n' + nget (gaps s) c ->
  known s (W c n) = true.
Proof.
  intros R Q c n n' K U L. assert (G := ginv_run _ _ _ R (ginv_init g)).
  simpl in K. apply Nat.ltb_lt in K. simpl. apply Nat.ltb_lt.
  destruct (g_chain s G c) as [H|[H|[m H]]].
  - lia.
  - unfold chain_ok in H.
    assert (X := lead_full (fun n => used s (W c n)) _ _ n' H K U). lia.
  - rewrite Q in H. discriminate.
Qed.

(* ================================================================================================ *)
(* a sync of address a against the current server state brings a's stored history up to it *)
Definition good (s : state) (a : addr) : Prop :=
  match aget (pend s) a with
  | None => get_hist s a = server_hist (server s) a
  | Some (Fetched H _) => H = server_hist (server s) a
  | Some (Saved H) => H = server_hist (server s) a
  | Some HistSet => get_hist s a = server_hist (server s) a
  end.

Definition is_server (o : op) : bool := match o with Server _ => true | Restart => true | _ => false end.

Lemma good_ext s s' a : server s' = server s -> aget (pend s') a = aget (pend s) a ->
  get_hist s' a = get_hist s a -> good s a -> good s' a.
Proof. intros A B C. unfold good. rewrite A, B, C. auto. Qed.

Lemma filter_nil {A} (f : A -> bool) l : filter f l = [] -> forall x, In x l -> f x = false.
Proof.
  induction l as [|y l IH]; simpl; intros H x J; [contradiction|].
  destruct (f y) eqn:E; [discriminate|]. destruct J as [J|J]; subst; auto.
Qed.

Lemma begin_cases s a st :
  (begin s a st = s /\ (get_hist s a = st \/ incl (server_hist (server s) a) (get_hist s a))) \/
  exists B, begin s a st = set_pend s (aset (pend s) a (Fetched (server_hist (server s) a) B)).
Proof.
  unfold begin. destruct (hist_eqb (get_hist s a) st) eqn:E.
  - left. split; auto. left. apply hist_eqb_eq. exact E.
  - match goal with |- context [match ?x with _ => _ end] => destruct x eqn:En end.
    + left. split; auto. right. intros e J. assert (Q := filter_nil _ _ En e J).
      apply negb_false_iff in Q. apply mem_entry_In. exact Q.
    + right. eexists. reflexivity.
Qed.

Lemma get_hist_ensure_gap s c a : get_hist (ensure_gap s c) a = get_hist s a.
Proof. destruct (ensure_gap_fields s c) as [_ [_ [_ [_ [E _]]]]]. unfold get_hist. rewrite E. reflexivity. Qed.

(* ================================================================================================ *)
(* canonical order: a server that lists no new entry for an address reports the identical history *)
Lemma entry_lt_irrefl x : entry_lt x x = false.
Proof.
  unfold entry_lt. destruct (0 <? snd x)%Z.
  - rewrite Z.ltb_irrefl, Z.eqb_refl, N.ltb_irrefl. reflexivity.
  - apply N.ltb_irrefl.
Qed.
Lemma entry_lt_trans x y z : entry_lt x y = true -> entry_lt y z = true -> entry_lt x z = true.
Proof.
  unfold entry_lt. destruct x as [i h], y as [j k], z as [l m]. simpl.
  destruct (Z.ltb_spec 0 h), (Z.ltb_spec 0 k), (Z.ltb_spec 0 m); intros A B; try discriminate; try reflexivity.
  - apply orb_true_iff in A. apply orb_true_iff in B. apply orb_true_iff.
    destruct A as [A|A], B as [B|B].
    + left. apply Z.ltb_lt in A. apply Z.ltb_lt in B. apply Z.ltb_lt. lia.
    + apply andb_true_iff in B. destruct B as [B1 B2]. apply Z.eqb_eq in B1. left.
      apply Z.ltb_lt in A. apply Z.ltb_lt. lia.
    + apply andb_true_iff in A. destruct A as [A1 A2]. apply Z.eqb_eq in A1. left.
      apply Z.ltb_lt in B. apply Z.ltb_lt. lia.
    + apply andb_true_iff in A. apply andb_true_iff in B. destruct A as [A1 A2], B as [B1 B2]. right.
      apply Z.eqb_eq in A1. apply Z.eqb_eq in B1. apply N.ltb_lt in A2. apply N.ltb_lt in B2.
      apply andb_true_iff. split. apply Z.eqb_eq. lia. apply N.ltb_lt. lia.
  - apply N.ltb_lt in A. apply N.ltb_lt in B. apply N.ltb_lt. lia.
Qed.

Fixpoint ssorted (l : hist) : Prop :=
  match l with [] => True | x :: r => (forall y, In y r -> entry_lt x y = true) /\ ssorted r end.

Lemma sorted_b_ssorted l : sorted_b l = true -> ssorted l.
Proof.
  induction l as [|x r IH]; [simpl; auto|]. destruct r as [|y r'].
  - intros _. simpl. split; [intros y []|exact Logic.I].
  - intro H. change (entry_lt x y && sorted_b (y :: r') = true) in H.
    apply andb_true_iff in H. destruct H as [H1 H2]. specialize (IH H2).
    split; auto. intros z [J|J].
    + subst. exact H1.
    + destruct IH as [IH1 _]. eapply entry_lt_trans; eauto.
Qed.

Lemma ssorted_map_filter (f : stx -> bool) S :
  ssorted (entries S) -> ssorted (map (fun x : stx => (t_id (fst x), snd x)) (filter f S)).
Proof.
  unfold entries. induction S as [|x S IH]; simpl; auto. intros [A B]. destruct (f x); simpl; auto.
  split; auto. intros y J. apply A. apply in_map_iff in J. destruct J as [z [J1 J2]]. apply filter_In in J2.
  apply in_map_iff. exists z. tauto.
Qed.

Lemma ssorted_notin x r : (forall y, In y r -> entry_lt x y = true) -> ~ In x r.
Proof. intros A J. apply A in J. rewrite entry_lt_irrefl in J. discriminate. Qed.

Lemma ssorted_eq : forall l1 l2, ssorted l1 -> ssorted l2 -> (forall e, In e l1 <-> In e l2) -> l1 = l2.
Proof.
  induction l1 as [|x r1 IH]; intros l2 S1 S2 E.
  - destruct l2 as [|y r2]; auto. exfalso. apply (E y). simpl. auto.
  - destruct l2 as [|y r2]; [exfalso; apply (E x); simpl; auto|].
    simpl in S1, S2. destruct S1 as [A1 B1], S2 as [A2 B2].
    assert (x = y).
    { destruct (proj1 (E x) (or_introl eq_refl)) as [Q|Q]; [congruence|].
      destruct (proj2 (E y) (or_introl eq_refl)) as [Q'|Q']; [congruence|].
      exfalso. assert (T := entry_lt_trans _ _ _ (A1 _ Q') (A2 _ Q)). rewrite entry_lt_irrefl in T. discriminate. }
    subst y. f_equal. apply IH; auto. intro e. split; intro J.
    + destruct (proj1 (E e) (or_intror J)) as [Q|Q]; auto. subst e. exfalso. apply (ssorted_notin x r1 A1). exact J.
    + destruct (proj2 (E e) (or_intror J)) as [Q|Q]; auto. subst e. exfalso. apply (ssorted_notin x r2 A2). exact J.
Qed.

Lemma ok_sorted S : server_ok_b S = true -> sorted_b (entries S) = true.
Proof. unfold server_ok_b. intro H. apply andb_true_iff in H. tauto. Qed.

Lemma touches_mono S0 S a t :
  nodup_ids (ids S) = true -> (forall t h, In (t, h) S0 -> exists h', In (t, h') S) ->
  touches S0 a t = true -> touches S a t = true.
Proof.
  intros N G. unfold touches. intro H. apply orb_true_iff in H. apply orb_true_iff. destruct H as [H|H]; auto.
  right. apply existsb_exists in H. destruct H as [inp [J1 J2]]. apply existsb_exists. exists inp. split; auto.
  unfold spends_from, out_at in *. destruct (find_tx S0 (fst inp)) as [t0|] eqn:E0; [|discriminate].
  apply find_tx_some in E0. destruct E0 as [E0 [h0 T0]]. destruct (G _ _ T0) as [h1 T1].
  destruct (find_tx_exists _ _ _ T1) as [t2 Q]. rewrite E0 in Q. rewrite Q.
  apply find_tx_some in Q. destruct Q as [Q1 [h2 Q2]].
  assert (X := nodup_ids_inj S N _ _ _ _ Q2 T1 (eq_trans Q1 (eq_sym E0))). inversion X; subst. exact J2.
Qed.

Lemma hist_stable S0 S a : server_ok_b S0 = true -> server_ok_b S = true ->
  (forall t h, In (t, h) S0 -> exists h', In (t, h') S) ->
  incl (server_hist S a) (server_hist S0 a) -> server_hist S a = server_hist S0 a.
Proof.
  intros O0 O G I. destruct (ok_parts _ O0) as [N0 _]. destruct (ok_parts _ O) as [N _].
  apply ssorted_eq.
  - apply ssorted_map_filter. apply sorted_b_ssorted. apply ok_sorted. exact O.
  - apply ssorted_map_filter. apply sorted_b_ssorted. apply ok_sorted. exact O0.
  - intro e. split; [apply I|]. intro J. apply server_hist_In in J. destruct J as [t [h [T [TO E]]]]. subst e.
    destruct (G _ _ T) as [h' T'].
    assert (J': In (t_id t, h') (server_hist S a)).
    { apply server_hist_In. exists t, h'. split; [|split]; auto. eapply touches_mono; eauto. }
    assert (J2 := I _ J'). apply server_hist_In in J2. destruct J2 as [t2 [h2 [T2 [_ E2]]]].
    injection E2 as E3 E4.
    assert (X := nodup_ids_inj S0 N0 _ _ _ _ T T2 E3). injection X as X1 X2. subst. exact J'.
Qed.

(* every stored history is the history some earlier server state reported *)
Definition from_server (s : state) (a : addr) (l : hist) : Prop :=
  exists S0, server_ok_b S0 = true /\ (forall t h, In (t, h) S0 -> exists h', In (t, h') (server s)) /\
             l = server_hist S0 a.

Definition stage_from_server (s : state) (a : addr) (st : stage) : Prop :=
  match st with Fetched H _ => from_server s a H | Saved H => from_server s a H | HistSet => True end.

Record HInv (s : state) : Prop := mkHInv {
  h_ok : server_ok_b (server s) = true;
  h_hist : forall a, from_server s a (get_hist s a);
  h_pend : forall a st, aget (pend s) a = Some st -> stage_from_server s a st
}.

Lemma from_server_grow s s' a l : (forall t h, In (t, h) (server s) -> exists h', In (t, h') (server s')) ->
  from_server s a l -> from_server s' a l.
Proof.
  intros G [S0 [A [B C]]]. exists S0. split; [|split]; auto. intros t h J. destruct (B _ _ J) as [h1 J1]. eauto.
Qed.
Lemma from_server_same s s' a l : server s' = server s -> from_server s a l -> from_server s' a l.
Proof. intros E. apply from_server_grow. rewrite E. eauto. Qed.
Lemma stage_from_server_grow s s' a st : (forall t h, In (t, h) (server s) -> exists h', In (t, h') (server s')) ->
  stage_from_server s a st -> stage_from_server s' a st.
Proof. intro G. destruct st; simpl; auto; apply from_server_grow; auto. Qed.
Lemma from_server_nil s a : from_server s a [].
Proof. exists []. split; [reflexivity|split]. intros t h []. reflexivity. Qed.

Lemma hinv_step s o s' : step s o = Some s' -> HInv s -> HInv s'.
Proof.
  intros ST I. destruct o as [S'|a st|a|a|a|c|]; simpl in ST.
  - destruct (server_ok_b S' && grows_b (server s) S') eqn:E; [|discriminate]. inversion ST; subst; clear ST.
    apply andb_true_iff in E. destruct E as [E1 E2]. assert (G := grows_sound _ _ E2).
    constructor; cbn [server pend].
    + exact E1.
    + intro a. eapply from_server_grow; [|apply (h_hist s I a)]. exact G.
    + intros a st J. eapply stage_from_server_grow; [|apply (h_pend s I a st J)]. exact G.
  - destruct (known s a); [|discriminate]. destruct (aget (pend s) a) eqn:PA; [discriminate|].
    inversion ST; subst; clear ST.
    destruct (begin_cases s a st) as [[E _]|[B E]]; rewrite E; auto.
    constructor; cbn [server pend set_pend].
    + apply (h_ok s I).
    + intro b. apply (from_server_same s); auto. apply (h_hist s I b).
    + intros b st0 J. rewrite aget_aset_if in J. destruct (addr_eqb a b) eqn:EA.
      * apply addr_eqb_eq in EA. subst b. inversion J; subst. simpl.
        exists (server s). split; [apply (h_ok s I)|split]; eauto.
      * destruct st0; simpl; auto; apply (from_server_same s); auto; apply (h_pend s I b _ J).
  - destruct (aget (pend s) a) as [[H B|H|]|] eqn:PA; try discriminate. inversion ST; subst; clear ST.
    constructor; unfold save; cbn [server pend].
    + apply (h_ok s I).
    + intro b. unfold get_hist. cbn [hists]. rewrite aget_aset_if. destruct (addr_eqb a b).
      * apply from_server_nil.
      * apply (from_server_same s); auto. apply (h_hist s I b).
    + intros b st0 J. rewrite aget_aset_if in J. destruct (addr_eqb a b) eqn:EA.
      * apply addr_eqb_eq in EA. subst b. inversion J; subst. simpl.
        apply (from_server_same s); auto. apply (h_pend s I a _ PA).
      * destruct st0; simpl; auto; apply (from_server_same s); auto; apply (h_pend s I b _ J).
  - destruct (aget (pend s) a) as [[H B|H|]|] eqn:PA; try discriminate. inversion ST; subst; clear ST.
    constructor; unfold set_history; cbn [server pend].
    + apply (h_ok s I).
    + intro b. unfold get_hist. cbn [hists]. rewrite aget_aset_if. destruct (addr_eqb a b) eqn:EA.
      * apply addr_eqb_eq in EA. subst b. apply (from_server_same s); auto. apply (h_pend s I a _ PA).
      * apply (from_server_same s); auto. apply (h_hist s I b).
    + intros b st0 J. rewrite aget_aset_if in J. destruct (addr_eqb a b) eqn:EA.
      * inversion J; subst. exact Logic.I.
      * destruct st0; simpl; auto; apply (from_server_same s); auto; apply (h_pend s I b _ J).
  - destruct (aget (pend s) a) as [[H B|H|]|] eqn:PA; try discriminate.
    destruct (chain_of a) as [c|]; [|discriminate]. inversion ST; subst; clear ST.
    destruct (ensure_gap_fields (set_pend s (adel (pend s) a)) c) as [E1 [_ [_ [_ [E2 [E3 _]]]]]].
    constructor.
    + rewrite E1. apply (h_ok s I).
    + intro b. rewrite get_hist_ensure_gap. apply (from_server_same s); auto. apply (h_hist s I b).
    + intros b st0 J. rewrite E3 in J. cbn [pend set_pend] in J. destruct (addr_eqb a b) eqn:EA.
      * apply addr_eqb_eq in EA. subst b. rewrite aget_adel_same in J. discriminate.
      * apply addr_eqb_neq in EA. rewrite aget_adel_other in J; auto.
        destruct st0; simpl; auto; apply (from_server_same s); auto; apply (h_pend s I b _ J).
  - inversion ST; subst. destruct (ensure_gap_fields s c) as [E1 [_ [_ [_ [E2 [E3 _]]]]]].
    constructor.
    + rewrite E1. apply (h_ok s I).
    + intro b. rewrite get_hist_ensure_gap. apply (from_server_same s); auto. apply (h_hist s I b).
    + intros b st0 J. rewrite E3 in J.
      destruct st0; simpl; auto; apply (from_server_same s); auto; apply (h_pend s I b _ J).
  - inversion ST; subst. destruct (restart_fields s) as [E1 [_ [_ [_ [E2 [E3 _]]]]]].
    constructor.
    + rewrite E1. apply (h_ok s I).
    + intro b. unfold get_hist. rewrite E2. apply (from_server_same s); auto. apply (h_hist s I b).
    + intros b st0 J. rewrite E3 in J. discriminate.
Qed.

Lemma hinv_init g : HInv (init g).
Proof.
  constructor; simpl.
  - reflexivity.
  - intro a. apply from_server_nil.
  - intros a st J. discriminate.
Qed.

Lemma hinv_run ops : forall s s', run s ops = Some s' -> HInv s -> HInv s'.
Proof.
  induction ops as [|o ops IH]; simpl; intros s s' R I.
  - inversion R; subst. exact I.
  - destruct (step s o) as [s1|] eqn:ST; [|discriminate]. eapply IH; eauto. eapply hinv_step; eauto.
Qed.

Lemma step_good_keep s o s' a : step s o = Some s' -> is_server o = false -> good s a -> good s' a.
Proof.
  intros ST NS G. destruct o as [S'|b st|b|b|b|c|]; simpl in ST; [discriminate| | | | | |discriminate].
  - destruct (known s b); [|discriminate]. destruct (aget (pend s) b) eqn:PB; [discriminate|]. inversion ST; subst; clear ST.
    destruct (begin_cases s b st) as [[E _]|[B E]]; rewrite E; auto.
    destruct (addr_eqb b a) eqn:EA.
    + apply addr_eqb_eq in EA. subst. unfold good. cbn [pend set_pend server]. rewrite aget_aset_same. reflexivity.
    + apply addr_eqb_neq in EA. apply (good_ext s); auto. cbn [pend set_pend]. apply aget_aset_other; auto.
  - destruct (aget (pend s) b) as [[H B|H|]|] eqn:PB; try discriminate. inversion ST; subst; clear ST.
    destruct (addr_eqb b a) eqn:EA.
    + apply addr_eqb_eq in EA. subst. unfold good in *. rewrite PB in G. unfold save. cbn [pend server].
      rewrite aget_aset_same. exact G.
    + apply addr_eqb_neq in EA. apply (good_ext s); auto.
      * unfold save. cbn [pend]. apply aget_aset_other; auto.
      * unfold get_hist, save. cbn [hists]. rewrite aget_aset_other; auto.
  - destruct (aget (pend s) b) as [[H B|H|]|] eqn:PB; try discriminate. inversion ST; subst; clear ST.
    destruct (addr_eqb b a) eqn:EA.
    + apply addr_eqb_eq in EA. subst. unfold good in *. rewrite PB in G. unfold set_history. cbn [pend server].
      rewrite aget_aset_same. unfold get_hist. cbn [hists]. rewrite aget_aset_same. exact G.
    + apply addr_eqb_neq in EA. apply (good_ext s); auto.
      * unfold set_history. cbn [pend]. apply aget_aset_other; auto.
      * unfold get_hist, set_history. cbn [hists]. rewrite aget_aset_other; auto.
  - destruct (aget (pend s) b) as [[H B|H|]|] eqn:PB; try discriminate.
    destruct (chain_of b) as [c|]; [|discriminate]. inversion ST; subst; clear ST.
    destruct (ensure_gap_fields (set_pend s (adel (pend s) b)) c) as [E1 [_ [_ [_ [_ [E2 _]]]]]].
    destruct (addr_eqb b a) eqn:EA.
    + apply addr_eqb_eq in EA. subst. unfold good in *. rewrite PB in G. rewrite E1, E2. cbn [pend set_pend server].
      rewrite aget_adel_same. rewrite get_hist_ensure_gap. unfold get_hist in *. cbn [hists set_pend]. exact G.
    + apply addr_eqb_neq in EA. apply (good_ext s); auto.
      * rewrite E2. cbn [pend set_pend]. apply aget_adel_other; auto.
      * rewrite get_hist_ensure_gap. reflexivity.
  - inversion ST; subst. destruct (ensure_gap_fields s c) as [E1 [_ [_ [_ [_ [E2 _]]]]]].
    apply (good_ext s); auto. rewrite E2. reflexivity. apply get_hist_ensure_gap.
Qed.

Lemma step_begin_good s a s' : HInv s -> step s (Begin a (server_hist (server s) a)) = Some s' -> good s' a.
Proof.
  intro HI. simpl. destruct (known s a); [|discriminate]. destruct (aget (pend s) a) eqn:PA; [discriminate|].
  intro ST. inversion ST; subst; clear ST.
  destruct (begin_cases s a (server_hist (server s) a)) as [[E Q]|[B E]]; rewrite E.
  - unfold good. rewrite PA. destruct Q as [Q|Q]; auto.
    destruct (h_hist s HI a) as [S0 [O0 [G0 E0]]]. rewrite E0 in *. symmetry.
    apply hist_stable; auto. apply (h_ok s HI).
  - unfold good. cbn [pend set_pend server]. rewrite aget_aset_same. reflexivity.
Qed.

Lemma run_good ops : forall s s' a, HInv s -> run s ops = Some s' -> forallb (fun o => negb (is_server o)) ops = true ->
  good s a \/ In (Begin a (server_hist (server s) a)) ops -> server s' = server s /\ good s' a.
Proof.
  induction ops as [|o ops IH]; simpl; intros s s' a HI R NS H.
  - inversion R; subst. destruct H as [H|[]]. auto.
  - destruct (step s o) as [s1|] eqn:ST; [|discriminate].
    apply andb_true_iff in NS. destruct NS as [N1 N2]. apply negb_true_iff in N1.
    assert (ES: server s1 = server s).
    { destruct (step_server _ _ _ ST) as [E|[S' [E _]]]; auto. subst o. discriminate. }
    assert (G1: good s1 a \/ In (Begin a (server_hist (server s1) a)) ops).
    { destruct H as [H|[H|H]].
      - left. eapply step_good_keep; eauto.
      - left. subst o. eapply step_begin_good; eauto.
      - right. rewrite ES. exact H. }
    destruct (IH _ _ _ (hinv_step _ _ _ ST HI) R N2 G1) as [A B]. split; auto. congruence.
Qed.

(* ================================================================================================ *)
(* statements used by Props/C09.v *)
Lemma run_app ops1 : forall ops2 s s1 s2, run s ops1 = Some s1 -> run s1 ops2 = Some s2 -> run s (ops1 ++ ops2) = Some s2.
Proof.
  induction ops1 as [|o ops1 IH]; simpl; intros ops2 s s1 s2 R1 R2.
  - inversion R1; subst. exact R2.
  - destruct (step s o) as [s'|]; [|discriminate]. eapply IH; eauto.
Qed.

Definition no_server (ops : list op) : Prop := forallb (fun o => negb (is_server o)) ops = true.

Lemma rows_monotone ops s s' : run s ops = Some s' ->
  (forall r, In r (txo_t s) -> In r (txo_t s')) /\ (forall r, In r (txi_t s) -> In r (txi_t s')) /\
  (forall p, In p (ids (tx_t s)) -> In p (ids (tx_t s'))) /\ (forall a, known s a = true -> known s' a = true).
Proof.
  intro R. destruct (run_le _ _ _ R) as [[A [B C]] D]. split; [|split; [|split]]; auto.
  intros p J. apply mem_id_In. apply C. apply mem_id_In. exact J.
Qed.

Lemma rows_sound g ops s : run (init g) ops = Some s ->
  (forall r, In r (txo_t s) -> exists t h, In (t, h) (server s) /\ r_txid r = t_id t /\
       nth_error (t_outs t) (r_pos r) = Some (r_out r) /\ r_type r = txo_type t (r_pos r) (r_out r)) /\
  (forall i, In i (txi_t s) -> exists t h t' h' o, In (t, h) (server s) /\ i_txid i = t_id t /\
       nth_error (t_ins t) (i_ipos i) = Some (i_prev i, i_ppos i) /\ In (t', h') (server s) /\ t_id t' = i_prev i /\
       nth_error (t_outs t') (i_ppos i) = Some o /\ pays (i_addr i) o = true) /\
  (forall x, In x (tx_t s) -> exists h, In (fst x, h) (server s)).
Proof.
  intro R. destruct (reach_inv _ _ _ R) as [_ I]. split; [|split].
  - intros r J. destruct (inv_txo _ _ I r J) as [t [[h T] Q]]. exists t, h. tauto.
  - intros i J. destruct (inv_txi _ _ I i J) as [t [t' [o [[h T] [A [B [[h' T'] [C [D E]]]]]]]]].
    exists t, h, t', h', o. tauto.
  - intros x J. apply (inv_tx _ _ I x J).
Qed.

Lemma address_complete g ops1 ops2 s1 s2 a :
  run (init g) ops1 = Some s1 -> run s1 ops2 = Some s2 -> no_server ops2 ->
  In (Begin a (server_hist (server s1) a)) ops2 ->
  server s2 = server s1 /\
  (aget (pend s2) a = Some HistSet \/ aget (pend s2) a = None -> get_hist s2 a = server_hist (server s2) a).
Proof.
  intros R1 R2 NS B. assert (HI := hinv_run _ _ _ R1 (hinv_init g)).
  destruct (run_good _ _ _ a HI R2 NS (or_intror B)) as [E G].
  split; auto. unfold good in G. intros [P|P]; rewrite P in G; exact G.
Qed.

Section Recorded.
Variables (g : list (N * nat)) (ops : list op) (s : state) (a : addr).
Hypothesis R : run (init g) ops = Some s.
Hypothesis SY : incl (server_hist (server s) a) (get_hist s a).
Let okF := proj1 (reach_inv g ops s R).
Let I := proj2 (reach_inv g ops s R).

Lemma addr_cov t h : In (t, h) (server s) -> touches (server s) a t = true -> cov (server s) s a t.
Proof.
  intros T TO.
  assert (J: In (t_id t, h) (get_hist s a)).
  { apply SY; auto. apply server_hist_In. exists t, h. auto. }
  destruct (inv_hist _ _ I a _ J) as [t2 [A [B C]]]. simpl in B.
  assert (t2 = t). { apply (F_inj _ okF); auto. exists h. exact T. } subst. exact C.
Qed.

Lemma addr_txo t h pos o : In (t, h) (server s) -> nth_error (t_outs t) pos = Some o -> o_kind o = PKH a ->
  has_txo (txo_t s) (t_id t) pos = true.
Proof.
  intros T N P. apply pays_PKH in P.
  destruct (addr_cov t h T (touches_pays _ _ _ _ _ N P)) as [A _]. eapply A; eauto.
Qed.

Lemma addr_txi t h k p i t' h' o : In (t, h) (server s) -> nth_error (t_ins t) k = Some (p, i) ->
  In (t', h') (server s) -> t_id t' = p -> nth_error (t_outs t') i = Some o -> o_kind o = PKH a ->
  has_txi (txi_t s) p i = true.
Proof.
  intros T N T' E O P. apply pays_PKH in P.
  assert (TO: touches (server s) a t = true).
  { unfold touches. apply orb_true_iff. right. apply existsb_exists. exists (p, i). split.
    eapply nth_error_In; eauto. unfold spends_from, out_at. simpl.
    destruct (find_tx_exists _ _ _ T') as [t2 Q]. rewrite E in Q. rewrite Q.
    apply find_tx_some in Q. destruct Q as [Q1 [h2 Q2]].
    assert (t2 = t'). { apply (F_inj _ okF). exists h2; auto. exists h'; auto. congruence. }
    subst. rewrite O. exact P. }
  destruct (addr_cov t h T TO) as [_ [B _]]. eapply B; eauto. exists h'. exact T'.
Qed.
End Recorded.

Lemma in_sync_reached g ops1 ops2 s1 s2 :
  run (init g) ops1 = Some s1 -> run s1 ops2 = Some s2 -> no_server ops2 -> quiescent s2 ->
  (forall a, known s2 a = true -> In (Begin a (server_hist (server s1) a)) ops2) ->
  in_sync s2 /\ forall a, known s2 a = true -> get_hist s2 a = server_hist (server s2) a.
Proof.
  intros R1 R2 NS Q B. assert (HI := hinv_run _ _ _ R1 (hinv_init g)).
  assert (X: forall a, known s2 a = true -> get_hist s2 a = server_hist (server s2) a).
  { intros a K. destruct (run_good _ _ _ a HI R2 NS (or_intror (B a K))) as [E G].
    unfold good in G. rewrite Q in G. exact G. }
  split; auto. intros a K. rewrite (X a K). apply incl_refl.
Qed.

Lemma gap_found g ops s : run (init g) ops = Some s -> quiescent s -> in_sync s ->
  forall c n n', known s (W c n') = true -> server_hist (server s) (W c n') <> [] -> n <= n' + nget (gaps s) c ->
  known s (W c n) = true.
Proof.
  intros R Q SY c n n' K H L. eapply gap_quiescent; eauto.
  unfold used. assert (J := SY _ K). destruct (server_hist (server s) (W c n')) as [|e r]; [congruence|].
  destruct (get_hist s (W c n')); auto. exfalso. apply (J e). simpl. auto.
Qed.

Lemma gaps_const ops : forall s s', run s ops = Some s' -> gaps s' = gaps s.
Proof.
  induction ops as [|o ops IH]; simpl; intros s s' R.
  - inversion R; subst. reflexivity.
  - destruct (step s o) as [s1|] eqn:ST; [|discriminate]. rewrite (IH _ _ R).
    destruct o as [S'|a st|a|a|a|c|]; simpl in ST.
    + destruct (server_ok_b S' && grows_b (server s) S'); [|discriminate]. inversion ST; subst. reflexivity.
    + destruct (known s a); [|discriminate]. destruct (aget (pend s) a); [discriminate|]. inversion ST; subst.
      destruct (begin_fields s a st) as [_ [_ [_ [_ [_ E]]]]]. exact E.
    + destruct (aget (pend s) a) as [[H B|H|]|]; try discriminate. inversion ST; subst. reflexivity.
    + destruct (aget (pend s) a) as [[H B|H|]|]; try discriminate. inversion ST; subst. reflexivity.
    + destruct (aget (pend s) a) as [[H B|H|]|]; try discriminate. destruct (chain_of a); [|discriminate].
      inversion ST; subst.
      destruct (ensure_gap_fields (set_pend s (adel (pend s) a)) n) as [_ [_ [_ [_ [_ [_ E]]]]]]. rewrite E. reflexivity.
    + inversion ST; subst. destruct (ensure_gap_fields s c) as [_ [_ [_ [_ [_ [_ E]]]]]]. exact E.
    + inversion ST; subst. destruct (restart_fields s) as [_ [_ [_ [_ [_ [_ E]]]]]]. exact E.
Qed.

Lemma address_recorded g ops s a : run (init g) ops = Some s ->
  incl (server_hist (server s) a) (get_hist s a) ->
  (forall t h pos o, In (t, h) (server s) -> nth_error (t_outs t) pos = Some o -> o_kind o = PKH a ->
     has_txo (txo_t s) (t_id t) pos = true) /\
  (forall t h k p i t' h' o, In (t, h) (server s) -> nth_error (t_ins t) k = Some (p, i) ->
     In (t', h') (server s) -> t_id t' = p -> nth_error (t_outs t') i = Some o -> o_kind o = PKH a ->
     has_txi (txi_t s) p i = true).
Proof. intros R SY. exact (conj (addr_txo g ops s a R SY) (addr_txi g ops s a R SY)). Qed.

(* ================================================================================================ *)
(* balance = sum over the specification set (needs: no duplicate rows on either side) *)
Definition key (r : txo_row) : N * nat := (r_txid r, r_pos r).

Lemma NoDup_snoc {A} (l : list A) x : NoDup l -> ~ In x l -> NoDup (l ++ [x]).
Proof.
  induction l as [|y l IH]; simpl; intros N I.
  - constructor; [intros []|constructor].
  - inversion N; subst. constructor.
    + intro J. apply in_app_or in J. destruct J as [J|[J|[]]]; auto.
    + apply IH; auto.
Qed.
Lemma NoDup_app_intro {A} (l1 l2 : list A) : NoDup l1 -> NoDup l2 -> (forall x, In x l1 -> ~ In x l2) -> NoDup (l1 ++ l2).
Proof.
  induction l1 as [|y l IH]; simpl; intros N1 N2 D; auto.
  inversion N1; subst. constructor.
  - intro J. apply in_app_or in J. destruct J as [J|J]; auto. apply (D y); auto.
  - apply IH; auto.
Qed.

Lemma has_txo_key l p i : has_txo l p i = true <-> In (p, i) (map key l).
Proof.
  rewrite has_txo_In, in_map_iff. unfold key. split.
  - intros [r [A [B C]]]. exists r. subst. auto.
  - intros [r [A B]]. inversion A; subst. exists r. auto.
Qed.

Lemma ins_txo_nodup l r : NoDup (map key l) -> NoDup (map key (ins_txo l r)).
Proof.
  intro N. unfold ins_txo. destruct (has_txo l (r_txid r) (r_pos r)) eqn:E; auto.
  rewrite map_app. simpl. apply NoDup_snoc; auto. intro J. apply has_txo_key in J. congruence.
Qed.
Lemma fold_ins_txo_nodup rows : forall l, NoDup (map key l) -> NoDup (map key (fold_left ins_txo rows l)).
Proof. induction rows as [|r rows IH]; simpl; auto. intros. apply IH. apply ins_txo_nodup. auto. Qed.
Lemma save_list_nodup a L : forall d, NoDup (map key (d_txo d)) -> NoDup (map key (d_txo (save_list a L d))).
Proof.
  induction L as [|xr L IH]; simpl; auto. intros d N. apply IH. simpl. apply fold_ins_txo_nodup. exact N.
Qed.

Lemma step_nodup s o s' : step s o = Some s' -> NoDup (map key (txo_t s)) -> NoDup (map key (txo_t s')).
Proof.
  intros ST N. destruct o as [S'|a st|a|a|a|c|]; simpl in ST.
  - destruct (server_ok_b S' && grows_b (server s) S'); [|discriminate]. inversion ST; subst. exact N.
  - destruct (known s a); [|discriminate]. destruct (aget (pend s) a); [discriminate|]. inversion ST; subst.
    destruct (begin_fields s a st) as [_ [E _]]. rewrite E. exact N.
  - destruct (aget (pend s) a) as [[H B|H|]|]; try discriminate. inversion ST; subst.
    unfold save, save_batch. cbn [txo_t].
    match goal with |- context [fold_left ?f ?L ?d] => change (fold_left f L d) with (save_list a L d) end.
    apply save_list_nodup. exact N.
  - destruct (aget (pend s) a) as [[H B|H|]|]; try discriminate. inversion ST; subst. exact N.
  - destruct (aget (pend s) a) as [[H B|H|]|]; try discriminate. destruct (chain_of a); [|discriminate].
    inversion ST; subst. destruct (ensure_gap_fields (set_pend s (adel (pend s) a)) n) as [_ [_ [E _]]].
    rewrite E. exact N.
  - inversion ST; subst. destruct (ensure_gap_fields s c) as [_ [_ [E _]]]. rewrite E. exact N.
  - inversion ST; subst. destruct (restart_fields s) as [_ [_ [E _]]]. rewrite E. exact N.
Qed.
Lemma run_nodup ops : forall s s', run s ops = Some s' -> NoDup (map key (txo_t s)) -> NoDup (map key (txo_t s')).
Proof.
  induction ops as [|o ops IH]; simpl; intros s s' R N.
  - inversion R; subst. exact N.
  - destruct (step s o) as [s1|] eqn:ST; [|discriminate]. eapply IH; eauto. eapply step_nodup; eauto.
Qed.

Lemma nodup_ids_NoDup l : nodup_ids l = true -> NoDup l.
Proof.
  induction l as [|x l IH]; simpl; intro H; constructor.
  - apply andb_true_iff in H. destruct H as [H _]. apply negb_true_iff in H. intro J.
    apply mem_id_In in J. congruence.
  - apply IH. apply andb_true_iff in H. tauto.
Qed.

Lemma all_outputs_nodup S : nodup_ids (ids S) = true -> NoDup (map key (all_outputs S)).
Proof.
  induction S as [|[t h] S IH]; simpl; intro N; [constructor|].
  apply andb_true_iff in N. destruct N as [N1 N2]. apply negb_true_iff in N1.
  unfold all_outputs. simpl. rewrite map_app. apply NoDup_app_intro.
  - rewrite map_map. unfold key. simpl. unfold enum.
    assert (G: forall (l : list output) b, NoDup (map (fun x : nat * output => (t_id t, fst x)) (combine (seq b (length l)) l))).
    { induction l as [|o l IHl]; intro b; simpl; constructor.
      - intro J. apply in_map_iff in J. destruct J as [[k o'] [J1 J2]]. simpl in J1. inversion J1; subst.
        apply in_combine_l in J2. apply in_seq in J2. lia.
      - apply IHl. }
    apply G.
  - apply IH. exact N2.
  - intros x J1 J2. apply in_map_iff in J1. destruct J1 as [r1 [A1 B1]]. apply in_map_iff in B1.
    destruct B1 as [ko [C1 _]]. subst r1. unfold key in A1. simpl in A1.
    apply in_map_iff in J2. destruct J2 as [r2 [A2 B2]].
    change (flat_map _ S) with (all_outputs S) in B2.
    apply all_outputs_In in B2. destruct B2 as [t2 [h2 [T2 [_ [E2 _]]]]].
    assert (mem_id (t_id t) (ids S) = true); [|congruence].
    apply mem_id_In. apply ids_In. exists t2, h2. split; auto. subst x. unfold key in A2. inversion A2. congruence.
Qed.

Lemma sum_amount_perm l l' : Permutation l l' -> sum_amount l = sum_amount l'.
Proof.
  induction 1; simpl; auto.
  - rewrite IHPermutation. reflexivity.
  - rewrite !N.add_assoc. f_equal. apply N.add_comm.
  - congruence.
Qed.

Lemma balance_spec g ops s : run (init g) ops = Some s -> in_sync s ->
  forall cs (f : txo_row -> bool),
    sum_amount (filter f (utxos s cs)) = sum_amount (filter f (spec_utxos (server s) s cs)).
Proof.
  intros R SY cs f. apply sum_amount_perm. apply NoDup_Permutation.
  - apply NoDup_filter. unfold utxos. apply NoDup_filter. apply (NoDup_map_inv key).
    eapply run_nodup; eauto. simpl. constructor.
  - apply NoDup_filter. unfold spec_utxos. apply NoDup_filter. apply (NoDup_map_inv key).
    apply all_outputs_nodup. destruct (reach_inv _ _ _ R) as [OK _]. apply ok_parts in OK. tauto.
  - intro r. rewrite !filter_In. rewrite (conv_utxos g ops s R SY cs r). tauto.
Qed.

Lemma balance_eqs g ops s : run (init g) ops = Some s -> in_sync s -> forall cs,
  balance s cs = sum_amount (filter (fun r => spendable_type (r_type r)) (spec_utxos (server s) s cs)) /\
  claims_total s cs = sum_amount (filter (fun r => claim_type (r_type r)) (spec_utxos (server s) s cs)) /\
  supports_total s cs = sum_amount (filter (fun r => N.eqb (r_type r) 3) (spec_utxos (server s) s cs)) /\
  total s cs = sum_amount (spec_utxos (server s) s cs).
Proof.
  intros R SY cs. unfold balance, spendable, claims_total, supports_total, total.
  split; [|split; [|split]]; try apply (balance_spec g ops s R SY cs).
  assert (Q := balance_spec g ops s R SY cs (fun _ => true)).
  assert (T: forall l : list txo_row, filter (fun _ => true) l = l).
  { induction l; simpl; congruence. }
  rewrite !T in Q. exact Q.
Qed.

(* ---------- a concrete interleaved run (non-vacuity) ---------- *)
Definition ex_t1 : tx := mkTx 1 [(0%N, 0)] [mkOut (PKH (W 0 0)) 1000 0 false; mkOut (SH 9) 5 0 false].
Definition ex_t2 : tx := mkTx 2 [(1%N, 0)] [mkOut (PKH (W 0 1)) 600 0 false; mkOut (PKH (W 0 0)) 300 1 false;
                                             mkOut (PKH (X 7)) 50 0 false].
Definition ex_S : list stx := [(ex_t1, 5%Z); (ex_t2, 0%Z)].
Definition ex_ops : list op :=
  [GapChain 0; Server ex_S;
   Begin (W 0 1) [(2%N, 0%Z)]; Begin (W 0 0) [(1%N, 5%Z); (2%N, 0%Z)];
   Save (W 0 1); Save (W 0 0); SetHist (W 0 0); SetHist (W 0 1); Gap (W 0 1);
   Begin (W 0 2) []; Gap (W 0 0); Begin (W 0 3) []].
Definition incl_b (l r : hist) : bool := forallb (fun e => mem_entry e r) l.
Definition ex_report (s : state) :=
  (balance s [0%N], claims_total s [0%N], map key (utxos s [0%N]), map key (spec_utxos (server s) s [0%N]),
   nget (kcs s) 0, length (pend s),
   forallb (fun n => incl_b (server_hist (server s) (W 0 n)) (get_hist s (W 0 n))) (seq 0 4)).

(* ================================================================================================ *)
(* subscribe_addresses: whatever the batch size, every address gets exactly one update task, with its own status *)
Lemma combine_map_self {A B} (f : A -> B) l : combine l (map f l) = map (fun a => (a, f a)) l.
Proof. induction l as [|x l IH]; simpl; congruence. Qed.

Lemma chunks_fuel_flat (status : addr -> hist) b : 0 < b -> forall f l, length l <= f ->
  flat_map (fun batch => combine batch (map status batch)) (chunks_fuel f b l) = map (fun a => (a, status a)) l.
Proof.
  intro B. induction f as [|f IH]; intros l L.
  - destruct l; [reflexivity|simpl in L; lia].
  - destruct l as [|x r]; [reflexivity|].
    change (chunks_fuel (S f) b (x :: r)) with (firstn b (x :: r) :: chunks_fuel f b (skipn b (x :: r))).
    cbn [flat_map]. rewrite combine_map_self. rewrite IH.
    + rewrite <- map_app. rewrite firstn_skipn. reflexivity.
    + rewrite skipn_length. cbn [length] in *. lia.
Qed.

Lemma subscribe_all b status addrs : 0 < b ->
  subscribe_plan b addrs (map status) = map (fun a => (a, status a)) addrs.
Proof. intro B. unfold subscribe_plan, chunks. apply chunks_fuel_flat; auto. Qed.
