(* C17 proofs.  No axioms. *)
From Coq Require Import NArith ZArith List Bool Lia.
From Coq.Strings Require Import Byte.
From LV Require Import Lib.Bytes Lib.Decimal Model.C17.
Import ListNotations.
Local Open Scope N_scope.

Ltac Zify.zify_post_hook ::= Z.to_euclidean_division_equations.

(* ------------------------------------------------------------------------------------------ *)
(* bytes                                                                                       *)
(* ------------------------------------------------------------------------------------------ *)

Lemma N_of_c n : n < 256 -> N_of_byte (byte_of_N n) = n.
Proof. apply byte_of_N_small. Qed.

Lemma isb_c n m : n < 256 -> isb m (byte_of_N n) = (n =? m).
Proof. intro H. unfold isb. rewrite N_of_c by exact H. reflexivity. Qed.

Lemma N_of_digit_byte d : d < 10 -> N_of_byte (digit_byte d) = 48 + d.
Proof. intro H. unfold digit_byte. apply N_of_c. lia. Qed.

Lemma is_digit_range b : is_digit b = true -> 48 <= N_of_byte b <= 57.
Proof. unfold is_digit. intro H. apply andb_true_iff in H as [H1 H2].
  apply N.leb_le in H1. apply N.leb_le in H2. lia. Qed.

Lemma isb_digit m b : is_digit b = true -> (m < 48 \/ 57 < m) -> isb m b = false.
Proof. intros H Hm. apply is_digit_range in H. unfold isb. apply N.eqb_neq. lia. Qed.

Lemma is_ws_digit b : is_digit b = true -> is_ws b = false.
Proof. intro H. apply is_digit_range in H. unfold is_ws.
  apply orb_false_iff. split.
  - apply andb_false_iff. right. apply N.leb_gt. lia.
  - apply N.eqb_neq. lia. Qed.

Lemma N_of_minus : N_of_byte minus_byte = 45.
Proof. unfold minus_byte. apply N_of_c. lia. Qed.

Lemma is_ws_minus : is_ws minus_byte = false.
Proof. unfold is_ws. rewrite N_of_minus. reflexivity. Qed.

Lemma is_digit_minus : is_digit minus_byte = false.
Proof. unfold is_digit. rewrite N_of_minus. reflexivity. Qed.

(* all bytes of a decimal rendering are digits *)
Lemma dec_of_N_Forall n : Forall (fun b => is_digit b = true) (dec_of_N n).
Proof. apply Forall_forall. intros b Hb. pose proof (dec_of_N_all_digits n) as H.
  rewrite forallb_forall in H. apply H. exact Hb. Qed.

(* ------------------------------------------------------------------------------------------ *)
(* decimal length                                                                              *)
(* ------------------------------------------------------------------------------------------ *)

Lemma value_lower ds : Forall (fun d => d < 10) ds -> ds <> [] -> hd 0 ds <> 0 ->
  10 ^ N.of_nat (length ds - 1) <= value ds.
Proof.
  intros Hf Hne Hhd. destruct ds as [|d r]; [congruence|]. simpl in Hhd.
  change (d :: r) with ([d] ++ r). rewrite value_app.
  replace (length ([d] ++ r) - 1)%nat with (length r) by (simpl; lia).
  assert (Hd : value [d] = d) by (unfold value; simpl; lia). rewrite Hd.
  assert (1 <= d) by lia.
  generalize dependent (10 ^ N.of_nat (length r)). intros p. nia.
Qed.

Lemma value_upper ds : Forall (fun d => d < 10) ds -> value ds < 10 ^ N.of_nat (length ds).
Proof.
  induction ds as [|d r IH] using rev_ind; intro Hf.
  - unfold value. simpl. lia.
  - apply Forall_app in Hf as [Hr Hd]. inversion Hd as [|? ? Hd' _]; subst.
    rewrite value_app. specialize (IH Hr).
    replace (10 ^ N.of_nat (length [d])) with 10 by reflexivity.
    rewrite app_length. simpl length. replace (length r + 1)%nat with (S (length r)) by lia.
    rewrite Nat2N.inj_succ, N.pow_succ_r'.
    assert (Hv : value [d] = d) by (unfold value; simpl; lia). rewrite Hv.
    generalize dependent (10 ^ N.of_nat (length r)). intros p Hp. nia.
Qed.

Lemma digits_length_bound n k : n < 10 ^ N.of_nat k -> (1 <= k)%nat -> (length (digits n) <= k)%nat.
Proof.
  intros Hn Hk. destruct (digits_spec n) as (Hv & Hf & Hne & Hhd & Hz).
  destruct (N.eq_dec n 0) as [->|Hnz].
  - rewrite Hz by reflexivity. simpl. lia.
  - assert (Hpos : 0 < n) by lia. specialize (Hhd Hpos).
    pose proof (value_lower (digits n) Hf Hne Hhd) as Hl. rewrite Hv in Hl.
    destruct (Nat.le_gt_cases (length (digits n)) k) as [|Hgt]; [assumption|exfalso].
    assert (10 ^ N.of_nat k <= 10 ^ N.of_nat (length (digits n) - 1)).
    { apply N.pow_le_mono_r; lia. }
    lia.
Qed.

(* ------------------------------------------------------------------------------------------ *)
(* Python int() reads back what '%d' printed                                                     *)
(* ------------------------------------------------------------------------------------------ *)

Definition NBOUND : N := 10 ^ 4300.
Definition int_ok (z : Z) : Prop := (Z.abs z < Z.of_N NBOUND)%Z.
Definition small (s : bytes) : Prop := blen s < NBOUND.
Global Opaque NBOUND.

Lemma NBOUND_eq : NBOUND = 10 ^ N.of_nat 4300.
Proof. Transparent NBOUND. unfold NBOUND. Opaque NBOUND. f_equal. Qed.

Lemma NBOUND_big : 65536 < NBOUND.
Proof. rewrite NBOUND_eq. apply N.lt_le_trans with (10 ^ N.of_nat 5).
  - vm_compute. reflexivity.
  - apply N.pow_le_mono_r; lia. Qed.

Lemma lstrip_ws_id s : match s with [] => True | b :: _ => is_ws b = false end -> lstrip_ws s = s.
Proof. destruct s as [|b r]; intro H; [reflexivity|]. simpl. rewrite H. reflexivity. Qed.

Lemma rstrip_ws_id s : Forall (fun b => is_ws b = false) s -> rstrip_ws s = s.
Proof.
  induction 1 as [|b r Hb Hr IH]; [reflexivity|].
  cbn [rstrip_ws]. rewrite IH. destruct r; [rewrite Hb|]; reflexivity.
Qed.

Lemma int_body_digits ds : forall acc cnt, Forall (fun d => d < 10) ds ->
  cnt + N.of_nat (length ds) <= MAX_STR_DIGITS -> ds <> [] ->
  forall prev, int_body (map digit_byte ds) acc cnt prev =
    Some (fold_left (fun a d => a * 10 + d) ds acc, cnt + N.of_nat (length ds)).
Proof.
  induction ds as [|d r IH]; intros acc cnt Hf Hc Hne prev; [congruence|].
  inversion Hf as [|? ? Hd Hr]; subst. cbn [map int_body fold_left length]. cbn [length] in Hc.
  rewrite Nat2N.inj_succ in Hc.
  rewrite is_digit_digit_byte, digit_val_digit_byte by exact Hd.
  assert (Hlim : (MAX_STR_DIGITS <? cnt + 1) = false).
  { apply N.ltb_ge. lia. }
  rewrite Hlim. rewrite (N.mul_comm 10 acc).
  destruct r as [|d2 r2].
  - simpl. first [reflexivity | f_equal; f_equal; lia].
  - rewrite IH; [|exact Hr| lia | discriminate].
    f_equal. f_equal. rewrite (Nat2N.inj_succ (length (d2 :: r2))). lia.
Qed.

Lemma int_body_dec_of_N n : n < NBOUND ->
  int_body (dec_of_N n) 0 0 false = Some (n, N.of_nat (length (digits n))).
Proof.
  intro Hn. destruct (digits_spec n) as (Hv & Hf & Hne & _).
  unfold dec_of_N. rewrite int_body_digits; [|exact Hf| |exact Hne].
  - f_equal. f_equal. exact Hv.
  - rewrite NBOUND_eq in Hn. pose proof (digits_length_bound n 4300 Hn ltac:(lia)).
    unfold MAX_STR_DIGITS. lia.
Qed.

Lemma py_int_dec_of_N n : n < NBOUND -> py_int_of_bytes (dec_of_N n) = Some (Z.of_N n).
Proof.
  intro Hn. unfold py_int_of_bytes.
  pose proof (dec_of_N_Forall n) as Hd. pose proof (dec_of_N_nonempty n) as Hne.
  assert (Hws : Forall (fun b => is_ws b = false) (dec_of_N n)).
  { eapply Forall_impl; [|exact Hd]. intros b. apply is_ws_digit. }
  rewrite lstrip_ws_id.
  2:{ destruct (dec_of_N n) as [|b r]; [exact I|]. inversion Hws; assumption. }
  rewrite rstrip_ws_id by exact Hws.
  destruct (dec_of_N n) as [|b r] eqn:E; [congruence|].
  inversion Hd as [|? ? Hb _]; subst.
  rewrite (isb_digit 45 b Hb) by lia. rewrite (isb_digit 43 b Hb) by lia.
  cbn [fst snd]. rewrite <- E. rewrite int_body_dec_of_N by exact Hn. reflexivity.
Qed.

Lemma py_int_dec_of_Z z : int_ok z -> py_int_of_bytes (dec_of_Z z) = Some z.
Proof.
  intro Hz. unfold int_ok in Hz. destruct z as [|p|p]; cbn [dec_of_Z].
  - apply (py_int_dec_of_N 0). lia.
  - rewrite (py_int_dec_of_N (Npos p)) by lia. reflexivity.
  - unfold py_int_of_bytes.
    pose proof (dec_of_N_Forall (Npos p)) as Hd.
    assert (Hws : Forall (fun b => is_ws b = false) (minus_byte :: dec_of_N (Npos p))).
    { constructor; [apply is_ws_minus|]. eapply Forall_impl; [|exact Hd]. intros b. apply is_ws_digit. }
    rewrite lstrip_ws_id by (apply is_ws_minus).
    rewrite rstrip_ws_id by exact Hws.
    assert (Hm : isb 45 minus_byte = true) by (unfold isb; rewrite N_of_minus; reflexivity).
    rewrite Hm. cbn [fst snd]. rewrite int_body_dec_of_N by lia. reflexivity.
Qed.

(* ------------------------------------------------------------------------------------------ *)
(* the strict grammar of fix 4abdbc1 accepts exactly what '%d' prints                            *)
(* ------------------------------------------------------------------------------------------ *)

Lemma isb48_not_zero b : b <> digit_byte 0 -> isb 48 b = false.
Proof.
  intro H. unfold isb. apply N.eqb_neq. intro E. apply H.
  rewrite <- (byte_of_N_of_byte b). rewrite E. reflexivity.
Qed.

Lemma len_shape_dec_of_N n : len_shape (dec_of_N n) = true.
Proof.
  pose proof (dec_of_N_all_digits n) as Hd.
  destruct (N.eq_dec n 0) as [->|Hn].
  - rewrite dec_of_N_0. cbn [len_shape forallb]. rewrite is_digit_digit_byte by lia.
    cbn [andb]. apply orb_true_r.
  - pose proof (dec_of_N_no_leading_zero n ltac:(lia)) as Hz.
    destruct (dec_of_N n) as [|b r] eqn:E; [exfalso; eapply dec_of_N_nonempty; exact E|].
    cbn [hd] in Hz. cbn [forallb] in Hd. apply andb_true_iff in Hd as [Hb Hr].
    cbn [len_shape]. rewrite Hb, Hr, (isb48_not_zero b Hz). reflexivity.
Qed.

Lemma strict_len_dec_of_N n : n < NBOUND -> strict_len (dec_of_N n) = Some (Z.of_N n).
Proof. intro H. unfold strict_len. rewrite len_shape_dec_of_N. apply py_int_dec_of_N. exact H. Qed.

Lemma int_shape_dec_of_Z z : int_shape (dec_of_Z z) = true.
Proof.
  assert (Hpos : forall n, int_shape (dec_of_N n) = true).
  { intro n. pose proof (len_shape_dec_of_N n) as Hs. pose proof (dec_of_N_Forall n) as Hd.
    destruct (dec_of_N n) as [|b r] eqn:E; [discriminate|]. inversion Hd as [|? ? Hb _]; subst.
    cbn [int_shape]. rewrite (isb_digit 45 b Hb) by lia. exact Hs. }
  destruct z as [|p|p]; cbn [dec_of_Z]; try apply Hpos.
  cbn [int_shape]. unfold isb at 1. rewrite N_of_minus. cbn [N.eqb Pos.eqb].
  pose proof (len_shape_dec_of_N (Npos p)) as Hs.
  pose proof (dec_of_N_no_leading_zero (Npos p) ltac:(lia)) as Hz.
  destruct (dec_of_N (Npos p)) as [|c r] eqn:E; [discriminate|]. cbn [hd] in Hz.
  rewrite (isb48_not_zero c Hz). exact Hs.
Qed.

Lemma strict_int_dec_of_Z z : int_ok z -> strict_int (dec_of_Z z) = Some z.
Proof. intro H. unfold strict_int. rewrite int_shape_dec_of_Z. apply py_int_dec_of_Z. exact H. Qed.
