(* C17 proofs, part 4: the decoder's loop budget is never the reason for an answer; what can be accepted
   starts with 'd'; the encoder does not depend on the order of a dictionary's items. No axioms. *)
From Coq Require Import NArith ZArith List Bool Lia Permutation.
From Coq.Strings Require Import Byte.
From LV Require Import Lib.Bytes Lib.Decimal Model.C17 Proofs.C17_Int Proofs.C17_Bencode Proofs.C17_Msg.
Import ListNotations.
Local Open Scope N_scope.

Ltac Zify.zify_post_hook ::= Z.to_euclidean_division_equations.

(* ------------------------------------------------------------------------------------------ *)
(* every successful call of the decoder consumes at least one byte                              *)
(* ------------------------------------------------------------------------------------------ *)

Lemma find_split_length c s a t : find_split c s = Some (a, t) -> length s = S (length a + length t).
Proof.
  revert a t. induction s as [|b r IH]; intros a t H; [discriminate|].
  cbn [find_split] in H. destruct (isb c b).
  - inversion H; subst. reflexivity.
  - destruct (find_split c r) as [[a' t']|]; [|discriminate]. inversion H; subst.
    specialize (IH a' t eq_refl). cbn [length]. lia.
Qed.

Lemma take_clamped_length s : forall n a t, take_clamped n s = (a, t) -> length s = (length a + length t)%nat.
Proof.
  induction s as [|b r IH]; intros n a t H; cbn [take_clamped] in H.
  - inversion H; subst. reflexivity.
  - destruct (n =? 0).
    + inversion H; subst. reflexivity.
    + destruct (take_clamped (N.pred n) r) as [a' t'] eqn:E. inversion H; subst.
      specialize (IH _ _ _ E). cbn [length]. lia.
Qed.

Definition progress (dec1 : bytes -> res (bval * bytes)) : Prop :=
  forall cur v rest, dec1 cur = Ok (v, rest) -> (length rest < length cur)%nat.

Lemma list_loop_progress dec1 : progress dec1 -> forall st cur acc v rest,
  list_loop dec1 st cur acc = Ok (v, rest) -> (length rest < length cur)%nat.
Proof.
  intros Hp. induction st as [|st IH]; intros cur acc v rest H; [discriminate|].
  destruct cur as [|c cur']; [discriminate|]. rewrite list_loop_cons in H.
  destruct (isb 101 c).
  - inversion H; subst. cbn [length]. lia.
  - destruct (dec1 (c :: cur')) as [[v1 cur2]|e] eqn:E; [|discriminate].
    apply Hp in E. apply IH in H. lia.
Qed.

Lemma dict_loop_progress dec1 : progress dec1 -> forall st cur acc v rest,
  dict_loop dec1 st cur acc = Ok (v, rest) -> (length rest <= length cur)%nat.
Proof.
  intros Hp. induction st as [|st IH]; intros cur acc v rest H; [discriminate|].
  destruct cur as [|c cur']; [discriminate|]. rewrite dict_loop_cons in H.
  destruct (isb 101 c).
  - inversion H; subst. cbn [length]. lia.
  - destruct (dec1 (c :: cur')) as [[k cur2]|e] eqn:E; [|discriminate].
    destruct (dec1 cur2) as [[x cur3]|e] eqn:E2; [|discriminate].
    destruct (hashable k); [|discriminate].
    apply Hp in E. apply Hp in E2. apply IH in H. lia.
Qed.

Lemma bdec_S steps d b rest :
  bdec steps (S d) (b :: rest) =
  if isb 105 b then
    match find_split 101 rest with
    | Some (num, after) => match strict_int num with Some z => Ok (BInt z, after) | None => Err EDecode end
    | None => Err EDecode
    end
  else if isb 108 b then list_loop (bdec steps d) steps rest []
  else if isb 100 b then dict_loop (bdec steps d) steps rest []
  else match find_split 58 (b :: rest) with
       | Some (num, after) =>
           match strict_len num with
           | Some z => if (z <? 0)%Z then Err EDecode
                       else let (s, rest') := take_clamped (Z.to_N z) after in Ok (BStr s, rest')
           | None => Err EDecode
           end
       | None => Err EDecode
       end.
Proof. reflexivity. Qed.

Lemma bdec_progress : forall depth steps, progress (bdec steps depth).
Proof.
  induction depth as [|d IH]; intros steps cur v rest H; [discriminate|].
  destruct cur as [|b r0]; [discriminate|]. rewrite bdec_S in H.
  destruct (isb 105 b).
  - destruct (find_split 101 r0) as [[num after]|] eqn:E; [|discriminate].
    destruct (strict_int num); [|discriminate]. inversion H; subst.
    apply find_split_length in E. cbn [length]. lia.
  - destruct (isb 108 b).
    + apply (list_loop_progress _ (IH steps)) in H. cbn [length]. lia.
    + destruct (isb 100 b).
      * apply (dict_loop_progress _ (IH steps)) in H. cbn [length]. lia.
      * destruct (find_split 58 (b :: r0)) as [[num after]|] eqn:E; [|discriminate].
        destruct (strict_len num) as [z|]; [|discriminate].
        destruct (z <? 0)%Z; [discriminate|].
        destruct (take_clamped (Z.to_N z) after) as [s rest'] eqn:Et. inversion H; subst.
        apply find_split_length in E. apply take_clamped_length in Et. lia.
Qed.

(* ------------------------------------------------------------------------------------------ *)
(* hence the loop budget (datagram length + 1) never runs out                                    *)
(* ------------------------------------------------------------------------------------------ *)

Definition no_int (dec1 : bytes -> res (bval * bytes)) (bound : nat) : Prop :=
  forall cur, (length cur <= bound)%nat -> dec1 cur <> Err EInternal.

Lemma list_loop_no_internal dec1 bound : progress dec1 -> no_int dec1 bound -> forall st cur acc,
  (length cur < st)%nat -> (length cur <= bound)%nat -> list_loop dec1 st cur acc <> Err EInternal.
Proof.
  intros Hp Hn. induction st as [|st IH]; intros cur acc Hs Hb; [lia|].
  destruct cur as [|c cur']; [cbn; discriminate|]. rewrite list_loop_cons.
  destruct (isb 101 c); [discriminate|].
  destruct (dec1 (c :: cur')) as [[v1 cur2]|e] eqn:E.
  - apply Hp in E. apply IH; lia.
  - intro H. inversion H; subst. apply (Hn (c :: cur') Hb). exact E.
Qed.

Lemma dict_loop_no_internal dec1 bound : progress dec1 -> no_int dec1 bound -> forall st cur acc,
  (length cur < st)%nat -> (length cur <= bound)%nat -> dict_loop dec1 st cur acc <> Err EInternal.
Proof.
  intros Hp Hn. induction st as [|st IH]; intros cur acc Hs Hb; [lia|].
  destruct cur as [|c cur']; [cbn; discriminate|]. rewrite dict_loop_cons.
  destruct (isb 101 c); [discriminate|].
  destruct (dec1 (c :: cur')) as [[k cur2]|e] eqn:E.
  - pose proof (Hp _ _ _ E) as L1.
    destruct (dec1 cur2) as [[x cur3]|e] eqn:E2.
    + pose proof (Hp _ _ _ E2) as L2. destruct (hashable k); [|discriminate]. apply IH; lia.
    + intro H. inversion H; subst. apply (Hn cur2 ltac:(lia)). exact E2.
  - intro H. inversion H; subst. apply (Hn (c :: cur') Hb). exact E.
Qed.

Lemma bdec_no_internal : forall depth steps data, (length data <= steps)%nat -> bdec steps depth data <> Err EInternal.
Proof.
  induction depth as [|d IH]; intros steps data Hs; [cbn; discriminate|].
  destruct data as [|b r0]; [cbn; discriminate|]. rewrite bdec_S. cbn [length] in Hs.
  destruct (isb 105 b).
  - destruct (find_split 101 r0) as [[num after]|]; [|discriminate].
    destruct (strict_int num); discriminate.
  - destruct (isb 108 b).
    + apply (list_loop_no_internal _ steps (bdec_progress d steps)); [intros cur Hc; apply IH; exact Hc | lia | lia].
    + destruct (isb 100 b).
      * apply (dict_loop_no_internal _ steps (bdec_progress d steps)); [intros cur Hc; apply IH; exact Hc | lia | lia].
      * destruct (find_split 58 (b :: r0)) as [[num after]|]; [|discriminate].
        destruct (strict_len num) as [z|]; [|discriminate].
        destruct (z <? 0)%Z; [discriminate|].
        destruct (take_clamped (Z.to_N z) after). discriminate.
Qed.

Lemma bdecode_no_internal fuel data : bdecode fuel data <> Err EInternal.
Proof.
  unfold bdecode. destruct data as [|b r]; [discriminate|].
  pose proof (bdec_no_internal fuel (S (length (b :: r))) (b :: r) ltac:(lia)) as H.
  destruct (bdec (S (length (b :: r))) fuel (b :: r)) as [[v rest]|e].
  - destruct v; try discriminate. destruct rest; discriminate.
  - intro E. inversion E; subst. apply H. reflexivity.
Qed.

Lemma check_ids_err rpc node e : check_ids rpc node = Err e -> e = EValue.
Proof.
  unfold check_ids. destruct rpc; try (intro H; inversion H; reflexivity).
  destruct node; try (intro H; inversion H; reflexivity).
  destruct (negb (blen s =? RPC_ID_LENGTH)); [intro H; inversion H; reflexivity|].
  destruct (negb (blen s0 =? HASH_LENGTH)); [intro H; inversion H; reflexivity|discriminate].
Qed.

Lemma norm_args_err a e : norm_args a = Err e -> e <> EInternal.
Proof.
  unfold norm_args.
  destruct (match a with Some v => if truthy v then v else BList [] | None => BList [] end) as [z|s|l|d].
  - intro H. inversion H. discriminate.
  - intro H. inversion H. discriminate.
  - destruct l; [discriminate|]. destruct (last (b :: l) (BInt 0)); discriminate.
  - destruct (pydict_get d (BInt (-1))) as [v|]; [|intro H; inversion H; discriminate].
    destruct v; intro H; inversion H; discriminate.
Qed.

Lemma py_decode_utf8_err v e : py_decode_utf8 v = Err e -> e <> EInternal.
Proof.
  destruct v; cbn [py_decode_utf8]; try (intro H; inversion H; discriminate).
  destruct (utf8_valid s); [discriminate|]. intro H; inversion H; discriminate.
Qed.

Theorem decode_never_internal fuel data :
  match decode_datagram fuel data with inl _ => True | inr e => e <> EInternal end.
Proof.
  unfold decode_datagram. pose proof (bdecode_no_internal fuel data) as Hb.
  destruct (bdecode fuel data) as [d|e]; [|intro E; subst; apply Hb; reflexivity].
  destruct (field (converted d) 0) as [t|]; [|discriminate].
  destruct t as [z| | |]; try discriminate.
  destruct z as [|p|p]; try discriminate.
  - unfold build_request.
    destruct (field (converted d) 1) as [rpc|]; [|discriminate].
    destruct (field (converted d) 2) as [node|]; [|discriminate].
    destruct (field (converted d) 3) as [meth|]; [|discriminate].
    destruct (check_ids rpc node) as [[r n]|e] eqn:E; [|apply check_ids_err in E; subst; discriminate].
    destruct (norm_args (field (converted d) 4)) as [a|e] eqn:E2; [exact I|].
    apply norm_args_err in E2. exact E2.
  - destruct p as [p|p|]; try discriminate.
    + destruct p; try discriminate.
      unfold build_error.
      destruct (field (converted d) 1) as [rpc|]; [|discriminate].
      destruct (field (converted d) 2) as [node|]; [|discriminate].
      destruct (field (converted d) 3) as [et|]; [|discriminate].
      destruct (field (converted d) 4) as [tx|]; [|discriminate].
      destruct (check_ids rpc node) as [[r n]|e] eqn:E; [|apply check_ids_err in E; subst; discriminate].
      destruct (py_decode_utf8 et) as [ets|e] eqn:E1; [|apply py_decode_utf8_err in E1; exact E1].
      destruct (py_decode_utf8 tx) as [txs|e] eqn:E2; [exact I|apply py_decode_utf8_err in E2; exact E2].
    + unfold build_response.
      destruct (field (converted d) 1) as [rpc|]; [|discriminate].
      destruct (field (converted d) 2) as [node|]; [|discriminate].
      destruct (field (converted d) 3) as [rs|]; [|discriminate].
      destruct (check_ids rpc node) as [[r n]|e] eqn:E; [exact I|apply check_ids_err in E; subst; discriminate].
Qed.

(* ------------------------------------------------------------------------------------------ *)
(* only a datagram that starts with 'd' can be accepted                                         *)
(* ------------------------------------------------------------------------------------------ *)

Lemma list_loop_shape dec1 : forall st cur acc v rest,
  list_loop dec1 st cur acc = Ok (v, rest) -> exists l, v = BList l.
Proof.
  induction st as [|st IH]; intros cur acc v rest H; [discriminate|].
  destruct cur as [|c cur']; [discriminate|]. rewrite list_loop_cons in H.
  destruct (isb 101 c).
  - inversion H; subst. eexists; reflexivity.
  - destruct (dec1 (c :: cur')) as [[v1 cur2]|e]; [|discriminate]. eapply IH; exact H.
Qed.

Lemma bdecode_first_byte fuel data d : bdecode fuel data = Ok d -> exists rest, data = c_d :: rest.
Proof.
  unfold bdecode. destruct data as [|b r]; [discriminate|].
  destruct fuel as [|f]; [cbn; discriminate|]. rewrite bdec_S.
  destruct (isb 105 b).
  { destruct (find_split 101 r) as [[num after]|]; [|discriminate]. destruct (strict_int num); [destruct after|]; discriminate. }
  destruct (isb 108 b).
  { destruct (list_loop (bdec (S (length (b :: r))) f) (S (length (b :: r))) r []) as [[v rest]|e] eqn:E; [|discriminate].
    apply list_loop_shape in E as [l ->]. destruct rest; discriminate. }
  destruct (isb 100 b) eqn:Eb.
  { intros _. exists r. f_equal. unfold isb in Eb. apply N.eqb_eq in Eb.
    rewrite <- (byte_of_N_of_byte b). rewrite Eb. reflexivity. }
  destruct (find_split 58 (b :: r)) as [[num after]|]; [|discriminate].
  destruct (strict_len num) as [z|]; [|discriminate].
  destruct (z <? 0)%Z; [discriminate|]. destruct (take_clamped (Z.to_N z) after) as [s0 r0]. destruct r0; discriminate.
Qed.

Theorem accepted_first_byte fuel data m : decode_datagram fuel data = inl m -> exists rest, data = c_d :: rest.
Proof.
  unfold decode_datagram. destruct (bdecode fuel data) as [d|e] eqn:E; [|discriminate].
  intros _. eapply bdecode_first_byte. exact E.
Qed.

(* ------------------------------------------------------------------------------------------ *)
(* sorted(keys): the encoding does not depend on the order in which the items are listed         *)
(* ------------------------------------------------------------------------------------------ *)

Lemma lex_leb_trans a : forall b c, lex_leb a b = true -> lex_leb b c = true -> lex_leb a c = true.
Proof.
  induction a as [|x a IH]; intros b c H1 H2; [reflexivity|].
  destruct b as [|y b]; [discriminate|]. destruct c as [|z c]; [cbn in H2; discriminate|].
  cbn [lex_leb] in *.
  destruct (N_of_byte x <? N_of_byte y) eqn:Exy.
  - apply N.ltb_lt in Exy.
    destruct (N_of_byte y <? N_of_byte z) eqn:Eyz.
    + apply N.ltb_lt in Eyz. replace (N_of_byte x <? N_of_byte z) with true by (symmetry; apply N.ltb_lt; lia). reflexivity.
    + destruct (N_of_byte z <? N_of_byte y) eqn:Ezy; [discriminate|].
      apply N.ltb_ge in Eyz. apply N.ltb_ge in Ezy.
      replace (N_of_byte x <? N_of_byte z) with true by (symmetry; apply N.ltb_lt; lia). reflexivity.
  - destruct (N_of_byte y <? N_of_byte x) eqn:Eyx; [discriminate|].
    apply N.ltb_ge in Exy. apply N.ltb_ge in Eyx.
    destruct (N_of_byte y <? N_of_byte z) eqn:Eyz.
    + apply N.ltb_lt in Eyz. replace (N_of_byte x <? N_of_byte z) with true by (symmetry; apply N.ltb_lt; lia). reflexivity.
    + destruct (N_of_byte z <? N_of_byte y) eqn:Ezy; [discriminate|].
      apply N.ltb_ge in Eyz. apply N.ltb_ge in Ezy.
      replace (N_of_byte x <? N_of_byte z) with false by (symmetry; apply N.ltb_ge; lia).
      replace (N_of_byte z <? N_of_byte x) with false by (symmetry; apply N.ltb_ge; lia).
      eapply IH; eassumption.
Qed.

Lemma lex_leb_antisym a : forall b, lex_leb a b = true -> lex_leb b a = true -> a = b.
Proof.
  induction a as [|x a IH]; intros b H1 H2.
  - destruct b; [reflexivity|discriminate].
  - destruct b as [|y b]; [discriminate|]. cbn [lex_leb] in *.
    destruct (N_of_byte x <? N_of_byte y) eqn:Exy.
    + apply N.ltb_lt in Exy.
      replace (N_of_byte y <? N_of_byte x) with false in H2 by (symmetry; apply N.ltb_ge; lia).
      discriminate.
    + destruct (N_of_byte y <? N_of_byte x) eqn:Eyx; [discriminate|].
      apply N.ltb_ge in Exy. apply N.ltb_ge in Eyx.
      assert (x = y) by (apply N_of_byte_inj; lia). subst. f_equal. apply IH; assumption.
Qed.

Lemma key_leb_trans a b c : hashable a = true -> hashable b = true -> hashable c = true ->
  key_leb a b = true -> key_leb b c = true -> key_leb a c = true.
Proof.
  destruct a, b, c; cbn; intros; try discriminate; try reflexivity.
  - apply Z.leb_le. apply Z.leb_le in H2. apply Z.leb_le in H3. lia.
  - eapply lex_leb_trans; eassumption.
Qed.

Lemma key_leb_antisym a b : hashable a = true -> hashable b = true ->
  key_leb a b = true -> key_leb b a = true -> a = b.
Proof.
  destruct a, b; cbn; intros; try discriminate.
  - f_equal. apply Z.leb_le in H1. apply Z.leb_le in H2. lia.
  - f_equal. apply lex_leb_antisym; assumption.
Qed.

Lemma lex_leb_total a : forall b, lex_leb a b = false -> lex_leb b a = true.
Proof.
  induction a as [|x a IH]; intros b H; [discriminate|].
  destruct b as [|y b]; [reflexivity|]. cbn [lex_leb] in *.
  destruct (N_of_byte x <? N_of_byte y) eqn:A; [discriminate|].
  destruct (N_of_byte y <? N_of_byte x) eqn:B; [reflexivity|]. apply IH. exact H.
Qed.

Lemma key_leb_total a b : hashable a = true -> hashable b = true -> key_leb a b = false -> key_leb b a = true.
Proof.
  destruct a, b; cbn; intros; try discriminate; try reflexivity.
  - apply Z.leb_le. apply Z.leb_gt in H1. lia.
  - apply lex_leb_total. assumption.
Qed.

Definition hkey (p : bval * bytes) : Prop := hashable (fst p) = true.

Lemma insert_comm x y : hkey x -> hkey y ->
  (key_leb (fst x) (fst y) = true -> key_leb (fst y) (fst x) = true -> x = y) ->
  forall s, Forall hkey s -> insert_item x (insert_item y s) = insert_item y (insert_item x s).
Proof.
  intros Hx Hy Hxy. induction s as [|q s IH]; intro Hs.
  - cbn [insert_item].
    destruct (key_leb (fst x) (fst y)) eqn:E1, (key_leb (fst y) (fst x)) eqn:E2; try reflexivity.
    + rewrite (Hxy eq_refl eq_refl). reflexivity.
    + rewrite (key_leb_total _ _ Hx Hy E1) in E2. discriminate.
  - inversion Hs as [|? ? Hq Hs']; subst. specialize (IH Hs').
    cbn [insert_item].
    destruct (key_leb (fst y) (fst q)) eqn:Eyq, (key_leb (fst x) (fst q)) eqn:Exq; cbn [insert_item].
    + destruct (key_leb (fst x) (fst y)) eqn:E1, (key_leb (fst y) (fst x)) eqn:E2; rewrite ?Exq, ?Eyq; try reflexivity.
      * rewrite (Hxy eq_refl eq_refl). reflexivity.
      * rewrite (key_leb_total _ _ Hx Hy E1) in E2. discriminate.
    + (* y <= q, not x <= q: then not x <= y *)
      assert (E1 : key_leb (fst x) (fst y) = false).
      { destruct (key_leb (fst x) (fst y)) eqn:E; [|reflexivity].
        rewrite (key_leb_trans _ _ _ Hx Hy Hq E Eyq) in Exq. discriminate. }
      cbn [insert_item]. rewrite ?E1, ?Exq, ?Eyq. cbn [insert_item]. rewrite ?E1, ?Exq, ?Eyq. reflexivity.
    + assert (E2 : key_leb (fst y) (fst x) = false).
      { destruct (key_leb (fst y) (fst x)) eqn:E; [|reflexivity].
        rewrite (key_leb_trans _ _ _ Hy Hx Hq E Exq) in Eyq. discriminate. }
      cbn [insert_item]. rewrite ?E2, ?Exq, ?Eyq. cbn [insert_item]. rewrite ?E2, ?Exq, ?Eyq. reflexivity.
    + rewrite Exq, Eyq. f_equal. exact IH.
Qed.

Lemma insert_In p q s : In q (insert_item p s) -> q = p \/ In q s.
Proof.
  induction s as [|r s IH]; cbn [insert_item]; intro H.
  - destruct H as [H|[]]; left; symmetry; exact H.
  - destruct (key_leb (fst p) (fst r)).
    + destruct H as [H|H]; [left; symmetry; exact H | right; exact H].
    + destruct H as [H|H]; [right; left; exact H|]. destruct (IH H) as [E|E]; [left; exact E | right; right; exact E].
Qed.

Lemma sort_In q l : In q (sort_items l) -> In q l.
Proof.
  induction l as [|p l IH]; cbn [sort_items]; intro H; [exact H|].
  destruct (insert_In _ _ _ H) as [E|E]; [left; symmetry; exact E | right; apply IH; exact E].
Qed.

Definition distinct_keys (l : list (bval * bytes)) : Prop :=
  forall p q, In p l -> In q l -> key_leb (fst p) (fst q) = true -> key_leb (fst q) (fst p) = true -> p = q.

Lemma sort_items_perm l l' : Permutation l l' -> Forall hkey l -> distinct_keys l -> sort_items l = sort_items l'.
Proof.
  induction 1 as [|x l l' Hp IH|x y l|l l' l'' H1 IH1 H2 IH2]; intros Hh Hd.
  - reflexivity.
  - cbn [sort_items]. rewrite IH; [reflexivity| inversion Hh; assumption |].
    intros p q Ip Iq. apply Hd; right; assumption.
  - cbn [sort_items]. inversion Hh as [|? ? Hy Hh']; subst. inversion Hh' as [|? ? Hx Hl]; subst.
    apply insert_comm; [exact Hy | exact Hx | |].
    + intros A B. apply Hd; [left; reflexivity | right; left; reflexivity | exact A | exact B].
    + apply Forall_forall. intros q Hq. apply sort_In in Hq. rewrite Forall_forall in Hl. apply Hl. exact Hq.
  - rewrite IH1 by assumption. apply IH2.
    + eapply Permutation_Forall; eassumption.
    + intros p q Ip Iq. apply Hd; eapply Permutation_in; try (apply Permutation_sym; eassumption); assumption.
Qed.

Lemma key_eqb_refl_h k : hashable k = true -> key_eqb k k = true.
Proof. destruct k; cbn; intro H; try discriminate; [apply Z.eqb_refl | apply bytes_eqb_refl]. Qed.

Lemma key_eqb_sym a b : key_eqb a b = key_eqb b a.
Proof.
  destruct a, b; cbn; try reflexivity; [apply Z.eqb_sym|].
  destruct (bytes_eqb s s0) eqn:E.
  - apply bytes_eqb_eq in E. subst. symmetry. apply bytes_eqb_refl.
  - symmetry. apply bytes_eqb_neq. apply bytes_eqb_neq in E. congruence.
Qed.

Lemma keys_nodup_unique d : keys_nodup d -> forall p q, In p d -> In q d -> key_eqb (fst p) (fst q) = true -> p = q.
Proof.
  induction d as [|r d IH]; intros Hn p q Ip Iq E; [contradiction|].
  cbn [keys_nodup] in Hn. destruct Hn as [Hr Hn]. rewrite Forall_forall in Hr.
  destruct Ip as [->|Ip], Iq as [->|Iq].
  - reflexivity.
  - rewrite (Hr q Iq) in E. discriminate.
  - rewrite key_eqb_sym in E. rewrite (Hr p Ip) in E. discriminate.
  - apply IH; assumption.
Qed.

Theorem benc_dict_perm d d' :
  Permutation d d' -> keys_nodup d -> Forall (fun p => hashable (fst p) = true) d ->
  benc (BDict d) = benc (BDict d').
Proof.
  intros Hp Hn Hh. rewrite !benc_BDict_gen. f_equal. f_equal. f_equal. f_equal.
  apply sort_items_perm.
  - apply Permutation_map. exact Hp.
  - apply Forall_map. eapply Forall_impl; [|exact Hh]. intros [k x] H. exact H.
  - intros p q Ip Iq A B. apply in_map_iff in Ip as ([k1 x1] & <- & I1). apply in_map_iff in Iq as ([k2 x2] & <- & I2).
    cbn [enc_pair fst] in *. rewrite Forall_forall in Hh.
    pose proof (Hh _ I1) as H1. pose proof (Hh _ I2) as H2. cbn [fst] in H1, H2.
    assert (k1 = k2) by (apply key_leb_antisym; assumption). subst k2.
    assert (E : (k1, x1) = (k1, x2)).
    { apply (keys_nodup_unique d Hn); [exact I1 | exact I2 |]. cbn [fst]. apply key_eqb_refl_h. exact H1. }
    inversion E; subst. reflexivity.
Qed.

(* ------------------------------------------------------------------------------------------ *)
(* corollaries used in the property file                                                        *)
(* ------------------------------------------------------------------------------------------ *)

(* anything that does not start with 'd' is dropped, with the handler effect of a drop *)
Theorem non_dictionary_dropped
  (Routing Store Other Addr : Type)
  (process : node_state Routing Store Other Addr -> Addr -> rawmsg -> node_state Routing Store Other Addr)
  fuel st sender data :
  (forall rest, data <> c_d :: rest) ->
  let st' := datagram_received Routing Store Other Addr process fuel st sender data in
  routing _ _ _ _ st' = routing _ _ _ _ st /\ store _ _ _ _ st' = store _ _ _ _ st
  /\ other _ _ _ _ st' = other _ _ _ _ st /\ failures _ _ _ _ st' = sender :: failures _ _ _ _ st.
Proof.
  intro H. destruct (decode_datagram fuel data) as [m|e] eqn:E.
  - exfalso. destruct (accepted_first_byte fuel data m E) as [rest Hr]. exact (H rest Hr).
  - exact (garbage_dropped Routing Store Other Addr process fuel st sender data e E).
Qed.

(* ASCII text is valid UTF-8 (so the error round trip covers every ASCII text) *)
Lemma ascii_utf8 s : Forall (fun b => N_of_byte b <= 127) s -> utf8_valid s = true.
Proof.
  induction 1 as [|b r Hb Hr IH]; [reflexivity|].
  cbn [utf8_valid]. replace (N_of_byte b <=? 127) with true by (symmetry; apply N.leb_le; exact Hb). exact IH.
Qed.

(* the validation that fix 774587f replaced: only len() of the two ids was checked *)
Definition py_len_old (v : bval) : res N :=
  match v with
  | BInt _ => Err EType
  | BStr s => Ok (blen s)
  | BList l => Ok (N.of_nat (length l))
  | BDict d => Ok (N.of_nat (length d))
  end.
Definition check_ids_old (rpc node : bval) : option err :=
  match py_len_old rpc with
  | Err e => Some e
  | Ok n => if negb (n =? RPC_ID_LENGTH) then Some EValue
            else match py_len_old node with
                 | Err e => Some e
                 | Ok m => if negb (m =? HASH_LENGTH) then Some EValue else None
                 end
  end.

(* the old check let an rpc_id that is a LIST of 20 integers through (it then raised TypeError out of the
   handler); the repaired check rejects it *)
Lemma old_id_check_refuted :
  let rpc := BList (repeat (BInt 0) 20) in
  let node := BStr (repeat (byte_of_N 110) 48) in
  check_ids_old rpc node = None /\ check_ids rpc node = Err EValue.
Proof. vm_compute. split; reflexivity. Qed.
