(* C16 proofs, part (b): varint, flat wire fields, schema-directed trees. *)
From Coq Require Import NArith ZArith List Bool Lia PeanoNat.
From Coq.Strings Require Import Byte.
From LV Require Import Lib.Bytes Model.C16_Wire.
Import ListNotations.
Local Open Scope N_scope.

Ltac Zify.zify_post_hook ::= Z.to_euclidean_division_equations.

(* ---------- varint ---------- *)
Lemma pow128_succ k : 128 ^ N.of_nat (S k) = 128 * 128 ^ N.of_nat k.
Proof. rewrite Nat2N.inj_succ, N.pow_succ_r'. reflexivity. Qed.

Lemma varint_dec_step k b r : varint_dec (S k) (b :: r) =
  if N_of_byte b <? 128 then Some (N_of_byte b, r)
  else match varint_dec k r with
       | Some (hi, r') => Some ((N_of_byte b - 128) + 128 * hi, r')
       | None => None
       end.
Proof. reflexivity. Qed.

Lemma varint_dec_enc fuel : forall n rest, n < 128 ^ N.of_nat (S fuel) ->
  varint_dec (S fuel) (varint_enc fuel n ++ rest) = Some (n, rest).
Proof.
  assert (Small : forall k n rest, n < 128 -> varint_dec (S k) (byte_of_N n :: rest) = Some (n, rest)).
  { intros k n rest H. rewrite varint_dec_step. rewrite byte_of_N_small by lia.
    apply N.ltb_lt in H. rewrite H. reflexivity. }
  induction fuel as [|f IH]; intros n rest H.
  - rewrite pow128_succ in H. cbn [Nat2N.inj N.of_nat N.pow] in H. change (128 ^ 0) with 1 in H.
    cbn [varint_enc app]. rewrite N.mod_small by lia. apply Small. lia.
  - cbn [varint_enc]. destruct (n <? 128) eqn:E.
    + apply N.ltb_lt in E. cbn [app]. apply Small. exact E.
    + apply N.ltb_ge in E. cbn [app]. rewrite varint_dec_step.
      assert (Hm : n mod 128 < 128) by (apply N.mod_lt; lia).
      rewrite byte_of_N_small by lia.
      replace (128 + n mod 128 <? 128) with false by (symmetry; apply N.ltb_ge; lia).
      rewrite pow128_succ in H.
      rewrite IH.
      * f_equal. f_equal. generalize dependent (128 ^ N.of_nat (S f)). intros. lia.
      * generalize dependent (128 ^ N.of_nat (S f)). intros p Hp. apply N.div_lt_upper_bound; lia.
Qed.

Lemma pow128_10 : 128 ^ N.of_nat 10 = 1180591620717411303424.
Proof. vm_compute. reflexivity. Qed.

Lemma varint_roundtrip n rest : n < two64 -> varint_decode (varint_encode n ++ rest) = Some (n, rest).
Proof.
  intro H. unfold varint_decode, varint_encode. rewrite varint_dec_enc.
  - rewrite N.mod_small by exact H. reflexivity.
  - rewrite pow128_10. unfold two64 in H. lia.
Qed.

Lemma varint_enc_nonempty fuel n : exists b t, varint_enc fuel n = b :: t.
Proof. destruct fuel; cbn [varint_enc]; [|destruct (n <? 128)]; eexists; eexists; reflexivity. Qed.

Lemma varint_encode_nonempty n : exists b t, varint_encode n = b :: t.
Proof. apply varint_enc_nonempty. Qed.

(* canonical length: exactly the number of 7-bit groups of n (at least one) *)
Lemma varint_enc_length_le fuel : forall n k, (1 <= k)%nat -> n < 128 ^ N.of_nat k ->
  (length (varint_enc fuel n) <= k)%nat.
Proof.
  induction fuel as [|f IH]; intros n k Hk H; cbn [varint_enc].
  - simpl. lia.
  - destruct (n <? 128) eqn:E; [simpl; lia|]. apply N.ltb_ge in E. cbn [length].
    destruct k as [|k]; [lia|]. destruct k as [|k].
    + change (128 ^ N.of_nat 1) with 128 in H. lia.
    + apply le_n_S. apply IH; [lia|]. rewrite pow128_succ in H.
      generalize dependent (128 ^ N.of_nat (S k)). intros p Hp. apply N.div_lt_upper_bound; lia.
Qed.

Lemma varint_enc_length_gt fuel : forall n k, (k <= fuel)%nat -> 128 ^ N.of_nat k <= n ->
  (k < length (varint_enc fuel n))%nat.
Proof.
  induction fuel as [|f IH]; intros n k Hk H; cbn [varint_enc].
  - assert (k = 0)%nat by lia. subst. simpl. lia.
  - destruct k as [|k]; [destruct (n <? 128); simpl; lia|].
    rewrite pow128_succ in H.
    assert (P : 1 <= 128 ^ N.of_nat k).
    { assert (128 ^ N.of_nat k <> 0) by (apply N.pow_nonzero; lia). lia. }
    destruct (n <? 128) eqn:E.
    + apply N.ltb_lt in E. generalize dependent (128 ^ N.of_nat k). intros. lia.
    + cbn [length]. apply (proj1 (Nat.succ_lt_mono _ _)). apply IH; [lia|].
      generalize dependent (128 ^ N.of_nat k). intros p Hp Pp. apply N.div_le_lower_bound; lia.
Qed.

Lemma varint_length_le n k : (1 <= k)%nat -> n < 128 ^ N.of_nat k -> (length (varint_encode n) <= k)%nat.
Proof. apply varint_enc_length_le. Qed.

Lemma varint_length_gt n k : (k <= 9)%nat -> 128 ^ N.of_nat k <= n -> (k < length (varint_encode n))%nat.
Proof. apply varint_enc_length_gt. Qed.

Lemma varint_length_max n : (1 <= length (varint_encode n) <= 10)%nat.
Proof.
  unfold varint_encode. split.
  - destruct (varint_enc_nonempty 9 n) as [b [t ->]]. simpl. lia.
  - assert (G : forall fuel m, (length (varint_enc fuel m) <= S fuel)%nat).
    { induction fuel as [|f IH]; intro m; cbn [varint_enc]; [simpl; lia|].
      destruct (m <? 128); [simpl; lia|]. cbn [length]. apply le_n_S. apply IH. }
    apply G.
Qed.

(* ---------- typed views ---------- *)
Lemma zigzag_roundtrip z : zigzag_dec (zigzag_enc z) = z.
Proof.
  unfold zigzag_dec, zigzag_enc. destruct (z <? 0)%Z eqn:E.
  - apply Z.ltb_lt in E.
    assert (Hodd : N.even (Z.to_N (-2 * z - 1)) = false).
    { rewrite <- N.negb_odd. replace (Z.to_N (-2 * z - 1)) with (1 + 2 * Z.to_N (- z - 1)) by lia.
      rewrite N.odd_add_mul_2. reflexivity. }
    rewrite Hodd. lia.
  - apply Z.ltb_ge in E.
    assert (Hev : N.even (Z.to_N (2 * z)) = true).
    { replace (Z.to_N (2 * z)) with (2 * Z.to_N z) by lia. rewrite N.even_mul. reflexivity. }
    rewrite Hev. lia.
Qed.

Lemma zigzag_range z : (- 2 ^ 31 <= z < 2 ^ 31)%Z -> zigzag_enc z < 2 ^ 32.
Proof. unfold zigzag_enc. intro H. destruct (z <? 0)%Z eqn:E; [apply Z.ltb_lt in E | apply Z.ltb_ge in E]; lia. Qed.

Lemma int64_roundtrip z : (- 2 ^ 63 <= z < 2 ^ 63)%Z -> int64_dec (int64_enc z) = z /\ int64_enc z < two64.
Proof.
  intro H. unfold int64_dec, int64_enc, two64.
  change (Z.of_N 18446744073709551616) with (2 ^ 64)%Z.
  destruct (Z.to_N (z mod 2 ^ 64) <? 9223372036854775808) eqn:E;
    [apply N.ltb_lt in E | apply N.ltb_ge in E]; split; lia.
Qed.

(* ---------- flat fields ---------- *)
Lemma takeN_app b rest : takeN (N.of_nat (length b)) (b ++ rest) = Some (b, rest).
Proof.
  unfold takeN. rewrite app_length, Nat2N.inj_add.
  replace (N.of_nat (length b) <=? N.of_nat (length b) + N.of_nat (length rest)) with true
    by (symmetry; apply N.leb_le; lia).
  rewrite Nat2N.id. rewrite firstn_app_exact, skipn_app_exact. reflexivity.
Qed.

Lemma parse_value_ser v rest : wval_ok v = true -> parse_value (wtype v) (ser_value v ++ rest) = WOk (v, rest).
Proof.
  destruct v as [n | b | b | b]; cbn [wval_ok wtype ser_value]; intro H; unfold parse_value.
  - apply N.ltb_lt in H. change (0 =? 0) with true. cbn iota. rewrite varint_roundtrip by exact H. reflexivity.
  - apply Nat.eqb_eq in H. change (1 =? 0) with false. change (1 =? 1) with true. cbn iota.
    replace 8 with (N.of_nat (length b)) by (rewrite H; reflexivity). rewrite takeN_app. reflexivity.
  - apply N.ltb_lt in H. change (2 =? 0) with false. change (2 =? 1) with false. change (2 =? 2) with true. cbn iota.
    rewrite <- app_assoc. rewrite varint_roundtrip by exact H. rewrite takeN_app. reflexivity.
  - apply Nat.eqb_eq in H. change (5 =? 0) with false. change (5 =? 1) with false. change (5 =? 2) with false.
    change (5 =? 5) with true. cbn iota.
    replace 4 with (N.of_nat (length b)) by (rewrite H; reflexivity). rewrite takeN_app. reflexivity.
Qed.

Lemma wtype_lt v : wtype v < 8.
Proof. destruct v; cbn; lia. Qed.

Lemma parse_fields_nil fuel : parse_fields fuel [] = WOk [].
Proof. destruct fuel; reflexivity. Qed.

Lemma parse_fields_step f b t : parse_fields (S f) (b :: t) =
  match varint_decode (b :: t) with
  | None => WErr
  | Some (tag, r) =>
    if tag / 8 =? 0 then WErr
    else match parse_value (tag mod 8) r with
         | WOk (v, r') =>
             match parse_fields f r' with
             | WOk fs => WOk ((tag / 8, v) :: fs)
             | WErr => WErr
             | WGroup => WGroup
             end
         | WErr => WErr
         | WGroup => WGroup
         end
  end.
Proof. reflexivity. Qed.

Lemma ser_fields_cons f fs : ser_fields (f :: fs) = ser_field f ++ ser_fields fs.
Proof. reflexivity. Qed.

Lemma ser_field_length_pos f : (1 <= length (ser_field f))%nat.
Proof.
  unfold ser_field. destruct (varint_encode_nonempty (fst f * 8 + wtype (snd f))) as [b [t ->]].
  simpl. lia.
Qed.

Lemma parse_fields_ser fs : forall fuel, forallb field_ok fs = true ->
  (length (ser_fields fs) <= fuel)%nat -> parse_fields fuel (ser_fields fs) = WOk fs.
Proof.
  induction fs as [|[k v] fs IH]; intros fuel Hok Hlen.
  - apply parse_fields_nil.
  - cbn [forallb] in Hok. apply andb_true_iff in Hok as [Hf Hrest].
    unfold field_ok in Hf. cbn [fst snd] in Hf. apply andb_true_iff in Hf as [Hk Hv].
    unfold fno_ok in Hk. apply andb_true_iff in Hk as [Hk1 Hk2]. apply N.leb_le in Hk1. apply N.ltb_lt in Hk2.
    rewrite ser_fields_cons in *. rewrite app_length in Hlen.
    pose proof (ser_field_length_pos (k, v)) as Hpos.
    destruct fuel as [|fuel]; [lia|].
    unfold ser_field in *. cbn [fst snd] in *.
    pose proof (wtype_lt v) as Hw.
    destruct (varint_encode_nonempty (k * 8 + wtype v)) as [b [t Hbt]].
    assert (Hstep : forall X, parse_fields (S fuel) ((varint_encode (k * 8 + wtype v) ++ X)) =
      match varint_decode (varint_encode (k * 8 + wtype v) ++ X) with
      | None => WErr
      | Some (tag, r) =>
        if tag / 8 =? 0 then WErr
        else match parse_value (tag mod 8) r with
             | WOk (v, r') =>
                 match parse_fields fuel r' with
                 | WOk fs => WOk ((tag / 8, v) :: fs)
                 | WErr => WErr
                 | WGroup => WGroup
                 end
             | WErr => WErr
             | WGroup => WGroup
             end
      end).
    { intro X. rewrite Hbt. cbn [app]. apply parse_fields_step. }
    rewrite <- app_assoc. rewrite Hstep.
    rewrite varint_roundtrip by (unfold two64; lia).
    replace ((k * 8 + wtype v) / 8) with k by lia.
    replace ((k * 8 + wtype v) mod 8) with (wtype v) by lia.
    replace (k =? 0) with false by (symmetry; apply N.eqb_neq; lia).
    rewrite parse_value_ser by exact Hv.
    rewrite IH; [reflexivity | exact Hrest | lia].
Qed.

Lemma wire_roundtrip fs : forallb field_ok fs = true -> wire_parse (ser_fields fs) = WOk fs.
Proof. intro H. unfold wire_parse. apply parse_fields_ser; [exact H | lia]. Qed.

(* ---------- whatever the parser returns is canonical: parse . serialise . parse = parse ---------- *)
Lemma varint_decode_lt bs v r : varint_decode bs = Some (v, r) -> v < two64.
Proof.
  unfold varint_decode. destruct (varint_dec 10 bs) as [[v' r']|]; [|discriminate].
  intro H. inversion H. subst. apply N.mod_lt. unfold two64. lia.
Qed.

Lemma takeN_length n bs b r : takeN n bs = Some (b, r) -> N.of_nat (length b) = n.
Proof.
  unfold takeN. destruct (n <=? N.of_nat (length bs)) eqn:E; [|discriminate]. apply N.leb_le in E.
  intro H. inversion H. subst. rewrite firstn_length_le by lia. apply N2Nat.id.
Qed.

Lemma parse_value_ok wt bs v r : parse_value wt bs = WOk (v, r) -> wval_ok v = true /\ wtype v = wt.
Proof.
  unfold parse_value.
  destruct (wt =? 0) eqn:E0.
  { apply N.eqb_eq in E0. destruct (varint_decode bs) as [[x r']|] eqn:D; [|discriminate].
    intro H. inversion H. subst. cbn [wval_ok wtype]. split; [|reflexivity].
    apply N.ltb_lt. eapply varint_decode_lt. exact D. }
  destruct (wt =? 1) eqn:E1.
  { apply N.eqb_eq in E1. destruct (takeN 8 bs) as [[b r']|] eqn:T; [|discriminate].
    intro H. inversion H. subst. cbn [wval_ok wtype]. split; [|reflexivity].
    apply takeN_length in T. apply Nat.eqb_eq. lia. }
  destruct (wt =? 2) eqn:E2.
  { apply N.eqb_eq in E2. destruct (varint_decode bs) as [[l r0]|] eqn:D; [|discriminate].
    destruct (takeN l r0) as [[b r']|] eqn:T; [|discriminate].
    intro H. inversion H. subst. cbn [wval_ok wtype]. split; [|reflexivity].
    apply takeN_length in T. rewrite T. apply N.ltb_lt. eapply varint_decode_lt. exact D. }
  destruct (wt =? 5) eqn:E5.
  { apply N.eqb_eq in E5. destruct (takeN 4 bs) as [[b r']|] eqn:T; [|discriminate].
    intro H. inversion H. subst. cbn [wval_ok wtype]. split; [|reflexivity].
    apply takeN_length in T. apply Nat.eqb_eq. lia. }
  destruct ((wt =? 3) || (wt =? 4)); discriminate.
Qed.

Lemma parse_fields_ok fuel : forall bs fs, parse_fields fuel bs = WOk fs -> forallb field_ok fs = true.
Proof.
  induction fuel as [|f IH]; intros bs fs H.
  - destruct bs; cbn in H; [inversion H; reflexivity | discriminate].
  - destruct bs as [|b t]; [cbn in H; inversion H; reflexivity|].
    rewrite parse_fields_step in H.
    destruct (varint_decode (b :: t)) as [[tag r]|] eqn:D; [|discriminate].
    destruct (tag / 8 =? 0) eqn:Z; [discriminate|].
    destruct (parse_value (tag mod 8) r) as [[v r']| |] eqn:P; try discriminate.
    destruct (parse_fields f r') as [fs'| |] eqn:R; try discriminate.
    inversion H. subst. cbn [forallb]. rewrite (IH r' fs' R). rewrite andb_true_r.
    unfold field_ok, fno_ok. cbn [fst snd]. destruct (parse_value_ok _ _ _ _ P) as [Hv _]. rewrite Hv.
    apply N.eqb_neq in Z. apply varint_decode_lt in D. unfold two64 in D.
    rewrite andb_true_r. apply andb_true_iff. split; [apply N.leb_le | apply N.ltb_lt]; lia.
Qed.

Lemma wire_parse_canonical bs fs : wire_parse bs = WOk fs -> forallb field_ok fs = true.
Proof. apply parse_fields_ok. Qed.

Lemma wire_parse_normalises bs fs : wire_parse bs = WOk fs -> wire_parse (ser_fields fs) = WOk fs.
Proof. intro H. apply wire_roundtrip. eapply wire_parse_canonical. exact H. Qed.

(* ---------- trees ---------- *)
Definition lift (sch : schema) (d : nat) (m : N) (f : field) : wres tfield :=
  match snd f with
  | WVarint n => WOk (fst f, TVarint n)
  | WFix64 b => WOk (fst f, TFix64 b)
  | WFix32 b => WOk (fst f, TFix32 b)
  | WLen b =>
      match msg_of sch m (fst f) with
      | Some m' => match parse_tree sch d m' b with
                   | WOk t => WOk (fst f, TMsg t)
                   | WErr => WErr
                   | WGroup => WGroup
                   end
      | None => WOk (fst f, TBytes b)
      end
  end.

Lemma parse_tree_step sch d m bs : parse_tree sch (S d) m bs =
  match wire_parse bs with
  | WOk fs => wmap (lift sch d m) fs
  | WErr => WErr
  | WGroup => WGroup
  end.
Proof. reflexivity. Qed.

Lemma flatten_msg fs : flatten (TMsg fs) = WLen (ser_tree fs).
Proof. cbn [flatten]. unfold ser_tree, ser_fields. rewrite map_map. reflexivity. Qed.

Lemma tval_ok_msg sch m k fs : tval_ok sch m k (TMsg fs) =
  match msg_of sch m k with
  | Some m' => (N.of_nat (length (ser_tree fs)) <? two64) && tfields_ok sch m' fs
  | None => false
  end.
Proof. cbn [tval_ok]. unfold ser_tree, ser_fields, tfields_ok. rewrite map_map. reflexivity. Qed.

Lemma tdepth_msg fs : tdepth (TMsg fs) = fdepth fs.
Proof. reflexivity. Qed.

Lemma tval_ok_flatten sch m k v : tval_ok sch m k v = true -> wval_ok (flatten v) = true.
Proof.
  destruct v as [n | b | b | b | fs].
  - cbn. auto.
  - cbn. auto.
  - cbn. auto.
  - cbn [tval_ok flatten wval_ok]. intro H. apply andb_true_iff in H as [H _]. exact H.
  - rewrite tval_ok_msg, flatten_msg. cbn [wval_ok]. destruct (msg_of sch m k); [|discriminate].
    intro H. apply andb_true_iff in H as [H _]. exact H.
Qed.

Lemma tfields_ok_flat sch m fs : tfields_ok sch m fs = true -> forallb field_ok (map flatten_field fs) = true.
Proof.
  unfold tfields_ok. induction fs as [|[k v] fs IH]; [reflexivity|].
  cbn [forallb map fst snd]. intro H. apply andb_true_iff in H as [H1 H2]. apply andb_true_iff in H1 as [Hk Hv].
  apply andb_true_iff. split; [|apply IH; exact H2].
  unfold field_ok, flatten_field. cbn [fst snd]. rewrite Hk. cbn [andb]. eapply tval_ok_flatten. exact Hv.
Qed.

Lemma tree_roundtrip sch : forall d m fs, tfields_ok sch m fs = true -> (fdepth fs <= d)%nat ->
  parse_tree sch d m (ser_tree fs) = WOk fs.
Proof.
  induction d as [|d IHd]; intros m fs Hok Hd.
  - unfold fdepth in Hd. lia.
  - rewrite parse_tree_step. unfold ser_tree at 1. rewrite wire_roundtrip by (apply tfields_ok_flat with (sch := sch) (m := m); exact Hok).
    assert (Hdep : Forall (fun kv : tfield => (tdepth (snd kv) <= d)%nat) fs).
    { unfold fdepth in Hd. apply le_S_n in Hd. apply list_max_le in Hd.
      rewrite Forall_map in Hd. exact Hd. }
    clear Hd. unfold tfields_ok in Hok.
    induction fs as [|[k v] fs IHfs]; [reflexivity|].
    cbn [forallb fst snd] in Hok. apply andb_true_iff in Hok as [H1 H2]. apply andb_true_iff in H1 as [Hk Hv].
    inversion Hdep as [|x l Hdv Hdrest]; subst. cbn [snd] in Hdv.
    cbn [map wmap]. rewrite (IHfs H2 Hdrest).
    assert (Hl : lift sch d m (flatten_field (k, v)) = WOk (k, v)).
    { unfold flatten_field. cbn [fst snd]. destruct v as [n | b | b | b | fs'].
      - reflexivity.
      - reflexivity.
      - reflexivity.
      - unfold lift. cbn [flatten snd fst]. cbn [tval_ok] in Hv. apply andb_true_iff in Hv as [_ Hv].
        destruct (msg_of sch m k); [discriminate | reflexivity].
      - rewrite flatten_msg. unfold lift. cbn [snd fst]. rewrite tval_ok_msg in Hv.
        destruct (msg_of sch m k) as [m'|]; [|discriminate].
        apply andb_true_iff in Hv as [_ Hv]. rewrite tdepth_msg in Hdv.
        rewrite (IHd m' fs' Hv Hdv). reflexivity. }
    rewrite Hl. reflexivity.
Qed.
