(* C16 proofs, part (d): hex views. *)
From Coq Require Import NArith ZArith List Bool Lia.
From Coq.Strings Require Import Byte.
From LV Require Import Lib.Bytes Model.C16_Attrs.
Import ListNotations.
Local Open Scope N_scope.

Ltac Zify.zify_post_hook ::= Z.to_euclidean_division_equations.

Lemma hex_digit_code n : n < 16 -> N_of_byte (hex_digit n) = if n <? 10 then 48 + n else 87 + n.
Proof. intro H. unfold hex_digit. apply byte_of_N_small. destruct (n <? 10); lia. Qed.

Lemma hex_val_digit n : n < 16 -> hex_val (hex_digit n) = Some n.
Proof.
  intro H. unfold hex_val. rewrite (hex_digit_code n H). destruct (n <? 10) eqn:E.
  - apply N.ltb_lt in E.
    replace ((48 <=? 48 + n) && (48 + n <=? 57)) with true
      by (symmetry; apply andb_true_iff; split; apply N.leb_le; lia).
    f_equal. lia.
  - apply N.ltb_ge in E.
    replace ((48 <=? 87 + n) && (87 + n <=? 57)) with false
      by (symmetry; apply andb_false_iff; right; apply N.leb_gt; lia).
    replace ((97 <=? 87 + n) && (87 + n <=? 102)) with true
      by (symmetry; apply andb_true_iff; split; apply N.leb_le; lia).
    f_equal. lia.
Qed.

Lemma hex_digit_lower n : n < 16 -> is_lower_hex (hex_digit n) = true.
Proof.
  intro H. unfold is_lower_hex. rewrite (hex_digit_code n H). destruct (n <? 10) eqn:E.
  - apply N.ltb_lt in E. apply orb_true_iff. left. apply andb_true_iff; split; apply N.leb_le; lia.
  - apply N.ltb_ge in E. apply orb_true_iff. right. apply andb_true_iff; split; apply N.leb_le; lia.
Qed.

Lemma unhexlify_step h l r : unhexlify (h :: l :: r) =
  match hex_val h, hex_val l, unhexlify r with
  | Some a, Some b, Some t => Some (byte_of_N (16 * a + b) :: t)
  | _, _, _ => None
  end.
Proof. reflexivity. Qed.

Lemma unhexlify_hexlify bs : unhexlify (hexlify bs) = Some bs.
Proof.
  induction bs as [|b r IH]; [reflexivity|]. cbn [hexlify]. rewrite unhexlify_step.
  pose proof (N_of_byte_lt b) as Hb.
  rewrite hex_val_digit by (apply N.div_lt_upper_bound; lia).
  rewrite hex_val_digit by (apply N.mod_lt; lia).
  rewrite IH. f_equal. f_equal.
  replace (16 * (N_of_byte b / 16) + N_of_byte b mod 16) with (N_of_byte b) by lia.
  apply byte_of_N_of_byte.
Qed.

Lemma hexlify_length bs : length (hexlify bs) = (2 * length bs)%nat.
Proof. induction bs as [|b r IH]; [reflexivity|]. cbn [hexlify length]. rewrite IH. lia. Qed.

Lemma hexlify_lower bs : forallb is_lower_hex (hexlify bs) = true.
Proof.
  induction bs as [|b r IH]; [reflexivity|]. cbn [hexlify forallb]. pose proof (N_of_byte_lt b) as Hb.
  rewrite hex_digit_lower by (apply N.div_lt_upper_bound; lia).
  rewrite hex_digit_lower by (apply N.mod_lt; lia). exact IH.
Qed.

(* claim ids: setting an id from a hash and reading the hash back, for every hash *)
Lemma claim_id_roundtrip h : hash_of_claim_id (claim_id_of_hash h) = Some h.
Proof. unfold hash_of_claim_id, claim_id_of_hash. rewrite unhexlify_hexlify, rev_involutive. reflexivity. Qed.

(* the id of a 20-byte hash is 40 lower-case hex digits: a full claim id of the URL grammar *)
Lemma claim_id_shape h : length h = 20%nat ->
  length (claim_id_of_hash h) = 40%nat /\ forallb is_lower_hex (claim_id_of_hash h) = true.
Proof.
  intro H. unfold claim_id_of_hash. split; [rewrite hexlify_length, rev_length, H; reflexivity | apply hexlify_lower].
Qed.

Lemma hexlify_inj a b : hexlify a = hexlify b -> a = b.
Proof. intro H. pose proof (unhexlify_hexlify a) as Ha. rewrite H, unhexlify_hexlify in Ha. congruence. Qed.
