(* C11 proofs: the statements used by Props/C11.v *)
From Coq Require Import NArith ZArith List Bool Lia Permutation Arith.
From LV Require Import Model.C11 Model.C11Spec Proofs.C11Base Proofs.C11Join Proofs.C11Add Proofs.C11Sort
  Proofs.C11Fuel Proofs.C11Run Proofs.C11Find Proofs.C11Sys Proofs.C11More.
Import ListNotations.
Local Open Scope N_scope.

Lemma wellformed own ops :
  own < M -> Forall op_valid ops ->
  chain 0 (run own ops) M /\ Forall (bucket_ok own) (run own ops) /\
  NoDup (map pid (contacts (run own ops))) /\ NoDup (map pkey (contacts (run own ops))).
Proof. intros Ho V. destruct (run_wf own ops Ho V). auto. Qed.

Lemma covered_once own ops d :
  own < M -> Forall op_valid ops -> covering (run own ops) d = if d <? M then 1%nat else 0%nat.
Proof.
  intros Ho V. destruct (run_wf own ops Ho V) as [C _ _ _].
  rewrite (chain_covering 0 _ M d C). assert (E : (0 <=? d) = true) by (apply N.leb_le; lia). rewrite E. reflexivity.
Qed.

Lemma no_error own ops : own < M -> Forall op_valid ops -> Forall out_ok (outs own ops).
Proof. apply run_outs_ok. Qed.

Lemma fuel_suffices own ops p e fuel :
  own < M -> Forall op_valid ops -> pid p < M -> (386 <= fuel)%nat ->
  exists r probed t', add_peer true own e fuel (run own ops) p = (r, probed, t') /\ r <> ErrFuel /\ r <> ErrIndex /\
    ((forall q, probe e q <> PLocalFail) -> exists v, r = Ret v).
Proof.
  intros Ho V Hp Fu. pose proof (add_peer_facts own e fuel _ p (run_wf own ops Ho V) Ho Hp Fu) as H.
  destruct (add_peer true own e fuel (run own ops) p) as [[r pr] t'].
  destruct H as (_ & [(v & ->) | (-> & q & _ & Pq)] & _); do 3 eexists; (split; [reflexivity |]).
  - split; [discriminate |]. split; [discriminate | eauto].
  - split; [discriminate |]. split; [discriminate |]. intros NF. destruct (NF q Pq).
Qed.

Lemma closest_exact own ops key count sender :
  own < M -> Forall op_valid ops -> (0 <= count)%Z ->
  exact_closest own sender (run own ops) key (if (count =? 0)%Z then K else Z.to_nat count)
                (find_close own (run own ops) key count sender).
Proof. intros Ho V Hc. apply find_close_exact; [apply run_wf; assumption | exact Hc]. Qed.

Lemma live_contact_kept own ops p e x :
  own < M -> Forall op_valid ops -> pid p < M ->
  In x (contacts (run own ops)) -> pid x <> pid p -> pkey x <> pkey p -> probe e x <> PDead ->
  In x (contacts (fst (step true own (run own ops) (Add p e)))).
Proof.
  intros Ho V Hp Hx Ni Nk Pr. cbn [step].
  pose proof (add_peer_facts own e FUEL _ p (run_wf own ops Ho V) Ho Hp FUEL_ge) as H.
  destruct (add_peer true own e FUEL (run own ops) p) as [[r pr] t']. cbn.
  destruct H as (_ & _ & _ & _ & H & _). apply H; assumption.
Qed.

Lemma peer_eq_dec (a b : peer) : {a = b} + {a <> b}.
Proof.
  destruct (peer_eqb a b) eqn:E; [left; apply peer_eqb_spec; exact E |].
  right. intros H. apply peer_eqb_spec in H. congruence.
Qed.

Lemma displaced_only_if_probed own ops p e x :
  own < M -> Forall op_valid ops -> pid p < M ->
  In x (contacts (run own ops)) -> pid x <> pid p -> pkey x <> pkey p ->
  match step true own (run own ops) (Add p e) with
  | (t', OAdd _ probed) => In x (contacts t') \/ (In x probed /\ probe e x = PDead)
  | _ => False
  end.
Proof.
  intros Ho V Hp Hx Ni Nk. cbn [step].
  pose proof (add_peer_facts own e FUEL _ p (run_wf own ops Ho V) Ho Hp FUEL_ge) as H.
  destruct (add_peer true own e FUEL (run own ops) p) as [[r pr] t'].
  destruct H as (_ & _ & _ & _ & H1 & H2 & _).
  destruct (probe e x) eqn:Px; [left; apply H1; auto; congruence | | left; apply H1; auto; congruence].
  destruct (in_dec peer_eq_dec x pr) as [I | I].
  - right. auto.
  - left. apply H2; auto.
Qed.

Lemma closer_admitted own ops p e :
  own < M -> Forall op_valid ops -> pid p < M ->
  (at_least_as_close own (run own ops) p < K)%nat ->
  exists probed, snd (step true own (run own ops) (Add p e)) = OAdd (Ret true) probed /\
                 In p (contacts (fst (step true own (run own ops) (Add p e)))).
Proof.
  intros Ho V Hp Cn. cbn [step].
  pose proof (add_peer_facts own e FUEL _ p (run_wf own ops Ho V) Ho Hp FUEL_ge) as H.
  destruct (add_peer true own e FUEL (run own ops) p) as [[r pr] t']. cbn.
  destruct H as (_ & _ & H1 & H2 & _). specialize (H1 Cn). subst r. eauto.
Qed.

Lemma remove_exact own ops p :
  own < M -> Forall op_valid ops -> pid p < M ->
  snd (step true own (run own ops) (Remove p)) = ORemove true /\
  forall x, In x (contacts (fst (step true own (run own ops) (Remove p)))) <-> In x (contacts (run own ops)) /\ x <> p.
Proof.
  intros Ho V Hp. cbn [step].
  destruct (remove_peer_spec own _ p (run_wf own ops Ho V)) as (t' & E & W' & Sb & Np & Kp).
  { apply dist_lt_M; assumption. }
  rewrite E. cbn. split; [reflexivity |]. intros x. split.
  - intros Hx. split; [eapply sub_In; eauto | intros ->; contradiction].
  - intros (Hx & Nx). apply Kp; assumption.
Qed.

Lemma get_peer_exact own ops id :
  own < M -> Forall op_valid ops -> id < M ->
  exists r, get_peer own (run own ops) id = Some r /\
    match r with
    | Some q => In q (contacts (run own ops)) /\ pid q = id
    | None => forall q, In q (contacts (run own ops)) -> pid q <> id
    end.
Proof.
  intros Ho V Hi. pose proof (run_wf own ops Ho V) as W. pose proof W as [C OK _ _]. unfold get_peer.
  destruct (find_bucket_chain own id 0 _ M C) as (pre & b & post & F).
  { split; [lia | apply dist_lt_M; assumption]. }
  rewrite F. eexists. split; [reflexivity |].
  pose proof (find_bucket_some _ _ _ _ _ _ F) as (Et & _ & _).
  destruct (find (fun q => pid q =? id) (bpeers b)) as [q |] eqn:Fd.
  - apply find_some in Fd. destruct Fd as (Hq & Eq). apply N.eqb_eq in Eq. split; [| exact Eq].
    rewrite Et, contacts_mid. apply in_or_app. right. apply in_or_app. left. exact Hq.
  - intros q Hq Eq. pose proof (in_contacts_found own _ id pre b post q C OK F Hq Eq) as Hb.
    pose proof (find_none _ _ Fd q Hb) as Hn. cbn in Hn. apply N.eqb_neq in Hn. contradiction.
Qed.

Lemma sys_wellformed own sops :
  own < M -> Forall sop_valid sops ->
  chain 0 (s_tab (sys_run own sops)) M /\ Forall (bucket_ok own) (s_tab (sys_run own sops)) /\
  NoDup (map pid (contacts (s_tab (sys_run own sops)))) /\ NoDup (map pkey (contacts (s_tab (sys_run own sops)))).
Proof. intros Ho V. destruct (pm_refines own sops V) as (ops & Vo & -> & _). apply wellformed; assumption. Qed.

(* reached only through the protocol, the table never keeps an empty bucket among several: a failed local send of the
   probe no longer leaves add_peer as an exception *)
Lemma sys_no_empty_bucket own sops :
  own < M -> Forall sop_valid sops -> Forall sop_proto sops ->
  (length (s_tab (sys_run own sops)) <= 1)%nat \/ Forall (fun b => bpeers b <> []) (s_tab (sys_run own sops)).
Proof.
  intros Ho V P. destruct (pm_refines own sops V) as (ops & Vo & -> & NF). apply no_empty_bucket; auto.
Qed.

(* a contact handed to KademliaProtocol.add_peer is still queued or has been offered to the table *)
Lemma reported_never_lost own sops p :
  pid p <> own -> In (SReport p) sops ->
  In p (s_pending (sys_run own sops)) \/ exists e, In (Add p e) (compile own sys_init sops).
Proof. intros Np H. unfold sys_run. apply offered_or_pending; [exact Np | right; exact H]. Qed.

(* ... and when routing_table_task pops it while it is closer than the K-th closest known contact, it is admitted *)
Lemma queued_closer_admitted own sops p pr w :
  own < M -> Forall sop_valid sops -> pid p < M ->
  In p (s_pending (sys_run own sops)) ->
  (at_least_as_close own (s_tab (sys_run own sops)) p < K)%nat ->
  In p (contacts (s_tab (fst (sys_step true own (sys_run own sops) (SDrainPick p pr w))))).
Proof.
  intros Ho V Hp Pend Cn. rewrite sys_step_tab. cbn [table_op].
  assert (E : existsb (peer_eqb p) (s_pending (sys_run own sops)) = true).
  { apply existsb_exists. exists p. split; [exact Pend | apply peer_eqb_refl]. }
  rewrite E. destruct (pm_refines own sops V) as (ops & Vo & Et & _). rewrite Et in *.
  destruct (closer_admitted own ops p (env_of_pm (s_pm (sys_run own sops)) (s_now (sys_run own sops)) (proto_probe pr))
              Ho Vo Hp Cn) as (_ & _ & H). exact H.
Qed.

Lemma rpc_exact own ops key requester :
  own < M -> Forall op_valid ops ->
  exact_closest own (Some requester) (run own ops) key K (rpc_find_node own (run own ops) key requester) /\
  exact_closest own (Some requester) (run own ops) key K (rpc_find_value_contacts own (run own ops) key requester).
Proof.
  intros Ho V. pose proof (closest_exact own ops key 0%Z (Some requester) Ho V (Z.le_refl 0)) as E.
  cbn [Z.eqb] in E.
  assert (L : (length (find_close own (run own ops) key 0 (Some requester)) <= K)%nat).
  { destruct E as (_ & _ & _ & cands & _ & _ & ->). apply Nat.le_min_l. }
  assert (E1 : rpc_find_node own (run own ops) key requester = find_close own (run own ops) key 0 (Some requester)).
  { unfold rpc_find_node. apply firstn_all2. unfold K in *. lia. }
  assert (E2 : rpc_find_value_contacts own (run own ops) key requester = find_close own (run own ops) key 0 (Some requester)).
  { unfold rpc_find_value_contacts. rewrite E1. apply firstn_all2. exact L. }
  rewrite E1, E2. split; exact E.
Qed.

(* ---------- the old _join_buckets (range_max = midpoint - 1) ---------- *)
Definition env0 : env := mkEnv (fun _ => false) (fun _ => Stale) (fun _ => PReply).
Definition pk (id n : N) : peer := mkPeer id (184549377 + n) 4444.
Definition gap_ops : list op :=
  [Add (pk 1 1) env0; Add (pk 2 2) env0; Add (pk 3 3) env0; Add (pk 4 4) env0;
   Add (pk (2 ^ 382 + 5) 5) env0;
   Add (pk (2 ^ 383 + 1) 6) env0; Add (pk (2 ^ 383 + 2) 7) env0; Add (pk (2 ^ 383 + 3) 8) env0;
   Add (pk (2 ^ 383 + 9) 9) env0;
   Add (pk 10 10) env0; Add (pk 11 11) env0; Add (pk 12 12) env0; Add (pk 20 13) env0;
   Remove (pk (2 ^ 382 + 5) 5)].
Definition gap_d : N := 2 ^ 382 + 2 ^ 381 - 1.

Lemma gap_ops_valid : Forall op_valid gap_ops.
Proof. unfold gap_ops. repeat constructor. Qed.

Lemma join_gap_refuted :
  let t := fst (run_from false 0 init gap_ops) in
  Forall op_valid gap_ops /\ gap_d < M /\
  covering t gap_d = 0%nat /\
  snd (step false 0 t (Add (pk gap_d 14) env0)) = OAdd ErrIndex [] /\
  covering (run 0 gap_ops) gap_d = 1%nat /\
  snd (step true 0 (run 0 gap_ops) (Add (pk gap_d 14) env0)) = OAdd (Ret true) [].
Proof.
  cbv zeta. split; [exact gap_ops_valid |]. split; [reflexivity |].
  split; [vm_compute; reflexivity |]. split; [vm_compute; reflexivity |].
  split; vm_compute; reflexivity.
Qed.
