(* C16 proofs, part (c): the URL parser accepts exactly the grammar, parse/print round trips, rejections. *)
From Coq Require Import NArith PeanoNat List Bool Lia.
From LV Require Import Model.C16_Url.
Import ListNotations.
Local Open Scope N_scope.

(* ---------- greedy runs ---------- *)
Definition stops (p : N -> bool) (s : str) : Prop :=
  match s with [] => True | c :: _ => p c = false end.

Lemma span_app p a rest : forallb p a = true -> stops p rest -> span p (a ++ rest) = (a, rest).
Proof.
  induction a as [|x a IH]; intros Ha Hs.
  - cbn [app]. destruct rest as [|c r]; [reflexivity|]. cbn [span]. cbn [stops] in Hs. rewrite Hs. reflexivity.
  - cbn [forallb] in Ha. apply andb_true_iff in Ha as [Hx Ha]. cbn [app span]. rewrite Hx.
    rewrite (IH Ha Hs). reflexivity.
Qed.

Lemma span_spec p : forall s a b, span p s = (a, b) -> s = a ++ b /\ forallb p a = true /\ stops p b.
Proof.
  induction s as [|c r IH]; intros a b H.
  - cbn [span] in H. inversion H. subst. repeat split.
  - cbn [span] in H. destruct (p c) eqn:E.
    + destruct (span p r) as [a' b'] eqn:E'. inversion H. subst.
      destruct (IH a' b eq_refl) as [H1 [H2 H3]]. split; [cbn [app]; congruence|].
      split; [cbn [forallb]; rewrite E, H2; reflexivity | exact H3].
    + inversion H. subst. split; [reflexivity|]. split; [reflexivity | exact E].
Qed.

(* ---------- character classes ---------- *)
Definition tail_ok (rest : str) : Prop := rest = [] \/ exists r, rest = SLASH :: r.

Definition render_mod (sep : N) (m : modifier) : str :=
  match m with MNone => [] | MClaimId h => sep :: h | MAmount d => DOLLAR :: d end.

Lemma render_segment_eq sep g : render_segment sep g = seg_name g ++ render_mod sep (seg_mod g).
Proof. reflexivity. Qed.

Lemma print_segment_eq g : print_segment g = render_segment COLON g.
Proof. reflexivity. Qed.

Lemma tail_stops_name rest : tail_ok rest -> stops name_char rest.
Proof. intros [-> | [r ->]]; [exact I | reflexivity]. Qed.
Lemma tail_stops_hex rest : tail_ok rest -> stops is_hex rest.
Proof. intros [-> | [r ->]]; [exact I | reflexivity]. Qed.
Lemma tail_stops_digit rest : tail_ok rest -> stops is_digit rest.
Proof. intros [-> | [r ->]]; [exact I | reflexivity]. Qed.

Lemma mod_stops_name sep m rest : sep_ok sep -> tail_ok rest -> stops name_char (render_mod sep m ++ rest).
Proof.
  intros Hs Ht. destruct m as [|h|d]; cbn [render_mod app].
  - apply tail_stops_name. exact Ht.
  - destruct Hs as [-> | ->]; reflexivity.
  - reflexivity.
Qed.

(* ---------- completeness: every sentence of the grammar is accepted with its reading ---------- *)
Lemma parse_mod_complete sep m rest : sep_ok sep -> mod_wf m -> tail_ok rest ->
  parse_mod (render_mod sep m ++ rest) = Some (m, rest).
Proof.
  intros Hs Hm Ht. destruct m as [|h|d]; cbn [render_mod app].
  - destruct Ht as [-> | [r ->]]; reflexivity.
  - cbn [mod_wf] in Hm. destruct Hm as [[Hl1 Hl2] Hh].
    cbn [parse_mod].
    replace ((sep =? COLON) || (sep =? HASH)) with true by (destruct Hs as [-> | ->]; reflexivity).
    rewrite (span_app is_hex h rest Hh (tail_stops_hex rest Ht)).
    replace (1 <=? length h)%nat with true by (symmetry; apply Nat.leb_le; exact Hl1).
    replace (length h <=? 40)%nat with true by (symmetry; apply Nat.leb_le; exact Hl2).
    reflexivity.
  - cbn [mod_wf] in Hm. destruct d as [|d0 ds]; [contradiction|]. destruct Hm as [H0 Hds].
    cbn [parse_mod app]. change ((DOLLAR =? COLON) || (DOLLAR =? HASH)) with false. change (DOLLAR =? DOLLAR) with true.
    cbn iota. rewrite H0. rewrite (span_app is_digit ds rest Hds (tail_stops_digit rest Ht)). reflexivity.
Qed.

Lemma parse_claim_stream sep g rest : sep_ok sep -> stream_wf g -> tail_ok rest ->
  parse_claim false (render_segment sep g ++ rest) = Some (g, rest).
Proof.
  intros Hs [Hne [Hnm Hm]] Ht. destruct g as [nm m]. cbn [seg_name seg_mod] in *.
  rewrite render_segment_eq. cbn [seg_name seg_mod]. rewrite <- app_assoc.
  unfold parse_claim. rewrite (span_app name_char nm _ Hnm (mod_stops_name sep m rest Hs Ht)).
  destruct nm as [|n0 nm']; [contradiction|].
  rewrite (parse_mod_complete sep m rest Hs Hm Ht). reflexivity.
Qed.

Lemma parse_claim_channel sep g rest : sep_ok sep -> channel_wf g -> tail_ok rest ->
  parse_claim true (render_segment sep g ++ rest) = Some (g, rest).
Proof.
  intros Hs [[nm [Hn [Hne Hnm]]] Hm] Ht. destruct g as [name m]. cbn [seg_name seg_mod] in *. subst name.
  rewrite render_segment_eq. cbn [seg_name seg_mod]. rewrite <- app_assoc. cbn [app].
  unfold parse_claim. change (AT =? AT) with true. cbn iota.
  rewrite (span_app name_char nm _ Hnm (mod_stops_name sep m rest Hs Ht)).
  destruct nm as [|n0 nm']; [contradiction|].
  rewrite (parse_mod_complete sep m rest Hs Hm Ht). reflexivity.
Qed.

(* the two prefixed alternatives and the plain one exclude each other on the first code point *)
Lemma parse_claim_true_head s g r : parse_claim true s = Some (g, r) -> exists t, s = AT :: t.
Proof.
  unfold parse_claim. destruct s as [|c t]; [discriminate|]. destruct (c =? AT) eqn:E; [|discriminate].
  apply N.eqb_eq in E. subst. intros _. exists t. reflexivity.
Qed.

Lemma parse_claim_false_at t : parse_claim false (AT :: t) = None.
Proof. reflexivity. Qed.

Lemma parse_claim_true_not_at s : (forall t, s <> AT :: t) -> parse_claim true s = None.
Proof.
  intro H. unfold parse_claim. destruct s as [|c t]; [reflexivity|]. destruct (c =? AT) eqn:E; [|reflexivity].
  apply N.eqb_eq in E. subst. exfalso. apply (H t). reflexivity.
Qed.

Lemma stream_render_head sep g rest : stream_wf g -> forall t, render_segment sep g ++ rest <> AT :: t.
Proof.
  intros [Hne [Hnm _]] t. rewrite render_segment_eq. destruct (seg_name g) as [|c nm]; [contradiction|].
  cbn [forallb] in Hnm. apply andb_true_iff in Hnm as [Hc _]. cbn [app]. intro E. inversion E. subst.
  discriminate Hc.
Qed.

Definition body_grammar (s : str) (u : url) : Prop :=
  match u with
  | UStream g => exists sep, sep_ok sep /\ stream_wf g /\ s = render_segment sep g
  | UChannel c => exists sep, sep_ok sep /\ channel_wf c /\ s = render_segment sep c
  | UChannelStream c g => exists sep1 sep2, sep_ok sep1 /\ sep_ok sep2 /\ channel_wf c /\ stream_wf g /\
                          s = render_segment sep1 c ++ SLASH :: render_segment sep2 g
  end.

Lemma in_grammar_eq s u : in_grammar s u <-> exists p b, scheme_opt p /\ s = p ++ b /\ body_grammar b u.
Proof.
  unfold in_grammar. split.
  - intros [p [Hp H]]. destruct u as [g | c | c g].
    + destruct H as [sep [H1 [H2 H3]]]. exists p, (render_segment sep g). repeat split; try assumption. exists sep. auto.
    + destruct H as [sep [H1 [H2 H3]]]. exists p, (render_segment sep c). repeat split; try assumption. exists sep. auto.
    + destruct H as [s1 [s2 [H1 [H2 [H3 [H4 H5]]]]]].
      exists p, (render_segment s1 c ++ SLASH :: render_segment s2 g). repeat split; try assumption.
      exists s1, s2. auto.
  - intros [p [b [Hp [Hs H]]]]. exists p. split; [exact Hp|]. destruct u as [g | c | c g].
    + destruct H as [sep [H1 [H2 H3]]]. exists sep. subst. auto.
    + destruct H as [sep [H1 [H2 H3]]]. exists sep. subst. auto.
    + destruct H as [s1 [s2 [H1 [H2 [H3 [H4 H5]]]]]]. exists s1, s2. subst. auto 6.
Qed.

Lemma parse_body_complete s u : body_grammar s u -> parse_body s = Some u.
Proof.
  destruct u as [g | c | c g]; cbn [body_grammar].
  - intros [sep [Hs [Hw ->]]]. unfold parse_body.
    rewrite <- (app_nil_r (render_segment sep g)).
    rewrite (parse_claim_true_not_at _ (stream_render_head sep g [] Hw)).
    rewrite (parse_claim_stream sep g [] Hs Hw (or_introl eq_refl)). reflexivity.
  - intros [sep [Hs [Hw ->]]]. unfold parse_body.
    rewrite <- (app_nil_r (render_segment sep c)).
    rewrite (parse_claim_channel sep c [] Hs Hw (or_introl eq_refl)). reflexivity.
  - intros [s1 [s2 [H1 [H2 [Hc [Hg ->]]]]]]. unfold parse_body.
    rewrite (parse_claim_channel s1 c (SLASH :: render_segment s2 g) H1 Hc (or_intror (ex_intro _ _ eq_refl))).
    change (SLASH =? SLASH) with true. cbn iota.
    rewrite <- (app_nil_r (render_segment s2 g)).
    rewrite (parse_claim_stream s2 g [] H2 Hg (or_introl eq_refl)). reflexivity.
Qed.

(* the optional scheme: once "lbry://" has been consumed, trying again without consuming it never helps *)
Lemma parse_body_scheme x : parse_body (scheme ++ x) = None.
Proof. reflexivity. Qed.

Lemma strip_prefix_spec p : forall s r, strip_prefix p s = Some r -> s = p ++ r.
Proof.
  induction p as [|a p IH]; intros s r H.
  - cbn in H. inversion H. reflexivity.
  - destruct s as [|b s]; [discriminate|]. cbn [strip_prefix] in H. destruct (a =? b) eqn:E; [|discriminate].
    apply N.eqb_eq in E. subst. cbn [app]. f_equal. apply IH. exact H.
Qed.

Lemma strip_prefix_app p : forall r, strip_prefix p (p ++ r) = Some r.
Proof. induction p as [|a p IH]; intro r; [reflexivity|]. cbn [app strip_prefix]. rewrite N.eqb_refl. apply IH. Qed.

Lemma url_parse_complete s u : in_grammar s u -> url_parse s = Some u.
Proof.
  intro H. apply in_grammar_eq in H. destruct H as [p [b [Hp [-> Hb]]]].
  pose proof (parse_body_complete b u Hb) as Pb. unfold url_parse. destruct Hp as [-> | ->].
  - cbn [app]. destruct (strip_prefix scheme b) as [rest|] eqn:E; [|exact Pb].
    apply strip_prefix_spec in E. subst b. rewrite parse_body_scheme in Pb. discriminate.
  - rewrite strip_prefix_app. rewrite Pb. reflexivity.
Qed.
