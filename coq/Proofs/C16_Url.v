(* C16 proofs, part (c): the URL parser accepts exactly the grammar, parse/print round trips, rejections. *)
From Coq Require Import NArith PeanoNat List Bool Lia.
From LV Require Import Model.C16_Url.
Import ListNotations.
Local Open Scope N_scope.

(* ---------- greedy runs ---------- *)
Definition stops (p : N -> bool) (s : str) : Prop :=
  match s with [] => True | c :: _ => p c = false end.

Lemma span_app p a rest : forallb p a = true -> stops p rest -> span p (a ++ rest) = (a, rest).
Proof.
  induction a as [|x a IH]; intros Ha Hs.
  - cbn [app]. destruct rest as [|c r]; [reflexivity|]. cbn [span]. cbn [stops] in Hs. rewrite Hs. reflexivity.
  - cbn [forallb] in Ha. apply andb_true_iff in Ha as [Hx Ha]. cbn [app span]. rewrite Hx.
    rewrite (IH Ha Hs). reflexivity.
Qed.

Lemma span_spec p : forall s a b, span p s = (a, b) -> s = a ++ b /\ forallb p a = true /\ stops p b.
Proof.
  induction s as [|c r IH]; intros a b H.
  - cbn [span] in H. inversion H. subst. repeat split.
  - cbn [span] in H. destruct (p c) eqn:E.
    + destruct (span p r) as [a' b'] eqn:E'. inversion H. subst.
      destruct (IH a' b eq_refl) as [H1 [H2 H3]]. split; [cbn [app]; congruence|].
      split; [cbn [forallb]; rewrite E, H2; reflexivity | exact H3].
    + inversion H. subst. split; [reflexivity|]. split; [reflexivity | exact E].
Qed.

(* ---------- character classes ---------- *)
Definition tail_ok (rest : str) : Prop := rest = [] \/ exists r, rest = SLASH :: r.

Definition render_mod (sep : N) (m : modifier) : str :=
  match m with MNone => [] | MClaimId h => sep :: h | MAmount d => DOLLAR :: d end.

Lemma render_segment_eq sep g : render_segment sep g = seg_name g ++ render_mod sep (seg_mod g).
Proof. reflexivity. Qed.

Lemma print_segment_eq g : print_segment g = render_segment COLON g.
Proof. reflexivity. Qed.

Lemma tail_stops_name rest : tail_ok rest -> stops name_char rest.
Proof. intros [-> | [r ->]]; [exact I | reflexivity]. Qed.
Lemma tail_stops_hex rest : tail_ok rest -> stops is_hex rest.
Proof. intros [-> | [r ->]]; [exact I | reflexivity]. Qed.
Lemma tail_stops_digit rest : tail_ok rest -> stops is_digit rest.
Proof. intros [-> | [r ->]]; [exact I | reflexivity]. Qed.

Lemma mod_stops_name sep m rest : sep_ok sep -> tail_ok rest -> stops name_char (render_mod sep m ++ rest).
Proof.
  intros Hs Ht. destruct m as [|h|d]; cbn [render_mod app].
  - apply tail_stops_name. exact Ht.
  - destruct Hs as [-> | ->]; reflexivity.
  - reflexivity.
Qed.

(* ---------- completeness: every sentence of the grammar is accepted with its reading ---------- *)
Lemma parse_mod_complete sep m rest : sep_ok sep -> mod_wf m -> tail_ok rest ->
  parse_mod (render_mod sep m ++ rest) = Some (m, rest).
Proof.
  intros Hs Hm Ht. destruct m as [|h|d]; cbn [render_mod app].
  - destruct Ht as [-> | [r ->]]; reflexivity.
  - cbn [mod_wf] in Hm. destruct Hm as [[Hl1 Hl2] Hh].
    cbn [parse_mod].
    replace ((sep =? COLON) || (sep =? HASH)) with true by (destruct Hs as [-> | ->]; reflexivity).
    rewrite (span_app is_hex h rest Hh (tail_stops_hex rest Ht)).
    replace (1 <=? length h)%nat with true by (symmetry; apply Nat.leb_le; exact Hl1).
    replace (length h <=? 40)%nat with true by (symmetry; apply Nat.leb_le; exact Hl2).
    reflexivity.
  - cbn [mod_wf] in Hm. destruct d as [|d0 ds]; [contradiction|]. destruct Hm as [H0 Hds].
    cbn [parse_mod app]. change ((DOLLAR =? COLON) || (DOLLAR =? HASH)) with false. change (DOLLAR =? DOLLAR) with true.
    cbn iota. rewrite H0. rewrite (span_app is_digit ds rest Hds (tail_stops_digit rest Ht)). reflexivity.
Qed.

Lemma parse_claim_stream sep g rest : sep_ok sep -> stream_wf g -> tail_ok rest ->
  parse_claim false (render_segment sep g ++ rest) = Some (g, rest).
Proof.
  intros Hs [Hne [Hnm Hm]] Ht. destruct g as [nm m]. cbn [seg_name seg_mod] in *.
  rewrite render_segment_eq. cbn [seg_name seg_mod]. rewrite <- app_assoc.
  unfold parse_claim. rewrite (span_app name_char nm _ Hnm (mod_stops_name sep m rest Hs Ht)).
  destruct nm as [|n0 nm']; [contradiction|].
  rewrite (parse_mod_complete sep m rest Hs Hm Ht). reflexivity.
Qed.

Lemma parse_claim_channel sep g rest : sep_ok sep -> channel_wf g -> tail_ok rest ->
  parse_claim true (render_segment sep g ++ rest) = Some (g, rest).
Proof.
  intros Hs [[nm [Hn [Hne Hnm]]] Hm] Ht. destruct g as [name m]. cbn [seg_name seg_mod] in *. subst name.
  rewrite render_segment_eq. cbn [seg_name seg_mod]. rewrite <- app_assoc. cbn [app].
  unfold parse_claim. change (AT =? AT) with true. cbn iota.
  rewrite (span_app name_char nm _ Hnm (mod_stops_name sep m rest Hs Ht)).
  destruct nm as [|n0 nm']; [contradiction|].
  rewrite (parse_mod_complete sep m rest Hs Hm Ht). reflexivity.
Qed.

(* the two prefixed alternatives and the plain one exclude each other on the first code point *)
Lemma parse_claim_true_head s g r : parse_claim true s = Some (g, r) -> exists t, s = AT :: t.
Proof.
  unfold parse_claim. destruct s as [|c t]; [discriminate|]. destruct (c =? AT) eqn:E; [|discriminate].
  apply N.eqb_eq in E. subst. intros _. exists t. reflexivity.
Qed.

Lemma parse_claim_false_at t : parse_claim false (AT :: t) = None.
Proof. reflexivity. Qed.

Lemma parse_claim_true_not_at s : (forall t, s <> AT :: t) -> parse_claim true s = None.
Proof.
  intro H. unfold parse_claim. destruct s as [|c t]; [reflexivity|]. destruct (c =? AT) eqn:E; [|reflexivity].
  apply N.eqb_eq in E. subst. exfalso. apply (H t). reflexivity.
Qed.

Lemma stream_render_head sep g rest : stream_wf g -> forall t, render_segment sep g ++ rest <> AT :: t.
Proof.
  intros [Hne [Hnm _]] t. rewrite render_segment_eq. destruct (seg_name g) as [|c nm]; [contradiction|].
  cbn [forallb] in Hnm. apply andb_true_iff in Hnm as [Hc _]. cbn [app]. intro E. inversion E. subst.
  discriminate Hc.
Qed.

Definition body_grammar (s : str) (u : url) : Prop :=
  match u with
  | UStream g => exists sep, sep_ok sep /\ stream_wf g /\ s = render_segment sep g
  | UChannel c => exists sep, sep_ok sep /\ channel_wf c /\ s = render_segment sep c
  | UChannelStream c g => exists sep1 sep2, sep_ok sep1 /\ sep_ok sep2 /\ channel_wf c /\ stream_wf g /\
                          s = render_segment sep1 c ++ SLASH :: render_segment sep2 g
  end.

Lemma in_grammar_eq s u : in_grammar s u <-> exists p b, scheme_opt p /\ s = p ++ b /\ body_grammar b u.
Proof.
  unfold in_grammar. split.
  - intros [p [Hp H]]. destruct u as [g | c | c g].
    + destruct H as [sep [H1 [H2 H3]]]. exists p, (render_segment sep g). repeat split; try assumption. exists sep. auto.
    + destruct H as [sep [H1 [H2 H3]]]. exists p, (render_segment sep c). repeat split; try assumption. exists sep. auto.
    + destruct H as [s1 [s2 [H1 [H2 [H3 [H4 H5]]]]]].
      exists p, (render_segment s1 c ++ SLASH :: render_segment s2 g). repeat split; try assumption.
      exists s1, s2. auto.
  - intros [p [b [Hp [Hs H]]]]. exists p. split; [exact Hp|]. destruct u as [g | c | c g].
    + destruct H as [sep [H1 [H2 H3]]]. exists sep. subst. auto.
    + destruct H as [sep [H1 [H2 H3]]]. exists sep. subst. auto.
    + destruct H as [s1 [s2 [H1 [H2 [H3 [H4 H5]]]]]]. exists s1, s2. subst. auto 6.
Qed.

Lemma parse_body_complete s u : body_grammar s u -> parse_body s = Some u.
Proof.
  destruct u as [g | c | c g]; cbn [body_grammar].
  - intros [sep [Hs [Hw ->]]]. unfold parse_body.
    rewrite <- (app_nil_r (render_segment sep g)).
    rewrite (parse_claim_true_not_at _ (stream_render_head sep g [] Hw)).
    rewrite (parse_claim_stream sep g [] Hs Hw (or_introl eq_refl)). reflexivity.
  - intros [sep [Hs [Hw ->]]]. unfold parse_body.
    rewrite <- (app_nil_r (render_segment sep c)).
    rewrite (parse_claim_channel sep c [] Hs Hw (or_introl eq_refl)). reflexivity.
  - intros [s1 [s2 [H1 [H2 [Hc [Hg ->]]]]]]. unfold parse_body.
    rewrite (parse_claim_channel s1 c (SLASH :: render_segment s2 g) H1 Hc (or_intror (ex_intro _ _ eq_refl))).
    change (SLASH =? SLASH) with true. cbn iota.
    rewrite <- (app_nil_r (render_segment s2 g)).
    rewrite (parse_claim_stream s2 g [] H2 Hg (or_introl eq_refl)). reflexivity.
Qed.

(* the optional scheme: once "lbry://" has been consumed, trying again without consuming it never helps *)
Lemma parse_body_scheme x : parse_body (scheme ++ x) = None.
Proof. reflexivity. Qed.

Lemma strip_prefix_spec p : forall s r, strip_prefix p s = Some r -> s = p ++ r.
Proof.
  induction p as [|a p IH]; intros s r H.
  - cbn in H. inversion H. reflexivity.
  - destruct s as [|b s]; [discriminate|]. cbn [strip_prefix] in H. destruct (a =? b) eqn:E; [|discriminate].
    apply N.eqb_eq in E. subst. cbn [app]. f_equal. apply IH. exact H.
Qed.

Lemma strip_prefix_app p : forall r, strip_prefix p (p ++ r) = Some r.
Proof. induction p as [|a p IH]; intro r; [reflexivity|]. cbn [app strip_prefix]. rewrite N.eqb_refl. apply IH. Qed.

Lemma url_parse_complete s u : in_grammar s u -> url_parse s = Some u.
Proof.
  intro H. apply in_grammar_eq in H. destruct H as [p [b [Hp [-> Hb]]]].
  pose proof (parse_body_complete b u Hb) as Pb. unfold url_parse. destruct Hp as [-> | ->].
  - cbn [app]. destruct (strip_prefix scheme b) as [rest|] eqn:E; [|exact Pb].
    apply strip_prefix_spec in E. subst b. rewrite parse_body_scheme in Pb. discriminate.
  - rewrite strip_prefix_app. rewrite Pb. reflexivity.
Qed.

(* ---------- soundness: whatever is accepted is a sentence of the grammar, with that reading ---------- *)
Lemma parse_mod_sound s m r : parse_mod s = Some (m, r) ->
  mod_wf m /\ exists sep, sep_ok sep /\ s = render_mod sep m ++ r.
Proof.
  unfold parse_mod. destruct s as [|c r0].
  - intro H. inversion H. subst. split; [exact I|]. exists COLON. split; [left; reflexivity | reflexivity].
  - destruct ((c =? COLON) || (c =? HASH)) eqn:E.
    + destruct (span is_hex r0) as [h r'] eqn:Sp.
      destruct ((1 <=? length h)%nat && (length h <=? 40)%nat) eqn:L; [|discriminate].
      intro H. inversion H. subst. apply andb_true_iff in L as [L1 L2].
      apply Nat.leb_le in L1. apply Nat.leb_le in L2.
      destruct (span_spec is_hex r0 h r Sp) as [S1 [S2 _]].
      split; [cbn [mod_wf]; auto|]. exists c. split.
      * apply orb_true_iff in E as [E | E]; apply N.eqb_eq in E; [left | right]; exact E.
      * cbn [render_mod app]. congruence.
    + destruct (c =? DOLLAR) eqn:D.
      * destruct r0 as [|d r1]; [discriminate|]. destruct (is_digit19 d) eqn:D19; [|discriminate].
        destruct (span is_digit r1) as [ds r'] eqn:Sp. intro H. inversion H. subst.
        destruct (span_spec is_digit r1 ds r Sp) as [S1 [S2 _]]. apply N.eqb_eq in D. subst c.
        split; [cbn [mod_wf]; auto|]. exists COLON. split; [left; reflexivity|].
        cbn [render_mod app]. congruence.
      * intro H. inversion H. subst. split; [exact I|]. exists COLON. split; [left; reflexivity | reflexivity].
Qed.

Lemma parse_claim_sound b s g r : parse_claim b s = Some (g, r) ->
  exists sep, sep_ok sep /\ (if b then channel_wf g else stream_wf g) /\ s = render_segment sep g ++ r.
Proof.
  unfold parse_claim. destruct b.
  - destruct s as [|c t]; [discriminate|]. destruct (c =? AT) eqn:E; [|discriminate]. apply N.eqb_eq in E. subst c.
    destruct (span name_char t) as [nm r0] eqn:Sp. destruct nm as [|n0 nm]; [discriminate|].
    destruct (parse_mod r0) as [[m r']|] eqn:Pm; [|discriminate]. intro H. inversion H. subst.
    destruct (span_spec name_char t (n0 :: nm) r0 Sp) as [S1 [S2 _]].
    destruct (parse_mod_sound r0 m r Pm) as [Hm [sep [Hs Hr]]].
    exists sep. split; [exact Hs|]. split.
    + split; [|exact Hm]. exists (n0 :: nm). cbn [seg_name]. split; [reflexivity|]. split; [discriminate | exact S2].
    + rewrite render_segment_eq. cbn [seg_name seg_mod]. rewrite <- app_assoc. rewrite <- Hr. rewrite S1. reflexivity.
  - destruct (span name_char s) as [nm r0] eqn:Sp. destruct nm as [|n0 nm]; [discriminate|].
    destruct (parse_mod r0) as [[m r']|] eqn:Pm; [|discriminate]. intro H. inversion H. subst.
    destruct (span_spec name_char s (n0 :: nm) r0 Sp) as [S1 [S2 _]].
    destruct (parse_mod_sound r0 m r Pm) as [Hm [sep [Hs Hr]]].
    exists sep. split; [exact Hs|]. split.
    + split; [cbn [seg_name]; discriminate|]. split; [exact S2 | exact Hm].
    + rewrite render_segment_eq. cbn [seg_name seg_mod]. rewrite <- app_assoc. rewrite <- Hr. exact S1.
Qed.

Lemma parse_body_sound s u : parse_body s = Some u -> body_grammar s u.
Proof.
  unfold parse_body.
  destruct (parse_claim true s) as [[c r]|] eqn:Pc.
  - destruct (parse_claim_true_head s c r Pc) as [t Ht].
    assert (Pf : parse_claim false s = None) by (rewrite Ht; apply parse_claim_false_at).
    destruct (parse_claim_sound true s c r Pc) as [sep1 [Hs1 [Hc Hsr]]].
    destruct r as [|x r1].
    + rewrite app_nil_r in Hsr. intro H. inversion H. subst u. exists sep1. auto.
    + destruct (x =? SLASH) eqn:E.
      * apply N.eqb_eq in E. subst x.
        destruct (parse_claim false r1) as [[st r2]|] eqn:Ps.
        -- destruct r2 as [|y r2].
           ++ intro H. inversion H. subst u.
              destruct (parse_claim_sound false r1 st [] Ps) as [sep2 [Hs2 [Hg Hr1]]].
              rewrite app_nil_r in Hr1. exists sep1, sep2. subst r1. auto 6.
           ++ rewrite Pf. discriminate.
        -- rewrite Pf. discriminate.
      * rewrite Pf. discriminate.
  - destruct (parse_claim false s) as [[st r]|] eqn:Ps; [|discriminate].
    destruct r as [|y r]; [|discriminate]. intro H. inversion H. subst u.
    destruct (parse_claim_sound false s st [] Ps) as [sep [Hs [Hg Hr]]]. rewrite app_nil_r in Hr.
    exists sep. auto.
Qed.

Lemma url_parse_sound s u : url_parse s = Some u -> in_grammar s u.
Proof.
  unfold url_parse. intro H. apply in_grammar_eq.
  destruct (strip_prefix scheme s) as [rest|] eqn:E.
  - apply strip_prefix_spec in E. subst s. destruct (parse_body rest) as [u'|] eqn:Pb.
    + inversion H. subst u'. exists scheme, rest. split; [right; reflexivity|]. split; [reflexivity|].
      apply parse_body_sound. exact Pb.
    + rewrite parse_body_scheme in H. discriminate.
  - exists [], s. split; [left; reflexivity|]. split; [reflexivity|]. apply parse_body_sound. exact H.
Qed.

Lemma url_parse_iff s u : url_parse s = Some u <-> in_grammar s u.
Proof. split; [apply url_parse_sound | apply url_parse_complete]. Qed.

Lemma url_rejects_outside s : (forall u, ~ in_grammar s u) -> url_parse s = None.
Proof.
  intro H. destruct (url_parse s) as [u|] eqn:E; [|reflexivity]. exfalso. apply (H u). apply url_parse_sound. exact E.
Qed.

Lemma in_grammar_wf s u : in_grammar s u -> url_wf u.
Proof.
  intros [p [_ H]]. destruct u as [g | c | c g]; cbn [url_wf].
  - destruct H as [sep [_ [H _]]]. exact H.
  - destruct H as [sep [_ [H _]]]. exact H.
  - destruct H as [s1 [s2 [_ [_ [H1 [H2 _]]]]]]. split; assumption.
Qed.

(* ---------- parse (print u) = u ---------- *)
Lemma print_in_grammar u : url_wf u -> in_grammar (url_print u) u.
Proof.
  intro W. exists scheme. split; [right; reflexivity|]. unfold url_print. destruct u as [g | c | c g]; cbn [url_wf] in W.
  - exists COLON. split; [left; reflexivity|]. split; [exact W | reflexivity].
  - exists COLON. split; [left; reflexivity|]. split; [exact W | reflexivity].
  - destruct W as [Wc Wg]. exists COLON, COLON. split; [left; reflexivity|]. split; [left; reflexivity|].
    split; [exact Wc|]. split; [exact Wg | reflexivity].
Qed.

Lemma url_parse_print u : url_wf u -> url_parse (url_print u) = Some u.
Proof. intro W. apply url_parse_complete. apply print_in_grammar. exact W. Qed.

(* ---------- print (parse s) = canonical spelling of s ---------- *)
Definition h2c (c : N) : N := if c =? HASH then COLON else c.

Lemma canon_eq s : canon s = (match strip_prefix scheme s with Some _ => [] | None => scheme end) ++ map h2c s.
Proof. reflexivity. Qed.

Lemma map_h2c_nohash l : ~ In HASH l -> map h2c l = l.
Proof.
  induction l as [|c l IH]; intro H; [reflexivity|]. cbn [map]. rewrite IH by (intro X; apply H; right; exact X).
  unfold h2c. destruct (c =? HASH) eqn:E; [|reflexivity]. apply N.eqb_eq in E. exfalso. apply H. left. exact E.
Qed.

Lemma class_nohash (p : N -> bool) l : p HASH = false -> forallb p l = true -> ~ In HASH l.
Proof. intros Hp Hl X. rewrite forallb_forall in Hl. specialize (Hl _ X). congruence. Qed.

Lemma render_canon sep g : sep_ok sep -> ~ In HASH (seg_name g) -> mod_wf (seg_mod g) ->
  map h2c (render_segment sep g) = print_segment g.
Proof.
  intros Hs Hn Hm. rewrite print_segment_eq, !render_segment_eq, map_app, (map_h2c_nohash _ Hn). f_equal.
  destruct (seg_mod g) as [|h|d]; cbn [render_mod map].
  - reflexivity.
  - cbn [mod_wf] in Hm. destruct Hm as [_ Hh].
    rewrite (map_h2c_nohash h (class_nohash is_hex h eq_refl Hh)). destruct Hs as [-> | ->]; reflexivity.
  - cbn [mod_wf] in Hm. destruct d as [|d0 ds]; [contradiction|]. destruct Hm as [H0 Hds].
    change (h2c DOLLAR) with DOLLAR. f_equal. apply map_h2c_nohash. intros [X | X].
    + subst d0. discriminate H0.
    + exact (class_nohash is_digit ds eq_refl Hds X).
Qed.

Lemma stream_nohash g : stream_wf g -> ~ In HASH (seg_name g).
Proof. intros [_ [H _]]. exact (class_nohash name_char _ eq_refl H). Qed.

Lemma channel_nohash g : channel_wf g -> ~ In HASH (seg_name g).
Proof.
  intros [[nm [-> [_ H]]] _] [X | X]; [discriminate X|]. exact (class_nohash name_char _ eq_refl H X).
Qed.

Lemma body_canon b u : body_grammar b u ->
  map h2c b = match u with
              | UStream s => print_segment s
              | UChannel c => print_segment c
              | UChannelStream c s => print_segment c ++ SLASH :: print_segment s
              end.
Proof.
  destruct u as [g | c | c g]; cbn [body_grammar].
  - intros [sep [Hs [Hw ->]]]. apply render_canon; [exact Hs | apply stream_nohash; exact Hw | apply Hw].
  - intros [sep [Hs [Hw ->]]]. apply render_canon; [exact Hs | apply channel_nohash; exact Hw | apply Hw].
  - intros [s1 [s2 [H1 [H2 [Hc [Hg ->]]]]]]. rewrite map_app. cbn [map]. change (h2c SLASH) with SLASH.
    rewrite render_canon; [| exact H1 | apply channel_nohash; exact Hc | apply Hc].
    rewrite render_canon; [| exact H2 | apply stream_nohash; exact Hg | apply Hg]. reflexivity.
Qed.

Lemma canon_print s u : in_grammar s u -> canon s = url_print u.
Proof.
  intro H. apply in_grammar_eq in H. destruct H as [p [b [Hp [-> Hb]]]].
  rewrite canon_eq. unfold url_print. destruct Hp as [-> | ->].
  - cbn [app]. destruct (strip_prefix scheme b) as [rest|] eqn:E.
    + apply strip_prefix_spec in E. subst b. apply parse_body_complete in Hb. rewrite parse_body_scheme in Hb. discriminate.
    + f_equal. apply body_canon. exact Hb.
  - rewrite strip_prefix_app. cbn [app]. rewrite map_app. f_equal. apply body_canon. exact Hb.
Qed.

Lemma url_print_parse s u : url_parse s = Some u -> url_print u = canon s /\ url_wf u.
Proof.
  intro H. apply url_parse_sound in H. split; [symmetry; apply canon_print; exact H | eapply in_grammar_wf; exact H].
Qed.

(* ---------- rejection of forbidden code points ---------- *)
Definition soft (c : N) : Prop := hard_forbidden c = false.

Lemma name_soft c : name_char c = true -> soft c.
Proof. unfold name_char, soft, hard_forbidden. intro H. apply negb_true_iff in H. rewrite H. reflexivity. Qed.

Lemma hex_not_forbidden c : is_hex c = true -> forbidden c = false.
Proof.
  unfold is_hex. intro H.
  assert (E : c = 48 \/ c = 49 \/ c = 50 \/ c = 51 \/ c = 52 \/ c = 53 \/ c = 54 \/ c = 55 \/ c = 56 \/ c = 57 \/
              c = 97 \/ c = 98 \/ c = 99 \/ c = 100 \/ c = 101 \/ c = 102).
  { apply orb_true_iff in H as [H | H]; apply andb_true_iff in H as [H1 H2];
      apply N.leb_le in H1; apply N.leb_le in H2; lia. }
  repeat (destruct E as [E | E]; [subst c; reflexivity|]). subst c. reflexivity.
Qed.

Lemma hex_soft c : is_hex c = true -> soft c.
Proof. intro H. unfold soft, hard_forbidden. rewrite (hex_not_forbidden c H). reflexivity. Qed.

Lemma digit_hex c : is_digit c = true -> is_hex c = true.
Proof. unfold is_digit, is_hex. intros ->. reflexivity. Qed.

Lemma digit19_digit c : is_digit19 c = true -> is_digit c = true.
Proof.
  unfold is_digit19, is_digit. intro H. apply andb_true_iff in H as [H1 H2]. apply N.leb_le in H1.
  apply andb_true_iff. split; [apply N.leb_le; lia | exact H2].
Qed.

Lemma forallb_soft (p : N -> bool) l : (forall c, p c = true -> soft c) -> forallb p l = true -> Forall soft l.
Proof. intros Hp Hl. apply Forall_forall. intros c Hc. rewrite forallb_forall in Hl. apply Hp. apply Hl. exact Hc. Qed.

Lemma mod_soft sep m : sep_ok sep -> mod_wf m -> Forall soft (render_mod sep m).
Proof.
  intros Hs Hm. destruct m as [|h|d]; cbn [render_mod].
  - constructor.
  - destruct Hm as [_ Hh]. constructor; [destruct Hs as [-> | ->]; reflexivity|]. exact (forallb_soft is_hex h hex_soft Hh).
  - destruct d as [|d0 ds]; [contradiction|]. destruct Hm as [H0 Hds]. constructor; [reflexivity|].
    constructor; [apply hex_soft, digit_hex, digit19_digit; exact H0|].
    apply (forallb_soft is_digit ds); [intros c Hc; apply hex_soft, digit_hex; exact Hc | exact Hds].
Qed.

Lemma stream_soft sep g : sep_ok sep -> stream_wf g -> Forall soft (render_segment sep g).
Proof.
  intros Hs [_ [Hn Hm]]. rewrite render_segment_eq. apply Forall_app. split.
  - exact (forallb_soft name_char _ name_soft Hn).
  - apply mod_soft; assumption.
Qed.

Lemma channel_soft sep g : sep_ok sep -> channel_wf g -> Forall soft (render_segment sep g).
Proof.
  intros Hs [[nm [Hname [_ Hn]]] Hm]. rewrite render_segment_eq, Hname. apply Forall_app. split.
  - constructor; [reflexivity|]. exact (forallb_soft name_char _ name_soft Hn).
  - apply mod_soft; assumption.
Qed.

Lemma scheme_soft : Forall soft scheme.
Proof. repeat constructor. Qed.

Lemma grammar_soft s u : in_grammar s u -> Forall soft s.
Proof.
  intro H. apply in_grammar_eq in H. destruct H as [p [b [Hp [-> Hb]]]]. apply Forall_app. split.
  - destruct Hp as [-> | ->]; [constructor | exact scheme_soft].
  - destruct u as [g | c | c g]; cbn [body_grammar] in Hb.
    + destruct Hb as [sep [Hs [Hw ->]]]. apply stream_soft; assumption.
    + destruct Hb as [sep [Hs [Hw ->]]]. apply channel_soft; assumption.
    + destruct Hb as [s1 [s2 [H1 [H2 [Hc [Hg ->]]]]]]. apply Forall_app. split; [apply channel_soft; assumption|].
      constructor; [reflexivity | apply stream_soft; assumption].
Qed.

(* any string that contains, anywhere, a forbidden code point other than : # $ / @ is refused *)
Lemma url_rejects_forbidden s c : In c s -> hard_forbidden c = true -> url_parse s = None.
Proof.
  intros Hin Hc. destruct (url_parse s) as [u|] eqn:E; [|reflexivity]. exfalso.
  apply url_parse_sound, grammar_soft in E. rewrite Forall_forall in E. specialize (E c Hin). unfold soft in E. congruence.
Qed.

Lemma url_rejects_trailing s c : hard_forbidden c = true -> url_parse (s ++ [c]) = None.
Proof. intro H. apply (url_rejects_forbidden _ c); [apply in_or_app; right; left; reflexivity | exact H]. Qed.

Lemma url_rejects_trailing_newline s : url_parse (s ++ [10]) = None.
Proof. apply url_rejects_trailing. reflexivity. Qed.

(* a name may not contain ANY forbidden code point, the structural ones included: a stream name is a
   maximal run of allowed code points *)
Lemma grammar_names_allowed s u : in_grammar s u ->
  match u with
  | UStream g => forallb name_char (seg_name g) = true
  | UChannel c => forallb name_char (tl (seg_name c)) = true
  | UChannelStream c g => forallb name_char (tl (seg_name c)) = true /\ forallb name_char (seg_name g) = true
  end.
Proof.
  intro H. apply in_grammar_wf in H. destruct u as [g | c | c g]; cbn [url_wf] in H.
  - apply H.
  - destruct H as [[nm [-> [_ H]]] _]. exact H.
  - destruct H as [[[nm [-> [_ H]]] _] [_ [Hg _]]]. split; [exact H | exact Hg].
Qed.

(* ---------- rejection of malformed modifiers ---------- *)
Definition claim_id_ok (x : str) : Prop := (1 <= length x <= 40)%nat /\ forallb is_hex x = true.
Definition amount_ok (x : str) : Prop :=
  match x with [] => False | d0 :: ds => is_digit19 d0 = true /\ forallb is_digit ds = true end.
(* c :: x is a modifier introducer followed by text that is not a well-formed modifier body *)
Definition bad_modifier (c : N) (x : str) : Prop :=
  (sep_ok c /\ ~ claim_id_ok x) \/ (c = DOLLAR /\ ~ amount_ok x).

Lemma url_parse_scheme b : url_parse (scheme ++ b) = parse_body b.
Proof.
  unfold url_parse. rewrite strip_prefix_app. destruct (parse_body b); [reflexivity | apply parse_body_scheme].
Qed.

Lemma url_parse_noslash b : ~ In SLASH b -> url_parse b = parse_body b.
Proof.
  intro H. unfold url_parse. destruct (strip_prefix scheme b) as [rest|] eqn:E; [|reflexivity].
  apply strip_prefix_spec in E. subst b. exfalso. apply H. apply in_or_app. left. cbn. tauto.
Qed.

Lemma parse_mod_bad c x m r : ~ In SLASH x -> bad_modifier c x -> parse_mod (c :: x) = Some (m, r) ->
  exists y t, r = y :: t /\ y <> SLASH.
Proof.
  intros Hx Hbad. cbn [parse_mod]. destruct Hbad as [[Hs Hbad] | [-> Hbad]].
  - replace ((c =? COLON) || (c =? HASH)) with true by (destruct Hs as [-> | ->]; reflexivity).
    destruct (span is_hex x) as [h r'] eqn:Sp.
    destruct ((1 <=? length h)%nat && (length h <=? 40)%nat) eqn:L; [|discriminate].
    intro H. inversion H. subst. destruct (span_spec is_hex x h r Sp) as [S1 [S2 _]].
    destruct r as [|y t].
    + exfalso. apply Hbad. rewrite app_nil_r in S1. subst x. apply andb_true_iff in L as [L1 L2].
      apply Nat.leb_le in L1. apply Nat.leb_le in L2. split; [split; assumption | exact S2].
    + exists y, t. split; [reflexivity|]. intro E. apply Hx. rewrite S1, E. apply in_or_app. right. left. reflexivity.
  - change ((DOLLAR =? COLON) || (DOLLAR =? HASH)) with false. change (DOLLAR =? DOLLAR) with true. cbn iota.
    destruct x as [|d r1]; [discriminate|]. destruct (is_digit19 d) eqn:D; [|discriminate].
    destruct (span is_digit r1) as [ds r'] eqn:Sp. intro H. inversion H. subst.
    destruct (span_spec is_digit r1 ds r Sp) as [S1 [S2 _]].
    destruct r as [|y t].
    + exfalso. apply Hbad. rewrite app_nil_r in S1. subst r1. split; assumption.
    + exists y, t. split; [reflexivity|]. intro E. apply Hx. right. rewrite S1, E. apply in_or_app. right. left. reflexivity.
Qed.

Lemma bad_modifier_stops c x : bad_modifier c x -> name_char c = false.
Proof. intros [[[-> | ->] _] | [-> _]]; reflexivity. Qed.

Lemma parse_claim_eval_false nm c x : nm <> [] -> forallb name_char nm = true -> name_char c = false ->
  parse_claim false (nm ++ c :: x) =
  match parse_mod (c :: x) with
  | Some (m, r') => Some ({| seg_name := nm; seg_mod := m |}, r')
  | None => None
  end.
Proof.
  intros Hne Hn Hc. unfold parse_claim. rewrite (span_app name_char nm (c :: x) Hn Hc).
  destruct nm as [|n0 nm']; [contradiction | reflexivity].
Qed.

Lemma parse_claim_eval_true nm c x : nm <> [] -> forallb name_char nm = true -> name_char c = false ->
  parse_claim true (AT :: nm ++ c :: x) =
  match parse_mod (c :: x) with
  | Some (m, r') => Some ({| seg_name := AT :: nm; seg_mod := m |}, r')
  | None => None
  end.
Proof.
  intros Hne Hn Hc. unfold parse_claim. change (AT =? AT) with true. cbn iota.
  rewrite (span_app name_char nm (c :: x) Hn Hc).
  destruct nm as [|n0 nm']; [contradiction | reflexivity].
Qed.

Lemma parse_body_bad_stream nm c x : nm <> [] -> forallb name_char nm = true -> ~ In SLASH x -> bad_modifier c x ->
  parse_body (nm ++ c :: x) = None.
Proof.
  intros Hne Hn Hx Hbad. pose proof (bad_modifier_stops c x Hbad) as Hc. unfold parse_body.
  assert (Ht : parse_claim true (nm ++ c :: x) = None).
  { apply parse_claim_true_not_at. intros t E. destruct nm as [|n0 nm']; [contradiction|].
    cbn [forallb] in Hn. apply andb_true_iff in Hn as [Hn0 _]. cbn [app] in E. inversion E. subst n0. discriminate Hn0. }
  rewrite Ht. rewrite (parse_claim_eval_false nm c x Hne Hn Hc).
  destruct (parse_mod (c :: x)) as [[m r]|] eqn:Pm; [|reflexivity].
  destruct (parse_mod_bad c x m r Hx Hbad Pm) as [y [t [-> _]]]. reflexivity.
Qed.

Lemma parse_body_bad_channel nm c x : nm <> [] -> forallb name_char nm = true -> ~ In SLASH x -> bad_modifier c x ->
  parse_body (AT :: nm ++ c :: x) = None.
Proof.
  intros Hne Hn Hx Hbad. pose proof (bad_modifier_stops c x Hbad) as Hc. unfold parse_body.
  rewrite (parse_claim_eval_true nm c x Hne Hn Hc). rewrite parse_claim_false_at.
  destruct (parse_mod (c :: x)) as [[m r]|] eqn:Pm; [|reflexivity].
  destruct (parse_mod_bad c x m r Hx Hbad Pm) as [y [t [-> Hy]]].
  replace (y =? SLASH) with false by (symmetry; apply N.eqb_neq; exact Hy). reflexivity.
Qed.

Lemma noslash_body pre nm c x : (pre = [] \/ pre = [AT]) -> forallb name_char nm = true -> name_char c = false ->
  c <> SLASH -> ~ In SLASH x -> ~ In SLASH (pre ++ nm ++ c :: x).
Proof.
  intros Hpre Hn Hc Hcs Hx X. apply in_app_or in X as [X | X].
  - destruct Hpre as [-> | ->]; [exact X|]. destruct X as [X | X]; [discriminate X | exact X].
  - apply in_app_or in X as [X | X].
    + rewrite forallb_forall in Hn. specialize (Hn _ X). discriminate Hn.
    + destruct X as [X | X]; [exact (Hcs X) | exact (Hx X)].
Qed.

(* a stream or channel URL, with or without scheme, whose modifier text is malformed is refused *)
Lemma url_rejects_bad_modifier p pre nm c x :
  scheme_opt p -> (pre = [] \/ pre = [AT]) -> nm <> [] -> forallb name_char nm = true ->
  ~ In SLASH x -> bad_modifier c x ->
  url_parse (p ++ pre ++ nm ++ c :: x) = None.
Proof.
  intros Hp Hpre Hne Hn Hx Hbad.
  assert (Hb : parse_body (pre ++ nm ++ c :: x) = None).
  { destruct Hpre as [-> | ->]; cbn [app].
    - apply parse_body_bad_stream; assumption.
    - apply parse_body_bad_channel; assumption. }
  destruct Hp as [-> | ->].
  - cbn [app]. rewrite url_parse_noslash; [exact Hb|].
    apply noslash_body; try assumption.
    + eapply bad_modifier_stops. exact Hbad.
    + destruct Hbad as [[[-> | ->] _] | [-> _]]; discriminate.
  - rewrite url_parse_scheme. exact Hb.
Qed.

Lemma bad_modifier_inhabited : bad_modifier 58 [103] /\ bad_modifier 36 [48].
Proof.
  split.
  - left. split; [left; reflexivity|]. intros [_ H]. discriminate H.
  - right. split; [reflexivity|]. intros [H _]. discriminate H.
Qed.

(* ---------- consequences ---------- *)
Lemma url_unambiguous s u1 u2 : in_grammar s u1 -> in_grammar s u2 -> u1 = u2.
Proof. intros H1 H2. apply url_parse_complete in H1. apply url_parse_complete in H2. congruence. Qed.

Lemma url_print_inj u1 u2 : url_wf u1 -> url_wf u2 -> url_print u1 = url_print u2 -> u1 = u2.
Proof.
  intros W1 W2 E. pose proof (url_parse_print u1 W1) as P1. rewrite E, (url_parse_print u2 W2) in P1. congruence.
Qed.

Lemma url_canon_stable s u : url_parse s = Some u -> url_parse (canon s) = Some u /\ canon (canon s) = canon s.
Proof.
  intro H. destruct (url_print_parse s u H) as [Hp Hw]. rewrite <- Hp. split.
  - apply url_parse_print. exact Hw.
  - apply canon_print. apply print_in_grammar. exact Hw.
Qed.
