(* C06 lemmas, part 6: mnemonic word encoding. *)
From Coq Require Import Arith NArith ZArith List Bool Lia.
From Coq.Strings Require Import Byte.
From LV Require Import Lib.Bytes Model.C06 Proofs.C06_Num.
Import ListNotations.
Local Open Scope N_scope.

Definition space_free (w : bytes) : Prop := Forall (fun c => is_space c = false) w.
Definition good_word (w : bytes) : Prop := w <> [] /\ space_free w.

Lemma is_space_space : is_space space = true.
Proof. vm_compute. reflexivity. Qed.

(* ------------------------------------------------------------------ split / join *)
Lemma split_go_word w s : space_free w ->
  split_go (w ++ s) = (w ++ fst (split_go s), snd (split_go s)).
Proof.
  induction 1 as [|c r Hc _ IH]; cbn [app]; [destruct (split_go s); reflexivity|].
  cbn [split_go]. rewrite IH. rewrite Hc. reflexivity.
Qed.

Lemma split_go_space s : split_go (space :: s) =
  ([], match fst (split_go s) with [] => snd (split_go s) | w => w :: snd (split_go s) end).
Proof. cbn [split_go]. rewrite is_space_space. destruct (split_go s) as [w ws]. cbn [fst snd]. destruct w; reflexivity. Qed.

Lemma split_ws_alt s : split_ws s = match fst (split_go s) with [] => snd (split_go s) | w => w :: snd (split_go s) end.
Proof. unfold split_ws. destruct (split_go s) as [w ws]. cbn [fst snd]. destruct w; reflexivity. Qed.

Theorem split_join ws : Forall good_word ws -> split_ws (join_sp ws) = ws.
Proof.
  induction 1 as [|w r [Hne Hsf] Hr IH]; [reflexivity|].
  cbn [join_sp]. destruct r as [|w2 r'].
  - pose proof (split_go_word w [] Hsf) as E. rewrite app_nil_r in E. cbn [split_go fst snd] in E.
    rewrite app_nil_r in E. rewrite split_ws_alt, E. cbn [fst snd]. destruct w; [congruence | reflexivity].
  - rewrite split_ws_alt, split_go_word by assumption. rewrite split_go_space. cbn [fst snd].
    rewrite app_nil_r. rewrite <- split_ws_alt, IH. destruct w; [congruence | reflexivity].
Qed.

(* ------------------------------------------------------------------ words <-> digits *)
Section Mnemonic.
  Variable words : list bytes.
  Hypothesis words_nodup : NoDup words.
  Hypothesis words_two : (2 <= length words)%nat.
  Hypothesis words_good : Forall good_word words.

  Lemma nwords_ge2 : 2 <= nwords words.
  Proof. unfold nwords. lia. Qed.

  Lemma words_to_digits_map ds : Forall (fun d => d < nwords words) ds ->
    words_to_digits words (map (fun d => nth (N.to_nat d) words []) ds) = Some ds.
  Proof.
    induction 1 as [|d r Hd _ IH]; [reflexivity|].
    cbn [map words_to_digits].
    rewrite (index_of_nth bytes_eqb bytes_eqb_eq words words_nodup) by (unfold nwords in Hd; lia).
    rewrite IH, N2Nat.id. reflexivity.
  Qed.

  Lemma mnemonic_words_good i : Forall good_word (mnemonic_words words i).
  Proof.
    unfold mnemonic_words. pose proof (digits_lsb_bound (nwords words) i ltac:(pose proof nwords_ge2; lia)) as Hb.
    induction Hb as [|d r Hd _ IH]; cbn [map]; constructor; [|exact IH].
    rewrite Forall_forall in words_good. apply words_good. apply nth_In. unfold nwords in Hd. lia.
  Qed.

  (* decoding the word encoding of any i >= 0 gives i back *)
  Theorem mnemonic_roundtrip i : mnemonic_decode words (mnemonic_encode words i) = Ok i.
  Proof.
    unfold mnemonic_decode, mnemonic_encode.
    rewrite split_join by apply mnemonic_words_good.
    unfold mnemonic_words. rewrite words_to_digits_map by (apply digits_lsb_bound; pose proof nwords_ge2; lia).
    rewrite val_msb_rev, digits_lsb_val by apply nwords_ge2. reflexivity.
  Qed.

  Theorem mnemonic_encode_injective i j : mnemonic_encode words i = mnemonic_encode words j -> i = j.
  Proof.
    intro E. pose proof (mnemonic_roundtrip i) as Hi. rewrite E, mnemonic_roundtrip in Hi. congruence.
  Qed.

  (* the number of words is the number of base-n digits; 0 is the empty phrase *)
  Theorem mnemonic_encode_zero : mnemonic_encode words 0 = [].
  Proof. reflexivity. Qed.

  (* what is accepted: every word is in the list, and the value is the base-n reading, first word least significant *)
  Lemma words_to_digits_some ws ds : words_to_digits words ws = Some ds ->
    ws = map (fun d => nth (N.to_nat d) words []) ds /\ Forall (fun d => d < nwords words) ds.
  Proof.
    revert ds. induction ws as [|w r IH]; intros ds H.
    - injection H as <-. split; [reflexivity | constructor].
    - cbn [words_to_digits] in H. destruct (index_of bytes_eqb w words) as [k|] eqn:E; [|discriminate].
      destruct (words_to_digits words r) as [ds'|]; [|discriminate]. injection H as <-.
      destruct (index_of_some bytes_eqb bytes_eqb_eq w words k [] E) as [Hk Hn].
      destruct (IH ds' eq_refl) as [Hr Hf]. cbn [map]. rewrite Nat2N.id, Hn, <- Hr.
      split; [reflexivity|]. constructor; [unfold nwords; lia | exact Hf].
  Qed.

  Theorem mnemonic_decode_sound s i : mnemonic_decode words s = Ok i ->
    exists ds, split_ws s = map (fun d => nth (N.to_nat d) words []) ds /\
               Forall (fun d => d < nwords words) ds /\ i = val_lsb (nwords words) ds.
  Proof.
    unfold mnemonic_decode. destruct (words_to_digits words (split_ws s)) as [ds|] eqn:E; [|discriminate].
    intro H. injection H as <-. destruct (words_to_digits_some _ _ E) as [Hs Hf].
    exists ds. rewrite val_msb_rev. auto.
  Qed.

  Theorem mnemonic_decode_rejects s : mnemonic_decode words s = Err EWord <->
    exists w, In w (split_ws s) /\ ~ In w words.
  Proof.
    unfold mnemonic_decode. generalize (split_ws s) as ws. intro ws. split.
    - destruct (words_to_digits words ws) eqn:E; [discriminate|]. intros _.
      induction ws as [|w r IH]; [discriminate|]. cbn [words_to_digits] in E.
      destruct (index_of bytes_eqb w words) eqn:Ei.
      + destruct (words_to_digits words r); [discriminate|]. destruct (IH eq_refl) as [w' [Hin Hn]].
        exists w'. split; [right; exact Hin | exact Hn].
      + exists w. split; [left; reflexivity|]. apply (index_of_none bytes_eqb bytes_eqb_eq). exact Ei.
    - intros [w [Hin Hn]]. destruct (words_to_digits words ws) as [ds|] eqn:E; [|reflexivity].
      exfalso. destruct (words_to_digits_some _ _ E) as [Hs Hf]. subst ws.
      apply in_map_iff in Hin. destruct Hin as [d [<- Hd]]. apply Hn. apply nth_In.
      rewrite Forall_forall in Hf. specialize (Hf d Hd). unfold nwords in Hf. lia.
  Qed.
End Mnemonic.
