(* C02 proofs: chunking, round trip, names and numbers, commitments, validation, preimage injectivity,
   sanitised file names.  Everything is stated over the definitions of Model/C02.v. *)
From Coq Require Import NArith ZArith List Bool Lia Arith.
From Coq.Strings Require Import Byte.
From LV Require Import Lib.Bytes Lib.Decimal Model.C02.
Import ListNotations.
Ltac Zify.zify_post_hook ::= Z.to_euclidean_division_equations.

(* ------------------------------------------------------------------------------------------ *)
(* hex / unhex *)

Lemma hexval_hex_digit n : (n < 16)%N -> hexval (hex_digit n) = Some n.
Proof.
  intro Hn. unfold hexval, hex_digit.
  destruct (N.ltb_spec n 10).
  - rewrite (byte_of_N_small (48 + n)) by lia.
    replace ((48 <=? 48 + n)%N) with true by (symmetry; apply N.leb_le; lia).
    replace ((48 + n <=? 57)%N) with true by (symmetry; apply N.leb_le; lia).
    cbn [andb]. f_equal. lia.
  - rewrite (byte_of_N_small (87 + n)) by lia.
    replace ((87 + n <=? 57)%N) with false by (symmetry; apply N.leb_gt; lia).
    rewrite andb_false_r.
    replace ((97 <=? 87 + n)%N) with true by (symmetry; apply N.leb_le; lia).
    replace ((87 + n <=? 102)%N) with true by (symmetry; apply N.leb_le; lia).
    cbn [andb]. f_equal. lia.
Qed.

Lemma unhex_hex b : unhex (hex b) = Some b.
Proof.
  induction b as [|x r IH]; [reflexivity|].
  cbn [hex unhex].
  pose proof (N_of_byte_lt x) as Hx.
  rewrite !hexval_hex_digit by lia.
  rewrite IH. f_equal. f_equal.
  replace (16 * (N_of_byte x / 16) + N_of_byte x mod 16)%N with (N_of_byte x) by lia.
  apply byte_of_N_of_byte.
Qed.

Lemma hex_inj a b : hex a = hex b -> a = b.
Proof. intro E. pose proof (unhex_hex a) as Ha. rewrite E, unhex_hex in Ha. congruence. Qed.

Lemma hex_length b : length (hex b) = (2 * length b)%nat.
Proof. induction b; simpl; lia. Qed.

Lemma hex_app a b : hex (a ++ b) = hex a ++ hex b.
Proof. induction a; simpl; congruence. Qed.

Lemma hex_digit_ascii n : (n < 16)%N -> (N_of_byte (hex_digit n) < 128)%N.
Proof. intro. unfold hex_digit. destruct (N.ltb_spec n 10); [rewrite (byte_of_N_small (48 + n)) | rewrite (byte_of_N_small (87 + n))]; lia. Qed.

Lemma hex_ascii b : forallb (fun c => (N_of_byte c <? 128)%N) (hex b) = true.
Proof.
  induction b as [|x r IH]; [reflexivity|].
  pose proof (N_of_byte_lt x). cbn [hex forallb]. rewrite IH.
  rewrite !(proj2 (N.ltb_lt _ _)) by (apply hex_digit_ascii; lia). reflexivity.
Qed.

(* ------------------------------------------------------------------------------------------ *)
(* decimal *)

Lemma dec_of_Z_inj a b : dec_of_Z a = dec_of_Z b -> a = b.
Proof. intro E. pose proof (Z_of_dec_of_Z a) as Ha. rewrite E, Z_of_dec_of_Z in Ha. congruence. Qed.

Lemma dec_of_Z_nonempty z : dec_of_Z z <> [].
Proof. destruct z; simpl; try apply dec_of_N_nonempty. discriminate. Qed.

(* ------------------------------------------------------------------------------------------ *)
(* chunking *)

Lemma split_fuel_concat c : (0 < c)%nat -> forall fuel f, (length f <= fuel)%nat -> concat (split_fuel fuel c f) = f.
Proof.
  intros Hc fuel. induction fuel as [|k IH]; intros f Hf.
  - destruct f; [reflexivity | simpl in Hf; lia].
  - destruct f as [|x r]; [reflexivity|].
    cbn [split_fuel]. destruct (Nat.eqb_spec c 0); [lia|].
    cbn [concat]. rewrite IH.
    + apply firstn_skipn.
    + rewrite skipn_length. cbn [length] in Hf |- *. lia.
Qed.

Lemma split_fuel_pieces c : (0 < c)%nat -> forall fuel f p, In p (split_fuel fuel c f) -> (1 <= length p <= c)%nat.
Proof.
  intros Hc fuel. induction fuel as [|k IH]; intros f p Hin; [contradiction|].
  destruct f as [|x r]; [contradiction|].
  cbn [split_fuel] in Hin. destruct (Nat.eqb_spec c 0); [lia|].
  destruct Hin as [<- | Hin].
  - rewrite firstn_length. simpl. lia.
  - eapply IH; eauto.
Qed.

Lemma split_fuel_lengths c : (0 < c)%nat -> forall fuel f, (length f <= fuel)%nat ->
  map (@length byte) (split_fuel fuel c f) =
  repeat c (length f / c) ++ (if Nat.eqb (length f mod c) 0 then [] else [(length f mod c)%nat]).
Proof.
  intros Hc fuel. induction fuel as [|k IH]; intros f Hf.
  - destruct f; [|simpl in Hf; lia]. simpl. rewrite Nat.div_0_l, Nat.mod_0_l by lia. reflexivity.
  - destruct f as [|x r].
    + simpl. rewrite Nat.div_0_l, Nat.mod_0_l by lia. reflexivity.
    + cbn [split_fuel]. destruct (Nat.eqb_spec c 0); [lia|].
      cbn [map]. rewrite IH by (rewrite skipn_length; cbn [length] in Hf |- *; lia).
      rewrite firstn_length, skipn_length.
      set (nn := length (x :: r)) in *.
      assert (Hn : (0 < nn)%nat) by (unfold nn; simpl; lia).
      destruct (Nat.lt_ge_cases nn c) as [Hlt | Hge].
      * rewrite Nat.min_r by lia.
        replace (nn - c)%nat with 0%nat by lia.
        rewrite Nat.div_0_l, Nat.mod_0_l by lia.
        rewrite (Nat.div_small nn c), (Nat.mod_small nn c) by lia.
        simpl. destruct (Nat.eqb_spec nn 0); [lia | reflexivity].
      * rewrite Nat.min_l by lia.
        assert (Hd : (nn / c = S ((nn - c) / c))%nat).
        { replace nn with ((nn - c) + 1 * c)%nat at 1 by lia. rewrite Nat.div_add by lia. lia. }
        assert (Hm : (nn mod c = (nn - c) mod c)%nat).
        { replace nn with ((nn - c) + 1 * c)%nat at 1 by lia. rewrite Nat.mod_add by lia. reflexivity. }
        rewrite Hd, Hm. reflexivity.
Qed.

(* ------------------------------------------------------------------------------------------ *)

Section Split.
  Variable maxb : nat.
  Notation split := (split maxb).
  (* ---- split ---- *)
  Lemma split_concat f : (2 <= maxb)%nat -> concat (split f) = f.
  Proof. intro Hm. unfold C02.split. apply split_fuel_concat; lia. Qed.

  Lemma split_piece_size f p : (2 <= maxb)%nat -> In p (split f) -> (1 <= length p <= maxb - 1)%nat.
  Proof. intros Hm Hin. unfold C02.split in Hin. eapply split_fuel_pieces in Hin; lia. Qed.

  Lemma split_lengths f : (2 <= maxb)%nat ->
    map (@length byte) (split f) =
    repeat (maxb - 1)%nat (length f / (maxb - 1)) ++
    (if Nat.eqb (length f mod (maxb - 1)) 0 then [] else [(length f mod (maxb - 1))%nat]).
  Proof. intro Hm. unfold C02.split. apply split_fuel_lengths; lia. Qed.

  Lemma split_count f : (2 <= maxb)%nat -> length (split f) = ((length f + (maxb - 1) - 1) / (maxb - 1))%nat.
  Proof.
    intro Hm. rewrite <- (map_length (@length byte)), split_lengths by exact Hm.
    set (c := (maxb - 1)%nat). assert (Hc : (0 < c)%nat) by (unfold c; lia).
    rewrite app_length, repeat_length.
    pose proof (Nat.div_mod (length f) c ltac:(lia)) as Hdm.
    pose proof (Nat.mod_upper_bound (length f) c ltac:(lia)) as Hub.
    set (q := (length f / c)%nat) in *. set (r := (length f mod c)%nat) in *.
    destruct (Nat.eqb_spec r 0) as [Hr | Hr].
    - simpl. replace (length f + c - 1)%nat with ((c - 1) + q * c)%nat by nia.
      rewrite Nat.div_add by lia. rewrite Nat.div_small by lia. lia.
    - simpl. replace (length f + c - 1)%nat with ((r - 1) + (q + 1) * c)%nat by nia.
      rewrite Nat.div_add by lia. rewrite Nat.div_small by lia. lia.
  Qed.

  Lemma split_nonempty f : (2 <= maxb)%nat -> f <> [] -> split f <> [].
  Proof.
    intros Hm Hf E0. pose proof (split_concat f Hm) as Hc. rewrite E0 in Hc. simpl in Hc. congruence.
  Qed.

  (* every ciphertext fits a blob when 16 divides MAX_BLOB_SIZE (2^21 does) *)
  Lemma ciphertext_bound (E : bytes -> bytes -> bytes -> bytes) k iv p :
    (forall k iv p, length (E k iv p) = (16 * (length p / 16 + 1))%nat) -> (2 <= maxb)%nat -> (maxb mod 16 = 0)%nat -> (1 <= length p <= maxb - 1)%nat ->
    (16 <= length (E k iv p) <= maxb)%nat.
  Proof.
    intros HE Hm H16 Hp. rewrite HE.
    pose proof (Nat.div_mod maxb 16 ltac:(lia)) as Hdm. rewrite H16 in Hdm.
    pose proof (Nat.div_mod (length p) 16 ltac:(lia)).
    pose proof (Nat.mod_upper_bound (length p) 16 ltac:(lia)).
    split; [lia|].
    assert (length p / 16 < maxb / 16)%nat; [|lia].
    apply Nat.div_lt_upper_bound; lia.
  Qed.

End Split.

Set Default Proof Using "Type".
Section Proofs.
  Variable H : bytes -> bytes.
  Variable E : bytes -> bytes -> bytes -> bytes.
  Variable D : bytes -> bytes -> bytes -> option bytes.
  Variable maxb : nat.
  Local Ltac liaD := try clear D; try clear E; try clear H; lia.

  (* the three facts about the primitives that proofs below use; each names where *)
  Definition DE_inverse := forall k iv p, D k iv (E k iv p) = Some p.
  Definition E_length := forall k iv p, length (E k iv p) = (16 * (length p / 16 + 1))%nat.
  Definition H_length := forall x, length (H x) = 48%nat.

  Notation split := (split maxb).
  Notation build_stream := (build_stream H E maxb).
  Notation create_stream := (create_stream H E maxb).
  Notation make_blobs := (make_blobs H E).
  Notation get_stream_hash := (get_stream_hash H).
  Notation validate := (validate H).

  (* ---- make_blobs ---- *)
  Lemma make_blobs_length key ivf n ps : length (make_blobs key ivf n ps) = length ps.
  Proof. revert n. induction ps; intros; simpl; auto. Qed.

  Lemma make_blobs_nth key ivf : forall ps n i p, nth_error ps i = Some p ->
    nth_error (make_blobs key ivf n ps) i = Some (make_blob H E key (ivf (n + i)%nat) p (n + i)).
  Proof.
    induction ps as [|x r IH]; intros n i p Hi; [destruct i; discriminate|].
    destruct i as [|i]; simpl in *.
    - inversion Hi; subst. rewrite Nat.add_0_r. reflexivity.
    - rewrite (IH (S n) i p Hi). replace (S n + i)%nat with (n + S i)%nat by liaD. reflexivity.
  Qed.

  (* ---- round trip ---- *)
  Lemma decrypt_blobs_make key ivf : DE_inverse -> forall ps n,
    decrypt_blobs D (hex key) (map fst (make_blobs key ivf n ps)) (map snd (make_blobs key ivf n ps)) = Some (concat ps).
  Proof.
    intros HDE. induction ps as [|p r IH]; intro n; [reflexivity|].
    cbn [C02.make_blobs map fst snd make_blob decrypt_blobs concat].
    unfold decrypt_blob. cbn [b_len b_iv].
    rewrite Z.eqb_refl. cbn [negb]. rewrite !unhex_hex, HDE, IH. reflexivity.
  Qed.

  Lemma build_blobs name key ivf f :
    d_blobs (s_desc (build_stream name key ivf f)) =
      map fst (make_blobs key ivf 0 (split f)) ++ [terminator ivf (length (split f))] /\
    s_cts (build_stream name key ivf f) = map snd (make_blobs key ivf 0 (split f)) /\
    d_key (s_desc (build_stream name key ivf f)) = hex key /\
    d_name (s_desc (build_stream name key ivf f)) = utf8_enc name /\
    d_sugg (s_desc (build_stream name key ivf f)) = utf8_enc (sanitize name).
  Proof. unfold C02.build_stream. cbn. rewrite make_blobs_length. repeat split. Qed.

  Theorem roundtrip name key ivf f :
    DE_inverse -> (2 <= maxb)%nat ->
    decrypt_stream D (s_desc (build_stream name key ivf f)) (s_cts (build_stream name key ivf f)) = Some f.
  Proof.
    intros HDE Hm. destruct (build_blobs name key ivf f) as (Hb & Hc & Hk & _).
    unfold decrypt_stream. rewrite Hb, Hc, Hk, removelast_last.
    rewrite decrypt_blobs_make by exact HDE. rewrite split_concat by exact Hm. reflexivity.
  Qed.

  Theorem roundtrip_created name key ivf f s :
    DE_inverse -> (2 <= maxb)%nat -> create_stream name key ivf f = Some s ->
    decrypt_stream D (s_desc s) (s_cts s) = Some f.
  Proof.
    intros HDE Hm Hc. unfold C02.create_stream in Hc.
    destruct (has_dup _); [discriminate|]. inversion Hc; subst. apply roundtrip; assumption.
  Qed.

  (* ---- names and numbers ---- *)
  Theorem names_and_numbers name key ivf f :
    let s := build_stream name key ivf f in
    let n := length (split f) in
    length (d_blobs (s_desc s)) = S n /\ length (s_cts s) = n /\
    (forall i p, nth_error (split f) i = Some p ->
       let ct := E key (ivf i) p in
       nth_error (s_cts s) i = Some ct /\
       nth_error (d_blobs (s_desc s)) i =
         Some (mkBlob (Z.of_nat i) (Z.of_nat (length ct)) (hex (ivf i)) (Some (hex (H ct))))) /\
    nth_error (d_blobs (s_desc s)) n = Some (mkBlob (Z.of_nat n) 0 (hex (ivf n)) None).
  Proof.
    intros s n. destruct (build_blobs name key ivf f) as (Hb & Hc & _). fold s in Hb, Hc.
    rewrite Hb, Hc. repeat split.
    - rewrite app_length, map_length, make_blobs_length. simpl. liaD.
    - rewrite map_length, make_blobs_length. reflexivity.
    - rewrite nth_error_map, (make_blobs_nth key ivf _ 0 i p H0). reflexivity.
    - rewrite nth_error_app1.
      + rewrite nth_error_map, (make_blobs_nth key ivf _ 0 i p H0). reflexivity.
      + rewrite map_length, make_blobs_length. apply nth_error_Some. congruence.
    - rewrite nth_error_app2 by (rewrite map_length, make_blobs_length; unfold n; liaD).
      rewrite map_length, make_blobs_length. unfold n. rewrite Nat.sub_diag. reflexivity.
  Qed.

  (* ---- as_dict ---- *)
  Lemma as_dict_id b : b_hash b <> Some [] -> as_dict b = b.
  Proof.
    destruct b as [n l iv [h|]]; unfold as_dict; cbn; intro Hne; [|reflexivity].
    destruct h; [exfalso; apply Hne; reflexivity | reflexivity].
  Qed.

  Lemma as_dict_idem b : as_dict (as_dict b) = as_dict b.
  Proof. destruct b as [n l iv [[|x h]|]]; reflexivity. Qed.

  Lemma get_stream_hash_as_dict n k s bs : get_stream_hash n k s (map as_dict bs) = get_stream_hash n k s bs.
  Proof.
    unfold C02.get_stream_hash. rewrite map_map. f_equal. apply map_ext. intro. apply as_dict_idem.
  Qed.

  Lemma hexH_nonempty x : H_length -> hex (H x) <> [].
  Proof.
    intros HL E0. pose proof (hex_length (H x)) as Hl. rewrite E0, HL in Hl. simpl in Hl. liaD.
  Qed.

  Lemma ct_len_pos k iv p : E_length -> Z.of_nat (length (E k iv p)) <> 0%Z.
  Proof. intro HE. rewrite HE. liaD. Qed.

  (* ---- commitments: the exact preimages ---- *)
  Definition data_pre (i : nat) (iv ct : bytes) : bytes :=
    hex (H ct) ++ dec_of_Z (Z.of_nat i) ++ hex iv ++ dec_of_Z (Z.of_nat (length ct)).
  Definition term_pre (n : nat) (iv : bytes) : bytes :=
    dec_of_Z (Z.of_nat n) ++ hex iv ++ dec_of_Z 0.
  Fixpoint data_pres (key : bytes) (ivf : nat -> bytes) (n : nat) (ps : list bytes) : list bytes :=
    match ps with
    | [] => []
    | p :: r => data_pre n (ivf n) (E key (ivf n) p) :: data_pres key ivf (S n) r
    end.
  Definition blob_preimages key ivf f : list bytes :=
    data_pres key ivf 0 (split f) ++ [term_pre (length (split f)) (ivf (length (split f)))].
  Definition stream_preimage name key ivf f : bytes :=
    hex (utf8_enc name) ++ hex key ++ hex (utf8_enc (sanitize name)) ++
    H (concat (map H (blob_preimages key ivf f))).

  Lemma created_as_dict key ivf : H_length -> forall ps n,
    map as_dict (map fst (make_blobs key ivf n ps)) = map fst (make_blobs key ivf n ps).
  Proof.
    intros HL. induction ps as [|p r IH]; intro n; [reflexivity|].
    cbn [C02.make_blobs map fst make_blob]. rewrite IH. f_equal.
    apply as_dict_id. cbn. intro E0. inversion E0 as [E1]. exact (hexH_nonempty _ HL E1).
  Qed.

  Lemma hashsums_make key ivf : H_length -> E_length -> forall ps n tail X,
    concat_opt (map (blob_hashsum H) tail) = Some X ->
    concat_opt (map (blob_hashsum H) (map fst (make_blobs key ivf n ps) ++ tail)) =
      Some (concat (map H (data_pres key ivf n ps)) ++ X).
  Proof.
    intros HL HE. induction ps as [|p r IH]; intros n tail X Ht; [exact Ht|].
    cbn [C02.make_blobs map fst make_blob app data_pres concat concat_opt].
    unfold blob_hashsum at 1, blob_pre. cbn [b_len b_hash b_num b_iv].
    destruct (Z.eqb_spec (Z.of_nat (length (E key (ivf n) p))) 0) as [E0|_]; [exfalso; exact (ct_len_pos _ _ _ HE E0)|].
    rewrite (IH (S n) tail X Ht). unfold data_pre. rewrite <- app_assoc. reflexivity.
  Qed.

  Theorem commitments name key ivf f :
    H_length -> E_length ->
    let s := build_stream name key ivf f in
    d_shash (s_desc s) = hex (H (stream_preimage name key ivf f)) /\
    s_sd_blob s = as_json (s_desc s) /\
    s_sd_hash s = hex (H (s_sd_blob s)).
  Proof.
    intros HL HE s. split; [|split; reflexivity].
    unfold s, C02.build_stream. cbn [s_desc d_shash].
    unfold C02.get_stream_hash, calc_stream_hash, stream_pre, blobs_hashsum.
    rewrite map_app, created_as_dict by exact HL. cbn [map].
    rewrite (hashsums_make key ivf HL HE (split f) 0 _ (H (term_pre (length (split f)) (ivf (length (split f)))) ++ [])).
    - unfold stream_preimage, blob_preimages. rewrite map_app, concat_app. cbn [map concat]. reflexivity.
    - rewrite make_blobs_length. reflexivity.
  Qed.

  (* ---- validation ---- *)
  Lemma numbered_ok_spec : forall bs i, numbered_ok i bs = true <->
    (forall k b, nth_error bs k = Some b -> b_num b = Z.of_nat (i + k)).
  Proof.
    induction bs as [|x r IH]; intro i; cbn [numbered_ok].
    - split; [intros _ k b Hk; destruct k; discriminate | reflexivity].
    - rewrite andb_true_iff, IH, Z.eqb_eq. split.
      + intros [Hx Hr] k b Hk. destruct k as [|k]; simpl in Hk.
        * inversion Hk; subst. rewrite Nat.add_0_r. congruence.
        * rewrite (Hr k b Hk). f_equal. liaD.
      + intro Hall. split.
        * rewrite (Hall 0%nat x eq_refl). f_equal. liaD.
        * intros k b Hk. rewrite (Hall (S k) b Hk). f_equal. liaD.
  Qed.

  Lemma numbered_make key ivf : forall ps n,
    numbered_ok n (map fst (make_blobs key ivf n ps) ++ [terminator ivf (n + length ps)]) = true.
  Proof.
    induction ps as [|p r IH]; intro n.
    - cbn. rewrite Nat.add_0_r, Z.eqb_refl. reflexivity.
    - cbn [C02.make_blobs map fst make_blob app numbered_ok b_num length]. rewrite Z.eqb_refl.
      replace (n + S (length r))%nat with (S n + length r)%nat by liaD. apply IH.
  Qed.

  Lemma unhex_decode_hex x : utf8_ok x = true -> unhex_decode (hex x) = Ok x.
  Proof. intro Hu. unfold unhex_decode. rewrite hex_ascii, unhex_hex, Hu. reflexivity. Qed.

  Lemma data_len_nonzero key ivf : E_length -> forall ps n,
    existsb (fun b => Z.eqb (b_len b) 0) (map fst (make_blobs key ivf n ps)) = false.
  Proof.
    intro HE. induction ps as [|p r IH]; intro n; [reflexivity|].
    cbn [C02.make_blobs map fst make_blob existsb b_len]. rewrite IH.
    destruct (Z.eqb_spec (Z.of_nat (length (E key (ivf n) p))) 0) as [E0|_]; [exfalso; exact (ct_len_pos _ _ _ HE E0) | reflexivity].
  Qed.

  Lemma existsb_rev {A} (p : A -> bool) l : existsb p (rev l) = existsb p l.
  Proof.
    induction l as [|x r IH]; [reflexivity|]. cbn [rev]. rewrite existsb_app, IH. cbn. rewrite orb_false_r. apply orb_comm.
  Qed.

  (* every descriptor that create_stream builds is accepted when its sd blob is loaded back *)
  Theorem validate_accepts_created name key ivf f :
    H_length -> E_length ->
    utf8_ok (utf8_enc name) = true -> utf8_ok (utf8_enc (sanitize name)) = true ->
    let d := s_desc (build_stream name key ivf f) in
    validate (to_sdj d) = Ok d.
  Proof.
    intros HL HE Hn Hs d.
    destruct (commitments name key ivf f HL HE) as (Hsh & _).
    destruct (build_blobs name key ivf f) as (Hb & _ & Hk & Hnm & Hsg). fold d in Hsh, Hb, Hk, Hnm, Hsg.
    assert (Hbs : map as_dict (d_blobs d) = d_blobs d).
    { rewrite Hb, map_app, created_as_dict by exact HL. reflexivity. }
    assert (Hgs : get_stream_hash (d_name d) (d_key d) (d_sugg d) (d_blobs d) = Some (d_shash d)).
    { unfold d at 5, C02.build_stream. cbn [s_desc d_shash].
      unfold d, C02.build_stream. cbn [s_desc d_name d_key d_sugg d_blobs].
      unfold C02.get_stream_hash, calc_stream_hash, stream_pre, blobs_hashsum.
      rewrite map_app, created_as_dict by exact HL. cbn [map].
      rewrite (hashsums_make key ivf HL HE (split f) 0 _ (H (term_pre (length (split f)) (ivf (length (split f)))) ++ []))
        by (rewrite make_blobs_length; reflexivity).
      reflexivity. }
    unfold C02.validate, to_sdj. cbn [j_blobs j_name j_sugg j_key j_shash].
    rewrite Hbs, Hb, rev_app_distr. cbn [rev app terminator b_len b_hash].
    cbn [Z.eqb negb].
    rewrite existsb_rev, data_len_nonzero by exact HE.
    pose proof (numbered_make key ivf (split f) 0) as Hno. cbn [Nat.add] in Hno. rewrite Hno. cbn [negb].
    rewrite Hnm, Hsg, !unhex_decode_hex by assumption.
    rewrite <- Hnm, <- Hsg, <- Hb.
    unfold new_desc. rewrite Hgs.
    destruct (d_shash d) as [|c t] eqn:Esh.
    - exfalso. symmetry in Hsh. exact (hexH_nonempty _ HL Hsh).
    - rewrite bytes_eqb_refl. rewrite <- Esh. destruct d; reflexivity.
  Qed.

  Lemma rev_eq_cons {A} (l : list A) x r : rev l = x :: r -> l = rev r ++ [x].
  Proof. intro Hr. rewrite <- (rev_involutive l), Hr. reflexivity. Qed.

  (* accepted => every consistency condition holds (contrapositive: each inconsistency is refused) *)
  Theorem validate_sound j d : validate j = Ok d ->
    exists init last name sugg,
      j_blobs j = init ++ [last] /\ b_len last = 0%Z /\ b_hash last = None /\
      Forall (fun b => b_len b <> 0%Z) init /\
      (forall k b, nth_error (j_blobs j) k = Some b -> b_num b = Z.of_nat k) /\
      unhex (j_name j) = Some name /\ utf8_ok name = true /\
      unhex (j_sugg j) = Some sugg /\ utf8_ok sugg = true /\
      get_stream_hash name (j_key j) sugg (j_blobs j) = Some (j_shash j) /\
      d = mkDesc name (j_key j) sugg (j_blobs j) (j_shash j).
  Proof.
    unfold C02.validate. intro Hv.
    destruct (rev (j_blobs j)) as [|last rinit] eqn:Er; [discriminate|].
    destruct (Z.eqb_spec (b_len last) 0) as [Hl0|]; cbn [negb] in Hv; [|discriminate].
    destruct (existsb (fun b => Z.eqb (b_len b) 0) rinit) eqn:Ez; [discriminate|].
    destruct (b_hash last) eqn:Eh; [discriminate|].
    destruct (numbered_ok 0 (j_blobs j)) eqn:En; cbn [negb] in Hv; [|discriminate].
    unfold unhex_decode in Hv.
    destruct (forallb _ (j_name j)); cbn [negb] in Hv; [|discriminate].
    destruct (unhex (j_name j)) as [name|] eqn:Eun; [|discriminate].
    destruct (utf8_ok name) eqn:Eok; [|discriminate].
    destruct (forallb _ (j_sugg j)); cbn [negb] in Hv; [|discriminate].
    destruct (unhex (j_sugg j)) as [sugg|] eqn:Eus; [|discriminate].
    destruct (utf8_ok sugg) eqn:Eoks; [|discriminate].
    destruct (new_desc H name (j_key j) sugg (j_blobs j) (j_shash j)) as [d0|] eqn:End; [|discriminate].
    destruct (get_stream_hash name (j_key j) sugg (j_blobs j)) as [h|] eqn:Eg; [|discriminate].
    destruct (bytes_eqb h (j_shash j)) eqn:Eb; [|discriminate].
    apply bytes_eqb_eq in Eb. inversion Hv; subst d0.
    exists (rev rinit), last, name, sugg.
    apply rev_eq_cons in Er.
    repeat match goal with |- _ /\ _ => split end; try assumption; try reflexivity.
    - apply Forall_forall. intros b Hin Hb0. apply in_rev in Hin.
      assert (existsb (fun b => Z.eqb (b_len b) 0) rinit = true); [|congruence].
      apply existsb_exists. exists b. split; [exact Hin | apply Z.eqb_eq; exact Hb0].
    - intros k b Hk. apply (proj1 (numbered_ok_spec _ _) En k b Hk).
    - congruence.
    - unfold new_desc in End. rewrite Eg in End. subst h.
      destruct (j_shash j); inversion End; reflexivity.
  Qed.

  (* which check refuses first, with the error class of the code *)
  Theorem validate_refuses j :
    (j_blobs j = [] -> validate j = Err EIndex) /\
    (forall init last, j_blobs j = init ++ [last] ->
       (b_len last <> 0%Z -> validate j = Err ENoTerminator) /\
       (b_len last = 0%Z -> Exists (fun b => b_len b = 0%Z) init -> validate j = Err EZeroData) /\
       (b_len last = 0%Z -> Forall (fun b => b_len b <> 0%Z) init ->
          (forall h, b_hash last = Some h -> validate j = Err ETermHash) /\
          (b_hash last = None ->
             (numbered_ok 0 (j_blobs j) = false -> validate j = Err EOrder) /\
             (numbered_ok 0 (j_blobs j) = true -> forall name sugg h,
                unhex_decode (j_name j) = Ok name -> unhex_decode (j_sugg j) = Ok sugg ->
                get_stream_hash name (j_key j) sugg (j_blobs j) = Some h -> h <> j_shash j ->
                validate j = Err EStreamHash)))).
  Proof.
    split.
    - intro E0. unfold C02.validate. rewrite E0. reflexivity.
    - intros init last Hb.
      assert (Hr : rev (j_blobs j) = last :: rev init) by (rewrite Hb, rev_app_distr; reflexivity).
      split; [|split].
      + intro Hl. unfold C02.validate. rewrite Hr. destruct (Z.eqb_spec (b_len last) 0); [contradiction | reflexivity].
      + intros Hl Hex. unfold C02.validate. rewrite Hr, Hl. cbn [Z.eqb negb].
        replace (existsb (fun b => Z.eqb (b_len b) 0) (rev init)) with true; [reflexivity|].
        symmetry. rewrite existsb_rev. apply existsb_exists. apply Exists_exists in Hex.
        destruct Hex as (b & Hin & Hb0). exists b. split; [exact Hin | apply Z.eqb_eq; exact Hb0].
      + intros Hl Hall.
        assert (Hnz : existsb (fun b => Z.eqb (b_len b) 0) (rev init) = false).
        { rewrite existsb_rev. destruct (existsb _ init) eqn:Ex; [|reflexivity].
          apply existsb_exists in Ex. destruct Ex as (b & Hin & Hb0). apply Z.eqb_eq in Hb0.
          rewrite Forall_forall in Hall. exfalso. exact (Hall b Hin Hb0). }
        split.
        * intros h Hh. unfold C02.validate. rewrite Hr, Hl. cbn [Z.eqb negb]. rewrite Hnz, Hh. reflexivity.
        * intro Hh. split.
          -- intro Hn. unfold C02.validate. rewrite Hr, Hl. cbn [Z.eqb negb]. rewrite Hnz, Hh, Hn. reflexivity.
          -- intros Hn name sugg h Hnm Hsg Hg Hne. unfold C02.validate.
             rewrite Hr, Hl. cbn [Z.eqb negb]. rewrite Hnz, Hh, Hn. cbn [negb]. rewrite Hnm, Hsg.
             unfold new_desc. rewrite Hg.
             destruct (bytes_eqb h (j_shash j)) eqn:Eb; [apply bytes_eqb_eq in Eb; contradiction|].
             destruct (j_shash j); reflexivity.
  Qed.

  (* ---- the stream hash binds the content, up to an explicit SHA collision ---- *)
  Definition collision : Prop := exists x y : bytes, x <> y /\ H x = H y.

  (* fixed-width fields: 32 hex characters of IV, 96 of blob hash; numbered by position; a hash exactly on
     the data blobs *)
  Definition fixed_blob (i : nat) (b : blob) : Prop :=
    b_num b = Z.of_nat i /\ length (b_iv b) = 32%nat /\
    (if Z.eqb (b_len b) 0 then b_hash b = None else exists h, b_hash b = Some h /\ length h = 96%nat).
  Fixpoint fixed_blobs (i : nat) (bs : list blob) : Prop :=
    match bs with
    | [] => True
    | b :: r => fixed_blob i b /\ fixed_blobs (S i) r
    end.

  Lemma app_inv_len {A} : forall (a a' b b' : list A), length a = length a' -> a ++ b = a' ++ b' -> a = a' /\ b = b'.
  Proof.
    induction a as [|x a IH]; intros [|y a'] b b' Hl He; simpl in Hl; try discriminate.
    - split; [reflexivity | exact He].
    - simpl in He. inversion He; subst. destruct (IH a' b b' ltac:(liaD) H2) as [-> ->]. split; reflexivity.
  Qed.

  Lemma bytes_eq_dec (a b : bytes) : {a = b} + {a <> b}.
  Proof. destruct (bytes_eqb a b) eqn:Eb; [left; apply bytes_eqb_eq; exact Eb | right; apply bytes_eqb_neq; exact Eb]. Qed.

  Lemma hash_eq x y : H x = H y -> x = y \/ collision.
  Proof. intro Hh. destruct (bytes_eq_dec x y) as [->|Hne]; [left; reflexivity | right; exists x, y; split; assumption]. Qed.

  Lemma fixed_blob_as_dict i b : fixed_blob i b -> as_dict b = b.
  Proof.
    intros (_ & _ & Hh). apply as_dict_id. intro E0. rewrite E0 in Hh.
    destruct (Z.eqb (b_len b) 0); [discriminate|]. destruct Hh as (h & Hh & Hl). inversion Hh; subst. discriminate.
  Qed.

  Lemma fixed_blobs_as_dict : forall bs i, fixed_blobs i bs -> map as_dict bs = bs.
  Proof.
    induction bs as [|b r IH]; intros i Hf; [reflexivity|]. destruct Hf as [Hb Hr].
    cbn [map]. rewrite (fixed_blob_as_dict i b Hb), (IH (S i) Hr). reflexivity.
  Qed.

  Lemma blob_pre_inj i b1 b2 p : fixed_blob i b1 -> fixed_blob i b2 ->
    blob_pre b1 = Some p -> blob_pre b2 = Some p -> b1 = b2.
  Proof.
    intros (Hn1 & Hi1 & Hh1) (Hn2 & Hi2 & Hh2) Hp1 Hp2.
    destruct b1 as [n1 l1 iv1 h1], b2 as [n2 l2 iv2 h2]. unfold blob_pre in *. cbn [b_num b_len b_iv b_hash] in *.
    subst n1 n2.
    destruct (Z.eqb_spec l1 0) as [E1|E1], (Z.eqb_spec l2 0) as [E2|E2].
    - subst. inversion Hp1 as [P1]. inversion Hp2 as [P2]. rewrite <- P1 in P2.
      apply app_inv_head in P2. apply app_inv_len in P2; [|congruence]. destruct P2 as [-> _]. reflexivity.
    - exfalso. destruct Hh2 as (h & -> & Hl). inversion Hp1 as [P1]. inversion Hp2 as [P2]. rewrite <- P1 in P2.
      apply (f_equal (@length byte)) in P2. rewrite !app_length in P2. subst l1.
      change (dec_of_Z 0) with (dec_of_N 0) in P2. rewrite dec_of_N_0 in P2. simpl in P2. liaD.
    - exfalso. destruct Hh1 as (h & -> & Hl). inversion Hp1 as [P1]. inversion Hp2 as [P2]. rewrite <- P2 in P1.
      apply (f_equal (@length byte)) in P1. rewrite !app_length in P1. subst l2.
      change (dec_of_Z 0) with (dec_of_N 0) in P1. rewrite dec_of_N_0 in P1. simpl in P1. liaD.
    - destruct Hh1 as (g1 & -> & Hl1). destruct Hh2 as (g2 & -> & Hl2).
      inversion Hp1 as [P1]. inversion Hp2 as [P2]. rewrite <- P1 in P2.
      apply app_inv_len in P2; [|congruence]. destruct P2 as [-> P2].
      apply app_inv_head in P2. apply app_inv_len in P2; [|congruence]. destruct P2 as [-> P2].
      apply dec_of_Z_inj in P2. subst. reflexivity.
  Qed.

  Lemma concat_opt_cons (x : option bytes) l c : concat_opt (x :: l) = Some c ->
    exists a t, x = Some a /\ concat_opt l = Some t /\ c = a ++ t.
  Proof.
    cbn [concat_opt]. destruct x as [a|]; [|discriminate]. destruct (concat_opt l) as [t|]; [|discriminate].
    intro E0. inversion E0. exists a, t. repeat split.
  Qed.

  Lemma blobs_inj : H_length -> forall bs1 bs2 i c,
    fixed_blobs i bs1 -> fixed_blobs i bs2 ->
    concat_opt (map (blob_hashsum H) bs1) = Some c -> concat_opt (map (blob_hashsum H) bs2) = Some c ->
    bs1 = bs2 \/ collision.
  Proof.
    intros HL. induction bs1 as [|b1 r1 IH]; intros [|b2 r2] i c F1 F2 C1 C2.
    - left; reflexivity.
    - exfalso. cbn in C1. inversion C1; subst. apply concat_opt_cons in C2. destruct C2 as (a & t & Ha & _ & Hc).
      unfold blob_hashsum in Ha. destruct (blob_pre b2); [|discriminate]. inversion Ha; subst.
      apply (f_equal (@length byte)) in Hc. rewrite app_length, HL in Hc. simpl in Hc. liaD.
    - exfalso. cbn in C2. inversion C2; subst. apply concat_opt_cons in C1. destruct C1 as (a & t & Ha & _ & Hc).
      unfold blob_hashsum in Ha. destruct (blob_pre b1); [|discriminate]. inversion Ha; subst.
      apply (f_equal (@length byte)) in Hc. rewrite app_length, HL in Hc. simpl in Hc. liaD.
    - cbn [map] in C1, C2.
      apply concat_opt_cons in C1. destruct C1 as (a1 & t1 & Ha1 & Ht1 & Hc1).
      apply concat_opt_cons in C2. destruct C2 as (a2 & t2 & Ha2 & Ht2 & Hc2).
      unfold blob_hashsum in Ha1, Ha2.
      destruct (blob_pre b1) as [p1|] eqn:P1; [|discriminate]. destruct (blob_pre b2) as [p2|] eqn:P2; [|discriminate].
      inversion Ha1; inversion Ha2; subst a1 a2. rewrite Hc1 in Hc2.
      apply app_inv_len in Hc2; [|rewrite !HL; reflexivity]. destruct Hc2 as [Hh Ht]. subst t2.
      destruct F1 as [Fb1 Fr1], F2 as [Fb2 Fr2].
      destruct (hash_eq _ _ Hh) as [Hp | Hcol]; [|right; exact Hcol]. subst p2.
      pose proof (blob_pre_inj i b1 b2 p1 Fb1 Fb2 P1 P2) as ->.
      destruct (IH r2 (S i) t1 Fr1 Fr2 Ht1 Ht2) as [-> | Hcol]; [left; reflexivity | right; exact Hcol].
  Qed.

  (* two descriptors with fixed-width key / IVs / blob hashes and names of the same length that have the same
     stream hash are equal, or the proof hands back two different byte strings with the same H *)
  Theorem stream_hash_binding n1 k1 s1 bs1 n2 k2 s2 bs2 h :
    H_length -> length k1 = 32%nat -> length k2 = 32%nat -> length n1 = length n2 ->
    fixed_blobs 0 bs1 -> fixed_blobs 0 bs2 ->
    get_stream_hash n1 k1 s1 bs1 = Some h -> get_stream_hash n2 k2 s2 bs2 = Some h ->
    (n1 = n2 /\ k1 = k2 /\ s1 = s2 /\ bs1 = bs2) \/ collision.
  Proof.
    intros HL Hk1 Hk2 Hn F1 F2 G1 G2.
    unfold C02.get_stream_hash, calc_stream_hash, stream_pre, blobs_hashsum in G1, G2.
    rewrite (fixed_blobs_as_dict _ _ F1) in G1. rewrite (fixed_blobs_as_dict _ _ F2) in G2.
    destruct (concat_opt (map (blob_hashsum H) bs1)) as [c1|] eqn:C1; [|discriminate].
    destruct (concat_opt (map (blob_hashsum H) bs2)) as [c2|] eqn:C2; [|discriminate].
    inversion G1 as [G1']. inversion G2 as [G2']. rewrite <- G1' in G2'. apply hex_inj in G2'.
    destruct (hash_eq _ _ G2') as [Hp | Hcol]; [|right; exact Hcol].
    apply app_inv_len in Hp; [|rewrite !hex_length; liaD]. destruct Hp as [Hn' Hp]. apply hex_inj in Hn'.
    apply app_inv_len in Hp; [|congruence]. destruct Hp as [Hk' Hp].
    assert (Hls : length (hex s2) = length (hex s1)).
    { apply (f_equal (@length byte)) in Hp. rewrite !app_length, !HL in Hp. liaD. }
    apply app_inv_len in Hp; [|exact Hls]. destruct Hp as [Hs' Hc]. apply hex_inj in Hs'.
    destruct (hash_eq _ _ Hc) as [Hcc | Hcol]; [|right; exact Hcol]. subst c1.
    destruct (blobs_inj HL bs1 bs2 0 c2 F1 F2 C1 C2) as [-> | Hcol]; [|right; exact Hcol].
    left. repeat split; congruence.
  Qed.

  (* the same for two descriptor blobs that both load *)
  Definition widths (j : sdj) : Prop :=
    length (j_key j) = 32%nat /\
    Forall (fun b => length (b_iv b) = 32%nat /\
                     match b_hash b with Some h => length h = 96%nat | None => True end) (j_blobs j).

  Lemma concat_opt_all {A} (fn : A -> option bytes) : forall l c, concat_opt (map fn l) = Some c ->
    forall b, In b l -> fn b <> None.
  Proof.
    induction l as [|x r IH]; intros c Hc b Hin; [contradiction|].
    cbn [map] in Hc. apply concat_opt_cons in Hc. destruct Hc as (a & t & Ha & Ht & _).
    destruct Hin as [<- | Hin]; [congruence | exact (IH t Ht b Hin)].
  Qed.

  Lemma fixed_blobs_of_nth : forall bs i,
    (forall k b, nth_error bs k = Some b -> fixed_blob (i + k) b) -> fixed_blobs i bs.
  Proof.
    induction bs as [|x r IH]; intros i Hall; [exact I|]. split.
    - specialize (Hall 0%nat x eq_refl). rewrite Nat.add_0_r in Hall. exact Hall.
    - apply IH. intros k b Hk. specialize (Hall (S k) b Hk). replace (S i + k)%nat with (i + S k)%nat by liaD. exact Hall.
  Qed.

  Lemma accepted_fixed j d : validate j = Ok d -> widths j -> fixed_blobs 0 (j_blobs j).
  Proof.
    intros Hv (Hwk & Hwb).
    destruct (validate_sound j d Hv) as (init & last & name & sugg & Hb & Hl0 & Hlh & Hnz & Hnum & _ & _ & _ & _ & Hg & _).
    apply fixed_blobs_of_nth. intros k b Hk. cbn [Nat.add].
    pose proof (nth_error_In _ _ Hk) as Hin.
    rewrite Forall_forall in Hwb. destruct (Hwb b Hin) as [Hiv Hhl].
    split; [exact (Hnum k b Hk)|]. split; [exact Hiv|].
    rewrite Hb in Hin. apply in_app_or in Hin. destruct Hin as [Hin | [<- | []]].
    - rewrite Forall_forall in Hnz. specialize (Hnz b Hin).
      destruct (Z.eqb_spec (b_len b) 0) as [E0|_]; [contradiction|].
      unfold C02.get_stream_hash, calc_stream_hash, stream_pre, blobs_hashsum in Hg.
      destruct (concat_opt (map (blob_hashsum H) (map as_dict (j_blobs j)))) as [c|] eqn:Ec; [|discriminate].
      rewrite map_map in Ec.
      assert (Hin' : In b (j_blobs j)) by (rewrite Hb; apply in_or_app; left; exact Hin).
      pose proof (concat_opt_all _ _ _ Ec b Hin') as Hsome.
      unfold blob_hashsum, blob_pre in Hsome. cbn [as_dict b_len b_hash] in Hsome.
      destruct (Z.eqb_spec (b_len b) 0) as [E0|_]; [contradiction|].
      destruct (b_hash b) as [[|x h]|] eqn:Eh; try (exfalso; apply Hsome; reflexivity).
      exists (x :: h). split; [reflexivity | exact Hhl].
    - rewrite Hl0. cbn [Z.eqb]. exact Hlh.
  Qed.

  Theorem accepted_tampering_collides j1 j2 d1 d2 :
    H_length -> validate j1 = Ok d1 -> validate j2 = Ok d2 -> widths j1 -> widths j2 ->
    length (d_name d1) = length (d_name d2) -> j_shash j1 = j_shash j2 ->
    d1 = d2 \/ collision.
  Proof.
    intros HL V1 V2 W1 W2 Hn Hs.
    pose proof (accepted_fixed j1 d1 V1 W1) as F1. pose proof (accepted_fixed j2 d2 V2 W2) as F2.
    destruct (validate_sound j1 d1 V1) as (_ & _ & n1 & s1 & _ & _ & _ & _ & _ & _ & _ & _ & _ & G1 & D1).
    destruct (validate_sound j2 d2 V2) as (_ & _ & n2 & s2 & _ & _ & _ & _ & _ & _ & _ & _ & _ & G2 & D2).
    subst d1 d2. cbn [d_name] in Hn. rewrite <- Hs in G2.
    destruct (stream_hash_binding n1 (j_key j1) s1 (j_blobs j1) n2 (j_key j2) s2 (j_blobs j2) (j_shash j1)
                HL (proj1 W1) (proj1 W2) Hn F1 F2 G1 G2) as [(-> & -> & -> & ->) | Hcol]; [|right; exact Hcol].
    left. rewrite Hs. reflexivity.
  Qed.

  (* without the width / name-length conditions the stream hash does NOT bind the fields: its preimage is a plain
     concatenation.  'ab.txt' with key 3031...3e3f and 'ab.tx' with key 743031...3e (suggested name '?ab.txt')
     have the same stream hash for every blob list and every H. *)
  Definition shift_name1 : bytes := bytes_of_Ns [97; 98; 46; 116; 120; 116]%N.
  Definition shift_key1 : bytes := hex (bytes_of_Ns [48; 49; 50; 51; 52; 53; 54; 55; 56; 57; 58; 59; 60; 61; 62; 63]%N).
  Definition shift_name2 : bytes := bytes_of_Ns [97; 98; 46; 116; 120]%N.
  Definition shift_key2 : bytes := hex (bytes_of_Ns [116; 48; 49; 50; 51; 52; 53; 54; 55; 56; 57; 58; 59; 60; 61; 62]%N).
  Definition shift_sugg2 : bytes := bytes_of_Ns [63; 97; 98; 46; 116; 120; 116]%N.

  Lemma boundary_shift_not_bound bs :
    get_stream_hash shift_name1 shift_key1 shift_name1 bs = get_stream_hash shift_name2 shift_key2 shift_sugg2 bs /\
    shift_key1 <> shift_key2 /\ length shift_key1 = 32%nat /\ length shift_key2 = 32%nat.
  Proof.
    split; [|split; [|split]].
    - unfold C02.get_stream_hash, calc_stream_hash, stream_pre.
      destruct (blobs_hashsum H (map as_dict bs)) as [hb|]; [|reflexivity].
      assert (Hpre : hex shift_name1 ++ shift_key1 ++ hex shift_name1 ++ hb =
                     hex shift_name2 ++ shift_key2 ++ hex shift_sugg2 ++ hb) by (vm_compute; reflexivity).
      rewrite Hpre. reflexivity.
    - intro E0. apply (f_equal (fun l => map N_of_byte l)) in E0. vm_compute in E0. discriminate.
    - vm_compute. reflexivity.
    - vm_compute. reflexivity.
  Qed.

End Proofs.

(* ------------------------------------------------------------------------------------------ *)
(* sanitize_file_name *)

Definition safe_cp (c : N) : Prop := is_illegal c = false /\ is_ctrl c = false.

Lemma safe_cp_spec c : safe_cp c ->
  (32 <= c /\ c <> 47 /\ c <> 92 /\ c <> 60 /\ c <> 62 /\ c <> 58 /\ c <> 34 /\ c <> 124 /\ c <> 63 /\ c <> 42 /\
   (c < 127 \/ 159 < c))%N.
Proof.
  unfold safe_cp, is_illegal, is_ctrl. intros [Hi Hc].
  repeat (apply orb_false_iff in Hi; destruct Hi as [Hi ?]).
  repeat match goal with Hx : (_ =? _)%N = false |- _ => apply N.eqb_neq in Hx end.
  apply orb_false_iff in Hc. destruct Hc as [Hc Hd]. apply N.ltb_ge in Hc.
  assert (c < 127 \/ 159 < c)%N.
  { apply andb_false_iff in Hd. destruct Hd as [Hd | Hd]; apply N.leb_gt in Hd; lia. }
  repeat split; assumption.
Qed.

Lemma match_here_unsafe st a r : safe_cp a \/ exists k, match_here st (a :: r) = Some (S k).
Proof.
  unfold safe_cp, match_here.
  destruct (is_illegal a) eqn:Ei.
  - right. cbn [run]. rewrite Ei. eexists. reflexivity.
  - destruct (is_ctrl a) eqn:Ec.
    + right. cbn [run]. rewrite Ec. eexists. reflexivity.
    + left. split; reflexivity.
Qed.

Lemma strip_go_In : forall s skip st c, In c (strip_go skip st s) -> In c s /\ safe_cp c.
Proof.
  induction s as [|a r IH]; intros skip st c Hin; [contradiction|].
  cbn [strip_go] in Hin. destruct skip as [|k].
  - destruct (match_here st (a :: r)) as [[|k]|] eqn:Em.
    + destruct Hin as [<- | Hin].
      * split; [left; reflexivity|]. destruct (match_here_unsafe st a r) as [Hs | (k & Hk)]; [exact Hs | congruence].
      * destruct (IH _ _ _ Hin) as [H1 H2]. split; [right; exact H1 | exact H2].
    + destruct (IH _ _ _ Hin) as [H1 H2]. split; [right; exact H1 | exact H2].
    + destruct Hin as [<- | Hin].
      * split; [left; reflexivity|]. destruct (match_here_unsafe st a r) as [Hs | (k & Hk)]; [exact Hs | congruence].
      * destruct (IH _ _ _ Hin) as [H1 H2]. split; [right; exact H1 | exact H2].
  - destruct (IH _ _ _ Hin) as [H1 H2]. split; [right; exact H1 | exact H2].
Qed.

Lemma strip_In s c : In c (strip s) -> In c s /\ safe_cp c.
Proof. apply strip_go_In. Qed.

Lemma default_safe c : In c default_name -> safe_cp c.
Proof.
  unfold default_name. cbn [In]. intro Hin.
  repeat (destruct Hin as [<- | Hin]; [split; reflexivity|]). contradiction.
Qed.

Lemma In_firstn {A} : forall n (l : list A) x, In x (firstn n l) -> In x l.
Proof. induction n; intros [|y l] x Hin; simpl in *; try contradiction. destruct Hin; [left | right]; auto. Qed.
Lemma In_skipn {A} : forall n (l : list A) x, In x (skipn n l) -> In x l.
Proof. induction n; intros [|y l] x Hin; simpl in *; try contradiction; auto. Qed.

Lemma splitext_In p fn ext c : splitext p = (fn, ext) -> In c fn \/ In c ext -> In c p.
Proof.
  unfold splitext. intro Hs.
  destruct (rfind is_dot p) as [di|].
  - destruct (_ && _).
    + inversion Hs; subst. intros [Hin | Hin]; [eapply In_firstn | eapply In_skipn]; exact Hin.
    + inversion Hs; subst. intros [Hin | []]. exact Hin.
  - inversion Hs; subst. intros [Hin | []]. exact Hin.
Qed.

Theorem sanitize_safe name :
  sanitize name <> [] /\
  forall c, In c (sanitize name) -> safe_cp c /\ (In c name \/ In c default_name).
Proof.
  unfold sanitize. destruct (splitext name) as [fn ext] eqn:Es.
  assert (Hfn : forall c, In c (strip fn) -> safe_cp c /\ (In c name \/ In c default_name)).
  { intros c Hin. destruct (strip_In _ _ Hin) as [H1 H2]. split; [exact H2|]. left. eapply splitext_In; eauto. }
  assert (Hext : forall c, In c (strip ext) -> safe_cp c /\ (In c name \/ In c default_name)).
  { intros c Hin. destruct (strip_In _ _ Hin) as [H1 H2]. split; [exact H2|]. left. eapply splitext_In; eauto. }
  assert (Hdf : forall c, In c default_name -> safe_cp c /\ (In c name \/ In c default_name)).
  { intros c Hin. split; [apply default_safe; exact Hin | right; exact Hin]. }
  destruct (strip fn) as [|x fr] eqn:Ef; destruct (Nat.ltb 1 (length (strip ext))); split;
    try (intros c Hin; try (apply in_app_or in Hin; destruct Hin as [Hin | Hin]); auto; fail);
    try discriminate.
Qed.

Theorem sanitize_safe_chars name :
  sanitize name <> [] /\
  forall c, In c (sanitize name) ->
    (32 <= c /\ c <> 47 /\ c <> 92 /\ c <> 60 /\ c <> 62 /\ c <> 58 /\ c <> 34 /\ c <> 124 /\ c <> 63 /\ c <> 42 /\ (c < 127 \/ 159 < c))%N.
Proof.
  destruct (sanitize_safe name) as [Hne Hall]. split; [exact Hne|].
  intros c Hin. apply safe_cp_spec. exact (proj1 (Hall c Hin)).
Qed.

(* ------------------------------------------------------------------------------------------ *)
(* str.encode() of Unicode scalar values is valid UTF-8 *)
Definition scalar (c : N) : Prop := (c < 55296 \/ (57344 <= c /\ c < 1114112))%N.

Ltac decide_bool :=
  repeat match goal with
  | |- context [N.ltb ?a ?b] => first [ rewrite (proj2 (N.ltb_lt a b)) by lia | rewrite (proj2 (N.ltb_ge a b)) by lia ]
  | |- context [N.leb ?a ?b] => first [ rewrite (proj2 (N.leb_le a b)) by lia | rewrite (proj2 (N.leb_gt a b)) by lia ]
  | |- context [N.eqb ?a ?b] => first [ rewrite (proj2 (N.eqb_eq a b)) by lia | rewrite (proj2 (N.eqb_neq a b)) by lia ]
  end.

Lemma utf8_cp_small c : scalar c -> Forall (fun x => (x < 256)%N) (utf8_cp c).
Proof.
  intro Hs. unfold utf8_cp, scalar in *.
  destruct (N.ltb_spec c 128); [|destruct (N.ltb_spec c 2048); [|destruct (N.ltb_spec c 65536)]];
    repeat constructor; lia.
Qed.

Lemma utf8_ok_n_enc : forall s fuel, Forall scalar s -> (length (flat_map utf8_cp s) <= fuel)%nat ->
  utf8_ok_n fuel (flat_map utf8_cp s) = true.
Proof.
  induction s as [|c r IH]; intros fuel Hs Hl.
  - destruct fuel; reflexivity.
  - inversion Hs as [|? ? Hc Hr]; subst. cbn [flat_map] in *. unfold scalar in Hc.
    destruct fuel as [|k].
    { exfalso. rewrite app_length in Hl. unfold utf8_cp in Hl.
      destruct (c <? 128)%N; [|destruct (c <? 2048)%N; [|destruct (c <? 65536)%N]]; simpl in Hl; lia. }
    rewrite app_length in Hl. unfold utf8_cp in *.
    destruct (N.ltb_spec c 128); [|destruct (N.ltb_spec c 2048); [|destruct (N.ltb_spec c 65536)]];
      cbn [app length] in Hl |- *; cbn [utf8_ok_n]; unfold in_rng, cont.
    + decide_bool. apply IH; [exact Hr | lia].
    + decide_bool. cbn [andb]. apply IH; [exact Hr | lia].
    + destruct (N.eqb_spec (224 + c / 4096) 224); [|destruct (N.eqb_spec (224 + c / 4096) 237)];
        decide_bool; cbn [andb]; (apply IH; [exact Hr | lia]).
    + destruct (N.eqb_spec (240 + c / 262144) 240); [|destruct (N.eqb_spec (240 + c / 262144) 244)];
        decide_bool; cbn [andb]; (apply IH; [exact Hr | lia]).
Qed.

Lemma Ns_of_bytes_of_Ns l : Forall (fun x => (x < 256)%N) l -> Ns_of_bytes (bytes_of_Ns l) = l.
Proof.
  induction 1 as [|x r Hx Hr IH]; [reflexivity|].
  unfold Ns_of_bytes, bytes_of_Ns in *. cbn [map]. rewrite byte_of_N_small by exact Hx. f_equal. exact IH.
Qed.

Lemma flat_map_small s : Forall scalar s -> Forall (fun x => (x < 256)%N) (flat_map utf8_cp s).
Proof.
  induction 1 as [|c r Hc Hr IH]; [constructor|]. cbn [flat_map]. apply Forall_app. split; [apply utf8_cp_small; exact Hc | exact IH].
Qed.

Theorem utf8_enc_valid s : Forall scalar s -> utf8_ok (utf8_enc s) = true.
Proof.
  intro Hs. unfold utf8_ok, utf8_enc. rewrite Ns_of_bytes_of_Ns by (apply flat_map_small; exact Hs).
  apply utf8_ok_n_enc; [exact Hs|]. unfold bytes_of_Ns. rewrite map_length. apply le_n.
Qed.

Lemma default_scalar c : In c default_name -> scalar c.
Proof.
  unfold default_name. cbn [In]. intro Hin.
  repeat (destruct Hin as [<- | Hin]; [left; reflexivity|]). contradiction.
Qed.

Lemma sanitize_scalar name : Forall scalar name -> Forall scalar (sanitize name).
Proof.
  intro Hn. apply Forall_forall. intros c Hin. rewrite Forall_forall in Hn.
  destruct (proj2 (sanitize_safe name) c Hin) as [_ [Hi | Hi]]; [apply Hn; exact Hi | apply default_scalar; exact Hi].
Qed.

Theorem validate_accepts_created_scalar (H : bytes -> bytes) (E : bytes -> bytes -> bytes -> bytes) maxb name key ivf f :
  H_length H -> E_length E -> Forall scalar name ->
  let d := s_desc (build_stream H E maxb name key ivf f) in
  validate H (to_sdj d) = Ok d.
Proof.
  intros HL HE Hs. apply validate_accepts_created; try assumption.
  - apply utf8_enc_valid. exact Hs.
  - apply utf8_enc_valid. apply sanitize_scalar. exact Hs.
Qed.

(* ------------------------------------------------------------------------------------------ *)
(* the ciphertext lengths of a published file, in N arithmetic (what the harness compares on true 2 MiB runs) *)
Lemma ct_len_of_nat n : N.of_nat (16 * (n / 16 + 1)) = ct_len (N.of_nat n).
Proof.
  unfold ct_len. rewrite Nat2N.inj_mul, Nat2N.inj_add, Nat2N.inj_div. reflexivity.
Qed.

Lemma map_repeat {A B} (g : A -> B) x n : map g (repeat x n) = repeat (g x) n.
Proof. induction n; simpl; congruence. Qed.

Lemma make_blobs_ct_lengths (H : bytes -> bytes) (E : bytes -> bytes -> bytes -> bytes) key ivf :
  E_length E -> forall ps n,
  map (fun c => N.of_nat (length c)) (map snd (make_blobs H E key ivf n ps)) =
  map (fun l => ct_len (N.of_nat l)) (map (@length byte) ps).
Proof.
  intros HE. induction ps as [|p r IH]; intro n; [reflexivity|].
  cbn [C02.make_blobs map snd make_blob]. rewrite IH, HE, ct_len_of_nat. reflexivity.
Qed.

Theorem ciphertext_lengths (H : bytes -> bytes) (E : bytes -> bytes -> bytes -> bytes) maxb name key ivf f :
  E_length E -> (2 <= maxb)%nat ->
  map (fun c => N.of_nat (length c)) (s_cts (build_stream H E maxb name key ivf f)) =
  expected_lengths (N.of_nat maxb) (N.of_nat (length f)).
Proof.
  intros HE Hm. destruct (build_blobs H E maxb name key ivf f) as (_ & Hc & _). rewrite Hc.
  rewrite make_blobs_ct_lengths by exact HE. rewrite split_lengths by exact Hm.
  unfold expected_lengths.
  assert (Hc1 : (N.of_nat maxb - 1 = N.of_nat (maxb - 1))%N) by lia.
  rewrite Hc1. set (c := (maxb - 1)%nat). assert (0 < c)%nat by (unfold c; lia).
  destruct (N.eqb_spec (N.of_nat c) 0) as [E0|_]; [lia|].
  rewrite map_app, !map_repeat. rewrite <- Nat2N.inj_div, Nat2N.id, <- Nat2N.inj_mod.
  f_equal.
  destruct (Nat.eqb_spec (length f mod c) 0) as [E0|E0].
  - rewrite E0. reflexivity.
  - destruct (N.eqb_spec (N.of_nat (length f mod c)) 0) as [E1|_]; [lia | reflexivity].
Qed.

(* ------------------------------------------------------------------------------------------ *)
(* the sd blob (as_json) determines the descriptor: sd_hash binds the content up to an H collision *)

Lemma byte_of_N_neq a b : (a < 256)%N -> (b < 256)%N -> a <> b -> byte_of_N a <> byte_of_N b.
Proof.
  intros Ha Hb Hne E0. apply (f_equal N_of_byte) in E0. rewrite !byte_of_N_small in E0 by assumption. contradiction.
Qed.

(* a prefix of bytes satisfying P followed by a byte that does not is determined by the whole *)
Lemma span_unique (P : byte -> Prop) : forall a1 a2 c1 c2 r1 r2,
  Forall P a1 -> Forall P a2 -> ~ P c1 -> ~ P c2 ->
  a1 ++ c1 :: r1 = a2 ++ c2 :: r2 -> a1 = a2 /\ c1 :: r1 = c2 :: r2.
Proof.
  induction a1 as [|x a1 IH]; intros [|y a2] c1 c2 r1 r2 F1 F2 N1 N2 He; cbn [app] in He.
  - split; [reflexivity | exact He].
  - exfalso. inversion He; subst. inversion F2; subst. contradiction.
  - exfalso. inversion He; subst. inversion F1; subst. contradiction.
  - inversion He as [[Hx Hr]]. inversion F1; inversion F2; subst.
    destruct (IH a2 c1 c2 r1 r2) as [-> Hc]; auto.
Qed.

(* bytes that json.dumps prints as themselves *)
Definition plain (b : byte) : Prop := (32 <= N_of_byte b)%N /\ N_of_byte b <> 34%N /\ N_of_byte b <> 92%N.

Lemma json_esc_plain b : plain b -> json_esc b = [b].
Proof.
  intros (H32 & H34 & H92). unfold json_esc.
  repeat match goal with
  | |- context [N.eqb ?a ?b] => rewrite (proj2 (N.eqb_neq a b)) by lia
  | |- context [N.ltb ?a ?b] => rewrite (proj2 (N.ltb_ge a b)) by lia
  end. reflexivity.
Qed.

Lemma json_str_plain s : Forall plain s -> json_str s = q :: s ++ [q].
Proof.
  intro Hs. unfold json_str. f_equal. f_equal.
  induction Hs as [|b r Hb Hr IH]; [reflexivity|]. cbn [flat_map]. rewrite json_esc_plain by exact Hb. cbn [app]. f_equal. exact IH.
Qed.

Lemma q_not_plain : ~ plain q.
Proof. unfold plain, q. rewrite byte_of_N_small by lia. intros (_ & H34 & _). apply H34. reflexivity. Qed.

Lemma str_split s1 s2 r1 r2 : Forall plain s1 -> Forall plain s2 ->
  json_str s1 ++ r1 = json_str s2 ++ r2 -> s1 = s2 /\ r1 = r2.
Proof.
  intros F1 F2 He. rewrite !json_str_plain in He by assumption.
  cbn [app] in He. inversion He as [He']. rewrite <- !app_assoc in He'. cbn [app] in He'.
  destruct (span_unique plain s1 s2 q q r1 r2 F1 F2 q_not_plain q_not_plain He') as [-> Hr].
  inversion Hr. split; reflexivity.
Qed.

Definition numch (b : byte) : Prop := is_digit b = true \/ b = minus_byte.

Lemma dec_of_N_numch n : Forall numch (dec_of_N n).
Proof.
  pose proof (dec_of_N_all_digits n) as Hd. apply Forall_forall. intros b Hin. left.
  rewrite forallb_forall in Hd. exact (Hd b Hin).
Qed.

Lemma dec_of_Z_numch z : Forall numch (dec_of_Z z).
Proof.
  destruct z; cbn [dec_of_Z]; try apply dec_of_N_numch. constructor; [right; reflexivity | apply dec_of_N_numch].
Qed.

Lemma num_split z1 z2 c1 c2 r1 r2 : ~ numch c1 -> ~ numch c2 ->
  dec_of_Z z1 ++ c1 :: r1 = dec_of_Z z2 ++ c2 :: r2 -> z1 = z2 /\ c1 :: r1 = c2 :: r2.
Proof.
  intros N1 N2 He.
  destruct (span_unique numch _ _ c1 c2 r1 r2 (dec_of_Z_numch z1) (dec_of_Z_numch z2) N1 N2 He) as [Hz Hr].
  split; [apply dec_of_Z_inj; exact Hz | exact Hr].
Qed.

Lemma not_numch n : (n < 256)%N -> (n < 48 \/ 57 < n)%N -> n <> 45%N -> ~ numch (byte_of_N n).
Proof.
  intros Hn Hr H45 [Hd | Hm].
  - unfold is_digit in Hd. rewrite byte_of_N_small in Hd by exact Hn.
    apply andb_true_iff in Hd. destruct Hd as [H1 H2]. apply N.leb_le in H1, H2. lia.
  - unfold minus_byte in Hm. revert Hm. apply byte_of_N_neq; lia.
Qed.

Definition colon : bytes := ascii [58; 32]%N.
Definition B (n : N) : byte := byte_of_N n.

Lemma json_blob_flat b t :
  json_blob b ++ t =
  B 123 :: (match b_hash (as_dict b) with
            | Some h => json_str (ascii k_blob_hash) ++ colon ++ json_str h ++ [B 44; B 32]
            | None => [] end) ++
  json_str (ascii k_blob_num) ++ colon ++ dec_of_Z (b_num b) ++ B 44 :: B 32 ::
  json_str (ascii k_iv) ++ colon ++ json_str (b_iv b) ++ B 44 :: B 32 ::
  json_str (ascii k_length) ++ colon ++ dec_of_Z (b_len b) ++ B 125 :: t.
Proof.
  unfold json_blob, obj, kv, comma, colon, B.
  destruct (b_hash (as_dict b)) as [h|]; cbn [app join b_num b_len b_iv as_dict];
    repeat (rewrite <- !app_assoc; cbn [app]);
    change (ascii [44%N; 32%N]) with [byte_of_N 44; byte_of_N 32]; cbn [app]; reflexivity.
Qed.

Lemma ascii_plain l : Forall (fun n => 32 <= n < 127 /\ n <> 34 /\ n <> 92)%N l -> Forall plain (ascii l).
Proof.
  induction 1 as [|n r Hn Hr IH]; [constructor|]. constructor; [|exact IH].
  unfold plain. rewrite byte_of_N_small by lia. lia.
Qed.

Ltac key_plain := apply ascii_plain; repeat constructor; lia.

Lemma keys_plain : Forall plain (ascii k_blob_hash) /\ Forall plain (ascii k_blob_num) /\ Forall plain (ascii k_iv) /\
  Forall plain (ascii k_length) /\ Forall plain (ascii k_blobs) /\ Forall plain (ascii k_key) /\
  Forall plain (ascii k_stream_hash) /\ Forall plain (ascii k_stream_name) /\ Forall plain (ascii k_stream_type) /\
  Forall plain (ascii k_sugg) /\ Forall plain (ascii v_lbryfile).
Proof. repeat split; key_plain. Qed.

Definition plain_blob (b : blob) : Prop :=
  Forall plain (b_iv b) /\ match b_hash b with Some h => Forall plain h | None => True end.

Lemma as_dict_plain b : plain_blob b -> plain_blob (as_dict b).
Proof. destruct b as [n l iv [[|x h]|]]; unfold plain_blob; cbn; tauto. Qed.

Lemma nn_B44 : ~ numch (B 44). Proof. apply not_numch; lia. Qed.
Lemma nn_B125 : ~ numch (B 125). Proof. apply not_numch; lia. Qed.

Lemma cons1_inv {A} (a : A) x y : a :: x = a :: y -> x = y.
Proof. congruence. Qed.
Lemma cons2_inv {A} (a b : A) x y : a :: b :: x = a :: b :: y -> x = y.
Proof. congruence. Qed.

Lemma blob_split b1 b2 t1 t2 : plain_blob b1 -> plain_blob b2 ->
  json_blob b1 ++ t1 = json_blob b2 ++ t2 -> as_dict b1 = as_dict b2 /\ t1 = t2.
Proof.
  intros P1 P2 He. rewrite !json_blob_flat in He.
  apply as_dict_plain in P1, P2.
  destruct keys_plain as (Kh & Kn & Ki & Kl & _).
  assert (Hd1 : as_dict b1 = mkBlob (b_num b1) (b_len b1) (b_iv b1) (b_hash (as_dict b1))) by (destruct b1; reflexivity).
  assert (Hd2 : as_dict b2 = mkBlob (b_num b2) (b_len b2) (b_iv b2) (b_hash (as_dict b2))) by (destruct b2; reflexivity).
  destruct P1 as [Pi1 Ph1], P2 as [Pi2 Ph2]. cbn [as_dict b_iv] in Pi1, Pi2.
  apply cons1_inv in He. rename He into He'.
  assert (Hrest : forall x1 x2,
    json_str (ascii k_blob_num) ++ colon ++ dec_of_Z (b_num b1) ++ B 44 :: B 32 ::
      json_str (ascii k_iv) ++ colon ++ json_str (b_iv b1) ++ B 44 :: B 32 ::
      json_str (ascii k_length) ++ colon ++ dec_of_Z (b_len b1) ++ B 125 :: x1 =
    json_str (ascii k_blob_num) ++ colon ++ dec_of_Z (b_num b2) ++ B 44 :: B 32 ::
      json_str (ascii k_iv) ++ colon ++ json_str (b_iv b2) ++ B 44 :: B 32 ::
      json_str (ascii k_length) ++ colon ++ dec_of_Z (b_len b2) ++ B 125 :: x2 ->
    b_num b1 = b_num b2 /\ b_iv b1 = b_iv b2 /\ b_len b1 = b_len b2 /\ x1 = x2).
  { intros x1 x2 Hq.
    apply app_inv_head in Hq. apply app_inv_head in Hq.
    apply num_split in Hq; [|exact nn_B44 | exact nn_B44]. destruct Hq as [Hn Hq].
    apply cons2_inv in Hq.
    apply app_inv_head in Hq. apply app_inv_head in Hq.
    apply str_split in Hq; [|assumption|assumption]. destruct Hq as [Hiv Hq].
    apply cons2_inv in Hq.
    apply app_inv_head in Hq. apply app_inv_head in Hq.
    apply num_split in Hq; [|exact nn_B125 | exact nn_B125]. destruct Hq as [Hl Hq].
    apply cons1_inv in Hq. repeat split; assumption. }
  destruct (b_hash (as_dict b1)) as [h1|] eqn:E1, (b_hash (as_dict b2)) as [h2|] eqn:E2.
  - rewrite <- !app_assoc in He'. apply app_inv_head in He'. apply app_inv_head in He'.
    apply str_split in He'; [|assumption|assumption]. destruct He' as [-> He']. cbn [app] in He'.
    apply cons2_inv in He'. destruct (Hrest _ _ He') as (Hn & Hi & Hl & Ht).
    split; [|exact Ht]. rewrite Hd1, Hd2, Hn, Hi, Hl. reflexivity.
  - exfalso. rewrite <- !app_assoc in He'. apply str_split in He'; [|assumption|assumption].
    destruct He' as [Hk _]. apply (f_equal (@length byte)) in Hk. vm_compute in Hk. discriminate.
  - exfalso. rewrite <- !app_assoc in He'. apply str_split in He'; [|assumption|assumption].
    destruct He' as [Hk _]. apply (f_equal (@length byte)) in Hk. vm_compute in Hk. discriminate.
  - cbn [app] in He'. destruct (Hrest _ _ He') as (Hn & Hi & Hl & Ht).
    split; [|exact Ht]. rewrite Hd1, Hd2, Hn, Hi, Hl. reflexivity.
Qed.

Lemma json_blob_head b : exists r, json_blob b = B 123 :: r.
Proof. unfold json_blob, obj. eexists. reflexivity. Qed.

Lemma B_neq a b : (a < 256)%N -> (b < 256)%N -> a <> b -> B a <> B b.
Proof. apply byte_of_N_neq. Qed.

Lemma blobs_split : forall bs1 bs2 u1 u2, Forall plain_blob bs1 -> Forall plain_blob bs2 ->
  join comma (map json_blob bs1) ++ B 93 :: u1 = join comma (map json_blob bs2) ++ B 93 :: u2 ->
  map as_dict bs1 = map as_dict bs2 /\ u1 = u2.
Proof.
  induction bs1 as [|b1 r1 IH]; intros [|b2 r2] u1 u2 F1 F2 He.
  - cbn in He. apply cons1_inv in He. split; [reflexivity | exact He].
  - exfalso. cbn [map] in He. destruct (json_blob_head b2) as [x Hx].
    destruct r2; cbn [map join app] in He; rewrite Hx in He; cbn [app] in He;
      injection He as He0 _; revert He0; apply B_neq; lia.
  - exfalso. cbn [map] in He. destruct (json_blob_head b1) as [x Hx].
    destruct r1; cbn [map join app] in He; rewrite Hx in He; cbn [app] in He;
      injection He as He0 _; revert He0; apply B_neq; lia.
  - inversion F1 as [|? ? Pb1 Pr1]; inversion F2 as [|? ? Pb2 Pr2]; subst.
    destruct r1 as [|y1 r1], r2 as [|y2 r2]; cbn [map join] in He.
    + apply blob_split in He; [|assumption|assumption]. destruct He as [Hb Hu].
      apply cons1_inv in Hu. split; [cbn [map]; rewrite Hb; reflexivity | exact Hu].
    + exfalso. rewrite <- !app_assoc in He. apply blob_split in He; [|assumption|assumption]. destruct He as [_ Hu].
      unfold comma in Hu. change (ascii [44; 32]%N) with [B 44; B 32] in Hu. cbn [app] in Hu.
      injection Hu as Hu0 _. revert Hu0. apply B_neq; lia.
    + exfalso. rewrite <- !app_assoc in He. apply blob_split in He; [|assumption|assumption]. destruct He as [_ Hu].
      unfold comma in Hu. change (ascii [44; 32]%N) with [B 44; B 32] in Hu. cbn [app] in Hu.
      injection Hu as Hu0 _. revert Hu0. apply B_neq; lia.
    + rewrite <- !app_assoc in He. apply blob_split in He; [|assumption|assumption]. destruct He as [Hb Hu].
      apply app_inv_head in Hu.
      destruct (IH (y2 :: r2) u1 u2 Pr1 Pr2 Hu) as [Hr Hu'].
      split; [|exact Hu']. cbn [map] in Hr |- *. rewrite Hb, Hr. reflexivity.
Qed.

Lemma as_json_flat d :
  as_json d =
  B 123 :: json_str (ascii k_blobs) ++ colon ++ B 91 :: join comma (map json_blob (d_blobs d)) ++ B 93 :: B 44 :: B 32 ::
  json_str (ascii k_key) ++ colon ++ json_str (d_key d) ++ B 44 :: B 32 ::
  json_str (ascii k_stream_hash) ++ colon ++ json_str (d_shash d) ++ B 44 :: B 32 ::
  json_str (ascii k_stream_name) ++ colon ++ json_str (hex (d_name d)) ++ B 44 :: B 32 ::
  json_str (ascii k_stream_type) ++ colon ++ json_str (ascii v_lbryfile) ++ B 44 :: B 32 ::
  json_str (ascii k_sugg) ++ colon ++ json_str (hex (d_sugg d)) ++ [B 125].
Proof.
  unfold as_json, obj, arr, kv, comma, colon, B. cbn [join].
  repeat (rewrite <- !app_assoc; cbn [app]);
    change (ascii [44%N; 32%N]) with [byte_of_N 44; byte_of_N 32]; cbn [app]; reflexivity.
Qed.

Lemma hex_digit_plain n : (n < 16)%N -> plain (hex_digit n).
Proof.
  intro Hn. unfold plain, hex_digit. destruct (N.ltb_spec n 10);
    [rewrite (byte_of_N_small (48 + n)) by lia | rewrite (byte_of_N_small (87 + n)) by lia]; lia.
Qed.

Lemma hex_plain b : Forall plain (hex b).
Proof.
  induction b as [|x r IH]; [constructor|]. pose proof (N_of_byte_lt x).
  cbn [hex]. repeat constructor; try (apply hex_digit_plain; lia). exact IH.
Qed.

Definition plain_desc (d : desc) : Prop :=
  Forall plain (d_key d) /\ Forall plain (d_shash d) /\ Forall plain_blob (d_blobs d).

(* the sd blob determines the descriptor (blob hashes up to BlobInfo.as_dict's own None / '' identification) *)
Theorem as_json_inj d1 d2 : plain_desc d1 -> plain_desc d2 -> as_json d1 = as_json d2 ->
  d_name d1 = d_name d2 /\ d_key d1 = d_key d2 /\ d_sugg d1 = d_sugg d2 /\ d_shash d1 = d_shash d2 /\
  map as_dict (d_blobs d1) = map as_dict (d_blobs d2).
Proof.
  intros (Pk1 & Ps1 & Pb1) (Pk2 & Ps2 & Pb2) He. rewrite !as_json_flat in He.
  apply cons1_inv in He. apply app_inv_head in He. apply app_inv_head in He. apply cons1_inv in He.
  apply blobs_split in He; [|assumption|assumption]. destruct He as [Hb He].
  apply cons2_inv in He. apply app_inv_head in He. apply app_inv_head in He.
  apply str_split in He; [|assumption|assumption]. destruct He as [Hk He].
  apply cons2_inv in He. apply app_inv_head in He. apply app_inv_head in He.
  apply str_split in He; [|assumption|assumption]. destruct He as [Hs He].
  apply cons2_inv in He. apply app_inv_head in He. apply app_inv_head in He.
  apply str_split in He; [|apply hex_plain|apply hex_plain]. destruct He as [Hn He].
  apply cons2_inv in He. apply app_inv_head in He. apply app_inv_head in He. apply app_inv_head in He.
  apply cons2_inv in He. apply app_inv_head in He. apply app_inv_head in He.
  apply str_split in He; [|apply hex_plain|apply hex_plain]. destruct He as [Hg _].
  apply hex_inj in Hn. apply hex_inj in Hg. repeat split; assumption.
Qed.

Theorem sd_hash_binding (H : bytes -> bytes) d1 d2 : plain_desc d1 -> plain_desc d2 -> sd_hash H d1 = sd_hash H d2 ->
  (d_name d1 = d_name d2 /\ d_key d1 = d_key d2 /\ d_sugg d1 = d_sugg d2 /\ d_shash d1 = d_shash d2 /\
   map as_dict (d_blobs d1) = map as_dict (d_blobs d2)) \/ collision H.
Proof.
  intros P1 P2 Hs. unfold sd_hash in Hs. apply hex_inj in Hs.
  destruct (hash_eq H _ _ Hs) as [Hj | Hc]; [left; apply as_json_inj; assumption | right; exact Hc].
Qed.

(* descriptors made by create_stream are plain: every text field is hex *)
Lemma created_plain (H : bytes -> bytes) (E : bytes -> bytes -> bytes -> bytes) maxb name key ivf f :
  H_length H -> E_length E -> plain_desc (s_desc (build_stream H E maxb name key ivf f)).
Proof.
  intros HL HE. destruct (commitments H E maxb name key ivf f HL HE) as (Hsh & _).
  destruct (build_blobs H E maxb name key ivf f) as (Hb & _ & Hk & _).
  unfold plain_desc. rewrite Hk, Hsh, Hb. split; [apply hex_plain|]. split; [apply hex_plain|].
  apply Forall_app. split.
  - clear Hb. generalize 0%nat. induction (split maxb f) as [|p r IH]; intro n; [constructor|].
    cbn [C02.make_blobs map fst make_blob]. constructor; [|apply IH].
    unfold plain_blob. cbn. split; apply hex_plain.
  - constructor; [|constructor]. unfold plain_blob, terminator. cbn. split; [apply hex_plain | exact I].
Qed.

(* ------------------------------------------------------------------------------------------ *)
(* toy primitives satisfying the three hypotheses, to show the theorems are not vacuous *)
Definition H0 (x : bytes) : bytes :=
  repeat (byte_of_N (fold_left (fun a b => (a * 31 + N_of_byte b) mod 251)%N x 7%N)) 48.
Definition E0 (k iv p : bytes) : bytes :=
  let pad := (16 - length p mod 16)%nat in p ++ repeat (byte_of_N (N.of_nat pad)) pad.
Definition D0 (k iv c : bytes) : option bytes :=
  match rev c with
  | x :: _ => Some (firstn (length c - N.to_nat (N_of_byte x)) c)
  | [] => None
  end.
Definition ex_file : bytes := bytes_of_Ns [1; 2; 3; 4; 5; 6; 7]%N.
Definition ex_name : list N := [97; 47; 98; 46; 116; 1; 120; 116]%N.    (* "a/b.t\x01xt" *)
Definition ex_key : bytes := bytes_of_Ns [0; 1; 2; 3; 4; 5; 6; 7; 8; 9; 10; 11; 12; 13; 14; 15]%N.
Definition ex_ivf (i : nat) : bytes := repeat (byte_of_N (N.of_nat i)) 16.
Definition ex_stream := build_stream H0 E0 4 ex_name ex_key ex_ivf ex_file.

Definition tamper_key (j : sdj) : sdj := mkSdj (j_name j) (hex ex_file ++ skipn 14 (j_key j)) (j_sugg j) (j_blobs j) (j_shash j).

(* ------------------------------------------------------------------------------------------ *)
(* create_stream(old_sort=True): the legacy layout changes only the sd blob bytes and their hash *)
Theorem old_sort_commitments (H : bytes -> bytes) (E : bytes -> bytes -> bytes -> bytes) maxb name key ivf f :
  let s := build_stream H E maxb name key ivf f in
  let o := build_stream_old H E maxb name key ivf f in
  s_desc o = s_desc s /\ s_cts o = s_cts s /\
  s_sd_blob o = old_sort_json (s_desc o) /\ s_sd_hash o = hex (H (s_sd_blob o)).
Proof. repeat split. Qed.

Theorem layout_created (H : bytes -> bytes) (E : bytes -> bytes -> bytes -> bytes) maxb old_sort name key ivf f s :
  create_stream_layout H E maxb old_sort name key ivf f = Some s ->
  s_desc s = s_desc (build_stream H E maxb name key ivf f) /\ s_cts s = s_cts (build_stream H E maxb name key ivf f) /\
  s_sd_blob s = (if old_sort then old_sort_json (s_desc s) else as_json (s_desc s)) /\
  s_sd_hash s = hex (H (s_sd_blob s)).
Proof.
  unfold create_stream_layout, create_stream. destruct (has_dup _); [discriminate|].
  intro Hs. inversion Hs; subst. destruct old_sort; repeat split.
Qed.

(* ------------------------------------------------------------------------------------------ *)
(* the shared decrypted-blob cache is transparent: whatever streams share it and in whatever order their blobs are
   read, every read returns what the uncached read of that stream's own blob returns *)
Section CacheProofs.
  Variable D : bytes -> bytes -> bytes -> option bytes.
  Notation world := (list (desc * list bytes)).

  Definition cache_ok (w : world) (c : cache) : Prop :=
    forall k v, In (k, v) c -> read_blob D w (fst k) (snd k) = Some v.

  Lemma ckey_eqb_eq a b : ckey_eqb a b = true -> a = b.
  Proof.
    destruct a, b. unfold ckey_eqb. cbn. intro Hb. apply andb_true_iff in Hb. destruct Hb as [H1 H2].
    apply Nat.eqb_eq in H1, H2. congruence.
  Qed.

  Lemma c_lookup_In c k v : c_lookup c k = Some v -> In (k, v) c.
  Proof.
    induction c as [|[k' v'] r IH]; [discriminate|]. cbn [c_lookup].
    destruct (ckey_eqb k' k) eqn:Ek.
    - intro Hs. inversion Hs; subst. apply ckey_eqb_eq in Ek. subst. left. reflexivity.
    - intro Hs. right. exact (IH Hs).
  Qed.

  Lemma c_remove_In c k x : In x (c_remove c k) -> In x c.
  Proof.
    induction c as [|[k' v'] r IH]; [contradiction|]. cbn [c_remove].
    destruct (ckey_eqb k' k); [intro Hi; right; exact (IH Hi)|].
    intros [<- | Hi]; [left; reflexivity | right; exact (IH Hi)].
  Qed.

  Lemma cached_read_ok cap w c sid i : cache_ok w c ->
    cache_ok w (fst (cached_read D cap w c sid i)) /\ snd (cached_read D cap w c sid i) = read_blob D w sid i.
  Proof.
    intro Hc. unfold cached_read.
    destruct (c_lookup c (sid, i)) as [v|] eqn:El.
    - pose proof (Hc _ _ (c_lookup_In _ _ _ El)) as Hv. cbn [fst snd] in *. split; [|symmetry; exact Hv].
      intros k v' [Hin | Hin]; [inversion Hin; subst; exact Hv | exact (Hc _ _ (c_remove_In _ _ _ Hin))].
    - destruct (read_blob D w sid i) as [v|] eqn:Er; cbn [fst snd]; [|split; [exact Hc | reflexivity]].
      split; [|reflexivity]. intros k v' Hin. apply In_firstn in Hin.
      destruct Hin as [Hin | Hin]; [inversion Hin; subst; exact Er | exact (Hc _ _ Hin)].
  Qed.

  Theorem cache_transparent cap w : forall ops c, cache_ok w c ->
    run_reads D cap w c ops = map (fun op => read_blob D w (fst op) (snd op)) ops.
  Proof.
    induction ops as [|[sid i] r IH]; intros c Hc; [reflexivity|].
    cbn [run_reads map fst snd]. destruct (cached_read_ok cap w c sid i Hc) as [Hc' Ho].
    destruct (cached_read D cap w c sid i) as [c' o]. cbn [fst snd] in *. rewrite Ho, (IH c' Hc'). reflexivity.
  Qed.

  Corollary cache_transparent_empty cap w ops :
    run_reads D cap w [] ops = map (fun op => read_blob D w (fst op) (snd op)) ops.
  Proof. apply cache_transparent. intros k v []. Qed.
End CacheProofs.

(* reading every blob of a created stream through the (shared, arbitrarily pre-used) cache, in descriptor order,
   gives the pieces of the file *)
Lemma read_blob_created (H : bytes -> bytes) (E : bytes -> bytes -> bytes -> bytes) D maxb name key ivf f w sid i p :
  DE_inverse E D ->
  nth_error w sid = Some (s_desc (build_stream H E maxb name key ivf f), s_cts (build_stream H E maxb name key ivf f)) ->
  nth_error (split maxb f) i = Some p ->
  read_blob D w sid i = Some p.
Proof.
  intros HDE Hw Hp. unfold read_blob. rewrite Hw.
  destruct (names_and_numbers H E maxb name key ivf f) as (_ & _ & Hn & _).
  destruct (Hn i p Hp) as [Hct Hb].
  destruct (build_blobs H E maxb name key ivf f) as (Hbl & _ & Hk & _).
  rewrite Hbl, removelast_last. rewrite Hbl in Hb.
  rewrite nth_error_app1 in Hb by (rewrite map_length, make_blobs_length; apply nth_error_Some; congruence).
  rewrite Hb, Hct, Hk. unfold decrypt_blob. cbn [b_len b_iv]. rewrite Z.eqb_refl. cbn [negb].
  rewrite !unhex_hex. apply HDE.
Qed.

(* a cache keyed on the position alone is NOT transparent: second stream, blob 0 *)
Definition cached_read_bynum (D : bytes -> bytes -> bytes -> option bytes) (w : list (desc * list bytes))
  (c : list (nat * bytes)) (sid i : nat) : list (nat * bytes) * option bytes :=
  match find (fun e => Nat.eqb (fst e) i) c with
  | Some e => (c, Some (snd e))
  | None => match read_blob D w sid i with Some v => ((i, v) :: c, Some v) | None => (c, None) end
  end.
Definition ex_file2 : bytes := bytes_of_Ns [9; 8; 7]%N.
Definition ex_stream2 := build_stream H0 E0 4 ex_name ex_key ex_ivf ex_file2.
Definition ex_world : list (desc * list bytes) :=
  [(s_desc ex_stream, s_cts ex_stream); (s_desc ex_stream2, s_cts ex_stream2)].

(* ------------------------------------------------------------------------------------------ *)
(* the names ManagedStream hands out for ANY descriptor's suggested_file_name (other clients do not sanitise) *)
Theorem save_names_safe sugg :
  (forall n, suggested_save_name sugg = Some n -> n <> [] /\ forall c, In c n -> safe_cp c) /\
  (forall n, save_file_name sugg = Some n -> n <> [] /\ forall c, In c n -> safe_cp c).
Proof.
  split; intros n Hn.
  - unfold suggested_save_name in Hn. destruct (py_strip sugg) as [|x r]; [discriminate|]. inversion Hn; subst.
    destruct (sanitize_safe (x :: r)) as [Hne Hall]. split; [exact Hne | intros c Hc; exact (proj1 (Hall c Hc))].
  - unfold save_file_name in Hn. destruct (suggested_save_name sugg) as [m|]; [|discriminate]. inversion Hn; subst.
    destruct (sanitize_safe m) as [Hne Hall]. split; [exact Hne | intros c Hc; exact (proj1 (Hall c Hc))].
Qed.

Theorem save_names_safe_chars sugg n : suggested_save_name sugg = Some n \/ save_file_name sugg = Some n ->
  n <> [] /\ forall c, In c n ->
    (32 <= c /\ c <> 47 /\ c <> 92 /\ c <> 60 /\ c <> 62 /\ c <> 58 /\ c <> 34 /\ c <> 124 /\ c <> 63 /\ c <> 42 /\ (c < 127 \/ 159 < c))%N.
Proof.
  destruct (save_names_safe sugg) as [H1 H2].
  intros [Hn | Hn]; [destruct (H1 n Hn) as [Hne Hall] | destruct (H2 n Hn) as [Hne Hall]];
    (split; [exact Hne | intros c Hc; apply safe_cp_spec; exact (Hall c Hc)]).
Qed.

(* ------------------------------------------------------------------------------------------ *)
(* a cancelled save never leaves a truncated file; range reads serve the file from the requested offset *)
Lemma save_loop_spec : forall ps acc k,
  save_loop acc ps k = if Nat.leb k (length ps) then None else Some (acc ++ concat ps).
Proof.
  induction ps as [|p r IH]; intros acc k.
  - destruct k; cbn; [reflexivity | rewrite app_nil_r; reflexivity].
  - destruct k as [|k]; [reflexivity|]. cbn [save_loop length concat Nat.leb].
    rewrite IH, <- app_assoc. reflexivity.
Qed.

Theorem cancelled_save maxb f k : (2 <= maxb)%nat ->
  (save_loop [] (split maxb f) k = None /\ (k <= length (split maxb f))%nat) \/
  (save_loop [] (split maxb f) k = Some f /\ (length (split maxb f) < k)%nat).
Proof.
  intro Hm. rewrite save_loop_spec. cbn [app]. rewrite split_concat by exact Hm.
  destruct (Nat.leb_spec k (length (split maxb f))); [left | right]; split; auto.
Qed.

Lemma split_fuel_irrelevant c : (0 < c)%nat -> forall fuel fuel' f, (length f <= fuel)%nat -> (length f <= fuel')%nat ->
  split_fuel fuel c f = split_fuel fuel' c f.
Proof.
  intros Hc. induction fuel as [|k IH]; intros fuel' f H1 H2.
  - destruct f; [|simpl in H1; lia]. destruct fuel'; reflexivity.
  - destruct f as [|x r]; [destruct fuel'; reflexivity|].
    destruct fuel' as [|k']; [simpl in H2; lia|].
    cbn [split_fuel]. destruct (Nat.eqb c 0); [reflexivity|]. f_equal.
    apply IH; rewrite skipn_length; cbn [length] in *; lia.
Qed.

Lemma skipn_skipn' {A} : forall x y (l : list A), skipn x (skipn y l) = skipn (x + y) l.
Proof.
  intros x y. revert x. induction y as [|y IH]; intros x l.
  - rewrite Nat.add_0_r. reflexivity.
  - destruct l as [|a l]; [rewrite !skipn_nil; reflexivity|].
    replace (x + S y)%nat with (S (x + y)) by lia. cbn [skipn]. apply IH.
Qed.

Lemma skipn_split maxb : (2 <= maxb)%nat -> forall q f,
  skipn q (split maxb f) = split maxb (skipn (q * (maxb - 1)) f).
Proof.
  intros Hm. induction q as [|q IH]; intro f; [reflexivity|].
  unfold split at 1. destruct f as [|x r].
  - cbn. rewrite skipn_nil. reflexivity.
  - cbn [length split_fuel]. destruct (Nat.eqb_spec (maxb - 1) 0); [lia|]. cbn [skipn].
    rewrite (split_fuel_irrelevant (maxb - 1) ltac:(lia) _ (length (skipn (maxb - 1) (x :: r))))
      by (rewrite ?skipn_length; cbn [length]; lia).
    fold (split maxb (skipn (maxb - 1) (x :: r))). rewrite IH, skipn_skipn'.
    replace (q * (maxb - 1) + (maxb - 1))%nat with (S q * (maxb - 1))%nat by lia. reflexivity.
Qed.

Theorem range_read_correct maxb f start : (2 <= maxb)%nat ->
  range_read maxb (split maxb f) start = skipn start f.
Proof.
  intro Hm. unfold range_read, range_plan. rewrite skipn_split by exact Hm. rewrite split_concat by exact Hm.
  rewrite skipn_skipn'. f_equal.
  pose proof (Nat.div_mod start (maxb - 1) ltac:(lia)). lia.
Qed.

Theorem recovered_name_safe sugg :
  recovered_file_name sugg <> [] /\ forall c, In c (recovered_file_name sugg) ->
    (32 <= c /\ c <> 47 /\ c <> 92 /\ c <> 60 /\ c <> 62 /\ c <> 58 /\ c <> 34 /\ c <> 124 /\ c <> 63 /\ c <> 42 /\ (c < 127 \/ 159 < c))%N.
Proof. apply sanitize_safe_chars. Qed.

(* ------------------------------------------------------------------------------------------ *)
(* republish: create_stream into a blob directory that already holds files.  Whenever it returns a stream, the stream
   is exactly the one a clean directory gives (so every data blob is named by H of the ciphertext stored for it and
   decrypting in descriptor order gives the file back), and none of its data blobs was adopted from a file that was
   already there under that name; in an empty directory it is create_stream. *)
Theorem republish_sound (H : bytes -> bytes) (E : bytes -> bytes -> bytes -> bytes) (D : bytes -> bytes -> bytes -> option bytes)
        maxb dir old_sort name key ivf f s :
  (forall k iv p, D k iv (E k iv p) = Some p) -> (2 <= maxb)%nat ->
  create_stream_in H E maxb dir old_sort name key ivf f = Some s ->
  s_desc s = s_desc (build_stream H E maxb name key ivf f) /\
  s_cts s = s_cts (build_stream H E maxb name key ivf f) /\
  decrypt_stream D (s_desc s) (s_cts s) = Some f /\
  (forall c, In c (s_cts s) -> blocked dir (hex (H c)) = false).
Proof.
  intros HDE Hm. unfold create_stream_in.
  destruct (existsb _ _) eqn:Hex; [discriminate|]. intro Hc.
  destruct (layout_created H E maxb old_sort name key ivf f s Hc) as [Hd [Hcts _]].
  split; [exact Hd|]. split; [exact Hcts|]. split.
  - rewrite Hd, Hcts. apply roundtrip; assumption.
  - intros c Hin. rewrite Hcts in Hin.
    destruct (blocked dir (hex (H c))) eqn:Hb; [|reflexivity].
    assert (existsb (fun c => blocked dir (hex (H c))) (s_cts (build_stream H E maxb name key ivf f)) = true)
      by (apply existsb_exists; exists c; split; assumption).
    congruence.
Qed.

Theorem republish_clean_dir (H : bytes -> bytes) (E : bytes -> bytes -> bytes -> bytes) maxb old_sort name key ivf f :
  create_stream_in H E maxb [] old_sort name key ivf f = create_stream_layout H E maxb old_sort name key ivf f.
Proof.
  unfold create_stream_in.
  replace (existsb _ _) with false; [reflexivity|].
  symmetry. induction (s_cts _) as [|c r IH]; [reflexivity|]. cbn. exact IH.
Qed.
