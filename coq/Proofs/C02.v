(* C02 proofs: chunking, round trip, names and numbers, commitments, validation, preimage injectivity,
   sanitised file names.  Everything is stated over the definitions of Model/C02.v. *)
From Coq Require Import NArith ZArith List Bool Lia Arith.
From Coq.Strings Require Import Byte.
From LV Require Import Lib.Bytes Lib.Decimal Model.C02.
Import ListNotations.
Ltac Zify.zify_post_hook ::= Z.to_euclidean_division_equations.

(* ------------------------------------------------------------------------------------------ *)
(* hex / unhex *)

Lemma hexval_hex_digit n : (n < 16)%N -> hexval (hex_digit n) = Some n.
Proof.
  intro Hn. unfold hexval, hex_digit.
  destruct (N.ltb_spec n 10).
  - rewrite (byte_of_N_small (48 + n)) by lia.
    replace ((48 <=? 48 + n)%N) with true by (symmetry; apply N.leb_le; lia).
    replace ((48 + n <=? 57)%N) with true by (symmetry; apply N.leb_le; lia).
    cbn [andb]. f_equal. lia.
  - rewrite (byte_of_N_small (87 + n)) by lia.
    replace ((87 + n <=? 57)%N) with false by (symmetry; apply N.leb_gt; lia).
    rewrite andb_false_r.
    replace ((97 <=? 87 + n)%N) with true by (symmetry; apply N.leb_le; lia).
    replace ((87 + n <=? 102)%N) with true by (symmetry; apply N.leb_le; lia).
    cbn [andb]. f_equal. lia.
Qed.

Lemma unhex_hex b : unhex (hex b) = Some b.
Proof.
  induction b as [|x r IH]; [reflexivity|].
  cbn [hex unhex].
  pose proof (N_of_byte_lt x) as Hx.
  rewrite !hexval_hex_digit by lia.
  rewrite IH. f_equal. f_equal.
  replace (16 * (N_of_byte x / 16) + N_of_byte x mod 16)%N with (N_of_byte x) by lia.
  apply byte_of_N_of_byte.
Qed.

Lemma hex_inj a b : hex a = hex b -> a = b.
Proof. intro E. pose proof (unhex_hex a) as Ha. rewrite E, unhex_hex in Ha. congruence. Qed.

Lemma hex_length b : length (hex b) = (2 * length b)%nat.
Proof. induction b; simpl; lia. Qed.

Lemma hex_app a b : hex (a ++ b) = hex a ++ hex b.
Proof. induction a; simpl; congruence. Qed.

Lemma hex_digit_ascii n : (n < 16)%N -> (N_of_byte (hex_digit n) < 128)%N.
Proof. intro. unfold hex_digit. destruct (N.ltb_spec n 10); [rewrite (byte_of_N_small (48 + n)) | rewrite (byte_of_N_small (87 + n))]; lia. Qed.

Lemma hex_ascii b : forallb (fun c => (N_of_byte c <? 128)%N) (hex b) = true.
Proof.
  induction b as [|x r IH]; [reflexivity|].
  pose proof (N_of_byte_lt x). cbn [hex forallb]. rewrite IH.
  rewrite !(proj2 (N.ltb_lt _ _)) by (apply hex_digit_ascii; lia). reflexivity.
Qed.

(* ------------------------------------------------------------------------------------------ *)
(* decimal *)

Lemma dec_of_Z_inj a b : dec_of_Z a = dec_of_Z b -> a = b.
Proof. intro E. pose proof (Z_of_dec_of_Z a) as Ha. rewrite E, Z_of_dec_of_Z in Ha. congruence. Qed.

Lemma dec_of_Z_nonempty z : dec_of_Z z <> [].
Proof. destruct z; simpl; try apply dec_of_N_nonempty. discriminate. Qed.

(* ------------------------------------------------------------------------------------------ *)
(* chunking *)

Lemma split_fuel_concat c : (0 < c)%nat -> forall fuel f, (length f <= fuel)%nat -> concat (split_fuel fuel c f) = f.
Proof.
  intros Hc fuel. induction fuel as [|k IH]; intros f Hf.
  - destruct f; [reflexivity | simpl in Hf; lia].
  - destruct f as [|x r]; [reflexivity|].
    cbn [split_fuel]. destruct (Nat.eqb_spec c 0); [lia|].
    cbn [concat]. rewrite IH.
    + apply firstn_skipn.
    + rewrite skipn_length. cbn [length] in Hf |- *. lia.
Qed.

Lemma split_fuel_pieces c : (0 < c)%nat -> forall fuel f p, In p (split_fuel fuel c f) -> (1 <= length p <= c)%nat.
Proof.
  intros Hc fuel. induction fuel as [|k IH]; intros f p Hin; [contradiction|].
  destruct f as [|x r]; [contradiction|].
  cbn [split_fuel] in Hin. destruct (Nat.eqb_spec c 0); [lia|].
  destruct Hin as [<- | Hin].
  - rewrite firstn_length. simpl. lia.
  - eapply IH; eauto.
Qed.

Lemma split_fuel_lengths c : (0 < c)%nat -> forall fuel f, (length f <= fuel)%nat ->
  map (@length byte) (split_fuel fuel c f) =
  repeat c (length f / c) ++ (if Nat.eqb (length f mod c) 0 then [] else [(length f mod c)%nat]).
Proof.
  intros Hc fuel. induction fuel as [|k IH]; intros f Hf.
  - destruct f; [|simpl in Hf; lia]. simpl. rewrite Nat.div_0_l, Nat.mod_0_l by lia. reflexivity.
  - destruct f as [|x r].
    + simpl. rewrite Nat.div_0_l, Nat.mod_0_l by lia. reflexivity.
    + cbn [split_fuel]. destruct (Nat.eqb_spec c 0); [lia|].
      cbn [map]. rewrite IH by (rewrite skipn_length; cbn [length] in Hf |- *; lia).
      rewrite firstn_length, skipn_length.
      set (nn := length (x :: r)) in *.
      assert (Hn : (0 < nn)%nat) by (unfold nn; simpl; lia).
      destruct (Nat.lt_ge_cases nn c) as [Hlt | Hge].
      * rewrite Nat.min_r by lia.
        replace (nn - c)%nat with 0%nat by lia.
        rewrite Nat.div_0_l, Nat.mod_0_l by lia.
        rewrite (Nat.div_small nn c), (Nat.mod_small nn c) by lia.
        simpl. destruct (Nat.eqb_spec nn 0); [lia | reflexivity].
      * rewrite Nat.min_l by lia.
        assert (Hd : (nn / c = S ((nn - c) / c))%nat).
        { replace nn with ((nn - c) + 1 * c)%nat at 1 by lia. rewrite Nat.div_add by lia. lia. }
        assert (Hm : (nn mod c = (nn - c) mod c)%nat).
        { replace nn with ((nn - c) + 1 * c)%nat at 1 by lia. rewrite Nat.mod_add by lia. reflexivity. }
        rewrite Hd, Hm. reflexivity.
Qed.

(* ------------------------------------------------------------------------------------------ *)

Section Split.
  Variable maxb : nat.
  Notation split := (split maxb).
  (* ---- split ---- *)
  Lemma split_concat f : (2 <= maxb)%nat -> concat (split f) = f.
  Proof. intro Hm. unfold C02.split. apply split_fuel_concat; lia. Qed.

  Lemma split_piece_size f p : (2 <= maxb)%nat -> In p (split f) -> (1 <= length p <= maxb - 1)%nat.
  Proof. intros Hm Hin. unfold C02.split in Hin. eapply split_fuel_pieces in Hin; lia. Qed.

  Lemma split_lengths f : (2 <= maxb)%nat ->
    map (@length byte) (split f) =
    repeat (maxb - 1)%nat (length f / (maxb - 1)) ++
    (if Nat.eqb (length f mod (maxb - 1)) 0 then [] else [(length f mod (maxb - 1))%nat]).
  Proof. intro Hm. unfold C02.split. apply split_fuel_lengths; lia. Qed.

  Lemma split_count f : (2 <= maxb)%nat -> length (split f) = ((length f + (maxb - 1) - 1) / (maxb - 1))%nat.
  Proof.
    intro Hm. rewrite <- (map_length (@length byte)), split_lengths by exact Hm.
    set (c := (maxb - 1)%nat). assert (Hc : (0 < c)%nat) by (unfold c; lia).
    rewrite app_length, repeat_length.
    pose proof (Nat.div_mod (length f) c ltac:(lia)) as Hdm.
    pose proof (Nat.mod_upper_bound (length f) c ltac:(lia)) as Hub.
    set (q := (length f / c)%nat) in *. set (r := (length f mod c)%nat) in *.
    destruct (Nat.eqb_spec r 0) as [Hr | Hr].
    - simpl. replace (length f + c - 1)%nat with ((c - 1) + q * c)%nat by nia.
      rewrite Nat.div_add by lia. rewrite Nat.div_small by lia. lia.
    - simpl. replace (length f + c - 1)%nat with ((r - 1) + (q + 1) * c)%nat by nia.
      rewrite Nat.div_add by lia. rewrite Nat.div_small by lia. lia.
  Qed.

  Lemma split_nonempty f : (2 <= maxb)%nat -> f <> [] -> split f <> [].
  Proof.
    intros Hm Hf E0. pose proof (split_concat f Hm) as Hc. rewrite E0 in Hc. simpl in Hc. congruence.
  Qed.

  (* every ciphertext fits a blob when 16 divides MAX_BLOB_SIZE (2^21 does) *)
  Lemma ciphertext_bound (E : bytes -> bytes -> bytes -> bytes) k iv p :
    (forall k iv p, length (E k iv p) = (16 * (length p / 16 + 1))%nat) -> (2 <= maxb)%nat -> (maxb mod 16 = 0)%nat -> (1 <= length p <= maxb - 1)%nat ->
    (16 <= length (E k iv p) <= maxb)%nat.
  Proof.
    intros HE Hm H16 Hp. rewrite HE.
    pose proof (Nat.div_mod maxb 16 ltac:(lia)) as Hdm. rewrite H16 in Hdm.
    pose proof (Nat.div_mod (length p) 16 ltac:(lia)).
    pose proof (Nat.mod_upper_bound (length p) 16 ltac:(lia)).
    split; [lia|].
    assert (length p / 16 < maxb / 16)%nat; [|lia].
    apply Nat.div_lt_upper_bound; lia.
  Qed.

End Split.

Set Default Proof Using "Type".
Section Proofs.
  Variable H : bytes -> bytes.
  Variable E : bytes -> bytes -> bytes -> bytes.
  Variable D : bytes -> bytes -> bytes -> option bytes.
  Variable maxb : nat.
  Local Ltac liaD := try clear D; try clear E; try clear H; lia.

  (* the three facts about the primitives that proofs below use; each names where *)
  Definition DE_inverse := forall k iv p, D k iv (E k iv p) = Some p.
  Definition E_length := forall k iv p, length (E k iv p) = (16 * (length p / 16 + 1))%nat.
  Definition H_length := forall x, length (H x) = 48%nat.

  Notation split := (split maxb).
  Notation build_stream := (build_stream H E maxb).
  Notation create_stream := (create_stream H E maxb).
  Notation make_blobs := (make_blobs H E).
  Notation get_stream_hash := (get_stream_hash H).
  Notation validate := (validate H).

  (* ---- make_blobs ---- *)
  Lemma make_blobs_length key ivf n ps : length (make_blobs key ivf n ps) = length ps.
  Proof. revert n. induction ps; intros; simpl; auto. Qed.

  Lemma make_blobs_nth key ivf : forall ps n i p, nth_error ps i = Some p ->
    nth_error (make_blobs key ivf n ps) i = Some (make_blob H E key (ivf (n + i)%nat) p (n + i)).
  Proof.
    induction ps as [|x r IH]; intros n i p Hi; [destruct i; discriminate|].
    destruct i as [|i]; simpl in *.
    - inversion Hi; subst. rewrite Nat.add_0_r. reflexivity.
    - rewrite (IH (S n) i p Hi). replace (S n + i)%nat with (n + S i)%nat by liaD. reflexivity.
  Qed.

  (* ---- round trip ---- *)
  Lemma decrypt_blobs_make key ivf : DE_inverse -> forall ps n,
    decrypt_blobs D (hex key) (map fst (make_blobs key ivf n ps)) (map snd (make_blobs key ivf n ps)) = Some (concat ps).
  Proof.
    intros HDE. induction ps as [|p r IH]; intro n; [reflexivity|].
    cbn [C02.make_blobs map fst snd make_blob decrypt_blobs concat].
    unfold decrypt_blob. cbn [b_len b_iv].
    rewrite Z.eqb_refl. cbn [negb]. rewrite !unhex_hex, HDE, IH. reflexivity.
  Qed.

  Lemma build_blobs name key ivf f :
    d_blobs (s_desc (build_stream name key ivf f)) =
      map fst (make_blobs key ivf 0 (split f)) ++ [terminator ivf (length (split f))] /\
    s_cts (build_stream name key ivf f) = map snd (make_blobs key ivf 0 (split f)) /\
    d_key (s_desc (build_stream name key ivf f)) = hex key /\
    d_name (s_desc (build_stream name key ivf f)) = utf8_enc name /\
    d_sugg (s_desc (build_stream name key ivf f)) = utf8_enc (sanitize name).
  Proof. unfold C02.build_stream. cbn. rewrite make_blobs_length. repeat split. Qed.

  Theorem roundtrip name key ivf f :
    DE_inverse -> (2 <= maxb)%nat ->
    decrypt_stream D (s_desc (build_stream name key ivf f)) (s_cts (build_stream name key ivf f)) = Some f.
  Proof.
    intros HDE Hm. destruct (build_blobs name key ivf f) as (Hb & Hc & Hk & _).
    unfold decrypt_stream. rewrite Hb, Hc, Hk, removelast_last.
    rewrite decrypt_blobs_make by exact HDE. rewrite split_concat by exact Hm. reflexivity.
  Qed.

  Theorem roundtrip_created name key ivf f s :
    DE_inverse -> (2 <= maxb)%nat -> create_stream name key ivf f = Some s ->
    decrypt_stream D (s_desc s) (s_cts s) = Some f.
  Proof.
    intros HDE Hm Hc. unfold C02.create_stream in Hc.
    destruct (has_dup _); [discriminate|]. inversion Hc; subst. apply roundtrip; assumption.
  Qed.

  (* ---- names and numbers ---- *)
  Theorem names_and_numbers name key ivf f :
    let s := build_stream name key ivf f in
    let n := length (split f) in
    length (d_blobs (s_desc s)) = S n /\ length (s_cts s) = n /\
    (forall i p, nth_error (split f) i = Some p ->
       let ct := E key (ivf i) p in
       nth_error (s_cts s) i = Some ct /\
       nth_error (d_blobs (s_desc s)) i =
         Some (mkBlob (Z.of_nat i) (Z.of_nat (length ct)) (hex (ivf i)) (Some (hex (H ct))))) /\
    nth_error (d_blobs (s_desc s)) n = Some (mkBlob (Z.of_nat n) 0 (hex (ivf n)) None).
  Proof.
    intros s n. destruct (build_blobs name key ivf f) as (Hb & Hc & _). fold s in Hb, Hc.
    rewrite Hb, Hc. repeat split.
    - rewrite app_length, map_length, make_blobs_length. simpl. liaD.
    - rewrite map_length, make_blobs_length. reflexivity.
    - rewrite nth_error_map, (make_blobs_nth key ivf _ 0 i p H0). reflexivity.
    - rewrite nth_error_app1.
      + rewrite nth_error_map, (make_blobs_nth key ivf _ 0 i p H0). reflexivity.
      + rewrite map_length, make_blobs_length. apply nth_error_Some. congruence.
    - rewrite nth_error_app2 by (rewrite map_length, make_blobs_length; unfold n; liaD).
      rewrite map_length, make_blobs_length. unfold n. rewrite Nat.sub_diag. reflexivity.
  Qed.

  (* ---- as_dict ---- *)
  Lemma as_dict_id b : b_hash b <> Some [] -> as_dict b = b.
  Proof.
    destruct b as [n l iv [h|]]; unfold as_dict; cbn; intro Hne; [|reflexivity].
    destruct h; [exfalso; apply Hne; reflexivity | reflexivity].
  Qed.

  Lemma as_dict_idem b : as_dict (as_dict b) = as_dict b.
  Proof. destruct b as [n l iv [[|x h]|]]; reflexivity. Qed.

  Lemma get_stream_hash_as_dict n k s bs : get_stream_hash n k s (map as_dict bs) = get_stream_hash n k s bs.
  Proof.
    unfold C02.get_stream_hash. rewrite map_map. f_equal. apply map_ext. intro. apply as_dict_idem.
  Qed.

  Lemma hexH_nonempty x : H_length -> hex (H x) <> [].
  Proof.
    intros HL E0. pose proof (hex_length (H x)) as Hl. rewrite E0, HL in Hl. simpl in Hl. liaD.
  Qed.

  Lemma ct_len_pos k iv p : E_length -> Z.of_nat (length (E k iv p)) <> 0%Z.
  Proof. intro HE. rewrite HE. liaD. Qed.

  (* ---- commitments: the exact preimages ---- *)
  Definition data_pre (i : nat) (iv ct : bytes) : bytes :=
    hex (H ct) ++ dec_of_Z (Z.of_nat i) ++ hex iv ++ dec_of_Z (Z.of_nat (length ct)).
  Definition term_pre (n : nat) (iv : bytes) : bytes :=
    dec_of_Z (Z.of_nat n) ++ hex iv ++ dec_of_Z 0.
  Fixpoint data_pres (key : bytes) (ivf : nat -> bytes) (n : nat) (ps : list bytes) : list bytes :=
    match ps with
    | [] => []
    | p :: r => data_pre n (ivf n) (E key (ivf n) p) :: data_pres key ivf (S n) r
    end.
  Definition blob_preimages key ivf f : list bytes :=
    data_pres key ivf 0 (split f) ++ [term_pre (length (split f)) (ivf (length (split f)))].
  Definition stream_preimage name key ivf f : bytes :=
    hex (utf8_enc name) ++ hex key ++ hex (utf8_enc (sanitize name)) ++
    H (concat (map H (blob_preimages key ivf f))).

  Lemma created_as_dict key ivf : H_length -> forall ps n,
    map as_dict (map fst (make_blobs key ivf n ps)) = map fst (make_blobs key ivf n ps).
  Proof.
    intros HL. induction ps as [|p r IH]; intro n; [reflexivity|].
    cbn [C02.make_blobs map fst make_blob]. rewrite IH. f_equal.
    apply as_dict_id. cbn. intro E0. inversion E0 as [E1]. exact (hexH_nonempty _ HL E1).
  Qed.

  Lemma hashsums_make key ivf : H_length -> E_length -> forall ps n tail X,
    concat_opt (map (blob_hashsum H) tail) = Some X ->
    concat_opt (map (blob_hashsum H) (map fst (make_blobs key ivf n ps) ++ tail)) =
      Some (concat (map H (data_pres key ivf n ps)) ++ X).
  Proof.
    intros HL HE. induction ps as [|p r IH]; intros n tail X Ht; [exact Ht|].
    cbn [C02.make_blobs map fst make_blob app data_pres concat concat_opt].
    unfold blob_hashsum at 1, blob_pre. cbn [b_len b_hash b_num b_iv].
    destruct (Z.eqb_spec (Z.of_nat (length (E key (ivf n) p))) 0) as [E0|_]; [exfalso; exact (ct_len_pos _ _ _ HE E0)|].
    rewrite (IH (S n) tail X Ht). unfold data_pre. rewrite <- app_assoc. reflexivity.
  Qed.

  Theorem commitments name key ivf f :
    H_length -> E_length ->
    let s := build_stream name key ivf f in
    d_shash (s_desc s) = hex (H (stream_preimage name key ivf f)) /\
    s_sd_blob s = as_json (s_desc s) /\
    s_sd_hash s = hex (H (s_sd_blob s)).
  Proof.
    intros HL HE s. split; [|split; reflexivity].
    unfold s, C02.build_stream. cbn [s_desc d_shash].
    unfold C02.get_stream_hash, calc_stream_hash, stream_pre, blobs_hashsum.
    rewrite map_app, created_as_dict by exact HL. cbn [map].
    rewrite (hashsums_make key ivf HL HE (split f) 0 _ (H (term_pre (length (split f)) (ivf (length (split f)))) ++ [])).
    - unfold stream_preimage, blob_preimages. rewrite map_app, concat_app. cbn [map concat]. reflexivity.
    - rewrite make_blobs_length. reflexivity.
  Qed.

  (* ---- validation ---- *)
  Lemma numbered_ok_spec : forall bs i, numbered_ok i bs = true <->
    (forall k b, nth_error bs k = Some b -> b_num b = Z.of_nat (i + k)).
  Proof.
    induction bs as [|x r IH]; intro i; cbn [numbered_ok].
    - split; [intros _ k b Hk; destruct k; discriminate | reflexivity].
    - rewrite andb_true_iff, IH, Z.eqb_eq. split.
      + intros [Hx Hr] k b Hk. destruct k as [|k]; simpl in Hk.
        * inversion Hk; subst. rewrite Nat.add_0_r. congruence.
        * rewrite (Hr k b Hk). f_equal. liaD.
      + intro Hall. split.
        * rewrite (Hall 0%nat x eq_refl). f_equal. liaD.
        * intros k b Hk. rewrite (Hall (S k) b Hk). f_equal. liaD.
  Qed.

  Lemma numbered_make key ivf : forall ps n,
    numbered_ok n (map fst (make_blobs key ivf n ps) ++ [terminator ivf (n + length ps)]) = true.
  Proof.
    induction ps as [|p r IH]; intro n.
    - cbn. rewrite Nat.add_0_r, Z.eqb_refl. reflexivity.
    - cbn [C02.make_blobs map fst make_blob app numbered_ok b_num length]. rewrite Z.eqb_refl.
      replace (n + S (length r))%nat with (S n + length r)%nat by liaD. apply IH.
  Qed.

  Lemma unhex_decode_hex x : utf8_ok x = true -> unhex_decode (hex x) = Ok x.
  Proof. intro Hu. unfold unhex_decode. rewrite hex_ascii, unhex_hex, Hu. reflexivity. Qed.

  Lemma data_len_nonzero key ivf : E_length -> forall ps n,
    existsb (fun b => Z.eqb (b_len b) 0) (map fst (make_blobs key ivf n ps)) = false.
  Proof.
    intro HE. induction ps as [|p r IH]; intro n; [reflexivity|].
    cbn [C02.make_blobs map fst make_blob existsb b_len]. rewrite IH.
    destruct (Z.eqb_spec (Z.of_nat (length (E key (ivf n) p))) 0) as [E0|_]; [exfalso; exact (ct_len_pos _ _ _ HE E0) | reflexivity].
  Qed.

  Lemma existsb_rev {A} (p : A -> bool) l : existsb p (rev l) = existsb p l.
  Proof.
    induction l as [|x r IH]; [reflexivity|]. cbn [rev]. rewrite existsb_app, IH. cbn. rewrite orb_false_r. apply orb_comm.
  Qed.

  (* every descriptor that create_stream builds is accepted when its sd blob is loaded back *)
  Theorem validate_accepts_created name key ivf f :
    H_length -> E_length ->
    utf8_ok (utf8_enc name) = true -> utf8_ok (utf8_enc (sanitize name)) = true ->
    let d := s_desc (build_stream name key ivf f) in
    validate (to_sdj d) = Ok d.
  Proof.
    intros HL HE Hn Hs d.
    destruct (commitments name key ivf f HL HE) as (Hsh & _).
    destruct (build_blobs name key ivf f) as (Hb & _ & Hk & Hnm & Hsg). fold d in Hsh, Hb, Hk, Hnm, Hsg.
    assert (Hbs : map as_dict (d_blobs d) = d_blobs d).
    { rewrite Hb, map_app, created_as_dict by exact HL. reflexivity. }
    assert (Hgs : get_stream_hash (d_name d) (d_key d) (d_sugg d) (d_blobs d) = Some (d_shash d)).
    { unfold d at 5, C02.build_stream. cbn [s_desc d_shash].
      unfold d, C02.build_stream. cbn [s_desc d_name d_key d_sugg d_blobs].
      unfold C02.get_stream_hash, calc_stream_hash, stream_pre, blobs_hashsum.
      rewrite map_app, created_as_dict by exact HL. cbn [map].
      rewrite (hashsums_make key ivf HL HE (split f) 0 _ (H (term_pre (length (split f)) (ivf (length (split f)))) ++ []))
        by (rewrite make_blobs_length; reflexivity).
      reflexivity. }
    unfold C02.validate, to_sdj. cbn [j_blobs j_name j_sugg j_key j_shash].
    rewrite Hbs, Hb, rev_app_distr. cbn [rev app terminator b_len b_hash].
    cbn [Z.eqb negb].
    rewrite existsb_rev, data_len_nonzero by exact HE.
    pose proof (numbered_make key ivf (split f) 0) as Hno. cbn [Nat.add] in Hno. rewrite Hno. cbn [negb].
    rewrite Hnm, Hsg, !unhex_decode_hex by assumption.
    rewrite <- Hnm, <- Hsg, <- Hb.
    unfold new_desc. rewrite Hgs.
    destruct (d_shash d) as [|c t] eqn:Esh.
    - exfalso. symmetry in Hsh. exact (hexH_nonempty _ HL Hsh).
    - rewrite bytes_eqb_refl. rewrite <- Esh. destruct d; reflexivity.
  Qed.

  Lemma rev_eq_cons {A} (l : list A) x r : rev l = x :: r -> l = rev r ++ [x].
  Proof. intro Hr. rewrite <- (rev_involutive l), Hr. reflexivity. Qed.

  (* accepted => every consistency condition holds (contrapositive: each inconsistency is refused) *)
  Theorem validate_sound j d : validate j = Ok d ->
    exists init last name sugg,
      j_blobs j = init ++ [last] /\ b_len last = 0%Z /\ b_hash last = None /\
      Forall (fun b => b_len b <> 0%Z) init /\
      (forall k b, nth_error (j_blobs j) k = Some b -> b_num b = Z.of_nat k) /\
      unhex (j_name j) = Some name /\ utf8_ok name = true /\
      unhex (j_sugg j) = Some sugg /\ utf8_ok sugg = true /\
      get_stream_hash name (j_key j) sugg (j_blobs j) = Some (j_shash j) /\
      d = mkDesc name (j_key j) sugg (j_blobs j) (j_shash j).
  Proof.
    unfold C02.validate. intro Hv.
    destruct (rev (j_blobs j)) as [|last rinit] eqn:Er; [discriminate|].
    destruct (Z.eqb_spec (b_len last) 0) as [Hl0|]; cbn [negb] in Hv; [|discriminate].
    destruct (existsb (fun b => Z.eqb (b_len b) 0) rinit) eqn:Ez; [discriminate|].
    destruct (b_hash last) eqn:Eh; [discriminate|].
    destruct (numbered_ok 0 (j_blobs j)) eqn:En; cbn [negb] in Hv; [|discriminate].
    unfold unhex_decode in Hv.
    destruct (forallb _ (j_name j)); cbn [negb] in Hv; [|discriminate].
    destruct (unhex (j_name j)) as [name|] eqn:Eun; [|discriminate].
    destruct (utf8_ok name) eqn:Eok; [|discriminate].
    destruct (forallb _ (j_sugg j)); cbn [negb] in Hv; [|discriminate].
    destruct (unhex (j_sugg j)) as [sugg|] eqn:Eus; [|discriminate].
    destruct (utf8_ok sugg) eqn:Eoks; [|discriminate].
    destruct (new_desc H name (j_key j) sugg (j_blobs j) (j_shash j)) as [d0|] eqn:End; [|discriminate].
    destruct (get_stream_hash name (j_key j) sugg (j_blobs j)) as [h|] eqn:Eg; [|discriminate].
    destruct (bytes_eqb h (j_shash j)) eqn:Eb; [|discriminate].
    apply bytes_eqb_eq in Eb. inversion Hv; subst d0.
    exists (rev rinit), last, name, sugg.
    apply rev_eq_cons in Er.
    repeat match goal with |- _ /\ _ => split end; try assumption; try reflexivity.
    - apply Forall_forall. intros b Hin Hb0. apply in_rev in Hin.
      assert (existsb (fun b => Z.eqb (b_len b) 0) rinit = true); [|congruence].
      apply existsb_exists. exists b. split; [exact Hin | apply Z.eqb_eq; exact Hb0].
    - intros k b Hk. apply (proj1 (numbered_ok_spec _ _) En k b Hk).
    - congruence.
    - unfold new_desc in End. rewrite Eg in End. subst h.
      destruct (j_shash j); inversion End; reflexivity.
  Qed.

  (* which check refuses first, with the error class of the code *)
  Theorem validate_refuses j :
    (j_blobs j = [] -> validate j = Err EIndex) /\
    (forall init last, j_blobs j = init ++ [last] ->
       (b_len last <> 0%Z -> validate j = Err ENoTerminator) /\
       (b_len last = 0%Z -> Exists (fun b => b_len b = 0%Z) init -> validate j = Err EZeroData) /\
       (b_len last = 0%Z -> Forall (fun b => b_len b <> 0%Z) init ->
          (forall h, b_hash last = Some h -> validate j = Err ETermHash) /\
          (b_hash last = None ->
             (numbered_ok 0 (j_blobs j) = false -> validate j = Err EOrder) /\
             (numbered_ok 0 (j_blobs j) = true -> forall name sugg h,
                unhex_decode (j_name j) = Ok name -> unhex_decode (j_sugg j) = Ok sugg ->
                get_stream_hash name (j_key j) sugg (j_blobs j) = Some h -> h <> j_shash j ->
                validate j = Err EStreamHash)))).
  Proof.
    split.
    - intro E0. unfold C02.validate. rewrite E0. reflexivity.
    - intros init last Hb.
      assert (Hr : rev (j_blobs j) = last :: rev init) by (rewrite Hb, rev_app_distr; reflexivity).
      split; [|split].
      + intro Hl. unfold C02.validate. rewrite Hr. destruct (Z.eqb_spec (b_len last) 0); [contradiction | reflexivity].
      + intros Hl Hex. unfold C02.validate. rewrite Hr, Hl. cbn [Z.eqb negb].
        replace (existsb (fun b => Z.eqb (b_len b) 0) (rev init)) with true; [reflexivity|].
        symmetry. rewrite existsb_rev. apply existsb_exists. apply Exists_exists in Hex.
        destruct Hex as (b & Hin & Hb0). exists b. split; [exact Hin | apply Z.eqb_eq; exact Hb0].
      + intros Hl Hall.
        assert (Hnz : existsb (fun b => Z.eqb (b_len b) 0) (rev init) = false).
        { rewrite existsb_rev. destruct (existsb _ init) eqn:Ex; [|reflexivity].
          apply existsb_exists in Ex. destruct Ex as (b & Hin & Hb0). apply Z.eqb_eq in Hb0.
          rewrite Forall_forall in Hall. exfalso. exact (Hall b Hin Hb0). }
        split.
        * intros h Hh. unfold C02.validate. rewrite Hr, Hl. cbn [Z.eqb negb]. rewrite Hnz, Hh. reflexivity.
        * intro Hh. split.
          -- intro Hn. unfold C02.validate. rewrite Hr, Hl. cbn [Z.eqb negb]. rewrite Hnz, Hh, Hn. reflexivity.
          -- intros Hn name sugg h Hnm Hsg Hg Hne. unfold C02.validate.
             rewrite Hr, Hl. cbn [Z.eqb negb]. rewrite Hnz, Hh, Hn. cbn [negb]. rewrite Hnm, Hsg.
             unfold new_desc. rewrite Hg.
             destruct (bytes_eqb h (j_shash j)) eqn:Eb; [apply bytes_eqb_eq in Eb; contradiction|].
             destruct (j_shash j); reflexivity.
  Qed.

  (* ---- the stream hash binds the content, up to an explicit SHA collision ---- *)
  Definition collision : Prop := exists x y : bytes, x <> y /\ H x = H y.

  (* fixed-width fields: 32 hex characters of IV, 96 of blob hash; numbered by position; a hash exactly on
     the data blobs *)
  Definition fixed_blob (i : nat) (b : blob) : Prop :=
    b_num b = Z.of_nat i /\ length (b_iv b) = 32%nat /\
    (if Z.eqb (b_len b) 0 then b_hash b = None else exists h, b_hash b = Some h /\ length h = 96%nat).
  Fixpoint fixed_blobs (i : nat) (bs : list blob) : Prop :=
    match bs with
    | [] => True
    | b :: r => fixed_blob i b /\ fixed_blobs (S i) r
    end.

  Lemma app_inv_len {A} : forall (a a' b b' : list A), length a = length a' -> a ++ b = a' ++ b' -> a = a' /\ b = b'.
  Proof.
    induction a as [|x a IH]; intros [|y a'] b b' Hl He; simpl in Hl; try discriminate.
    - split; [reflexivity | exact He].
    - simpl in He. inversion He; subst. destruct (IH a' b b' ltac:(liaD) H2) as [-> ->]. split; reflexivity.
  Qed.

  Lemma bytes_eq_dec (a b : bytes) : {a = b} + {a <> b}.
  Proof. destruct (bytes_eqb a b) eqn:Eb; [left; apply bytes_eqb_eq; exact Eb | right; apply bytes_eqb_neq; exact Eb]. Qed.

  Lemma hash_eq x y : H x = H y -> x = y \/ collision.
  Proof. intro Hh. destruct (bytes_eq_dec x y) as [->|Hne]; [left; reflexivity | right; exists x, y; split; assumption]. Qed.

  Lemma fixed_blob_as_dict i b : fixed_blob i b -> as_dict b = b.
  Proof.
    intros (_ & _ & Hh). apply as_dict_id. intro E0. rewrite E0 in Hh.
    destruct (Z.eqb (b_len b) 0); [discriminate|]. destruct Hh as (h & Hh & Hl). inversion Hh; subst. discriminate.
  Qed.

  Lemma fixed_blobs_as_dict : forall bs i, fixed_blobs i bs -> map as_dict bs = bs.
  Proof.
    induction bs as [|b r IH]; intros i Hf; [reflexivity|]. destruct Hf as [Hb Hr].
    cbn [map]. rewrite (fixed_blob_as_dict i b Hb), (IH (S i) Hr). reflexivity.
  Qed.

  Lemma blob_pre_inj i b1 b2 p : fixed_blob i b1 -> fixed_blob i b2 ->
    blob_pre b1 = Some p -> blob_pre b2 = Some p -> b1 = b2.
  Proof.
    intros (Hn1 & Hi1 & Hh1) (Hn2 & Hi2 & Hh2) Hp1 Hp2.
    destruct b1 as [n1 l1 iv1 h1], b2 as [n2 l2 iv2 h2]. unfold blob_pre in *. cbn [b_num b_len b_iv b_hash] in *.
    subst n1 n2.
    destruct (Z.eqb_spec l1 0) as [E1|E1], (Z.eqb_spec l2 0) as [E2|E2].
    - subst. inversion Hp1 as [P1]. inversion Hp2 as [P2]. rewrite <- P1 in P2.
      apply app_inv_head in P2. apply app_inv_len in P2; [|congruence]. destruct P2 as [-> _]. reflexivity.
    - exfalso. destruct Hh2 as (h & -> & Hl). inversion Hp1 as [P1]. inversion Hp2 as [P2]. rewrite <- P1 in P2.
      apply (f_equal (@length byte)) in P2. rewrite !app_length in P2. subst l1.
      change (dec_of_Z 0) with (dec_of_N 0) in P2. rewrite dec_of_N_0 in P2. simpl in P2. liaD.
    - exfalso. destruct Hh1 as (h & -> & Hl). inversion Hp1 as [P1]. inversion Hp2 as [P2]. rewrite <- P2 in P1.
      apply (f_equal (@length byte)) in P1. rewrite !app_length in P1. subst l2.
      change (dec_of_Z 0) with (dec_of_N 0) in P1. rewrite dec_of_N_0 in P1. simpl in P1. liaD.
    - destruct Hh1 as (g1 & -> & Hl1). destruct Hh2 as (g2 & -> & Hl2).
      inversion Hp1 as [P1]. inversion Hp2 as [P2]. rewrite <- P1 in P2.
      apply app_inv_len in P2; [|congruence]. destruct P2 as [-> P2].
      apply app_inv_head in P2. apply app_inv_len in P2; [|congruence]. destruct P2 as [-> P2].
      apply dec_of_Z_inj in P2. subst. reflexivity.
  Qed.

  Lemma concat_opt_cons (x : option bytes) l c : concat_opt (x :: l) = Some c ->
    exists a t, x = Some a /\ concat_opt l = Some t /\ c = a ++ t.
  Proof.
    cbn [concat_opt]. destruct x as [a|]; [|discriminate]. destruct (concat_opt l) as [t|]; [|discriminate].
    intro E0. inversion E0. exists a, t. repeat split.
  Qed.

  Lemma blobs_inj : H_length -> forall bs1 bs2 i c,
    fixed_blobs i bs1 -> fixed_blobs i bs2 ->
    concat_opt (map (blob_hashsum H) bs1) = Some c -> concat_opt (map (blob_hashsum H) bs2) = Some c ->
    bs1 = bs2 \/ collision.
  Proof.
    intros HL. induction bs1 as [|b1 r1 IH]; intros [|b2 r2] i c F1 F2 C1 C2.
    - left; reflexivity.
    - exfalso. cbn in C1. inversion C1; subst. apply concat_opt_cons in C2. destruct C2 as (a & t & Ha & _ & Hc).
      unfold blob_hashsum in Ha. destruct (blob_pre b2); [|discriminate]. inversion Ha; subst.
      apply (f_equal (@length byte)) in Hc. rewrite app_length, HL in Hc. simpl in Hc. liaD.
    - exfalso. cbn in C2. inversion C2; subst. apply concat_opt_cons in C1. destruct C1 as (a & t & Ha & _ & Hc).
      unfold blob_hashsum in Ha. destruct (blob_pre b1); [|discriminate]. inversion Ha; subst.
      apply (f_equal (@length byte)) in Hc. rewrite app_length, HL in Hc. simpl in Hc. liaD.
    - cbn [map] in C1, C2.
      apply concat_opt_cons in C1. destruct C1 as (a1 & t1 & Ha1 & Ht1 & Hc1).
      apply concat_opt_cons in C2. destruct C2 as (a2 & t2 & Ha2 & Ht2 & Hc2).
      unfold blob_hashsum in Ha1, Ha2.
      destruct (blob_pre b1) as [p1|] eqn:P1; [|discriminate]. destruct (blob_pre b2) as [p2|] eqn:P2; [|discriminate].
      inversion Ha1; inversion Ha2; subst a1 a2. rewrite Hc1 in Hc2.
      apply app_inv_len in Hc2; [|rewrite !HL; reflexivity]. destruct Hc2 as [Hh Ht]. subst t2.
      destruct F1 as [Fb1 Fr1], F2 as [Fb2 Fr2].
      destruct (hash_eq _ _ Hh) as [Hp | Hcol]; [|right; exact Hcol]. subst p2.
      pose proof (blob_pre_inj i b1 b2 p1 Fb1 Fb2 P1 P2) as ->.
      destruct (IH r2 (S i) t1 Fr1 Fr2 Ht1 Ht2) as [-> | Hcol]; [left; reflexivity | right; exact Hcol].
  Qed.

  (* two descriptors with fixed-width key / IVs / blob hashes and names of the same length that have the same
     stream hash are equal, or the proof hands back two different byte strings with the same H *)
  Theorem stream_hash_binding n1 k1 s1 bs1 n2 k2 s2 bs2 h :
    H_length -> length k1 = 32%nat -> length k2 = 32%nat -> length n1 = length n2 ->
    fixed_blobs 0 bs1 -> fixed_blobs 0 bs2 ->
    get_stream_hash n1 k1 s1 bs1 = Some h -> get_stream_hash n2 k2 s2 bs2 = Some h ->
    (n1 = n2 /\ k1 = k2 /\ s1 = s2 /\ bs1 = bs2) \/ collision.
  Proof.
    intros HL Hk1 Hk2 Hn F1 F2 G1 G2.
    unfold C02.get_stream_hash, calc_stream_hash, stream_pre, blobs_hashsum in G1, G2.
    rewrite (fixed_blobs_as_dict _ _ F1) in G1. rewrite (fixed_blobs_as_dict _ _ F2) in G2.
    destruct (concat_opt (map (blob_hashsum H) bs1)) as [c1|] eqn:C1; [|discriminate].
    destruct (concat_opt (map (blob_hashsum H) bs2)) as [c2|] eqn:C2; [|discriminate].
    inversion G1 as [G1']. inversion G2 as [G2']. rewrite <- G1' in G2'. apply hex_inj in G2'.
    destruct (hash_eq _ _ G2') as [Hp | Hcol]; [|right; exact Hcol].
    apply app_inv_len in Hp; [|rewrite !hex_length; liaD]. destruct Hp as [Hn' Hp]. apply hex_inj in Hn'.
    apply app_inv_len in Hp; [|congruence]. destruct Hp as [Hk' Hp].
    assert (Hls : length (hex s2) = length (hex s1)).
    { apply (f_equal (@length byte)) in Hp. rewrite !app_length, !HL in Hp. liaD. }
    apply app_inv_len in Hp; [|exact Hls]. destruct Hp as [Hs' Hc]. apply hex_inj in Hs'.
    destruct (hash_eq _ _ Hc) as [Hcc | Hcol]; [|right; exact Hcol]. subst c1.
    destruct (blobs_inj HL bs1 bs2 0 c2 F1 F2 C1 C2) as [-> | Hcol]; [|right; exact Hcol].
    left. repeat split; congruence.
  Qed.

  (* the same for two descriptor blobs that both load *)
  Definition widths (j : sdj) : Prop :=
    length (j_key j) = 32%nat /\
    Forall (fun b => length (b_iv b) = 32%nat /\
                     match b_hash b with Some h => length h = 96%nat | None => True end) (j_blobs j).

  Lemma concat_opt_all {A} (fn : A -> option bytes) : forall l c, concat_opt (map fn l) = Some c ->
    forall b, In b l -> fn b <> None.
  Proof.
    induction l as [|x r IH]; intros c Hc b Hin; [contradiction|].
    cbn [map] in Hc. apply concat_opt_cons in Hc. destruct Hc as (a & t & Ha & Ht & _).
    destruct Hin as [<- | Hin]; [congruence | exact (IH t Ht b Hin)].
  Qed.

  Lemma fixed_blobs_of_nth : forall bs i,
    (forall k b, nth_error bs k = Some b -> fixed_blob (i + k) b) -> fixed_blobs i bs.
  Proof.
    induction bs as [|x r IH]; intros i Hall; [exact I|]. split.
    - specialize (Hall 0%nat x eq_refl). rewrite Nat.add_0_r in Hall. exact Hall.
    - apply IH. intros k b Hk. specialize (Hall (S k) b Hk). replace (S i + k)%nat with (i + S k)%nat by liaD. exact Hall.
  Qed.

  Lemma accepted_fixed j d : validate j = Ok d -> widths j -> fixed_blobs 0 (j_blobs j).
  Proof.
    intros Hv (Hwk & Hwb).
    destruct (validate_sound j d Hv) as (init & last & name & sugg & Hb & Hl0 & Hlh & Hnz & Hnum & _ & _ & _ & _ & Hg & _).
    apply fixed_blobs_of_nth. intros k b Hk. cbn [Nat.add].
    pose proof (nth_error_In _ _ Hk) as Hin.
    rewrite Forall_forall in Hwb. destruct (Hwb b Hin) as [Hiv Hhl].
    split; [exact (Hnum k b Hk)|]. split; [exact Hiv|].
    rewrite Hb in Hin. apply in_app_or in Hin. destruct Hin as [Hin | [<- | []]].
    - rewrite Forall_forall in Hnz. specialize (Hnz b Hin).
      destruct (Z.eqb_spec (b_len b) 0) as [E0|_]; [contradiction|].
      unfold C02.get_stream_hash, calc_stream_hash, stream_pre, blobs_hashsum in Hg.
      destruct (concat_opt (map (blob_hashsum H) (map as_dict (j_blobs j)))) as [c|] eqn:Ec; [|discriminate].
      rewrite map_map in Ec.
      assert (Hin' : In b (j_blobs j)) by (rewrite Hb; apply in_or_app; left; exact Hin).
      pose proof (concat_opt_all _ _ _ Ec b Hin') as Hsome.
      unfold blob_hashsum, blob_pre in Hsome. cbn [as_dict b_len b_hash] in Hsome.
      destruct (Z.eqb_spec (b_len b) 0) as [E0|_]; [contradiction|].
      destruct (b_hash b) as [[|x h]|] eqn:Eh; try (exfalso; apply Hsome; reflexivity).
      exists (x :: h). split; [reflexivity | exact Hhl].
    - rewrite Hl0. cbn [Z.eqb]. exact Hlh.
  Qed.

  Theorem accepted_tampering_collides j1 j2 d1 d2 :
    H_length -> validate j1 = Ok d1 -> validate j2 = Ok d2 -> widths j1 -> widths j2 ->
    length (d_name d1) = length (d_name d2) -> j_shash j1 = j_shash j2 ->
    d1 = d2 \/ collision.
  Proof.
    intros HL V1 V2 W1 W2 Hn Hs.
    pose proof (accepted_fixed j1 d1 V1 W1) as F1. pose proof (accepted_fixed j2 d2 V2 W2) as F2.
    destruct (validate_sound j1 d1 V1) as (_ & _ & n1 & s1 & _ & _ & _ & _ & _ & _ & _ & _ & _ & G1 & D1).
    destruct (validate_sound j2 d2 V2) as (_ & _ & n2 & s2 & _ & _ & _ & _ & _ & _ & _ & _ & _ & G2 & D2).
    subst d1 d2. cbn [d_name] in Hn. rewrite <- Hs in G2.
    destruct (stream_hash_binding n1 (j_key j1) s1 (j_blobs j1) n2 (j_key j2) s2 (j_blobs j2) (j_shash j1)
                HL (proj1 W1) (proj1 W2) Hn F1 F2 G1 G2) as [(-> & -> & -> & ->) | Hcol]; [|right; exact Hcol].
    left. rewrite Hs. reflexivity.
  Qed.

  (* without the width / name-length conditions the stream hash does NOT bind the fields: its preimage is a plain
     concatenation.  'ab.txt' with key 3031...3e3f and 'ab.tx' with key 743031...3e (suggested name '?ab.txt')
     have the same stream hash for every blob list and every H. *)
  Definition shift_name1 : bytes := bytes_of_Ns [97; 98; 46; 116; 120; 116]%N.
  Definition shift_key1 : bytes := hex (bytes_of_Ns [48; 49; 50; 51; 52; 53; 54; 55; 56; 57; 58; 59; 60; 61; 62; 63]%N).
  Definition shift_name2 : bytes := bytes_of_Ns [97; 98; 46; 116; 120]%N.
  Definition shift_key2 : bytes := hex (bytes_of_Ns [116; 48; 49; 50; 51; 52; 53; 54; 55; 56; 57; 58; 59; 60; 61; 62]%N).
  Definition shift_sugg2 : bytes := bytes_of_Ns [63; 97; 98; 46; 116; 120; 116]%N.

  Lemma boundary_shift_not_bound bs :
    get_stream_hash shift_name1 shift_key1 shift_name1 bs = get_stream_hash shift_name2 shift_key2 shift_sugg2 bs /\
    shift_key1 <> shift_key2 /\ length shift_key1 = 32%nat /\ length shift_key2 = 32%nat.
  Proof.
    split; [|split; [|split]].
    - unfold C02.get_stream_hash, calc_stream_hash, stream_pre.
      destruct (blobs_hashsum H (map as_dict bs)) as [hb|]; [|reflexivity].
      assert (Hpre : hex shift_name1 ++ shift_key1 ++ hex shift_name1 ++ hb =
                     hex shift_name2 ++ shift_key2 ++ hex shift_sugg2 ++ hb) by (vm_compute; reflexivity).
      rewrite Hpre. reflexivity.
    - intro E0. apply (f_equal (fun l => map N_of_byte l)) in E0. vm_compute in E0. discriminate.
    - vm_compute. reflexivity.
    - vm_compute. reflexivity.
  Qed.

End Proofs.

(* ------------------------------------------------------------------------------------------ *)
(* sanitize_file_name *)

Definition safe_cp (c : N) : Prop := is_illegal c = false /\ is_ctrl c = false.

Lemma safe_cp_spec c : safe_cp c ->
  (32 <= c /\ c <> 47 /\ c <> 92 /\ c <> 60 /\ c <> 62 /\ c <> 58 /\ c <> 34 /\ c <> 124 /\ c <> 63 /\ c <> 42)%N.
Proof.
  unfold safe_cp, is_illegal, is_ctrl. intros [Hi Hc].
  repeat (apply orb_false_iff in Hi; destruct Hi as [Hi ?]).
  repeat match goal with Hx : (_ =? _)%N = false |- _ => apply N.eqb_neq in Hx end.
  apply N.ltb_ge in Hc. repeat split; assumption.
Qed.

Lemma match_here_unsafe st a r : safe_cp a \/ exists k, match_here st (a :: r) = Some (S k).
Proof.
  unfold safe_cp, match_here.
  destruct (is_illegal a) eqn:Ei.
  - right. cbn [run]. rewrite Ei. eexists. reflexivity.
  - destruct (is_ctrl a) eqn:Ec.
    + right. cbn [run]. rewrite Ec. eexists. reflexivity.
    + left. split; reflexivity.
Qed.

Lemma strip_go_In : forall s skip st c, In c (strip_go skip st s) -> In c s /\ safe_cp c.
Proof.
  induction s as [|a r IH]; intros skip st c Hin; [contradiction|].
  cbn [strip_go] in Hin. destruct skip as [|k].
  - destruct (match_here st (a :: r)) as [[|k]|] eqn:Em.
    + destruct Hin as [<- | Hin].
      * split; [left; reflexivity|]. destruct (match_here_unsafe st a r) as [Hs | (k & Hk)]; [exact Hs | congruence].
      * destruct (IH _ _ _ Hin) as [H1 H2]. split; [right; exact H1 | exact H2].
    + destruct (IH _ _ _ Hin) as [H1 H2]. split; [right; exact H1 | exact H2].
    + destruct Hin as [<- | Hin].
      * split; [left; reflexivity|]. destruct (match_here_unsafe st a r) as [Hs | (k & Hk)]; [exact Hs | congruence].
      * destruct (IH _ _ _ Hin) as [H1 H2]. split; [right; exact H1 | exact H2].
  - destruct (IH _ _ _ Hin) as [H1 H2]. split; [right; exact H1 | exact H2].
Qed.

Lemma strip_In s c : In c (strip s) -> In c s /\ safe_cp c.
Proof. apply strip_go_In. Qed.

Lemma default_safe c : In c default_name -> safe_cp c.
Proof.
  unfold default_name. cbn [In]. intro Hin.
  repeat (destruct Hin as [<- | Hin]; [split; reflexivity|]). contradiction.
Qed.

Lemma In_firstn {A} : forall n (l : list A) x, In x (firstn n l) -> In x l.
Proof. induction n; intros [|y l] x Hin; simpl in *; try contradiction. destruct Hin; [left | right]; auto. Qed.
Lemma In_skipn {A} : forall n (l : list A) x, In x (skipn n l) -> In x l.
Proof. induction n; intros [|y l] x Hin; simpl in *; try contradiction; auto. Qed.

Lemma splitext_In p fn ext c : splitext p = (fn, ext) -> In c fn \/ In c ext -> In c p.
Proof.
  unfold splitext. intro Hs.
  destruct (rfind is_dot p) as [di|].
  - destruct (_ && _).
    + inversion Hs; subst. intros [Hin | Hin]; [eapply In_firstn | eapply In_skipn]; exact Hin.
    + inversion Hs; subst. intros [Hin | []]. exact Hin.
  - inversion Hs; subst. intros [Hin | []]. exact Hin.
Qed.

Theorem sanitize_safe name :
  sanitize name <> [] /\
  forall c, In c (sanitize name) -> safe_cp c /\ (In c name \/ In c default_name).
Proof.
  unfold sanitize. destruct (splitext name) as [fn ext] eqn:Es.
  assert (Hfn : forall c, In c (strip fn) -> safe_cp c /\ (In c name \/ In c default_name)).
  { intros c Hin. destruct (strip_In _ _ Hin) as [H1 H2]. split; [exact H2|]. left. eapply splitext_In; eauto. }
  assert (Hext : forall c, In c (strip ext) -> safe_cp c /\ (In c name \/ In c default_name)).
  { intros c Hin. destruct (strip_In _ _ Hin) as [H1 H2]. split; [exact H2|]. left. eapply splitext_In; eauto. }
  assert (Hdf : forall c, In c default_name -> safe_cp c /\ (In c name \/ In c default_name)).
  { intros c Hin. split; [apply default_safe; exact Hin | right; exact Hin]. }
  destruct (strip fn) as [|x fr] eqn:Ef; destruct (Nat.ltb 1 (length (strip ext))); split;
    try (intros c Hin; try (apply in_app_or in Hin; destruct Hin as [Hin | Hin]); auto; fail);
    try discriminate.
Qed.

Theorem sanitize_safe_chars name :
  sanitize name <> [] /\
  forall c, In c (sanitize name) ->
    (32 <= c /\ c <> 47 /\ c <> 92 /\ c <> 60 /\ c <> 62 /\ c <> 58 /\ c <> 34 /\ c <> 124 /\ c <> 63 /\ c <> 42)%N.
Proof.
  destruct (sanitize_safe name) as [Hne Hall]. split; [exact Hne|].
  intros c Hin. apply safe_cp_spec. exact (proj1 (Hall c Hin)).
Qed.
