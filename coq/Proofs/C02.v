(* C02 proofs: chunking, round trip, names and numbers, commitments, validation, preimage injectivity,
   sanitised file names.  Everything is stated over the definitions of Model/C02.v. *)
From Coq Require Import NArith ZArith List Bool Lia Arith.
From Coq.Strings Require Import Byte.
From LV Require Import Lib.Bytes Lib.Decimal Model.C02.
Import ListNotations.
Ltac Zify.zify_post_hook ::= Z.to_euclidean_division_equations.

(* ------------------------------------------------------------------------------------------ *)
(* hex / unhex *)

Lemma hexval_hex_digit n : (n < 16)%N -> hexval (hex_digit n) = Some n.
Proof.
  intro Hn. unfold hexval, hex_digit.
  destruct (N.ltb_spec n 10).
  - rewrite (byte_of_N_small (48 + n)) by lia.
    replace ((48 <=? 48 + n)%N) with true by (symmetry; apply N.leb_le; lia).
    replace ((48 + n <=? 57)%N) with true by (symmetry; apply N.leb_le; lia).
    cbn [andb]. f_equal. lia.
  - rewrite (byte_of_N_small (87 + n)) by lia.
    replace ((87 + n <=? 57)%N) with false by (symmetry; apply N.leb_gt; lia).
    rewrite andb_false_r.
    replace ((97 <=? 87 + n)%N) with true by (symmetry; apply N.leb_le; lia).
    replace ((87 + n <=? 102)%N) with true by (symmetry; apply N.leb_le; lia).
    cbn [andb]. f_equal. lia.
Qed.

Lemma unhex_hex b : unhex (hex b) = Some b.
Proof.
  induction b as [|x r IH]; [reflexivity|].
  cbn [hex unhex].
  pose proof (N_of_byte_lt x) as Hx.
  rewrite !hexval_hex_digit by lia.
  rewrite IH. f_equal. f_equal.
  replace (16 * (N_of_byte x / 16) + N_of_byte x mod 16)%N with (N_of_byte x) by lia.
  apply byte_of_N_of_byte.
Qed.

Lemma hex_inj a b : hex a = hex b -> a = b.
Proof. intro E. pose proof (unhex_hex a) as Ha. rewrite E, unhex_hex in Ha. congruence. Qed.

Lemma hex_length b : length (hex b) = (2 * length b)%nat.
Proof. induction b; simpl; lia. Qed.

Lemma hex_app a b : hex (a ++ b) = hex a ++ hex b.
Proof. induction a; simpl; congruence. Qed.

Lemma hex_digit_ascii n : (n < 16)%N -> (N_of_byte (hex_digit n) < 128)%N.
Proof. intro. unfold hex_digit. destruct (N.ltb_spec n 10); [rewrite (byte_of_N_small (48 + n)) | rewrite (byte_of_N_small (87 + n))]; lia. Qed.

Lemma hex_ascii b : forallb (fun c => (N_of_byte c <? 128)%N) (hex b) = true.
Proof.
  induction b as [|x r IH]; [reflexivity|].
  pose proof (N_of_byte_lt x). cbn [hex forallb]. rewrite IH.
  rewrite !(proj2 (N.ltb_lt _ _)) by (apply hex_digit_ascii; lia). reflexivity.
Qed.

(* ------------------------------------------------------------------------------------------ *)
(* decimal *)

Lemma dec_of_Z_inj a b : dec_of_Z a = dec_of_Z b -> a = b.
Proof. intro E. pose proof (Z_of_dec_of_Z a) as Ha. rewrite E, Z_of_dec_of_Z in Ha. congruence. Qed.

Lemma dec_of_Z_nonempty z : dec_of_Z z <> [].
Proof. destruct z; simpl; try apply dec_of_N_nonempty. discriminate. Qed.

(* ------------------------------------------------------------------------------------------ *)
(* chunking *)

Lemma split_fuel_concat c : (0 < c)%nat -> forall fuel f, (length f <= fuel)%nat -> concat (split_fuel fuel c f) = f.
Proof.
  intros Hc fuel. induction fuel as [|k IH]; intros f Hf.
  - destruct f; [reflexivity | simpl in Hf; lia].
  - destruct f as [|x r]; [reflexivity|].
    cbn [split_fuel]. destruct (Nat.eqb_spec c 0); [lia|].
    cbn [concat]. rewrite IH.
    + apply firstn_skipn.
    + rewrite skipn_length. cbn [length] in Hf |- *. lia.
Qed.

Lemma split_fuel_pieces c : (0 < c)%nat -> forall fuel f p, In p (split_fuel fuel c f) -> (1 <= length p <= c)%nat.
Proof.
  intros Hc fuel. induction fuel as [|k IH]; intros f p Hin; [contradiction|].
  destruct f as [|x r]; [contradiction|].
  cbn [split_fuel] in Hin. destruct (Nat.eqb_spec c 0); [lia|].
  destruct Hin as [<- | Hin].
  - rewrite firstn_length. simpl. lia.
  - eapply IH; eauto.
Qed.

Lemma split_fuel_lengths c : (0 < c)%nat -> forall fuel f, (length f <= fuel)%nat ->
  map (@length byte) (split_fuel fuel c f) =
  repeat c (length f / c) ++ (if Nat.eqb (length f mod c) 0 then [] else [(length f mod c)%nat]).
Proof.
  intros Hc fuel. induction fuel as [|k IH]; intros f Hf.
  - destruct f; [|simpl in Hf; lia]. simpl. rewrite Nat.div_0_l, Nat.mod_0_l by lia. reflexivity.
  - destruct f as [|x r].
    + simpl. rewrite Nat.div_0_l, Nat.mod_0_l by lia. reflexivity.
    + cbn [split_fuel]. destruct (Nat.eqb_spec c 0); [lia|].
      cbn [map]. rewrite IH by (rewrite skipn_length; cbn [length] in Hf |- *; lia).
      rewrite firstn_length, skipn_length.
      set (nn := length (x :: r)) in *.
      assert (Hn : (0 < nn)%nat) by (unfold nn; simpl; lia).
      destruct (Nat.lt_ge_cases nn c) as [Hlt | Hge].
      * rewrite Nat.min_r by lia.
        replace (nn - c)%nat with 0%nat by lia.
        rewrite Nat.div_0_l, Nat.mod_0_l by lia.
        rewrite (Nat.div_small nn c), (Nat.mod_small nn c) by lia.
        simpl. destruct (Nat.eqb_spec nn 0); [lia | reflexivity].
      * rewrite Nat.min_l by lia.
        assert (Hd : (nn / c = S ((nn - c) / c))%nat).
        { replace nn with ((nn - c) + 1 * c)%nat at 1 by lia. rewrite Nat.div_add by lia. lia. }
        assert (Hm : (nn mod c = (nn - c) mod c)%nat).
        { replace nn with ((nn - c) + 1 * c)%nat at 1 by lia. rewrite Nat.mod_add by lia. reflexivity. }
        rewrite Hd, Hm. reflexivity.
Qed.

(* ------------------------------------------------------------------------------------------ *)

Section Proofs.
  Variable H : bytes -> bytes.
  Variable E : bytes -> bytes -> bytes -> bytes.
  Variable D : bytes -> bytes -> bytes -> option bytes.
  Variable maxb : nat.

  (* the three facts about the primitives that proofs below use; each names where *)
  Definition DE_inverse := forall k iv p, D k iv (E k iv p) = Some p.
  Definition E_length := forall k iv p, length (E k iv p) = (16 * (length p / 16 + 1))%nat.
  Definition H_length := forall x, length (H x) = 48%nat.

  Notation split := (split maxb).
  Notation build_stream := (build_stream H E maxb).
  Notation create_stream := (create_stream H E maxb).
  Notation make_blobs := (make_blobs H E).
  Notation get_stream_hash := (get_stream_hash H).
  Notation validate := (validate H).

  (* ---- split ---- *)
  Lemma split_concat f : (2 <= maxb)%nat -> concat (split f) = f.
  Proof. intro Hm. unfold C02.split. apply split_fuel_concat; lia. Qed.

  Lemma split_piece_size f p : (2 <= maxb)%nat -> In p (split f) -> (1 <= length p <= maxb - 1)%nat.
  Proof. intros Hm Hin. unfold C02.split in Hin. eapply split_fuel_pieces in Hin; lia. Qed.

  Lemma split_lengths f : (2 <= maxb)%nat ->
    map (@length byte) (split f) =
    repeat (maxb - 1)%nat (length f / (maxb - 1)) ++
    (if Nat.eqb (length f mod (maxb - 1)) 0 then [] else [(length f mod (maxb - 1))%nat]).
  Proof. intro Hm. unfold C02.split. apply split_fuel_lengths; lia. Qed.

  Lemma split_count f : (2 <= maxb)%nat -> length (split f) = ((length f + (maxb - 1) - 1) / (maxb - 1))%nat.
  Proof.
    intro Hm. rewrite <- (map_length (@length byte)), split_lengths by exact Hm.
    set (c := (maxb - 1)%nat). assert (Hc : (0 < c)%nat) by (unfold c; lia).
    rewrite app_length, repeat_length.
    pose proof (Nat.div_mod (length f) c ltac:(lia)) as Hdm.
    pose proof (Nat.mod_upper_bound (length f) c ltac:(lia)) as Hub.
    set (q := (length f / c)%nat) in *. set (r := (length f mod c)%nat) in *.
    destruct (Nat.eqb_spec r 0) as [Hr | Hr].
    - simpl. replace (length f + c - 1)%nat with ((c - 1) + q * c)%nat by nia.
      rewrite Nat.div_add by lia. rewrite Nat.div_small by lia. lia.
    - simpl. replace (length f + c - 1)%nat with ((r - 1) + (q + 1) * c)%nat by nia.
      rewrite Nat.div_add by lia. rewrite Nat.div_small by lia. lia.
  Qed.

  Lemma split_nonempty f : (2 <= maxb)%nat -> f <> [] -> split f <> [].
  Proof.
    intros Hm Hf E0. pose proof (split_concat f Hm) as Hc. rewrite E0 in Hc. simpl in Hc. congruence.
  Qed.

  (* every ciphertext fits a blob when 16 divides MAX_BLOB_SIZE (2^21 does) *)
  Lemma ciphertext_bound k iv p :
    E_length -> (2 <= maxb)%nat -> (maxb mod 16 = 0)%nat -> (1 <= length p <= maxb - 1)%nat ->
    (16 <= length (E k iv p) <= maxb)%nat.
  Proof.
    intros HE Hm H16 Hp. rewrite HE.
    pose proof (Nat.div_mod maxb 16 ltac:(lia)) as Hdm. rewrite H16 in Hdm.
    pose proof (Nat.div_mod (length p) 16 ltac:(lia)).
    pose proof (Nat.mod_upper_bound (length p) 16 ltac:(lia)).
    split; [lia|].
    assert (length p / 16 < maxb / 16)%nat; [|lia].
    apply Nat.div_lt_upper_bound; lia.
  Qed.

  (* ---- make_blobs ---- *)
  Lemma make_blobs_length key ivf n ps : length (make_blobs key ivf n ps) = length ps.
  Proof. revert n. induction ps; intros; simpl; auto. Qed.

  Lemma make_blobs_nth key ivf : forall ps n i p, nth_error ps i = Some p ->
    nth_error (make_blobs key ivf n ps) i = Some (make_blob H E key (ivf (n + i)%nat) p (n + i)).
  Proof.
    induction ps as [|x r IH]; intros n i p Hi; [destruct i; discriminate|].
    destruct i as [|i]; simpl in *.
    - inversion Hi; subst. rewrite Nat.add_0_r. reflexivity.
    - rewrite (IH (S n) i p Hi). replace (S n + i)%nat with (n + S i)%nat by lia. reflexivity.
  Qed.

  (* ---- round trip ---- *)
  Lemma decrypt_blobs_make key ivf : DE_inverse -> forall ps n,
    decrypt_blobs D (hex key) (map fst (make_blobs key ivf n ps)) (map snd (make_blobs key ivf n ps)) = Some (concat ps).
  Proof.
    intros HDE. induction ps as [|p r IH]; intro n; [reflexivity|].
    cbn [C02.make_blobs map fst snd make_blob decrypt_blobs concat].
    unfold decrypt_blob. cbn [b_len b_iv].
    rewrite Z.eqb_refl. cbn [negb]. rewrite !unhex_hex, HDE, IH. reflexivity.
  Qed.

  Lemma build_blobs name key ivf f :
    d_blobs (s_desc (build_stream name key ivf f)) =
      map fst (make_blobs key ivf 0 (split f)) ++ [terminator ivf (length (split f))] /\
    s_cts (build_stream name key ivf f) = map snd (make_blobs key ivf 0 (split f)) /\
    d_key (s_desc (build_stream name key ivf f)) = hex key /\
    d_name (s_desc (build_stream name key ivf f)) = utf8_enc name /\
    d_sugg (s_desc (build_stream name key ivf f)) = utf8_enc (sanitize name).
  Proof. unfold C02.build_stream. cbn. rewrite make_blobs_length. repeat split. Qed.

  Theorem roundtrip name key ivf f :
    DE_inverse -> (2 <= maxb)%nat ->
    decrypt_stream D (s_desc (build_stream name key ivf f)) (s_cts (build_stream name key ivf f)) = Some f.
  Proof.
    intros HDE Hm. destruct (build_blobs name key ivf f) as (Hb & Hc & Hk & _).
    unfold decrypt_stream. rewrite Hb, Hc, Hk, removelast_last.
    rewrite decrypt_blobs_make by exact HDE. rewrite split_concat by exact Hm. reflexivity.
  Qed.

  Theorem roundtrip_created name key ivf f s :
    DE_inverse -> (2 <= maxb)%nat -> create_stream name key ivf f = Some s ->
    decrypt_stream D (s_desc s) (s_cts s) = Some f.
  Proof.
    intros HDE Hm Hc. unfold C02.create_stream in Hc.
    destruct (has_dup _); [discriminate|]. inversion Hc; subst. apply roundtrip; assumption.
  Qed.

  (* ---- names and numbers ---- *)
  Theorem names_and_numbers name key ivf f :
    let s := build_stream name key ivf f in
    let n := length (split f) in
    length (d_blobs (s_desc s)) = S n /\ length (s_cts s) = n /\
    (forall i p, nth_error (split f) i = Some p ->
       let ct := E key (ivf i) p in
       nth_error (s_cts s) i = Some ct /\
       nth_error (d_blobs (s_desc s)) i =
         Some (mkBlob (Z.of_nat i) (Z.of_nat (length ct)) (hex (ivf i)) (Some (hex (H ct))))) /\
    nth_error (d_blobs (s_desc s)) n = Some (mkBlob (Z.of_nat n) 0 (hex (ivf n)) None).
  Proof.
    intros s n. destruct (build_blobs name key ivf f) as (Hb & Hc & _). fold s in Hb, Hc.
    rewrite Hb, Hc. repeat split.
    - rewrite app_length, map_length, make_blobs_length. simpl. lia.
    - rewrite map_length, make_blobs_length. reflexivity.
    - rewrite nth_error_map, (make_blobs_nth key ivf _ 0 i p H0). reflexivity.
    - rewrite nth_error_app1.
      + rewrite nth_error_map, (make_blobs_nth key ivf _ 0 i p H0). reflexivity.
      + rewrite map_length, make_blobs_length. apply nth_error_Some. congruence.
    - rewrite nth_error_app2 by (rewrite map_length, make_blobs_length; unfold n; lia).
      rewrite map_length, make_blobs_length. unfold n. rewrite Nat.sub_diag. reflexivity.
  Qed.

End Proofs.
