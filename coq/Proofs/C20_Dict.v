(* C20 proofs, dict_values_to_lbc *)
From Coq Require Import NArith ZArith List Bool Lia.
From LV Require Import Lib.Bytes Lib.Decimal Model.C20 Proofs.C20 Model.C20_Dict.
Import ListNotations.

Lemma assoc_map k kvs :
  assoc k (map (fun kx => (fst kx, to_lbc (snd kx))) kvs) = option_map to_lbc (assoc k kvs).
Proof.
  induction kvs as [|[k' x] r IH]; [reflexivity|].
  cbn [map assoc fst snd]. destruct (bytes_eqb k k'); [reflexivity | exact IH].
Qed.

(* at EVERY path the output holds the conversion of what the input holds there, and has an entry exactly where the
   input has one: the shape is kept at every depth *)
Lemma lookup_to_lbc path : forall v, lookup path (to_lbc v) = option_map to_lbc (lookup path v).
Proof.
  induction path as [|k p IH]; intro v; [reflexivity|].
  destruct v as [z|b|s|t|kvs]; try reflexivity.
  cbn [to_lbc lookup]. rewrite assoc_map. destruct (assoc k kvs) as [x|]; [apply IH | reflexivity].
Qed.

Lemma keys_kept kvs : map fst (map (fun kx : bytes * jv => (fst kx, to_lbc (snd kx))) kvs) = map fst kvs.
Proof. rewrite map_map. reflexivity. Qed.

(* an integer amount at any depth is rendered by the exact printer; negative deltas included, no bound *)
Lemma int_leaf path v z : lookup path v = Some (JVInt z) ->
  exists m k, lookup path (to_lbc v) = Some (JVStr (format z)) /\
    dec_exact (format z) = Some (m, k) /\ (m * 10 ^ 8 = z * 10 ^ Z.of_N k)%Z /\ (1 <= k <= 8)%N.
Proof.
  intro H. destruct (exact z) as (m & k & H1 & H2 & H3). exists m, k.
  rewrite lookup_to_lbc, H. auto.
Qed.

(* whatever is not an integer or a dictionary is handed back as it was *)
Lemma other_leaf path v x : lookup path v = Some x ->
  (forall z, x <> JVInt z) -> (forall b, x <> JVBool b) -> (forall kvs, x <> JVDict kvs) ->
  lookup path (to_lbc v) = Some x.
Proof.
  intros H Hi Hb Hd. rewrite lookup_to_lbc, H. destruct x; cbn [option_map to_lbc]; try reflexivity.
  - destruct (Hi z eq_refl). - destruct (Hb b eq_refl). - destruct (Hd kvs eq_refl).
Qed.

(* a second application changes nothing (strings are not amounts): no double conversion *)
Lemma to_lbc_idem_at path v : lookup path (to_lbc (to_lbc v)) = lookup path (to_lbc v).
Proof.
  rewrite !lookup_to_lbc. destruct (lookup path v) as [x|]; [|reflexivity]. cbn [option_map]. f_equal.
  clear. revert x. fix IH 1. intros [z|b|s|t|kvs]; try reflexivity.
  cbn [to_lbc]. f_equal. rewrite map_map. cbn [fst snd].
  induction kvs as [|[k x] r IHr]; [reflexivity|]. cbn [map fst snd]. rewrite (IH x). f_equal. exact IHr.
Qed.
