(* C20 proofs, second file: injectivity of the printer over all of Z, the parser on printed negative amounts,
   and the canonical form of everything the parser accepts. *)
From Coq Require Import NArith ZArith List Bool Lia.
From Coq.Strings Require Import Byte.
From LV Require Import Lib.Bytes Lib.Decimal Model.C20 Proofs.C20.
Import ListNotations.
Local Open Scope N_scope.

(* distinct amounts never print alike (no bound on the amount) *)
Lemma format_injective z1 z2 : format z1 = format z2 -> z1 = z2.
Proof.
  intro E.
  destruct (exact z1) as (m1 & k1 & D1 & V1 & _).
  destruct (exact z2) as (m2 & k2 & D2 & V2 & _).
  rewrite E in D1. rewrite D1 in D2. inversion D2; subst m2 k2.
  assert (Hp : (0 < 10 ^ Z.of_N k1)%Z) by (apply Z.pow_pos_nonneg; lia).
  rewrite V1 in V2. apply Z.mul_reg_r in V2; [exact V2 | lia].
Qed.

Lemma minus_not_dot : byte_eqb minus_byte dot_byte = false.
Proof. vm_compute. reflexivity. Qed.

Lemma minus_not_digit : is_digit minus_byte = false.
Proof. vm_compute. reflexivity. Qed.

(* the printed form of a negative delta is '-' followed by the printed magnitude, and the strict parser refuses it
   (coins_to_satoshis has no sign in its grammar); the magnitude itself reads back exactly *)
Lemma negative_printed p :
  format (Zneg p) = minus_byte :: format (Zpos p) /\ parse (format (Zneg p)) = None.
Proof.
  split; [apply format_neg|].
  rewrite format_neg. pose proof (format_nonneg (Npos p)) as Hf. change (Z.of_N (N.pos p)) with (Z.pos p) in Hf.
  rewrite Hf. unfold parse.
  change (minus_byte :: dec_of_N (N.pos p / COIN) ++ dot_byte :: strip_frac (fixed_digits 8 (N.pos p mod COIN)))
    with ((minus_byte :: dec_of_N (N.pos p / COIN)) ++ dot_byte :: strip_frac (fixed_digits 8 (N.pos p mod COIN))).
  assert (Hs : forall a b, forallb is_digit a = true ->
     split_dot ((minus_byte :: a) ++ dot_byte :: b) = Some (minus_byte :: a, b)).
  { intros a b Ha. cbn [app split_dot]. rewrite minus_not_dot, split_dot_digits by exact Ha. reflexivity. }
  rewrite Hs by apply dec_of_N_all_digits.
  cbn [forallb]. rewrite minus_not_digit. reflexivity.
Qed.

Lemma negative_magnitude_roundtrip p : Npos p < 10 ^ 18 ->
  parse (tl (format (Zneg p))) = Some (Npos p).
Proof.
  intro H. rewrite format_neg. cbn [tl]. change (Z.pos p) with (Z.of_N (Npos p)). apply roundtrip. exact H.
Qed.

Lemma dval_upper ds : forallb is_digit ds = true -> dval ds < 10 ^ N.of_nat (length ds).
Proof.
  induction ds as [|d r IH] using rev_ind; intro H.
  - vm_compute. reflexivity.
  - rewrite forallb_app in H. apply andb_true_iff in H as [Hr Hd]. cbn [forallb] in Hd. rewrite andb_true_r in Hd.
    rewrite dval_app, app_length. cbn [length]. specialize (IH Hr).
    replace (N.of_nat (length r + 1)) with (N.succ (N.of_nat (length r))) by lia.
    rewrite N.pow_succ_r'. change (N.of_nat 1) with 1. rewrite N.pow_1_r.
    assert (Hv : dval [d] < 10).
    { unfold dval, value. cbn [map fold_left]. pose proof (digit_val_lt d Hd). lia. }
    lia.
Qed.

(* everything the parser accepts is below 10^18 ... *)
Lemma parse_bound s n : parse s = Some n -> n < 10 ^ 18.
Proof.
  intro H. apply parse_sound in H as (whole & frac & (Hs & Hw & Hf & Lw & Lf) & Hn).
  pose proof (dval_upper whole Hw) as Uw. pose proof (dval_upper frac Hf) as Uf.
  assert (Pw : 10 ^ N.of_nat (length whole) <= 10 ^ 10) by (apply N.pow_le_mono_r; lia).
  assert (Pf : dval frac * 10 ^ N.of_nat (8 - length frac) < 10 ^ 8).
  { replace (10 ^ 8) with (10 ^ N.of_nat (length frac) * 10 ^ N.of_nat (8 - length frac)).
    - apply N.mul_lt_mono_pos_r; [|exact Uf]. apply N.neq_0_lt_0, N.pow_nonzero. discriminate.
    - rewrite <- N.pow_add_r. f_equal. lia. }
  change (10 ^ 18) with (10 ^ 10 * 10 ^ 8). subst n.
  set (W := dval whole) in *. set (F := dval frac * 10 ^ N.of_nat (8 - length frac)) in *.
  assert (W < 10 ^ 10) by lia. change (10 ^ 10) with 10000000000 in *. change (10 ^ 8) with 100000000 in *. lia.
Qed.

(* ... so printing what was read and reading it again gives the same amount: parse . format . parse = parse *)
Lemma parse_format_parse s n : parse s = Some n -> parse (format (Z.of_N n)) = Some n.
Proof. intro H. apply roundtrip. exact (parse_bound s n H). Qed.

(* two accepted spellings of one amount print to one canonical string, and that string is accepted *)
Lemma canonical_spelling s1 s2 n : parse s1 = Some n -> parse s2 = Some n ->
  exists c, c = format (Z.of_N n) /\ parse c = Some n.
Proof. intros H1 _. exists (format (Z.of_N n)). split; [reflexivity | exact (parse_format_parse s1 n H1)]. Qed.
