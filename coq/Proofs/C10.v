(* C10 proofs *)
From Coq Require Import NArith ZArith List Bool Lia.
From Coq.Strings Require Import Byte.
From LV Require Import Lib.Bytes Model.C10.
Import ListNotations.
Local Open Scope Z_scope.
Ltac Zify.zify_post_hook ::= Z.to_euclidean_division_equations.

Lemma zlen_app {A} (a b : list A) : zlen (a ++ b) = zlen a + zlen b.
Proof. unfold zlen. rewrite app_length. lia. Qed.
Lemma zlen_nonneg {A} (a : list A) : 0 <= zlen a.
Proof. unfold zlen. lia. Qed.
Lemma zlen_nil {A} : zlen (@nil A) = 0.
Proof. reflexivity. Qed.
Lemma zlen_firstn {A} n (a : list A) : zlen (firstn n a) = Z.min (Z.of_nat n) (zlen a).
Proof. unfold zlen. rewrite firstn_length. lia. Qed.

(* ------------------------------------------------------------------ the '}' scan *)
Section Scan.
Variable json_loads : bytes -> jres.

Lemma rev_append_nil (l : bytes) : rev_append l [] = rev l.
Proof. rewrite rev_append_rev. apply app_nil_r. Qed.

(* an honest header: ends in '}', is recognised as response r at its end, and no proper prefix that ends
   in '}' is JSON at all *)
Variable hdr : bytes.
Variable r : response.
Hypothesis Hparse : json_loads hdr = JResp r.
Hypothesis Hend : exists h0, hdr = h0 ++ [rbrace].
Hypothesis Hnoprefix : forall a b, hdr = a ++ rbrace :: b -> b <> [] -> json_loads (a ++ [rbrace]) = JInvalid.

Hypothesis Hshort : zlen hdr <= MAX_RESPONSE_SIZE.

Lemma scan_header_inv : forall rest1 racc pos t,
  hdr = rev racc ++ rest1 -> rest1 <> [] -> pos = zlen racc ->
  scan json_loads pos racc (rest1 ++ t) = PResp r (length hdr).
Proof.
  induction rest1 as [|b rest1 IH]; intros racc pos t Hh Hne Hpos; [congruence|].
  cbn [app scan]. rewrite rev_append_nil. cbn [rev].
  assert (Hlt : pos < MAX_RESPONSE_SIZE).
  { rewrite Hh, zlen_app in Hshort. unfold zlen in *. rewrite rev_length in Hshort. cbn [length] in Hshort. lia. }
  assert (Hpos' : pos + 1 = zlen (b :: racc)) by (unfold zlen in *; cbn [length]; lia).
  destruct (byte_eqb b rbrace) eqn:Eb.
  - destruct (pos >=? MAX_RESPONSE_SIZE) eqn:Ecap; [lia|].
    apply byte_eqb_eq in Eb. subst b.
    destruct rest1 as [|b' rest1'].
    + rewrite <- Hh, Hparse. f_equal. rewrite Hh, app_length, rev_length. simpl. lia.
    + rewrite (Hnoprefix (rev racc) (b' :: rest1')) by (auto; discriminate).
      apply IH; [|discriminate|exact Hpos']. cbn [rev]. rewrite <- app_assoc. exact Hh.
  - destruct rest1 as [|b' rest1'].
    + exfalso. destruct Hend as [h0 Hh0]. rewrite Hh0 in Hh.
      apply app_inj_tail in Hh. destruct Hh as [_ Hb]. subst b.
      rewrite byte_eqb_refl in Eb. discriminate.
    + apply IH; [|discriminate|exact Hpos']. cbn [rev]. rewrite <- app_assoc. exact Hh.
Qed.

Lemma scan_prefix_inv : forall rest1 racc pos rest2,
  hdr = rev racc ++ rest1 ++ rest2 -> rest2 <> [] ->
  scan json_loads pos racc rest1 = PNone.
Proof.
  induction rest1 as [|b rest1 IH]; intros racc pos rest2 Hh Hne; [reflexivity|].
  cbn [scan]. rewrite rev_append_nil. cbn [rev].
  assert (Hrec : scan json_loads (pos + 1) (b :: racc) rest1 = PNone).
  { apply (IH _ _ rest2); [|exact Hne]. cbn [rev]. rewrite <- app_assoc. exact Hh. }
  destruct (byte_eqb b rbrace) eqn:Eb; [|exact Hrec].
  destruct (pos >=? MAX_RESPONSE_SIZE); [reflexivity|].
  apply byte_eqb_eq in Eb. subst b.
  rewrite (Hnoprefix (rev racc) (rest1 ++ rest2)); [exact Hrec| exact Hh |].
  destruct rest1; [exact Hne | discriminate].
Qed.

(* the header is recognised at its end whatever follows it *)
Lemma parse_header_then : forall t, parse_prefix json_loads (hdr ++ t) = PResp r (length hdr).
Proof.
  intro t. unfold parse_prefix. apply scan_header_inv; [reflexivity| |reflexivity].
  destruct Hend as [h0 Hh0]. rewrite Hh0. destruct h0; discriminate.
Qed.

(* nothing is recognised in a proper prefix of the header *)
Lemma parse_header_prefix : forall a b, hdr = a ++ b -> b <> [] -> parse_prefix json_loads a = PNone.
Proof. intros a b Hh Hne. unfold parse_prefix. apply (scan_prefix_inv a [] 0 b); assumption. Qed.

End Scan.

(* general facts about the scan, for any json_loads *)
Lemma scan_consumed json_loads : forall rest racc pos r n,
  scan json_loads pos racc rest = PResp r n -> (length racc < n <= length racc + length rest)%nat.
Proof.
  induction rest as [|b rest IH]; intros racc pos r n Hs; [discriminate|].
  cbn [scan] in Hs. cbn [length].
  destruct (byte_eqb b rbrace).
  - destruct (pos >=? MAX_RESPONSE_SIZE); [discriminate|].
    destruct (json_loads (rev_append (b :: racc) [])); try discriminate.
    + apply IH in Hs. cbn [length] in Hs. lia.
    + inversion Hs. lia.
  - apply IH in Hs. cbn [length] in Hs. lia.
Qed.

Lemma parse_prefix_consumed json_loads msg r n :
  parse_prefix json_loads msg = PResp r n -> (0 < n <= length msg)%nat.
Proof. intro Hs. apply scan_consumed in Hs. simpl in Hs. lia. Qed.

(* a recognised response was read from a prefix that ends in '}' at an index below the cap and that
   json_loads accepts *)
Lemma scan_sound json_loads : forall rest racc pos r n,
  scan json_loads pos racc rest = PResp r n -> pos = zlen racc ->
  json_loads (firstn n (rev racc ++ rest)) = JResp r /\
  (exists p, firstn n (rev racc ++ rest) = p ++ [rbrace]) /\ Z.of_nat n <= MAX_RESPONSE_SIZE.
Proof.
  induction rest as [|b rest IH]; intros racc pos r n Hs Hpos; [discriminate|].
  cbn [scan] in Hs. rewrite rev_append_nil in Hs. cbn [rev] in Hs.
  assert (Hpos' : pos + 1 = zlen (b :: racc)) by (unfold zlen in *; cbn [length]; lia).
  assert (Hrec : scan json_loads (pos + 1) (b :: racc) rest = PResp r n ->
     json_loads (firstn n (rev racc ++ b :: rest)) = JResp r /\
     (exists p, firstn n (rev racc ++ b :: rest) = p ++ [rbrace]) /\ Z.of_nat n <= MAX_RESPONSE_SIZE).
  { intro Hs'. apply IH in Hs'; [|exact Hpos']. cbn [rev] in Hs'. rewrite <- app_assoc in Hs'. exact Hs'. }
  destruct (byte_eqb b rbrace) eqn:Eb; [|auto].
  destruct (pos >=? MAX_RESPONSE_SIZE) eqn:Ecap; [discriminate|].
  destruct (json_loads (rev racc ++ [b])) eqn:Ej; try discriminate; [auto|].
  inversion Hs; subst. apply byte_eqb_eq in Eb. subst b.
  assert (Hf : firstn (S (length racc)) (rev racc ++ rbrace :: rest) = rev racc ++ [rbrace]).
  { change (rbrace :: rest) with ([rbrace] ++ rest). rewrite app_assoc.
    apply firstn_app_exact'. rewrite app_length, rev_length. simpl. lia. }
  rewrite Hf. split; [exact Ej | split; [eexists; reflexivity|]]. unfold zlen in Ecap. lia.
Qed.

(* ------------------------------------------------------------------ server *)
Section Server.
Variable req_loads : bytes -> rres.
Variable store : bytes -> option bytes.
Variable completed : bytes -> bool.

Definition is_close (o : sout) : bool := match o with SClose => true | _ => false end.

(* request cap: 1200 buffered bytes or more => closed, nothing handled, nothing sent *)
Lemma srv_cap s data :
  zlen (s_buf s) + zlen data >= MAX_REQUEST_SIZE ->
  srv_data req_loads store completed s data = (mkS (s_buf s) false, [SClose]).
Proof.
  intro Hc. unfold srv_data. destruct (zlen (s_buf s) + zlen data >=? MAX_REQUEST_SIZE) eqn:E; [reflexivity|lia].
Qed.

Lemma after_last_brace_length : forall data t, after_last_brace data = Some t -> (length t < length data)%nat.
Proof.
  induction data as [|b d IH]; intros t Ht; [discriminate|].
  cbn [after_last_brace] in Ht. destruct (after_last_brace d) eqn:E.
  - inversion Ht; subst. specialize (IH _ eq_refl). simpl. lia.
  - destruct (byte_eqb b rbrace); [|discriminate]. inversion Ht; subst. simpl. lia.
Qed.

(* the buffer never reaches the cap *)
Lemma srv_buf_bounded s data s' out :
  zlen (s_buf s) < MAX_REQUEST_SIZE ->
  srv_data req_loads store completed s data = (s', out) -> zlen (s_buf s') < MAX_REQUEST_SIZE.
Proof.
  intros Hb Hs. unfold srv_data in Hs.
  destruct (zlen (s_buf s) + zlen data >=? MAX_REQUEST_SIZE) eqn:E.
  - inversion Hs; subst. exact Hb.
  - destruct data as [|b d]; [inversion Hs; subst; exact Hb|].
    destruct (after_last_brace (b :: d)) as [t|] eqn:Ea.
    + apply after_last_brace_length in Ea. unfold zlen in *.
      destruct (req_loads (s_buf s ++ b :: d)); inversion Hs; subst; cbn [s_buf]; try exact Hb; lia.
    + inversion Hs; subst. cbn [s_buf]. rewrite zlen_app. lia.
Qed.

(* malformed JSON (or any escaping exception, or no recognised request) => closed, nothing sent *)
Lemma srv_bad_json s data t :
  zlen (s_buf s) + zlen data < MAX_REQUEST_SIZE -> data <> [] ->
  after_last_brace data = Some t ->
  (req_loads (s_buf s ++ data) = RBadJson \/ req_loads (s_buf s ++ data) = RRaise \/ req_loads (s_buf s ++ data) = REmpty) ->
  exists s', srv_data req_loads store completed s data = (s', [SClose]) /\ s_open s' = false.
Proof.
  intros Hc Hne Ha Hr. unfold srv_data.
  destruct (zlen (s_buf s) + zlen data >=? MAX_REQUEST_SIZE) eqn:E; [lia|].
  destruct data as [|b d]; [congruence|]. rewrite Ha.
  destruct Hr as [Hr|[Hr|Hr]]; rewrite Hr; eexists; split; reflexivity.
Qed.

(* what may appear on the wire of one connection: headers that announce nothing, or a header announcing
   (h, length of b) for a HELD blob b = store h directly followed by exactly the bytes b; availability
   lists name blobs of the completed index only; blob bytes never appear without their header *)
Definition avail_ok (hd : header) : Prop :=
  forall l x, h_avail hd = Some l -> In x l -> completed x = true.
Inductive wire_ok : list sout -> Prop :=
| wk_nil : wire_ok []
| wk_plain hd rest : h_incoming hd = None -> avail_ok hd -> wire_ok rest -> wire_ok (SHeader hd :: rest)
| wk_blob hd h b rest : h_incoming hd = Some (h, zlen b) -> store h = Some b -> avail_ok hd ->
    wire_ok rest -> wire_ok (SHeader hd :: SBlob b :: rest)
| wk_close rest : wire_ok rest -> wire_ok (SClose :: rest)
| wk_err rest : wire_ok rest -> wire_ok (STaskError :: rest).

Lemma wire_ok_app a b : wire_ok a -> wire_ok b -> wire_ok (a ++ b).
Proof. intros Ha Hb. induction Ha; cbn [app]; try (econstructor; eassumption); assumption. Qed.

Lemma filter_avail_ok inc p (q : request_msg) a :
  avail_ok (mkHdr inc p (match q_avail q with Some l => Some (filter completed l) | None => None end) a).
Proof.
  intros l x Hl Hi. cbn in Hl. destruct (q_avail q); inversion Hl; subst.
  apply filter_In in Hi. tauto.
Qed.

Lemma handle_request_wire_ok q : wire_ok (handle_request store completed q).
Proof.
  unfold handle_request.
  destruct (q_blob q) as [[h|]|].
  - destruct (store h) as [b|] eqn:Es.
    + cbn [app]. eapply wk_blob; [reflexivity | exact Es | apply filter_avail_ok |].
      destruct (zlen b >? 0); repeat constructor.
    + destruct (q_addr q || _ || q_price q); [|constructor].
      apply wk_plain; [reflexivity | apply filter_avail_ok | constructor].
  - repeat constructor.
  - destruct (q_addr q || _ || q_price q); [|constructor].
    apply wk_plain; [reflexivity | apply filter_avail_ok | constructor].
Qed.

(* a blob is announced only when it was asked for by hash and is held *)
Lemma handle_request_announces q hd rest h l :
  handle_request store completed q = SHeader hd :: rest -> h_incoming hd = Some (h, l) ->
  q_blob q = Some (BqHash h) /\ exists b, store h = Some b /\ l = zlen b /\ exists rest', rest = SBlob b :: rest'.
Proof.
  unfold handle_request. intros He Hi.
  destruct (q_blob q) as [[h'|]|].
  - destruct (store h') as [b|] eqn:Es.
    + cbn [app] in He. inversion He; subst. cbn in Hi. inversion Hi; subst.
      split; [reflexivity|]. exists b. repeat split; auto. eexists; reflexivity.
    + destruct (q_addr q || _ || q_price q); inversion He; subst. discriminate.
  - inversion He.
  - destruct (q_addr q || _ || q_price q); inversion He; subst. discriminate.
Qed.

Lemma srv_data_wire_ok s data : wire_ok (snd (srv_data req_loads store completed s data)).
Proof.
  unfold srv_data.
  destruct (zlen (s_buf s) + zlen data >=? MAX_REQUEST_SIZE); [repeat constructor|].
  destruct data as [|b d]; [repeat constructor|].
  destruct (after_last_brace (b :: d)); [|constructor].
  destruct (req_loads (s_buf s ++ b :: d)); cbn [snd]; try (repeat constructor).
  apply handle_request_wire_ok.
Qed.

Lemma srv_run_wire_ok_gen : forall frags s acc, wire_ok acc ->
  wire_ok (snd (fold_left (srv_step req_loads store completed) frags (s, acc))).
Proof.
  induction frags as [|f frags IH]; intros s acc Ha; [exact Ha|].
  cbn [fold_left]. unfold srv_step at 2.
  destruct (s_open s); [|apply IH; exact Ha].
  pose proof (srv_data_wire_ok s f) as Hd.
  destruct (srv_data req_loads store completed s f) as [s' out]. cbn [snd] in Hd.
  apply IH. apply wire_ok_app; assumption.
Qed.

(* for EVERY sequence of segments a peer sends on a connection *)
Lemma srv_run_wire_ok frags : wire_ok (snd (srv_run req_loads store completed fresh_server frags)).
Proof. unfold srv_run. apply srv_run_wire_ok_gen. constructor. Qed.

(* once closed, a connection handles nothing more *)
Lemma srv_closed_stays : forall frags s acc, s_open s = false ->
  fold_left (srv_step req_loads store completed) frags (s, acc) = (s, acc).
Proof.
  induction frags as [|f frags IH]; intros s acc Hc; [reflexivity|].
  cbn [fold_left]. unfold srv_step at 2. rewrite Hc. apply IH. exact Hc.
Qed.

(* ---- fragmentation of an honest request: '}' only as its last byte *)
Lemma after_last_brace_none : forall d, (forall x, In x d -> x <> rbrace) -> after_last_brace d = None.
Proof.
  induction d as [|b d IH]; intro Hn; [reflexivity|].
  cbn [after_last_brace]. rewrite IH by (intros x Hx; apply Hn; right; exact Hx).
  destruct (byte_eqb b rbrace) eqn:E; [|reflexivity].
  apply byte_eqb_eq in E. exfalso. apply (Hn b); [left; reflexivity | exact E].
Qed.

Lemma after_last_brace_last : forall d, (forall x, In x d -> x <> rbrace) -> after_last_brace (d ++ [rbrace]) = Some [].
Proof.
  induction d as [|b d IH]; intro Hn.
  - cbn. rewrite byte_eqb_refl. reflexivity.
  - cbn [app after_last_brace]. rewrite IH by (intros x Hx; apply Hn; right; exact Hx). reflexivity.
Qed.

Lemma concat_last_split : forall (frags : list bytes) body, concat frags = body ++ [rbrace] ->
  (forall x, In x body -> x <> rbrace) ->
  exists pre last d post, frags = pre ++ last :: post /\ last = d ++ [rbrace] /\ concat post = [] /\ body = concat pre ++ d.
Proof.
  induction frags as [|f frags IH]; intros body Hc Hn.
  - destruct body; discriminate.
  - cbn [concat] in Hc.
    destruct (list_eq_dec Byte.byte_eq_dec (concat frags) []) as [He|Hne].
    + rewrite He, app_nil_r in Hc. exists [], f, body, frags. cbn. auto.
    + (* the last byte lies in concat frags *)
      destruct (exists_last Hne) as [m [z Hm]].
      rewrite Hm, app_assoc in Hc. apply app_inj_tail in Hc. destruct Hc as [Hb Hz]. subst z.
      destruct (IH m Hm) as [pre [last [d [post [Hf [Hl [Hp Hbody]]]]]]].
      { intros x Hx. apply Hn. rewrite <- Hb. apply in_or_app. right. exact Hx. }
      exists (f :: pre), last, d, post. repeat split; auto.
      * rewrite Hf. reflexivity.
      * cbn [concat]. rewrite <- app_assoc, <- Hbody. symmetry. exact Hb.
Qed.

End Server.

(* ------------------------------------------------------------------ server: fragmentation of an honest request *)
Section ServerFrag.
Variable req_loads : bytes -> rres.
Variable store : bytes -> option bytes.
Variable completed : bytes -> bool.

Definition no_brace (f : bytes) : Prop := forall x, In x f -> x <> rbrace.

Lemma srv_buffering : forall pre s acc,
  s_open s = true ->
  (forall f, In f pre -> f <> [] /\ no_brace f) ->
  zlen (s_buf s) + zlen (concat pre) < MAX_REQUEST_SIZE ->
  fold_left (srv_step req_loads store completed) pre (s, acc) = (mkS (s_buf s ++ concat pre) true, acc).
Proof.
  induction pre as [|f pre IH]; intros s acc Ho Hf Hc.
  - cbn. rewrite app_nil_r. destruct s; cbn in *; subst; reflexivity.
  - cbn [fold_left concat] in *. unfold srv_step at 2. rewrite Ho.
    destruct (Hf f (or_introl eq_refl)) as [Hne Hnb].
    rewrite zlen_app in Hc. pose proof (zlen_nonneg (concat pre)).
    unfold srv_data.
    destruct (zlen (s_buf s) + zlen f >=? MAX_REQUEST_SIZE) eqn:E; [lia|].
    destruct f as [|b d]; [congruence|].
    rewrite (after_last_brace_none _ Hnb).
    rewrite IH.
    + cbn [s_buf]. rewrite <- app_assoc, app_nil_r. reflexivity.
    + cbn [s_open]. exact Ho.
    + intros g Hg. apply Hf. right. exact Hg.
    + cbn [s_buf]. rewrite zlen_app. lia.
Qed.

Lemma concat_nil_nonempty : forall (post : list bytes), concat post = [] -> (forall f, In f post -> f <> []) -> post = [].
Proof.
  destruct post as [|f post]; intros Hc Hn; [reflexivity|].
  cbn in Hc. apply app_eq_nil in Hc. destruct Hc as [Hf _]. exfalso. apply (Hn f); [left; reflexivity|exact Hf].
Qed.

Lemma in_concat_no_brace : forall (pre : list bytes) d, no_brace (concat pre ++ d) -> forall f, In f pre -> no_brace f.
Proof.
  intros pre d Hn f Hf x Hx. apply Hn. apply in_or_app. left.
  apply in_concat. exists f. split; assumption.
Qed.

(* an honest request (its only '}' is its last byte, shorter than the cap) is handled exactly once however it is cut *)
Lemma srv_fragmentation body q frags :
  no_brace body -> req_loads (body ++ [rbrace]) = RReq q ->
  zlen (body ++ [rbrace]) < MAX_REQUEST_SIZE ->
  concat frags = body ++ [rbrace] -> (forall f, In f frags -> f <> []) ->
  srv_run req_loads store completed fresh_server frags =
    (mkS [] (negb (existsb (fun o => match o with SClose => true | _ => false end) (handle_request store completed q))),
     handle_request store completed q).
Proof.
  intros Hnb Hreq Hlen Hc Hne.
  destruct (concat_last_split frags body Hc Hnb) as [pre [last [d [post [Hf [Hl [Hp Hb]]]]]]].
  assert (Hpost : post = []).
  { apply concat_nil_nonempty; [exact Hp|]. intros f Hi. apply Hne. rewrite Hf. apply in_or_app. right. right. exact Hi. }
  subst post. unfold srv_run. rewrite Hf, fold_left_app.
  rewrite zlen_app in Hlen. unfold zlen at 2 in Hlen. cbn [length] in Hlen.
  assert (Hbl : zlen body = zlen (concat pre) + zlen d) by (rewrite Hb, zlen_app; reflexivity).
  pose proof (zlen_nonneg d). pose proof (zlen_nonneg (concat pre)).
  rewrite srv_buffering.
  - cbn [fold_left fresh_server s_buf app]. unfold srv_step. cbn [s_open]. unfold srv_data. cbn [s_buf s_open].
    assert (Hll : zlen last = zlen d + 1) by (rewrite Hl, zlen_app; reflexivity).
    destruct (zlen (concat pre) + zlen last >=? MAX_REQUEST_SIZE) eqn:E; [lia|].
    destruct last as [|b0 l0] eqn:El; [destruct d; discriminate|]. rewrite <- El in *.
    rewrite Hl at 1. rewrite after_last_brace_last.
    + rewrite Hl, app_assoc, <- Hb, Hreq. cbn [app andb]. reflexivity.
    + intros x Hx. apply Hnb. rewrite Hb. apply in_or_app. right. exact Hx.
  - reflexivity.
  - intros f Hi. split.
    + apply Hne. rewrite Hf. apply in_or_app. left. exact Hi.
    + apply (in_concat_no_brace pre d); [rewrite <- Hb; exact Hnb | exact Hi].
  - cbn [fresh_server s_buf]. unfold zlen at 1. cbn [length]. lia.
Qed.

End ServerFrag.

Lemma parse_prefix_sound (json_loads : bytes -> jres) (msg : bytes) (r : response) (n : nat) :
  parse_prefix json_loads msg = PResp r n ->
  json_loads (firstn n msg) = JResp r /\ (exists p, firstn n msg = p ++ [rbrace]) /\ Z.of_nat n <= MAX_RESPONSE_SIZE.
Proof. intro Hs. exact (scan_sound json_loads msg [] 0 r n Hs eq_refl). Qed.
