(* C13 proofs.  Section hypotheses (assumed behaviour of library primitives):
     H_DE  : AES-CBC/PKCS7 decrypt (encrypt p) = p
     H_b64 : b64decode (b64encode x) = x          H_b64_nil : b64decode (b'') = b''
     H_z   : zlib.decompress (zlib.compress x) = x
   Nothing is assumed about what decryption under another key returns, about hashes or about scrypt. *)
From Coq Require Import NArith ZArith List Bool Lia.
From Coq.Strings Require Import Byte.
From LV Require Import Lib.Bytes Lib.Decimal Model.C13.
Import ListNotations.
Local Open Scope N_scope.

(* ------------------------------------------------------------------------------------------ *)
(* well-formedness of plaintext accounts: what a Python str / PrivateKey object guarantees     *)
(* ------------------------------------------------------------------------------------------ *)
Definition len16 (b : bytes) : Prop := length b = 16%nat.
Definition iv_ok (o : option bytes) : Prop := match o with Some iv => len16 iv | None => True end.

Section WithPrims.
Variable P : prims.

Record wf_account (a : account) : Prop := {
  wf_plain : a_encrypted a = false;
  wf_seed_utf8 : utf8_ok P (a_seed a) = true;                     (* the seed is a str *)
  wf_seed_words : nonempty (a_seed a) = true -> seed_ok P (a_seed a) = true;
  wf_priv : forall x, a_priv a = Some x -> xparse P x = XOk x /\ utf8_ok P x = true /\ nonempty x = true;
  wf_pks : a_priv a = None -> a_pks a = [];                       (* no key object: no key string either *)
  wf_ivs : iv_ok (a_iv_seed a);
  wf_ivp : iv_ok (a_iv_priv a)
}.

(* seed, keys and addresses (addresses are a function of the public key) *)
Definition secrets (a : account) := (a_seed a, a_priv a, a_pub a, a_encrypted a).

(* everything except the remembered init vectors *)
Definition strip_iv (a : account) : account :=
  set_secrets a (a_seed a) (a_pks a) (a_priv a) (a_encrypted a) None None.

Hypothesis H_DE : forall k iv p, D P k iv (E P k iv p) = DOk p.
Hypothesis H_b64 : forall x, b64d P (b64e P x) = Some x.
Hypothesis H_b64_nil : b64d P [] = Some [].
Hypothesis H_z : forall x, zd P (zc P x) = ZOk x.

Lemma aes_roundtrip pw p iv : len16 iv -> utf8_ok P p = true ->
  aes_decrypt P pw (aes_encrypt P pw p iv) = Ok (p, iv).
Proof.
  intros Hl Hu. unfold aes_decrypt, aes_encrypt. rewrite H_b64.
  rewrite (firstn_app_exact' 16 iv) by (symmetry; exact Hl).
  rewrite (skipn_app_exact' 16 iv) by (symmetry; exact Hl).
  rewrite H_DE, Hu. reflexivity.
Qed.

Lemma get_iv_len cur rnd : iv_ok cur -> Forall len16 rnd ->
  len16 (fst (get_iv cur rnd)) /\ Forall len16 (snd (get_iv cur rnd)).
Proof.
  intros Hc Hr. unfold get_iv. destruct cur as [iv|]; cbn.
  - split; assumption.
  - destruct rnd as [|r rest]; cbn.
    + split. reflexivity. constructor.
    + inversion Hr; subst. split; assumption.
Qed.

Lemma aes_encrypt_nonempty pw p iv : len16 iv -> nonempty (aes_encrypt P pw p iv) = true.
Proof.
  intros Hl. unfold aes_encrypt.
  destruct (b64e P (iv ++ E P (kdf P pw) iv p)) eqn:Hbe; [|reflexivity].
  exfalso. pose proof (H_b64 (iv ++ E P (kdf P pw) iv p)) as Hb. rewrite Hbe, H_b64_nil in Hb.
  injection Hb as Hb. destruct iv; [discriminate Hl | discriminate Hb].
Qed.

(* Account.encrypt then Account.decrypt with the same password *)
Lemma account_roundtrip pw rnd a : wf_account a -> Forall len16 rnd ->
  exists ivs ivp,
    account_decrypt P pw (fst (account_encrypt P pw rnd a)) =
      (DTrue, set_secrets a (a_seed a) [] (a_priv a) false ivs ivp)
    /\ iv_ok ivs /\ iv_ok ivp
    /\ a_encrypted (fst (account_encrypt P pw rnd a)) = true
    /\ a_priv (fst (account_encrypt P pw rnd a)) = None
    /\ Forall len16 (snd (account_encrypt P pw rnd a)).
Proof.
  intros [Hpl Hsu Hsw Hpr Hpk Hivs Hivp] Hr.
  unfold account_encrypt.
  destruct (nonempty (a_seed a)) eqn:Hne.
  - destruct (get_iv_len (a_iv_seed a) rnd Hivs Hr) as [Hl1 Hr1].
    destruct (get_iv (a_iv_seed a) rnd) as [iv1 rnd1]; cbn in Hl1, Hr1.
    destruct (a_priv a) as [x|] eqn:Hx.
    + destruct (Hpr x eq_refl) as [Hxp [Hxu Hxn]].
      destruct (get_iv_len (a_iv_priv a) rnd1 Hivp Hr1) as [Hl2 Hr2].
      destruct (get_iv (a_iv_priv a) rnd1) as [iv2 rnd2]; cbn in Hl2, Hr2.
      exists (Some iv1), (Some iv2). cbn.
      unfold account_decrypt, decrypt_seed, decrypt_priv; cbn.
      rewrite (aes_encrypt_nonempty pw (a_seed a) iv1 Hl1).
      rewrite (aes_roundtrip pw (a_seed a) iv1 Hl1 Hsu). rewrite (Hsw eq_refl), Hne. cbn.
      rewrite (aes_encrypt_nonempty pw x iv2 Hl2).
      rewrite (aes_roundtrip pw x iv2 Hl2 Hxu). rewrite Hxn, Hxp. cbn.
      repeat split; auto.
    + exists (Some iv1), (a_iv_priv a). cbn.
      unfold account_decrypt, decrypt_seed, decrypt_priv; cbn.
      rewrite (aes_encrypt_nonempty pw (a_seed a) iv1 Hl1).
      rewrite (aes_roundtrip pw (a_seed a) iv1 Hl1 Hsu). rewrite (Hsw eq_refl), Hne. cbn.
      rewrite (Hpk eq_refl). cbn.
      repeat split; auto.
  - assert (Hs : a_seed a = []) by (destruct (a_seed a); [reflexivity|discriminate]).
    destruct (a_priv a) as [x|] eqn:Hx.
    + destruct (Hpr x eq_refl) as [Hxp [Hxu Hxn]].
      destruct (get_iv_len (a_iv_priv a) rnd Hivp Hr) as [Hl2 Hr2].
      destruct (get_iv (a_iv_priv a) rnd) as [iv2 rnd2]; cbn in Hl2, Hr2.
      exists (a_iv_seed a), (Some iv2). cbn.
      unfold account_decrypt, decrypt_seed, decrypt_priv; cbn.
      rewrite Hne. cbn.
      rewrite (aes_encrypt_nonempty pw x iv2 Hl2).
      rewrite (aes_roundtrip pw x iv2 Hl2 Hxu). rewrite Hxn, Hxp. cbn.
      rewrite Hs. repeat split; auto.
    + exists (a_iv_seed a), (a_iv_priv a). cbn.
      unfold account_decrypt, decrypt_seed, decrypt_priv; cbn.
      rewrite Hne. cbn. rewrite (Hpk eq_refl). cbn.
      rewrite Hs. repeat split; auto.
Qed.

(* ---------------- lock / unlock of a whole wallet ---------------- *)
Definition restored (a a' : account) : Prop :=
  exists ivs ivp, a' = set_secrets a (a_seed a) [] (a_priv a) false ivs ivp /\ iv_ok ivs /\ iv_ok ivp.

Lemma restored_secrets a a' : wf_account a -> restored a a' -> secrets a' = secrets a.
Proof. intros Hw (ivs & ivp & -> & _). unfold secrets; cbn. rewrite (wf_plain _ Hw). reflexivity. Qed.

Lemma lock_unlock_accounts pw : forall l rnd, Forall (wf_account) l -> Forall len16 rnd ->
  exists l', unlock_accounts P pw (fst (lock_accounts P pw rnd l)) = (UTrue, l')
             /\ Forall2 restored l l'
             /\ Forall (fun b => a_encrypted b = true /\ a_priv b = None) (fst (lock_accounts P pw rnd l)).
Proof.
  induction l as [|a l IH]; intros rnd Hwf Hr.
  - exists []. cbn. repeat split; constructor.
  - inversion Hwf as [|? ? Ha Hl]; subst.
    cbn [lock_accounts]. rewrite (wf_plain _ Ha).
    destruct (account_roundtrip pw rnd a Ha Hr) as (ivs & ivp & Hd & Hi1 & Hi2 & He & Hp & Hr').
    destruct (account_encrypt P pw rnd a) as [a1 rnd1] eqn:Hae. cbn [fst snd] in *.
    destruct (IH rnd1 Hl Hr') as (l' & Hu & Hf & Hall).
    destruct (lock_accounts P pw rnd1 l) as [r' rnd'] eqn:Hla. cbn [fst] in *.
    exists (set_secrets a (a_seed a) [] (a_priv a) false ivs ivp :: l').
    cbn [unlock_accounts]. rewrite He, Hd, Hu.
    split; [reflexivity|]. split.
    + constructor; [|exact Hf]. exists ivs, ivp. auto.
    + constructor; auto.
Qed.

Lemma is_locked_false_all w : is_locked w = false -> Forall (fun a => a_encrypted a = false) (w_accounts w).
Proof.
  unfold is_locked. induction (w_accounts w) as [|a l IH]; cbn; intros H; constructor.
  - destruct (a_encrypted a); [discriminate|reflexivity].
  - apply IH. destruct (a_encrypted a); [discriminate|exact H].
Qed.

Lemma existsb_all_false l : Forall (fun a => a_encrypted a = false) l -> existsb a_encrypted l = false.
Proof. induction 1 as [|a l Ha _ IH]; cbn; [reflexivity|]. rewrite Ha, IH. reflexivity. Qed.

Lemma restored_plain l l' : Forall2 restored l l' -> Forall (fun a => a_encrypted a = false) l'.
Proof. induction 1 as [|a a' l l' (ivs & ivp & -> & _) _ IH]; constructor; [reflexivity|exact IH]. Qed.

Lemma restored_map_secrets l l' : Forall (wf_account) l -> Forall2 restored l l' -> map secrets l' = map secrets l.
Proof.
  intros Hw H. induction H as [|a a' l l' Hr _ IH]; [reflexivity|].
  inversion Hw; subst. cbn. rewrite (restored_secrets a a'); auto. f_equal. auto.
Qed.

(* the plaintext dict of a restored account is the dict it had before *)
Lemma restored_to_dict a a' rnd : wf_account a -> restored a a' ->
  fst (fst (account_to_dict P None rnd a')) = fst (fst (account_to_dict P None rnd a)).
Proof.
  intros Hw (ivs & ivp & -> & _). unfold account_to_dict. cbn.
  rewrite (wf_plain _ Hw). cbn.
  destruct (a_priv a) eqn:Hp; [reflexivity|]. rewrite (wf_pks _ Hw Hp). reflexivity.
Qed.

Definition wf_wallet (w : wallet) : Prop := Forall (wf_account) (w_accounts w).

Theorem unlock_restores : forall w pw rnd,
  wf_wallet w -> w_pw w = Some pw -> Forall len16 rnd ->
  exists w1 w2,
    lock P rnd w = Ok w1
    /\ Forall (fun b => a_encrypted b = true /\ a_priv b = None) (w_accounts w1)
    /\ unlock P pw w1 = (UTrue, w2)
    /\ map secrets (w_accounts w2) = map secrets (w_accounts w)
    /\ is_locked w2 = false /\ w_pw w2 = Some pw /\ w_name w2 = w_name w /\ w_prefs w2 = w_prefs w.
Proof.
  intros w pw rnd Hwf Hpw Hr.
  destruct (lock_unlock_accounts pw (w_accounts w) rnd Hwf Hr) as (l' & Hu & Hf & Hall).
  unfold lock. rewrite Hpw.
  eexists. exists (mkWallet (w_name w) (w_prefs w) l' (Some pw)).
  split; [reflexivity|]. cbn [w_accounts].
  split; [exact Hall|].
  unfold unlock. cbn [w_accounts w_name w_prefs w_pw]. rewrite Hu.
  split; [reflexivity|]. cbn.
  split; [apply restored_map_secrets; assumption|].
  split; [unfold is_locked; cbn; apply existsb_all_false; eapply restored_plain; eassumption|].
  repeat split.
Qed.

(* ---------------- a refused unlock ---------------- *)
Lemma account_decrypt_refused pw a o a' : account_decrypt P pw a = (o, a') -> o <> DTrue ->
  strip_iv a' = strip_iv a /\ a_encrypted a' = a_encrypted a.
Proof.
  unfold account_decrypt. destruct (decrypt_seed P pw a) as [ivs rs].
  destruct rs as [sd|e].
  - destruct (decrypt_priv P pw _) as [ivp rp]. destruct rp as [pk|e].
    + intros H Hn. injection H as <- _. congruence.
    + destruct e; intros H _; injection H as _ <-; split; reflexivity.
  - intros H _. injection H as _ <-. split; reflexivity.
Qed.

Lemma unlock_accounts_skip pw pre : forall rest, Forall (fun x => a_encrypted x = false) pre ->
  unlock_accounts P pw (pre ++ rest) =
    (fst (unlock_accounts P pw rest), pre ++ snd (unlock_accounts P pw rest)).
Proof.
  induction pre as [|x pre IH]; intros rest H.
  - cbn. destruct (unlock_accounts P pw rest); reflexivity.
  - inversion H; subst. cbn [app unlock_accounts]. rewrite H2, IH by assumption.
    destruct (unlock_accounts P pw rest); reflexivity.
Qed.

Theorem failed_unlock_unchanged : forall w pw pre a post,
  w_accounts w = pre ++ a :: post ->
  Forall (fun x => a_encrypted x = false) pre -> a_encrypted a = true ->
  fst (account_decrypt P pw a) <> DTrue ->
  fst (unlock P pw w) <> UTrue
  /\ is_locked (snd (unlock P pw w)) = true
  /\ w_pw (snd (unlock P pw w)) = w_pw w
  /\ w_name (snd (unlock P pw w)) = w_name w /\ w_prefs (snd (unlock P pw w)) = w_prefs w
  /\ map strip_iv (w_accounts (snd (unlock P pw w))) = map strip_iv (w_accounts w).
Proof.
  intros w pw pre a post Hacc Hpre Ha Hrefuse.
  unfold unlock. rewrite Hacc, (unlock_accounts_skip pw pre (a :: post) Hpre).
  cbn [unlock_accounts]. rewrite Ha.
  destruct (account_decrypt P pw a) as [o a'] eqn:Hd. cbn [fst] in Hrefuse.
  destruct (account_decrypt_refused pw a o a' Hd Hrefuse) as [Hs He].
  assert (Hlk : existsb a_encrypted (pre ++ a' :: post) = true).
  { rewrite existsb_app. cbn. rewrite He, Ha. cbn. apply orb_true_r. }
  destruct o as [| |e]; [congruence| |]; cbn.
  - repeat split; try discriminate; auto.
    rewrite !map_app. cbn. rewrite Hs. reflexivity.
  - repeat split; try discriminate; auto.
    rewrite !map_app. cbn. rewrite Hs. reflexivity.
Qed.

(* what happens in general: accounts before the refusing one stay decrypted *)
Theorem failed_unlock_prefix : forall pw pre a post pre',
  unlock_accounts P pw pre = (UTrue, pre') -> a_encrypted a = true ->
  fst (account_decrypt P pw a) <> DTrue ->
  fst (unlock_accounts P pw (pre ++ a :: post)) <> UTrue /\
  snd (unlock_accounts P pw (pre ++ a :: post)) = pre' ++ snd (account_decrypt P pw a) :: post.
Proof.
  intros pw pre. induction pre as [|x pre IH]; intros a post pre' Hu Ha Hr.
  - cbn in Hu. injection Hu as <-. cbn [app unlock_accounts]. rewrite Ha.
    destruct (account_decrypt P pw a) as [o a']. cbn [fst snd] in *.
    destruct o; [congruence| |]; cbn; split; (discriminate || reflexivity).
  - cbn [app unlock_accounts] in *.
    destruct (a_encrypted x).
    + destruct (account_decrypt P pw x) as [o x'].
      destruct o; [|discriminate Hu|discriminate Hu].
      destruct (unlock_accounts P pw pre) as [o1 r1] eqn:Hp.
      injection Hu as -> <-.
      destruct (IH a post r1 eq_refl Ha Hr) as [H1 H2].
      destruct (unlock_accounts P pw (pre ++ a :: post)) as [o2 r2]. cbn [fst snd] in *.
      subst r2. split; [exact H1|reflexivity].
    + destruct (unlock_accounts P pw pre) as [o1 r1] eqn:Hp.
      injection Hu as -> <-.
      destruct (IH a post r1 eq_refl Ha Hr) as [H1 H2].
      destruct (unlock_accounts P pw (pre ++ a :: post)) as [o2 r2]. cbn [fst snd] in *.
      subst r2. split; [exact H1|reflexivity].
Qed.
End WithPrims.

(* ------------------------------------------------------------------------------------------ *)
(* WalletStorage.write: atomic for every crash point                                           *)
(* ------------------------------------------------------------------------------------------ *)
Lemma temp_neq path pid : temp_path path pid <> path.
Proof.
  unfold temp_path. intros H.
  assert (H' : path ++ (c_dot_tmp_dot ++ dec_of_N pid) = path ++ []) by (rewrite app_nil_r; exact H).
  apply app_inv_head in H'. discriminate H'.
Qed.

Lemma eqb_temp_path path pid : bytes_eqb path (temp_path path pid) = false.
Proof. apply bytes_eqb_neq. intros H. apply (temp_neq path pid). symmetry. exact H. Qed.
Lemma eqb_path_temp path pid : bytes_eqb (temp_path path pid) path = false.
Proof. apply bytes_eqb_neq. apply temp_neq. Qed.

Definition fdata (o : option file) : option bytes := option_map f_data o.

Section Atomic.
Variable umask : N.
Variable path : bytes.
Variable pid : N.
Variable data : bytes.
Let tmp := temp_path path pid.

(* operations that only touch the temporary file or only read *)
Definition harmless (op : fsop) : Prop :=
  match op with
  | FOpenW p | FWrite p _ | FRemove p | FChmod p _ => p = tmp
  | FRename _ _ => False
  | _ => True
  end.

Lemma harmless_path op t : harmless op -> apply_op umask op t path = t path.
Proof.
  destruct op; cbn; intros H; subst; try reflexivity.
  - unfold fs_set. rewrite (eqb_temp_path path pid). reflexivity.
  - destruct (t tmp); [|reflexivity]. unfold fs_set. rewrite (eqb_temp_path path pid). reflexivity.
  - contradiction.
  - unfold fs_set. rewrite (eqb_temp_path path pid). reflexivity.
  - destruct (t tmp); [|reflexivity]. unfold fs_set. rewrite (eqb_temp_path path pid). reflexivity.
Qed.

Lemma crashes_harmless ops : Forall harmless ops -> forall t t', crashes umask ops t t' -> t' path = t path.
Proof.
  induction 1 as [|op ops Hop _ IH]; intros t t' Hc.
  - inversion Hc; subst; reflexivity.
  - inversion Hc; subst.
    + reflexivity.
    + apply harmless_path. exact Hop.
    + rewrite (IH _ _ H3). apply harmless_path. exact Hop.
Qed.

Lemma crashes_app ops1 : forall ops2 t t', crashes umask (ops1 ++ ops2) t t' ->
  crashes umask ops1 t t' \/ crashes umask ops2 (run_ops umask ops1 t) t'.
Proof.
  induction ops1 as [|op ops1 IH]; intros ops2 t t' H.
  - right. exact H.
  - cbn [app] in H. inversion H; subst.
    + left. constructor.
    + left. constructor.
    + destruct (IH _ _ _ H4) as [Hl|Hr].
      * left. constructor. exact Hl.
      * right. exact Hr.
Qed.

Definition prefix_ops : list fsop := [FOpenW tmp; FWrite tmp data; FFlush tmp; FFsync tmp; FClose tmp; FExists path].

Lemma prefix_harmless : Forall harmless prefix_ops.
Proof. repeat constructor. Qed.

(* after the first six operations the temporary file holds exactly the new content *)
Lemma prefix_result t : exists m, run_ops umask prefix_ops t tmp = Some (mkFile data m)
                                  /\ run_ops umask prefix_ops t path = t path.
Proof.
  unfold prefix_ops. cbn [run_ops apply_op].
  unfold fs_set at 2. rewrite bytes_eqb_refl.
  eexists. split.
  - unfold fs_set. rewrite bytes_eqb_refl. cbn. reflexivity.
  - unfold fs_set. rewrite !(eqb_temp_path path pid). reflexivity.
Qed.

Lemma tail_crash t t' ops_tail m0 :
  t tmp = Some (mkFile data m0) ->
  (ops_tail = [FRename tmp path; FChmod path 384] \/
   exists md, ops_tail = [FStat path; FRename tmp path; FChmod path md]) ->
  crashes umask ops_tail t t' ->
  t' path = t path \/ exists m, t' path = Some (mkFile data m).
Proof.
  intros Ht Hops Hc.
  assert (Hren : forall t1, t1 tmp = Some (mkFile data m0) ->
                 apply_op umask (FRename tmp path) t1 path = Some (mkFile data m0)).
  { intros t1 H1. cbn. rewrite H1. unfold fs_set. rewrite (eqb_temp_path path pid), bytes_eqb_refl. reflexivity. }
  assert (Hchm : forall t1 md mm, t1 path = Some (mkFile data mm) ->
                 apply_op umask (FChmod path md) t1 path = Some (mkFile data md)).
  { intros t1 md mm H1. cbn. rewrite H1. unfold fs_set. rewrite bytes_eqb_refl. reflexivity. }
  assert (Htail : forall t1 md, t1 tmp = Some (mkFile data m0) -> forall t2,
            crashes umask [FRename tmp path; FChmod path md] t1 t2 ->
            t2 path = t1 path \/ exists m, t2 path = Some (mkFile data m)).
  { intros t1 md H1 t2 Hc2. inversion Hc2; subst.
    - left. reflexivity.
    - inversion H4; subst.
      + right. eexists. apply Hren. exact H1.
      + inversion H5; subst.
        * right. eexists. eapply Hchm. apply Hren. exact H1.
        * inversion H6. }
  destruct Hops as [->|[md ->]].
  - eapply Htail; eassumption.
  - inversion Hc; subst.
    + left. reflexivity.
    + cbn [apply_op] in H3. eapply Htail; eassumption.
Qed.

Theorem save_atomic : forall t t',
  crashes umask (storage_write path pid data t) t t' ->
  fdata (t' path) = fdata (t path) \/ fdata (t' path) = Some data.
Proof.
  intros t t' Hc. unfold storage_write in Hc. fold tmp in Hc.
  change [FOpenW tmp; FWrite tmp data; FFlush tmp; FFsync tmp; FClose tmp; FExists path] with prefix_ops in Hc.
  apply crashes_app in Hc. destruct Hc as [Hc|Hc].
  - left. rewrite (crashes_harmless _ prefix_harmless _ _ Hc). reflexivity.
  - destruct (prefix_result t) as (m0 & Htmp & Hpath).
    assert (Hor : t' path = run_ops umask prefix_ops t path \/ exists m, t' path = Some (mkFile data m)).
    { eapply tail_crash; [exact Htmp| |exact Hc].
      destruct (t path) as [f|]; [right; eexists; reflexivity|left; reflexivity]. }
    destruct Hor as [H|[m H]].
    + left. rewrite H, Hpath. reflexivity.
    + right. rewrite H. reflexivity.
Qed.

(* and an uninterrupted write leaves the new content with the old permission bits (0600 for a new file) *)
Theorem save_completes : forall t,
  run_ops umask (storage_write path pid data t) t path =
    Some (mkFile data (match t path with Some f => f_mode f | None => 384 end)).
Proof.
  intros t. unfold storage_write. fold tmp.
  change [FOpenW tmp; FWrite tmp data; FFlush tmp; FFsync tmp; FClose tmp; FExists path] with prefix_ops.
  assert (Hrun : forall a b s0, run_ops umask (a ++ b) s0 = run_ops umask b (run_ops umask a s0)).
  { induction a; intros; cbn; auto. }
  rewrite Hrun. destruct (prefix_result t) as (m0 & Htmp & Hpath).
  set (t1 := run_ops umask prefix_ops t) in *.
  destruct (t path) as [f|]; cbn [run_ops apply_op]; rewrite Htmp;
    unfold fs_set; rewrite ?bytes_eqb_refl, ?(eqb_temp_path path pid); cbn; rewrite ?bytes_eqb_refl; reflexivity.
Qed.

(* the executable crash point used by the correspondence is one of the crash states *)
Lemma crash_at_crashes : forall ops n k t, crashes umask ops t (crash_at umask n k ops t).
Proof.
  induction ops as [|op ops IH]; intros n k t.
  - destruct n; cbn; constructor.
  - destruct n as [|n]; cbn [crash_at].
    + destruct op; try constructor.
      rewrite <- (firstn_skipn k d) at 1. constructor.
    + constructor. apply IH.
Qed.

(* the except branch (remove, then rename) is NOT atomic: a crash between the two leaves no wallet file *)
Theorem fallback_not_atomic : forall t f, t path = Some f ->
  exists t', crashes umask (storage_write_fallback path pid data t) t t' /\ t' path = None.
Proof.
  intros t f Hf. exists (crash_at umask 8 0 (storage_write_fallback path pid data t) t).
  split; [apply crash_at_crashes|].
  unfold storage_write_fallback. fold tmp. rewrite Hf.
  cbn [app crash_at apply_op]. unfold fs_set at 1. rewrite bytes_eqb_refl. reflexivity.
Qed.
End Atomic.
