(* C13 proofs.  Section hypotheses (assumed behaviour of library primitives):
     H_DE  : AES-CBC/PKCS7 decrypt (encrypt p) = p
     H_b64 : b64decode (b64encode x) = x          H_b64_nil : b64decode (b'') = b''
     H_z   : zlib.decompress (zlib.compress x) = x
   Nothing is assumed about what decryption under another key returns, about hashes or about scrypt. *)
From Coq Require Import NArith ZArith List Bool Lia.
From Coq.Strings Require Import Byte.
From LV Require Import Lib.Bytes Lib.Decimal Model.C13.
Import ListNotations.
Local Open Scope N_scope.

(* ------------------------------------------------------------------------------------------ *)
(* well-formedness of plaintext accounts: what a Python str / PrivateKey object guarantees     *)
(* ------------------------------------------------------------------------------------------ *)
Definition len16 (b : bytes) : Prop := length b = 16%nat.
Definition iv_ok (o : option bytes) : Prop := match o with Some iv => len16 iv | None => True end.

Section WithPrims.
Variable P : prims.

Record wf_account (a : account) : Prop := {
  wf_plain : a_encrypted a = false;
  wf_seed_utf8 : utf8_ok P (a_seed a) = true;                     (* the seed is a str *)
  wf_seed_pub : nonempty (a_seed a) = true ->                      (* the seed regenerates the account's public key *)
                bytes_eqb (addr_of_seed P (a_seed a)) (addr_of_pub P (a_pub a)) = true;
  wf_priv : forall x, a_priv a = Some x -> xparse P x = XOk x /\ utf8_ok P x = true /\ nonempty x = true;
  wf_pks : a_priv a = None -> a_pks a = [];                       (* no key object: no key string either *)
  wf_ivs : iv_ok (a_iv_seed a);
  wf_ivp : iv_ok (a_iv_priv a)
}.

(* seed, keys and addresses (addresses are a function of the public key) *)
Definition secrets (a : account) := (a_seed a, a_priv a, a_pub a, a_encrypted a).

(* everything except the remembered init vectors *)
Definition strip_iv (a : account) : account :=
  set_secrets a (a_seed a) (a_pks a) (a_priv a) (a_encrypted a) None None.

Hypothesis H_DE : forall k iv p, D P k iv (E P k iv p) = DOk p.
Hypothesis H_b64 : forall x, b64d P (b64e P x) = Some x.
Hypothesis H_b64_nil : b64d P [] = Some [].
Hypothesis H_z : forall x, zd P (zc P x) = ZOk x.

Lemma aes_roundtrip pw p iv : len16 iv -> utf8_ok P p = true ->
  aes_decrypt P pw (aes_encrypt P pw p iv) = Ok (p, iv).
Proof.
  intros Hl Hu. unfold aes_decrypt, aes_encrypt. rewrite H_b64.
  rewrite (firstn_app_exact' 16 iv) by (symmetry; exact Hl).
  rewrite (skipn_app_exact' 16 iv) by (symmetry; exact Hl).
  rewrite H_DE, Hu. reflexivity.
Qed.

Lemma get_iv_len cur rnd : iv_ok cur -> Forall len16 rnd ->
  len16 (fst (get_iv cur rnd)) /\ Forall len16 (snd (get_iv cur rnd)).
Proof.
  intros Hc Hr. unfold get_iv. destruct cur as [iv|]; cbn.
  - split; assumption.
  - destruct rnd as [|r rest]; cbn.
    + split. reflexivity. constructor.
    + inversion Hr; subst. split; assumption.
Qed.

Lemma aes_encrypt_nonempty pw p iv : len16 iv -> nonempty (aes_encrypt P pw p iv) = true.
Proof.
  intros Hl. unfold aes_encrypt.
  destruct (b64e P (iv ++ E P (kdf P pw) iv p)) eqn:Hbe; [|reflexivity].
  exfalso. pose proof (H_b64 (iv ++ E P (kdf P pw) iv p)) as Hb. rewrite Hbe, H_b64_nil in Hb.
  injection Hb as Hb. destruct iv; [discriminate Hl | discriminate Hb].
Qed.

(* Account.encrypt then Account.decrypt with the same password *)
Lemma account_roundtrip pw rnd a : wf_account a -> Forall len16 rnd ->
  exists ivs ivp,
    account_decrypt P pw (fst (account_encrypt P pw rnd a)) =
      (DTrue, set_secrets a (a_seed a) [] (a_priv a) false ivs ivp)
    /\ iv_ok ivs /\ iv_ok ivp
    /\ a_encrypted (fst (account_encrypt P pw rnd a)) = true
    /\ a_priv (fst (account_encrypt P pw rnd a)) = None
    /\ Forall len16 (snd (account_encrypt P pw rnd a))
    /\ ivs = a_iv_seed (fst (account_encrypt P pw rnd a))
    /\ ivp = a_iv_priv (fst (account_encrypt P pw rnd a)).
Proof.
  intros [Hpl Hsu Hsw Hpr Hpk Hivs Hivp] Hr.
  unfold account_encrypt.
  destruct (nonempty (a_seed a)) eqn:Hne.
  - destruct (get_iv_len (a_iv_seed a) rnd Hivs Hr) as [Hl1 Hr1].
    destruct (get_iv (a_iv_seed a) rnd) as [iv1 rnd1]; cbn in Hl1, Hr1.
    destruct (a_priv a) as [x|] eqn:Hx.
    + destruct (Hpr x eq_refl) as [Hxp [Hxu Hxn]].
      destruct (get_iv_len (a_iv_priv a) rnd1 Hivp Hr1) as [Hl2 Hr2].
      destruct (get_iv (a_iv_priv a) rnd1) as [iv2 rnd2]; cbn in Hl2, Hr2.
      exists (Some iv1), (Some iv2). cbn.
      unfold account_decrypt, decrypt_seed, decrypt_priv; cbn.
      rewrite (aes_encrypt_nonempty pw (a_seed a) iv1 Hl1).
      rewrite (aes_roundtrip pw (a_seed a) iv1 Hl1 Hsu). rewrite (Hsw eq_refl), Hne. cbn.
      rewrite (aes_encrypt_nonempty pw x iv2 Hl2).
      rewrite (aes_roundtrip pw x iv2 Hl2 Hxu). rewrite Hxn, Hxp. cbn.
      repeat split; auto.
    + exists (Some iv1), (a_iv_priv a). cbn.
      unfold account_decrypt, decrypt_seed, decrypt_priv; cbn.
      rewrite (aes_encrypt_nonempty pw (a_seed a) iv1 Hl1).
      rewrite (aes_roundtrip pw (a_seed a) iv1 Hl1 Hsu). rewrite (Hsw eq_refl), Hne. cbn.
      rewrite (Hpk eq_refl). cbn.
      repeat split; auto.
  - assert (Hs : a_seed a = []) by (destruct (a_seed a); [reflexivity|discriminate]).
    destruct (a_priv a) as [x|] eqn:Hx.
    + destruct (Hpr x eq_refl) as [Hxp [Hxu Hxn]].
      destruct (get_iv_len (a_iv_priv a) rnd Hivp Hr) as [Hl2 Hr2].
      destruct (get_iv (a_iv_priv a) rnd) as [iv2 rnd2]; cbn in Hl2, Hr2.
      exists (a_iv_seed a), (Some iv2). cbn.
      unfold account_decrypt, decrypt_seed, decrypt_priv; cbn.
      rewrite Hne. cbn.
      rewrite (aes_encrypt_nonempty pw x iv2 Hl2).
      rewrite (aes_roundtrip pw x iv2 Hl2 Hxu). rewrite Hxn, Hxp. cbn.
      rewrite Hs. repeat split; auto.
    + exists (a_iv_seed a), (a_iv_priv a). cbn.
      unfold account_decrypt, decrypt_seed, decrypt_priv; cbn.
      rewrite Hne. cbn. rewrite (Hpk eq_refl). cbn.
      rewrite Hs. repeat split; auto.
Qed.

(* ... and Account.encrypt(password) on the decrypted account (the init vectors remembered by decrypt are reused, no
   randomness is drawn) gives back the very same encrypted account *)
Lemma account_relock pw rnd a : wf_account a -> Forall len16 rnd ->
  let b := fst (account_encrypt P pw rnd a) in
  fst (account_encrypt P pw [] (set_secrets a (a_seed a) [] (a_priv a) false (a_iv_seed b) (a_iv_priv b))) = b.
Proof.
  intros [Hpl Hsu Hsw Hpr Hpk Hivs Hivp] Hr. cbv zeta.
  unfold account_encrypt.
  destruct (nonempty (a_seed a)) eqn:Hne.
  - destruct (get_iv (a_iv_seed a) rnd) as [iv1 rnd1].
    destruct (a_priv a) as [x|] eqn:Hx.
    + destruct (get_iv (a_iv_priv a) rnd1) as [iv2 rnd2]. cbn. rewrite Hne. cbn. reflexivity.
    + cbn. rewrite Hne. cbn. rewrite (Hpk eq_refl). reflexivity.
  - destruct (a_priv a) as [x|] eqn:Hx.
    + destruct (get_iv (a_iv_priv a) rnd) as [iv2 rnd2]. cbn. rewrite Hne. cbn. reflexivity.
    + cbn. rewrite Hne. cbn. rewrite (Hpk eq_refl). reflexivity.
Qed.

(* ---------------- lock / unlock of a whole wallet ---------------- *)
Definition restored (a a' : account) : Prop :=
  exists ivs ivp, a' = set_secrets a (a_seed a) [] (a_priv a) false ivs ivp /\ iv_ok ivs /\ iv_ok ivp.

Lemma restored_secrets a a' : wf_account a -> restored a a' -> secrets a' = secrets a.
Proof. intros Hw (ivs & ivp & -> & _). unfold secrets; cbn. rewrite (wf_plain _ Hw). reflexivity. Qed.

Lemma lock_unlock_accounts pw : forall l rnd, Forall (wf_account) l -> Forall len16 rnd ->
  exists l', unlock_accounts P pw (fst (lock_accounts P pw rnd l)) = (UTrue, l')
             /\ Forall2 restored l l'
             /\ Forall (fun b => a_encrypted b = true /\ a_priv b = None) (fst (lock_accounts P pw rnd l)).
Proof.
  induction l as [|a l IH]; intros rnd Hwf Hr.
  - exists []. cbn. repeat split; constructor.
  - inversion Hwf as [|? ? Ha Hl]; subst.
    cbn [lock_accounts]. rewrite (wf_plain _ Ha).
    destruct (account_roundtrip pw rnd a Ha Hr) as (ivs & ivp & Hd & Hi1 & Hi2 & He & Hp & Hr' & _ & _).
    destruct (account_encrypt P pw rnd a) as [a1 rnd1] eqn:Hae. cbn [fst snd] in *.
    destruct (IH rnd1 Hl Hr') as (l' & Hu & Hf & Hall).
    destruct (lock_accounts P pw rnd1 l) as [r' rnd'] eqn:Hla. cbn [fst] in *.
    exists (set_secrets a (a_seed a) [] (a_priv a) false ivs ivp :: l').
    cbn [unlock_accounts]. rewrite He, Hd, Hu.
    split; [reflexivity|]. split.
    + constructor; [|exact Hf]. exists ivs, ivp. auto.
    + constructor; auto.
Qed.

Lemma is_locked_false_all w : is_locked w = false -> Forall (fun a => a_encrypted a = false) (w_accounts w).
Proof.
  unfold is_locked. induction (w_accounts w) as [|a l IH]; cbn; intros H; constructor.
  - destruct (a_encrypted a); [discriminate|reflexivity].
  - apply IH. destruct (a_encrypted a); [discriminate|exact H].
Qed.

Lemma existsb_all_false l : Forall (fun a => a_encrypted a = false) l -> existsb a_encrypted l = false.
Proof. induction 1 as [|a l Ha _ IH]; cbn; [reflexivity|]. rewrite Ha, IH. reflexivity. Qed.

Lemma restored_plain l l' : Forall2 restored l l' -> Forall (fun a => a_encrypted a = false) l'.
Proof. induction 1 as [|a a' l l' (ivs & ivp & -> & _) _ IH]; constructor; [reflexivity|exact IH]. Qed.

Lemma restored_map_secrets l l' : Forall (wf_account) l -> Forall2 restored l l' -> map secrets l' = map secrets l.
Proof.
  intros Hw H. induction H as [|a a' l l' Hr _ IH]; [reflexivity|].
  inversion Hw; subst. cbn. rewrite (restored_secrets a a'); auto. f_equal. auto.
Qed.

(* the plaintext dict of a restored account is the dict it had before *)
Lemma restored_to_dict a a' rnd : wf_account a -> restored a a' ->
  fst (fst (account_to_dict P None rnd a')) = fst (fst (account_to_dict P None rnd a)).
Proof.
  intros Hw (ivs & ivp & -> & _). unfold account_to_dict. cbn.
  rewrite (wf_plain _ Hw). cbn.
  destruct (a_priv a) eqn:Hp; [reflexivity|]. rewrite (wf_pks _ Hw Hp). reflexivity.
Qed.

Definition wf_wallet (w : wallet) : Prop := Forall (wf_account) (w_accounts w).

(* how Wallet.unlock reduces in the situations the theorems are about *)
Lemma unlock_locked pw w : is_locked w = true ->
  unlock P pw w = (fst (unlock_accounts P pw (w_accounts w)),
                   mkWallet (w_name w) (w_prefs w) (snd (unlock_accounts P pw (w_accounts w)))
                            (match fst (unlock_accounts P pw (w_accounts w)) with UTrue => Some pw | _ => w_pw w end)).
Proof. intros H. unfold unlock. rewrite H. destruct (unlock_accounts P pw (w_accounts w)). reflexivity. Qed.

Lemma unlock_nopw pw w : w_pw w = None ->
  unlock P pw w = (fst (unlock_accounts P pw (w_accounts w)),
                   mkWallet (w_name w) (w_prefs w) (snd (unlock_accounts P pw (w_accounts w)))
                            (match fst (unlock_accounts P pw (w_accounts w)) with UTrue => Some pw | _ => w_pw w end)).
Proof. intros H. unfold unlock. rewrite H. destruct (is_locked w), (unlock_accounts P pw (w_accounts w)); reflexivity. Qed.

Lemma unlock_after_lock pw name prefs l l' :
  unlock_accounts P pw l = (UTrue, l') -> Forall (fun b => a_encrypted b = true /\ a_priv b = None) l ->
  unlock P pw (mkWallet name prefs l (Some pw)) = (UTrue, mkWallet name prefs l' (Some pw)).
Proof.
  intros Hu Hall. unfold unlock, is_locked. cbn [w_accounts w_pw w_name w_prefs].
  destruct (existsb a_encrypted l) eqn:E.
  - rewrite Hu. reflexivity.
  - destruct l as [|a l].
    + cbn in Hu. injection Hu as <-. rewrite bytes_eqb_refl. reflexivity.
    + inversion Hall as [|? ? [Ha _] _]; subst. cbn in E. rewrite Ha in E. discriminate E.
Qed.

Lemma unlock_of_unlocked_sec pw q w : is_locked w = false -> w_pw w = Some q ->
  unlock P pw w = (if bytes_eqb pw q then UTrue else UFalse, w).
Proof. intros Hl Hq. unfold unlock. rewrite Hl, Hq. reflexivity. Qed.

Theorem unlock_restores : forall w pw rnd,
  wf_wallet w -> w_pw w = Some pw -> Forall len16 rnd ->
  exists w1 w2,
    lock P rnd w = Ok w1
    /\ Forall (fun b => a_encrypted b = true /\ a_priv b = None) (w_accounts w1)
    /\ unlock P pw w1 = (UTrue, w2)
    /\ map secrets (w_accounts w2) = map secrets (w_accounts w)
    /\ is_locked w2 = false /\ w_pw w2 = Some pw /\ w_name w2 = w_name w /\ w_prefs w2 = w_prefs w.
Proof.
  intros w pw rnd Hwf Hpw Hr.
  destruct (lock_unlock_accounts pw (w_accounts w) rnd Hwf Hr) as (l' & Hu & Hf & Hall).
  unfold lock. rewrite Hpw.
  eexists. exists (mkWallet (w_name w) (w_prefs w) l' (Some pw)).
  split; [reflexivity|]. cbn [w_accounts].
  split; [exact Hall|].
  rewrite (unlock_after_lock pw _ _ _ l' Hu Hall).
  split; [reflexivity|]. cbn.
  split; [apply restored_map_secrets; assumption|].
  split; [unfold is_locked; cbn; apply existsb_all_false; eapply restored_plain; eassumption|].
  repeat split.
Qed.

(* deterministic channel keys are a function of what unlock restores *)
Lemma secrets_channel_view l1 l2 k : map secrets l1 = map secrets l2 ->
  map (fun a => channel_view P a k) l1 = map (fun a => channel_view P a k) l2.
Proof.
  revert l2. induction l1 as [|a l1 IH]; intros [|b l2] H; try discriminate H; [reflexivity|].
  cbn [map] in *. unfold secrets at 1 3 in H. injection H as _ Hp _ He Hr. rewrite (IH _ Hr). f_equal.
  unfold channel_view. rewrite Hp, He. reflexivity.
Qed.

Theorem channel_keys_restored : forall w pw rnd k,
  wf_wallet w -> w_pw w = Some pw -> Forall len16 rnd ->
  exists w1 w2,
    lock P rnd w = Ok w1 /\ Forall (fun b => channel_view P b k = None) (w_accounts w1)
    /\ unlock P pw w1 = (UTrue, w2)
    /\ map (fun a => channel_view P a k) (w_accounts w2) = map (fun a => channel_view P a k) (w_accounts w).
Proof.
  intros w pw rnd k Hwf Hpw Hr.
  destruct (unlock_restores w pw rnd Hwf Hpw Hr) as (w1 & w2 & Hl & Hall & Hu & Hs & _).
  exists w1, w2. split; [exact Hl|]. split.
  - eapply Forall_impl; [|exact Hall]. intros b [He _]. unfold channel_view. rewrite He. reflexivity.
  - split; [exact Hu|]. apply secrets_channel_view. exact Hs.
Qed.

(* ---------------- a refused unlock ---------------- *)
Lemma account_decrypt_refused pw a o a' : account_decrypt P pw a = (o, a') -> o <> DTrue ->
  strip_iv a' = strip_iv a /\ a_encrypted a' = a_encrypted a.
Proof.
  unfold account_decrypt. destruct (decrypt_seed P pw a) as [ivs rs].
  destruct rs as [sd|e].
  - destruct (decrypt_priv P pw _) as [ivp rp]. destruct rp as [pk|e].
    + intros H Hn. injection H as <- _. congruence.
    + destruct e; intros H _; injection H as _ <-; split; reflexivity.
  - intros H _. injection H as _ <-. split; reflexivity.
Qed.

Lemma unlock_accounts_skip pw pre : forall rest, Forall (fun x => a_encrypted x = false) pre ->
  unlock_accounts P pw (pre ++ rest) =
    (fst (unlock_accounts P pw rest), pre ++ snd (unlock_accounts P pw rest)).
Proof.
  induction pre as [|x pre IH]; intros rest H.
  - cbn. destruct (unlock_accounts P pw rest); reflexivity.
  - inversion H; subst. cbn [app unlock_accounts]. rewrite H2, IH by assumption.
    destruct (unlock_accounts P pw rest); reflexivity.
Qed.

(* refusal (False or an escaping exception) by the FIRST encrypted account: nothing is assumed about the accounts *)
Theorem failed_unlock_unchanged_first : forall w pw pre a post,
  w_accounts w = pre ++ a :: post ->
  Forall (fun x => a_encrypted x = false) pre -> a_encrypted a = true ->
  fst (account_decrypt P pw a) <> DTrue ->
  fst (unlock P pw w) <> UTrue
  /\ is_locked (snd (unlock P pw w)) = true
  /\ w_pw (snd (unlock P pw w)) = w_pw w
  /\ w_name (snd (unlock P pw w)) = w_name w /\ w_prefs (snd (unlock P pw w)) = w_prefs w
  /\ map strip_iv (w_accounts (snd (unlock P pw w))) = map strip_iv (w_accounts w).
Proof.
  intros w pw pre a post Hacc Hpre Ha Hrefuse.
  assert (Hl : is_locked w = true).
  { unfold is_locked. rewrite Hacc, existsb_app. cbn [existsb]. rewrite Ha. cbn. apply orb_true_r. }
  rewrite (unlock_locked pw w Hl). rewrite Hacc, (unlock_accounts_skip pw pre (a :: post) Hpre).
  cbn [unlock_accounts fst snd]. rewrite Ha.
  destruct (account_decrypt P pw a) as [o a'] eqn:Hd. cbn [fst] in Hrefuse.
  destruct (account_decrypt_refused pw a o a' Hd Hrefuse) as [Hs He].
  assert (Hlk : existsb a_encrypted (pre ++ a' :: post) = true).
  { rewrite existsb_app. cbn. rewrite He, Ha. cbn. apply orb_true_r. }
  destruct o as [| |e]; [congruence| |]; cbn.
  - repeat split; try discriminate; auto.
    rewrite !map_app. cbn. rewrite Hs. reflexivity.
  - repeat split; try discriminate; auto.
    rewrite !map_app. cbn. rewrite Hs. reflexivity.
Qed.

(* An account that this password opens was sealed with this password by Account.encrypt (what a key decrypts that
   did not encrypt is not assumed, so such an account must be excluded: it could not be restored bit for bit). *)
Definition sealed_if_opened (pw : bytes) (a : account) : Prop :=
  a_encrypted a = true -> fst (account_decrypt P pw a) = DTrue ->
  exists a0 rnd, wf_account a0 /\ Forall len16 rnd /\ a = fst (account_encrypt P pw rnd a0).

(* Wallet.unlock answers False, whichever account refused: every account is what it was (but for the init vectors
   remembered by the refusing account), so the wallet is unchanged; it is still locked *)
Lemma unlock_false_accounts pw : forall l l', Forall (sealed_if_opened pw) l ->
  unlock_accounts P pw l = (UFalse, l') ->
  map strip_iv l' = map strip_iv l /\ existsb a_encrypted l' = true.
Proof.
  induction l as [|a l IH]; intros l' Hs Hu.
  - cbn in Hu. discriminate.
  - inversion Hs as [|? ? Ha Hl]; subst. cbn [unlock_accounts] in Hu.
    destruct (a_encrypted a) eqn:He.
    + destruct (account_decrypt P pw a) as [o a'] eqn:Hd. destruct o as [| |e].
      * destruct (unlock_accounts P pw l) as [o2 r2] eqn:Hr.
        destruct o2; try (injection Hu as Hbad _; discriminate Hbad).
        injection Hu as <-.
        destruct (IH r2 Hl eq_refl) as [IH1 IH2].
        assert (Hfst : fst (account_decrypt P pw a) = DTrue) by (rewrite Hd; reflexivity).
        destruct (Ha He Hfst) as (a0 & rnd & Hw & Hrnd & ->).
        destruct (account_roundtrip pw rnd a0 Hw Hrnd) as (ivs & ivp & Hd' & _ & _ & He' & _ & _ & Hi1 & Hi2).
        rewrite Hd' in Hd. injection Hd as <-. subst ivs ivp.
        pose proof (account_relock pw rnd a0 Hw Hrnd) as Hre. cbv zeta in Hre. rewrite Hre.
        cbn [map existsb]. rewrite IH1, He'. split; reflexivity.
      * injection Hu as <-.
        destruct (account_decrypt_refused pw a DFalse a' Hd) as [H1 H2]; [discriminate|].
        cbn [map existsb]. rewrite H1, H2, He. split; reflexivity.
      * discriminate Hu.
    + destruct (unlock_accounts P pw l) as [o2 r2] eqn:Hr. injection Hu as -> <-.
      destruct (IH r2 Hl eq_refl) as [IH1 IH2].
      cbn [map existsb]. rewrite IH1, IH2. split; [reflexivity|apply orb_true_r].
Qed.

Lemma unlock_accounts_false_locked pw : forall l l', unlock_accounts P pw l = (UFalse, l') -> existsb a_encrypted l = true.
Proof.
  induction l as [|a l IH]; intros l' H; [discriminate H|].
  cbn [unlock_accounts existsb] in *. destruct (a_encrypted a); [reflexivity|].
  destruct (unlock_accounts P pw l) as [o r] eqn:Hr. injection H as -> _. cbn. eapply IH. reflexivity.
Qed.

Theorem failed_unlock_unchanged : forall w pw,
  Forall (sealed_if_opened pw) (w_accounts w) ->
  fst (unlock P pw w) = UFalse ->
  is_locked (snd (unlock P pw w)) = is_locked w
  /\ w_pw (snd (unlock P pw w)) = w_pw w
  /\ w_name (snd (unlock P pw w)) = w_name w /\ w_prefs (snd (unlock P pw w)) = w_prefs w
  /\ map strip_iv (w_accounts (snd (unlock P pw w))) = map strip_iv (w_accounts w).
Proof.
  intros w pw Hs. unfold unlock.
  destruct (is_locked w) eqn:Hl; destruct (w_pw w) as [q|] eqn:Hq;
    try (destruct (unlock_accounts P pw (w_accounts w)) as [o l'] eqn:Hu; cbn [fst snd]; intros ->;
         destruct (unlock_false_accounts pw _ _ Hs Hu) as [H1 H2];
         pose proof (unlock_accounts_false_locked pw _ _ Hu) as H3;
         unfold is_locked in *; cbn [w_accounts w_pw w_name w_prefs]; repeat split; auto; congruence).
  cbn [fst snd]. intros _. repeat split; auto.
Qed.

(* ---------------- the behaviour before the two repairs, kept as refuted claims ---------------- *)
(* Wallet.unlock as it was: no re-locking *)
Fixpoint unlock_accounts_old (pw : bytes) (l : list account) : uout * list account :=
  match l with
  | [] => (UTrue, [])
  | a :: r =>
      if a_encrypted a then
        match account_decrypt P pw a with
        | (DTrue, a') => let (o, r') := unlock_accounts_old pw r in (o, a' :: r')
        | (DFalse, a') => (UFalse, a' :: r)
        | (DExc e, a') => (UExc e, a' :: r)
        end
      else let (o, r') := unlock_accounts_old pw r in (o, a :: r')
  end.

Theorem old_unlock_left_earlier_accounts_decrypted : forall pw pre a post pre',
  unlock_accounts_old pw pre = (UTrue, pre') -> a_encrypted a = true ->
  fst (account_decrypt P pw a) <> DTrue ->
  fst (unlock_accounts_old pw (pre ++ a :: post)) <> UTrue /\
  snd (unlock_accounts_old pw (pre ++ a :: post)) = pre' ++ snd (account_decrypt P pw a) :: post.
Proof.
  intros pw pre. induction pre as [|x pre IH]; intros a post pre' Hu Ha Hr.
  - cbn in Hu. injection Hu as <-. cbn [app unlock_accounts_old]. rewrite Ha.
    destruct (account_decrypt P pw a) as [o a']. cbn [fst snd] in *.
    destruct o; [congruence| |]; cbn; split; (discriminate || reflexivity).
  - cbn [app unlock_accounts_old] in *.
    destruct (a_encrypted x).
    + destruct (account_decrypt P pw x) as [o x'].
      destruct o; [|discriminate Hu|discriminate Hu].
      destruct (unlock_accounts_old pw pre) as [o1 r1] eqn:Hp.
      injection Hu as -> <-.
      destruct (IH a post r1 eq_refl Ha Hr) as [H1 H2].
      destruct (unlock_accounts_old pw (pre ++ a :: post)) as [o2 r2]. cbn [fst snd] in *.
      subst r2. split; [exact H1|reflexivity].
    + destruct (unlock_accounts_old pw pre) as [o1 r1] eqn:Hp.
      injection Hu as -> <-.
      destruct (IH a post r1 eq_refl Ha Hr) as [H1 H2].
      destruct (unlock_accounts_old pw (pre ++ a :: post)) as [o2 r2]. cbn [fst snd] in *.
      subst r2. split; [exact H1|reflexivity].
Qed.

(* Account._decrypt_seed / Account.decrypt as they were: the decrypted seed had to pass the English word-list check *)
Definition decrypt_seed_old (pw : bytes) (a : account) : option bytes * res bytes :=
  if nonempty (a_seed a) then
    match aes_decrypt P pw (a_seed a) with
    | Err e => (a_iv_seed a, Err e)
    | Ok (sd, iv) =>
        if nonempty sd then
          if seed_ok P sd then (Some iv, Ok sd) else (Some iv, Err EValueError)
        else (Some iv, Ok [])
    end
  else (a_iv_seed a, Ok []).

Definition account_decrypt_old (pw : bytes) (a : account) : dout * account :=
  let (ivs, rs) := decrypt_seed_old pw a in
  let a1 := set_secrets a (a_seed a) (a_pks a) (a_priv a) (a_encrypted a) ivs (a_iv_priv a) in
  match rs with
  | Err _ => (DFalse, a1)
  | Ok sd =>
      let (ivp, rp) := decrypt_priv P pw a1 in
      let a2 := set_secrets a1 (a_seed a1) (a_pks a1) (a_priv a1) (a_encrypted a1) ivs ivp in
      match rp with
      | Err EBase58 => (DExc EBase58, a2)
      | Err _ => (DFalse, a2)
      | Ok pk => (DTrue, set_secrets a2 sd [] pk false ivs ivp)
      end
  end.

Theorem old_seed_check_refused_correct_password : forall a pw rnd,
  a_encrypted a = false -> nonempty (a_seed a) = true -> utf8_ok P (a_seed a) = true ->
  seed_ok P (a_seed a) = false -> iv_ok (a_iv_seed a) -> Forall len16 rnd ->
  fst (account_decrypt_old pw (fst (account_encrypt P pw rnd a))) = DFalse.
Proof.
  intros a pw rnd Hpl Hne Hu Hbad Hiv Hr.
  unfold account_encrypt. rewrite Hne.
  destruct (get_iv_len (a_iv_seed a) rnd Hiv Hr) as [Hl1 _].
  destruct (get_iv (a_iv_seed a) rnd) as [iv1 rnd1]; cbn [fst snd] in Hl1.
  destruct (a_priv a) as [x|].
  - destruct (get_iv (a_iv_priv a) rnd1) as [iv2 rnd2]. cbn [fst].
    unfold account_decrypt_old, decrypt_seed_old. cbn [a_seed set_secrets].
    rewrite (aes_encrypt_nonempty pw (a_seed a) iv1 Hl1).
    rewrite (aes_roundtrip pw (a_seed a) iv1 Hl1 Hu). rewrite Hne, Hbad. reflexivity.
  - cbn [fst].
    unfold account_decrypt_old, decrypt_seed_old. cbn [a_seed set_secrets].
    rewrite (aes_encrypt_nonempty pw (a_seed a) iv1 Hl1).
    rewrite (aes_roundtrip pw (a_seed a) iv1 Hl1 Hu). rewrite Hne, Hbad. reflexivity.
Qed.
End WithPrims.

(* ------------------------------------------------------------------------------------------ *)
(* WalletStorage.write: atomic for every crash point                                           *)
(* ------------------------------------------------------------------------------------------ *)
Lemma temp_neq path pid : temp_path path pid <> path.
Proof.
  unfold temp_path. intros H.
  assert (H' : path ++ (c_dot_tmp_dot ++ dec_of_N pid) = path ++ []) by (rewrite app_nil_r; exact H).
  apply app_inv_head in H'. discriminate H'.
Qed.

Lemma eqb_temp_path path pid : bytes_eqb path (temp_path path pid) = false.
Proof. apply bytes_eqb_neq. intros H. apply (temp_neq path pid). symmetry. exact H. Qed.
Lemma eqb_path_temp path pid : bytes_eqb (temp_path path pid) path = false.
Proof. apply bytes_eqb_neq. apply temp_neq. Qed.

Definition fdata (o : option file) : option bytes := option_map f_data o.

Section Atomic.
Variable umask : N.
Variable path : bytes.
Variable pid : N.
Variable data : bytes.
Let tmp := temp_path path pid.
Lemma eq1 : bytes_eqb path tmp = false. Proof. apply eqb_temp_path. Qed.
Lemma eq2 : bytes_eqb tmp path = false. Proof. apply eqb_path_temp. Qed.

(* operations that only touch the temporary file or only read *)
Definition harmless (op : fsop) : Prop :=
  match op with
  | FOpenW p | FWrite p _ | FRemove p | FChmod p _ => p = tmp
  | FRename _ _ => False
  | _ => True
  end.

Lemma harmless_path op t : harmless op -> apply_op umask op t path = t path.
Proof.
  destruct op; cbn [apply_op harmless]; intros H; subst; try reflexivity.
  - unfold fs_set. rewrite eq1. reflexivity.
  - destruct (t tmp); [|reflexivity]. unfold fs_set. rewrite eq1. reflexivity.
  - contradiction.
  - unfold fs_set. rewrite eq1. reflexivity.
  - destruct (t tmp); [|reflexivity]. unfold fs_set. rewrite eq1. reflexivity.
Qed.

Lemma crashes_harmless ops : Forall harmless ops -> forall t t', crashes umask ops t t' -> t' path = t path.
Proof.
  induction 1 as [|op ops Hop _ IH]; intros t t' Hc.
  - inversion Hc; subst; reflexivity.
  - inversion Hc; subst.
    + reflexivity.
    + apply harmless_path. exact Hop.
    + rewrite (IH _ _ H3). apply harmless_path. exact Hop.
Qed.

Lemma crashes_app ops1 : forall ops2 t t', crashes umask (ops1 ++ ops2) t t' ->
  crashes umask ops1 t t' \/ crashes umask ops2 (run_ops umask ops1 t) t'.
Proof.
  induction ops1 as [|op ops1 IH]; intros ops2 t t' H.
  - right. exact H.
  - cbn [app] in H. inversion H; subst.
    + left. constructor.
    + left. constructor.
    + destruct (IH _ _ _ H4) as [Hl|Hr].
      * left. constructor. exact Hl.
      * right. exact Hr.
Qed.

Definition prefix_ops : list fsop := [FOpenW tmp; FWrite tmp data; FFlush tmp; FFsync tmp; FClose tmp; FExists path].

Lemma prefix_harmless : Forall harmless prefix_ops.
Proof. repeat constructor. Qed.

(* after the first six operations the temporary file holds exactly the new content *)
Lemma fs_set_same p f (t : fs) : fs_set p f t p = f.
Proof. unfold fs_set. rewrite bytes_eqb_refl. reflexivity. Qed.
Lemma fs_set_other p q f (t : fs) : bytes_eqb q p = false -> fs_set p f t q = t q.
Proof. unfold fs_set. intros ->. reflexivity. Qed.

Lemma prefix_result t : exists m, run_ops umask prefix_ops t tmp = Some (mkFile data m)
                                  /\ run_ops umask prefix_ops t path = t path.
Proof.
  unfold prefix_ops. cbn [run_ops].
  set (t1 := apply_op umask (FOpenW tmp) t).
  assert (H1 : exists m, t1 tmp = Some (mkFile [] m)).
  { subst t1. cbn [apply_op]. rewrite fs_set_same. eexists; reflexivity. }
  assert (H1p : t1 path = t path).
  { subst t1. cbn [apply_op]. apply fs_set_other. apply eq1. }
  destruct H1 as [m H1]. exists m. cbn [apply_op]. rewrite H1. cbn [f_data f_mode app]. split.
  - apply fs_set_same.
  - rewrite fs_set_other by apply eq1. exact H1p.
Qed.

Lemma tail_crash t t' ops_tail m0 :
  t tmp = Some (mkFile data m0) ->
  (ops_tail = [FRename tmp path; FChmod path 384] \/
   exists md, ops_tail = [FStat path; FRename tmp path; FChmod path md]) ->
  crashes umask ops_tail t t' ->
  t' path = t path \/ exists m, t' path = Some (mkFile data m).
Proof.
  intros Ht Hops Hc.
  assert (Hren : forall t1, t1 tmp = Some (mkFile data m0) ->
                 apply_op umask (FRename tmp path) t1 path = Some (mkFile data m0)).
  { intros t1 H1. cbn. rewrite H1. unfold fs_set. rewrite eq1, bytes_eqb_refl. reflexivity. }
  assert (Hchm : forall t1 md mm, t1 path = Some (mkFile data mm) ->
                 apply_op umask (FChmod path md) t1 path = Some (mkFile data md)).
  { intros t1 md mm H1. cbn. rewrite H1. unfold fs_set. rewrite bytes_eqb_refl. reflexivity. }
  assert (Htail : forall t1 md, t1 tmp = Some (mkFile data m0) -> forall t2,
            crashes umask [FRename tmp path; FChmod path md] t1 t2 ->
            t2 path = t1 path \/ exists m, t2 path = Some (mkFile data m)).
  { intros t1 md H1 t2 Hc2. inversion Hc2; subst; clear Hc2.
    - left. reflexivity.
    - match goal with H : crashes _ [FChmod _ _] _ _ |- _ => inversion H; subst; clear H end.
      + right. eexists. apply Hren. exact H1.
      + match goal with H : crashes _ [] _ _ |- _ => inversion H; subst; clear H end.
        right. eexists. eapply Hchm. apply Hren. exact H1. }
  destruct Hops as [->|[md ->]].
  - eapply Htail; eassumption.
  - inversion Hc; subst; clear Hc.
    + left. reflexivity.
    + match goal with H : crashes _ [FRename _ _; _] _ _ |- _ => cbn [apply_op] in H; eapply Htail; eassumption end.
Qed.

Theorem save_atomic : forall t t',
  crashes umask (storage_write path pid data t) t t' ->
  fdata (t' path) = fdata (t path) \/ fdata (t' path) = Some data.
Proof.
  intros t t' Hc. unfold storage_write in Hc. fold tmp in Hc.
  change [FOpenW tmp; FWrite tmp data; FFlush tmp; FFsync tmp; FClose tmp; FExists path] with prefix_ops in Hc.
  apply crashes_app in Hc. destruct Hc as [Hc|Hc].
  - left. rewrite (crashes_harmless _ prefix_harmless _ _ Hc). reflexivity.
  - destruct (prefix_result t) as (m0 & Htmp & Hpath).
    assert (Hor : t' path = run_ops umask prefix_ops t path \/ exists m, t' path = Some (mkFile data m)).
    { eapply tail_crash; [exact Htmp| |exact Hc].
      destruct (t path) as [f|]; [right; eexists; reflexivity|left; reflexivity]. }
    destruct Hor as [H|[m H]].
    + left. rewrite H, Hpath. reflexivity.
    + right. rewrite H. reflexivity.
Qed.

(* and an uninterrupted write leaves the new content with the old permission bits (0600 for a new file) *)
Theorem save_completes : forall t,
  run_ops umask (storage_write path pid data t) t path =
    Some (mkFile data (match t path with Some f => f_mode f | None => 384 end)).
Proof.
  intros t. unfold storage_write. fold tmp.
  change [FOpenW tmp; FWrite tmp data; FFlush tmp; FFsync tmp; FClose tmp; FExists path] with prefix_ops.
  assert (Hrun : forall a b s0, run_ops umask (a ++ b) s0 = run_ops umask b (run_ops umask a s0)).
  { induction a; intros; cbn; auto. }
  rewrite Hrun. destruct (prefix_result t) as (m0 & Htmp & Hpath).
  set (t1 := run_ops umask prefix_ops t) in *.
  destruct (t path) as [f|]; cbn [run_ops apply_op]; rewrite Htmp;
    unfold fs_set; rewrite ?bytes_eqb_refl, ?eq1; cbn; rewrite ?bytes_eqb_refl; reflexivity.
Qed.

(* the executable crash point used by the correspondence is one of the crash states *)
Lemma crash_at_crashes : forall ops n k t, crashes umask ops t (crash_at umask n k ops t).
Proof.
  induction ops as [|op ops IH]; intros n k t.
  - destruct n; cbn; constructor.
  - destruct n as [|n]; cbn [crash_at].
    + destruct op; try apply cr_here.
      pose proof (cr_partial umask p (firstn k d) (skipn k d) ops t) as H. rewrite firstn_skipn in H. exact H.
    + constructor. apply IH.
Qed.

(* the except branch (remove, then rename) is NOT atomic: a crash between the two leaves no wallet file *)
Theorem fallback_not_atomic : forall t f, t path = Some f ->
  exists t', crashes umask (storage_write_fallback path pid data t) t t' /\ t' path = None.
Proof.
  intros t f Hf. exists (crash_at umask 8 0 (storage_write_fallback path pid data t) t).
  split; [apply crash_at_crashes|].
  unfold storage_write_fallback. fold tmp. rewrite Hf.
  cbn [app crash_at apply_op]. unfold fs_set at 1. rewrite bytes_eqb_refl. reflexivity.
Qed.
End Atomic.

(* ------------------------------------------------------------------------------------------ *)
(* what reaches the disk when encryption is on and a password is set                           *)
(* ------------------------------------------------------------------------------------------ *)
(* The public part of an account: no field holds a plaintext seed or private key.  For an account that is
   already encrypted in memory the stored ciphertext strings are part of it. *)
Record pub_account := mkPub {
  p_ledger : bytes; p_name : bytes; p_pub : bytes; p_encrypted : bool;
  p_iv_seed : option bytes; p_iv_priv : option bytes;
  p_addrgen : jv; p_modified : Z;
  p_certs : jv;                       (* channel keys: written as they are, encrypted wallet or not *)
  p_has_seed : bool; p_has_key : bool;
  p_stored_seed : bytes; p_stored_pks : bytes
}.

(* the private key string to_dict starts from *)
Definition key_string (a : account) : bytes :=
  if a_encrypted a then a_pks a else match a_priv a with Some x => x | None => a_pks a end.

Definition pub_of (a : account) : pub_account :=
  mkPub (a_ledger a) (a_name a) (a_pub a) (a_encrypted a) (a_iv_seed a) (a_iv_priv a) (a_addrgen a) (a_modified a)
        (a_certs a) (nonempty (a_seed a)) (nonempty (key_string a))
        (if a_encrypted a then a_seed a else []) (if a_encrypted a then a_pks a else []).

Section Sealed.
Variable P : prims.

(* the account dict computed from the public part and two ciphertext oracles iv |-> E key iv secret *)
Definition pub_to_dict (rnd : list bytes) (pa : pub_account) (es ep : bytes -> bytes) : jv * list bytes :=
  let '(pks, rnd1) :=
    if p_encrypted pa then (p_stored_pks pa, rnd)
    else if p_has_key pa then let (iv, rnd1) := get_iv (p_iv_priv pa) rnd in (b64e P (iv ++ ep iv), rnd1)
    else ([], rnd) in
  let '(seed, rnd2) :=
    if p_encrypted pa then (p_stored_seed pa, rnd1)
    else if p_has_seed pa then let (iv, rnd2) := get_iv (p_iv_seed pa) rnd1 in (b64e P (iv ++ es iv), rnd2)
    else ([], rnd1) in
  (JO [(c_ledger, JS (p_ledger pa)); (c_name, JS (p_name pa)); (c_seed, JS seed);
       (c_encrypted, JB true);
       (c_private_key, JS pks); (c_public_key, JS (p_pub pa));
       (c_address_generator, p_addrgen pa); (c_modified_on, JN (p_modified pa));
       (c_certificates, p_certs pa)], rnd2).

Definition sealed_view := (pub_account * (bytes -> bytes) * (bytes -> bytes))%type.

Fixpoint pubs_to_dicts (rnd : list bytes) (l : list sealed_view) : list jv :=
  match l with
  | [] => []
  | (pa, es, ep) :: r => let (d, rnd1) := pub_to_dict rnd pa es ep in d :: pubs_to_dicts rnd1 r
  end.

Definition public_image (name : bytes) (prefs : list (bytes * jv)) (rnd : list bytes) (l : list sealed_view) : jv :=
  JO [(c_version, JN 1); (c_name, JS name); (c_preferences, JO prefs); (c_accounts, JA (pubs_to_dicts rnd l))].

Definition seal (pw : bytes) (a : account) : sealed_view :=
  (pub_of a, fun iv => E P (kdf P pw) iv (a_seed a), fun iv => E P (kdf P pw) iv (key_string a)).

Lemma nonempty_false b : nonempty b = false -> b = [].
Proof. destruct b; [reflexivity|discriminate]. Qed.

Lemma account_to_dict_sealed pw rnd a :
  (fst (fst (account_to_dict P (Some pw) rnd a)), snd (account_to_dict P (Some pw) rnd a)) =
  pub_to_dict rnd (pub_of a) (fun iv => E P (kdf P pw) iv (a_seed a)) (fun iv => E P (kdf P pw) iv (key_string a)).
Proof.
  unfold account_to_dict, pub_to_dict, pub_of, key_string, aes_encrypt.
  cbn [p_encrypted p_has_key p_has_seed p_iv_priv p_iv_seed p_stored_pks p_stored_seed p_ledger p_name p_pub
       p_addrgen p_modified p_certs].
  destruct (a_encrypted a); cbn [negb andb orb].
  - reflexivity.
  - set (ks := match a_priv a with Some x => x | None => a_pks a end).
    destruct (nonempty ks) eqn:Hk.
    + destruct (get_iv (a_iv_priv a) rnd) as [iv1 rnd1].
      destruct (nonempty (a_seed a)) eqn:Hs.
      * destruct (get_iv (a_iv_seed a) rnd1) as [iv2 rnd2]. reflexivity.
      * rewrite (nonempty_false _ Hs). reflexivity.
    + rewrite (nonempty_false _ Hk).
      destruct (nonempty (a_seed a)) eqn:Hs.
      * destruct (get_iv (a_iv_seed a) rnd) as [iv2 rnd2]. reflexivity.
      * rewrite (nonempty_false _ Hs). reflexivity.
Qed.

Lemma accounts_to_dict_sealed pw : forall l rnd,
  fst (fst (accounts_to_dict P (Some pw) rnd l)) = pubs_to_dicts rnd (map (seal pw) l).
Proof.
  induction l as [|a l IH]; intros rnd; [reflexivity|].
  cbn [accounts_to_dict map pubs_to_dicts seal].
  pose proof (account_to_dict_sealed pw rnd a) as H.
  destruct (account_to_dict P (Some pw) rnd a) as [[d a'] rnd1]. cbn [fst snd] in H.
  fold (seal pw a). unfold seal at 1. rewrite <- H.
  specialize (IH rnd1).
  destruct (accounts_to_dict P (Some pw) rnd1 l) as [[ds r'] rnd2]. cbn [fst] in *.
  rewrite IH. reflexivity.
Qed.

(* the dict handed to storage.write by Wallet.save when the encrypt-on-disk preference is on and a non-blank
   password is set: a function of name, preferences, the init-vector supply and the sealed views *)
Theorem no_plaintext_on_disk : forall w pw ts rnd,
  pref_on w = true -> w_pw w = Some pw ->
  fst (save_dict P ts rnd w) = public_image (w_name w) (w_prefs w) rnd (map (seal pw) (w_accounts w)).
Proof.
  intros w pw ts rnd Hon Hpw.
  unfold save_dict. rewrite Hon, Hpw. unfold wallet_to_dict, public_image.
  pose proof (accounts_to_dict_sealed pw (w_accounts w) rnd) as H.
  destruct (accounts_to_dict P (Some pw) rnd (w_accounts w)) as [[ds accs] r]. cbn [fst] in *.
  rewrite H. reflexivity.
Qed.
End Sealed.

(* consequence, for ANY cipher E (no decryption hypothesis is involved): two wallets with the same public parts
   whose secrets have the same ciphertexts give byte-identical files. *)
Definition same_sealed (v1 v2 : sealed_view) : Prop :=
  fst (fst v1) = fst (fst v2) /\ (forall iv, snd (fst v1) iv = snd (fst v2) iv) /\ (forall iv, snd v1 iv = snd v2 iv).

Lemma pub_to_dict_ext P rnd pa es ep es' ep' : (forall iv, es iv = es' iv) -> (forall iv, ep iv = ep' iv) ->
  pub_to_dict P rnd pa es ep = pub_to_dict P rnd pa es' ep'.
Proof.
  intros Hs Hp. unfold pub_to_dict.
  destruct (p_encrypted pa); [reflexivity|].
  destruct (p_has_key pa).
  - destruct (get_iv (p_iv_priv pa) rnd) as [iv1 rnd1]. rewrite Hp.
    destruct (p_has_seed pa); [|reflexivity].
    destruct (get_iv (p_iv_seed pa) rnd1) as [iv2 rnd2]. rewrite Hs. reflexivity.
  - destruct (p_has_seed pa); [|reflexivity].
    destruct (get_iv (p_iv_seed pa) rnd) as [iv2 rnd2]. rewrite Hs. reflexivity.
Qed.

Lemma pubs_to_dicts_ext P : forall l1 l2 rnd, Forall2 same_sealed l1 l2 ->
  pubs_to_dicts P rnd l1 = pubs_to_dicts P rnd l2.
Proof.
  intros l1 l2 rnd H. revert rnd. induction H as [|v1 v2 l1 l2 Hv _ IH]; intros rnd; [reflexivity|].
  destruct v1 as [[pa1 es1] ep1], v2 as [[pa2 es2] ep2]. destruct Hv as (Hpa & Hs & Hp). cbn in Hpa, Hs, Hp. subst pa2.
  cbn [pubs_to_dicts]. rewrite (pub_to_dict_ext P rnd pa1 es1 ep1 es2 ep2 Hs Hp).
  destruct (pub_to_dict P rnd pa1 es2 ep2) as [d rnd1]. rewrite IH. reflexivity.
Qed.

Theorem file_depends_on_ciphertexts_only : forall P w1 w2 pw ts rnd,
  pref_on w1 = true -> pref_on w2 = true -> w_pw w1 = Some pw -> w_pw w2 = Some pw ->
  w_name w1 = w_name w2 -> w_prefs w1 = w_prefs w2 ->
  Forall2 same_sealed (map (seal P pw) (w_accounts w1)) (map (seal P pw) (w_accounts w2)) ->
  render_file P (fst (save_dict P ts rnd w1)) = render_file P (fst (save_dict P ts rnd w2)).
Proof.
  intros P w1 w2 pw ts rnd H1 H2 Hp1 Hp2 Hn Hpr Hs.
  rewrite (no_plaintext_on_disk P w1 pw ts rnd H1 Hp1), (no_plaintext_on_disk P w2 pw ts rnd H2 Hp2).
  unfold public_image. rewrite Hn, Hpr, (pubs_to_dicts_ext P _ _ rnd Hs). reflexivity.
Qed.

(* ------------------------------------------------------------------------------------------ *)
(* pack / unpack                                                                               *)
(* ------------------------------------------------------------------------------------------ *)
Section Pack.
Variable P : prims.
Hypothesis H_DE : forall k iv p, D P k iv (E P k iv p) = DOk p.
Hypothesis H_b64 : forall x, b64d P (b64e P x) = Some x.
Hypothesis H_z : forall x, zd P (zc P x) = ZOk x.

(* b's:8192:16:1:' + rest, split at most four times: the rest stays whole whatever bytes (colons included) it holds *)
Lemma split_header rest :
  split_colon 4 (better_header ++ rest) =
    [[byte_of_N 115]; dec_of_N 8192; dec_of_N 16; dec_of_N 1; rest].
Proof. vm_compute. reflexivity. Qed.

Lemma better_roundtrip pw v iv : len16 iv ->
  better_aes_decrypt P pw (better_aes_encrypt P pw v iv) = Ok v.
Proof.
  intros Hl. unfold better_aes_decrypt, better_aes_encrypt. rewrite H_b64, split_header.
  assert (H1 : py_int (dec_of_N 8192) = Some 8192) by (vm_compute; reflexivity).
  assert (H2 : py_int (dec_of_N 16) = Some 16) by (vm_compute; reflexivity).
  assert (H3 : py_int (dec_of_N 1) = Some 1) by (vm_compute; reflexivity).
  rewrite H1, H2, H3.
  rewrite (firstn_app_exact' 16 iv) by (symmetry; exact Hl).
  rewrite (skipn_app_exact' 16 iv) by (symmetry; exact Hl).
  rewrite H_DE. reflexivity.
Qed.

(* a payload whose header carries ANY scrypt parameters (written by another writer of the same format): the reader
   derives the key with the parameters the header states *)
Lemma take_field_spec f : forall acc rest, forallb (fun b => negb (byte_eqb b colon)) f = true ->
  take_field (f ++ colon :: rest) acc = (rev acc ++ f, Some rest).
Proof.
  induction f as [|b f IH]; intros acc rest H; cbn [app take_field].
  - rewrite byte_eqb_refl, app_nil_r. reflexivity.
  - cbn [forallb] in H. apply andb_prop in H. destruct H as [Hb Hf].
    destruct (byte_eqb b colon); [discriminate Hb|].
    rewrite (IH (b :: acc) rest Hf). cbn [rev]. rewrite <- app_assoc. reflexivity.
Qed.

Lemma split_field k f rest : forallb (fun b => negb (byte_eqb b colon)) f = true ->
  split_colon (S k) (f ++ colon :: rest) = f :: split_colon k rest.
Proof. intros H. cbn [split_colon]. rewrite (take_field_spec f [] rest H). reflexivity. Qed.

Lemma digit_not_colon b : is_digit b = true -> negb (byte_eqb b colon) = true.
Proof.
  intros H. destruct (byte_eqb b colon) eqn:E; [|reflexivity]. exfalso.
  apply byte_eqb_eq in E. subst b. unfold is_digit, colon in H.
  rewrite (byte_of_N_small 58) in H by reflexivity. discriminate H.
Qed.

Lemma dec_no_colon n : forallb (fun b => negb (byte_eqb b colon)) (dec_of_N n) = true.
Proof.
  pose proof (dec_of_N_all_digits n) as H. induction (dec_of_N n) as [|b l IH]; [reflexivity|].
  cbn [forallb] in *. apply andb_prop in H. destruct H as [Hb Hl]. rewrite (digit_not_colon b Hb), (IH Hl). reflexivity.
Qed.

Lemma py_int_dec n : py_int (dec_of_N n) = Some n.
Proof. unfold py_int. rewrite dec_of_N_all_digits. apply N_of_dec_of_N. Qed.

Definition foreign_payload (pw v iv : bytes) (n r p : N) : bytes :=
  b64e P ([byte_of_N 115] ++ colon :: dec_of_N n ++ colon :: dec_of_N r ++ colon :: dec_of_N p ++ colon ::
          iv ++ E P (scrypt P pw iv n r p) iv v).

Theorem foreign_header_honoured : forall pw v iv n r p, len16 iv ->
  better_aes_decrypt P pw (foreign_payload pw v iv n r p) = Ok v.
Proof.
  intros pw v iv n r p Hl. unfold better_aes_decrypt, foreign_payload. rewrite H_b64.
  assert (Hs : forallb (fun b => negb (byte_eqb b colon)) [byte_of_N 115] = true) by (vm_compute; reflexivity).
  rewrite (split_field 3 _ _ Hs), (split_field 2 _ _ (dec_no_colon n)), (split_field 1 _ _ (dec_no_colon r)),
          (split_field 0 _ _ (dec_no_colon p)).
  cbn [split_colon]. rewrite !py_int_dec.
  rewrite (firstn_app_exact' 16 iv) by (symmetry; exact Hl).
  rewrite (skipn_app_exact' 16 iv) by (symmetry; exact Hl).
  rewrite H_DE. reflexivity.
Qed.

Theorem foreign_payload_merges : forall pw js iv n r p, len16 iv ->
  merge_payload P (Some pw) (foreign_payload pw (zc P js) iv n r p) = Ok js.
Proof.
  intros. unfold merge_payload, unpack. rewrite foreign_header_honoured by assumption. rewrite H_z. reflexivity.
Qed.

Theorem pack_unpack : forall w pw iv, len16 iv -> is_locked w = false ->
  exists packed, pack P pw iv w = Ok packed /\ unpack P pw packed = Ok (to_json P w).
Proof.
  intros w pw iv Hl Hlk. unfold pack. rewrite Hlk. eexists. split; [reflexivity|].
  unfold unpack. rewrite (better_roundtrip pw _ iv Hl), H_z. reflexivity.
Qed.

(* what sync_apply does with its own payload: for EVERY password string, the zero-length one included *)
Theorem merge_payload_roundtrip : forall w pw iv, len16 iv -> is_locked w = false ->
  exists packed, pack P pw iv w = Ok packed /\ merge_payload P (Some pw) packed = Ok (to_json P w)
                 /\ merge_payload P None (to_json P w) = Ok (to_json P w).
Proof.
  intros w pw iv Hl Hlk. destruct (pack_unpack w pw iv Hl Hlk) as (packed & Hp & Hu).
  exists packed. repeat split; assumption || reflexivity.
Qed.

Theorem pack_refuses_locked : forall w pw iv, is_locked w = true -> pack P pw iv w = Err EAssertion.
Proof. intros w pw iv H. unfold pack. rewrite H. reflexivity. Qed.
End Pack.

(* ------------------------------------------------------------------------------------------ *)
(* histories: whatever the wallet process does, and wherever it is killed, the file on disk is  *)
(* the complete rendering of a dict that some save handed to storage.write (or there is none)  *)
(* ------------------------------------------------------------------------------------------ *)
Lemma crash_at_app umask k ops1 : forall ops2 n t,
  crash_at umask n k (ops1 ++ ops2) t =
    if Nat.ltb n (length ops1) then crash_at umask n k ops1 t
    else crash_at umask (n - length ops1) k ops2 (run_ops umask ops1 t).
Proof.
  induction ops1 as [|op ops1 IH]; intros ops2 n t.
  - cbn. rewrite Nat.sub_0_r. reflexivity.
  - destruct n as [|n].
    + cbn [length Nat.ltb Nat.leb app crash_at]. destruct op; reflexivity.
    + cbn [app crash_at length run_ops]. rewrite IH. reflexivity.
Qed.

Section CrashPath.
Variable umask : N.
Variable path : bytes.
Variable pid : N.
Variable data : bytes.

Lemma crash_at_path t n k :
  fdata (crash_at umask n k (storage_write path pid data t) t path) =
    if Nat.ltb (match t path with Some _ => 7 | None => 6 end) n then Some data else fdata (t path).
Proof.
  unfold storage_write.
  change [FOpenW (temp_path path pid); FWrite (temp_path path pid) data; FFlush (temp_path path pid);
          FFsync (temp_path path pid); FClose (temp_path path pid); FExists path]
    with (prefix_ops path pid data).
  rewrite crash_at_app. change (length (prefix_ops path pid data)) with 6%nat.
  destruct (Nat.ltb n 6) eqn:Hn.
  - apply Nat.ltb_lt in Hn.
    rewrite (crashes_harmless umask path pid _ (prefix_harmless path pid data) _ _
               (crash_at_crashes umask _ n k t)).
    destruct (t path); (destruct (Nat.ltb _ n) eqn:Hl; [apply Nat.ltb_lt in Hl; lia|reflexivity]).
  - apply Nat.ltb_ge in Hn.
    destruct (prefix_result umask path pid data t) as (m0 & Htmp & Hpath).
    set (t1 := run_ops umask (prefix_ops path pid data) t) in *.
    assert (Hren : apply_op umask (FRename (temp_path path pid) path) t1 path = Some (mkFile data m0)).
    { cbn [apply_op]. rewrite Htmp. rewrite fs_set_other by apply eqb_temp_path. apply fs_set_same. }
    assert (Hchm : forall md, apply_op umask (FChmod path md) (apply_op umask (FRename (temp_path path pid) path) t1) path
                              = Some (mkFile data md)).
    { intros md. cbn [apply_op] in *. rewrite Hren. apply fs_set_same. }
    destruct (t path) as [f|] eqn:Hf.
    + destruct (n - 6)%nat as [|[|[|j]]] eqn:Hj; cbn [crash_at]; change (apply_op umask (FStat path) t1) with t1.
      * rewrite Hpath. destruct (Nat.ltb 7 n) eqn:Hl; [apply Nat.ltb_lt in Hl; lia|reflexivity].
      * rewrite Hpath. destruct (Nat.ltb 7 n) eqn:Hl; [apply Nat.ltb_lt in Hl; lia|reflexivity].
      * rewrite Hren. destruct (Nat.ltb 7 n) eqn:Hl; [reflexivity|apply Nat.ltb_ge in Hl; lia].
      * assert (Hdone : forall j t2, crash_at umask j k [] t2 = t2) by (intros [|?] ?; reflexivity).
        rewrite Hdone, Hchm. destruct (Nat.ltb 7 n) eqn:Hl; [reflexivity|apply Nat.ltb_ge in Hl; lia].
    + destruct (n - 6)%nat as [|[|j]] eqn:Hj; cbn [crash_at].
      * rewrite Hpath. destruct (Nat.ltb 6 n) eqn:Hl; [apply Nat.ltb_lt in Hl; lia|reflexivity].
      * rewrite Hren. destruct (Nat.ltb 6 n) eqn:Hl; [reflexivity|apply Nat.ltb_ge in Hl; lia].
      * assert (Hdone : forall j t2, crash_at umask j k [] t2 = t2) by (intros [|?] ?; reflexivity).
        rewrite Hdone, Hchm. destruct (Nat.ltb 6 n) eqn:Hl; [reflexivity|apply Nat.ltb_ge in Hl; lia].
Qed.
End CrashPath.

Section MachineInv.
Variable P : prims.
Variable path : bytes.
Variable umask : N.

Definition coherent (st : mstate) : Prop := fdata (m_fs st path) = option_map (render_file P) (m_img st).

Lemma do_save_coherent ts rnd pid st : coherent (do_save P path umask ts rnd pid st).
Proof.
  unfold coherent, do_save. destruct (save_dict P ts rnd (m_w st)) as [img w'].
  cbn [m_fs m_img]. rewrite save_completes. reflexivity.
Qed.

Lemma step_coherent op st : coherent st -> coherent (snd (step P path umask op st)).
Proof.
  intros Hc. destruct op; cbn [step].
  - destruct (is_locked (m_w st)); [exact Hc|]. destruct (nonempty pw); [|exact Hc]. apply do_save_coherent.
  - destruct (is_locked (m_w st)); [exact Hc|]. apply do_save_coherent.
  - destruct (lock P rnd (m_w st)); exact Hc.
  - destruct (unlock P pw (m_w st)). exact Hc.
  - apply do_save_coherent.
  - destruct (save_dict P ts rnd (m_w st)) as [img w'].
    match goal with |- coherent (snd (match reload P ?i with _ => _ end)) => destruct (reload P i) end; [|exact Hc].
    cbn [snd]. unfold coherent. cbn [m_fs m_img]. rewrite crash_at_path.
    destruct (Nat.ltb _ n); [reflexivity|exact Hc].
  - destruct (reload P (m_img st)); exact Hc.
  - exact Hc.
  - exact Hc.
  - destruct (nth_error (w_accounts (m_w st)) i); [|exact Hc]. destruct (a_encrypted a); exact Hc.
  - destruct (nth_error (w_accounts (m_w st)) i); [|exact Hc]. destruct (a_encrypted a); [|exact Hc].
    destruct (account_decrypt P pw a). exact Hc.
  - exact Hc.
  - destruct (nth_error (w_accounts (m_w st)) i); exact Hc.
  - destruct (reload P (m_img st)) as [w0|]; [|exact Hc].
    destruct (w_accounts w0); [exact Hc|].
    destruct (is_locked w0 && pref_is_none w0); [apply do_save_coherent|exact Hc].
Qed.

(* start-up of a wallet whose accounts are stored encrypted: afterwards the encrypt-on-disk preference is on unless the
   file itself carries a non-null value for it (the user's explicit choice), whatever the file's age *)
Lemma pref_on_after_set w ts : pref_on (pref_set EOD (JB true) ts w) = true.
Proof.
  unfold pref_on, pref_set. cbn [w_prefs].
  assert (H : forall l v, jget EOD (jset EOD v l) = Some v).
  { induction l as [|[k x] l IH]; intros v; cbn [jset jget].
    - rewrite bytes_eqb_refl. reflexivity.
    - destruct (bytes_eqb EOD k) eqn:Hk; cbn [jget]; [rewrite bytes_eqb_refl; reflexivity|rewrite Hk; apply IH]. }
  rewrite H. vm_compute. reflexivity.
Qed.

Lemma save_dict_keeps_pref_on ts rnd w : is_locked w = true -> pref_on w = true ->
  pref_on (snd (save_dict P ts rnd w)) = true.
Proof.
  intros Hl Hp. unfold save_dict. rewrite Hp.
  destruct (w_pw w) as [pw|] eqn:Hpw; [|rewrite Hl]; unfold wallet_to_dict;
    destruct (accounts_to_dict P _ rnd (w_accounts w)) as [[ds accs] r]; cbn [snd]; exact Hp.
Qed.

Theorem start_enables_encryption : forall ts rnd pid st st' w0,
  reload P (m_img st) = Some w0 -> is_locked w0 = true -> pref_is_none w0 = true ->
  step P path umask (MStart ts rnd pid) st = (OTrue, st') ->
  pref_on (m_w st') = true.
Proof.
  intros ts rnd pid st st' w0 Hr Hl Hn Hs. cbn [step] in Hs. rewrite Hr in Hs.
  destruct (w_accounts w0) eqn:Ha; [discriminate Hs|].
  rewrite Hl, Hn in Hs. cbn [andb] in Hs. injection Hs as <-.
  unfold do_save. cbn [m_w].
  pose proof (save_dict_keeps_pref_on ts rnd (pref_set EOD (JB true) ts w0)) as H.
  destruct (save_dict P ts rnd (pref_set EOD (JB true) ts w0)) as [img w']. cbn [m_w snd] in *.
  apply H; [|apply pref_on_after_set].
  unfold is_locked, pref_set in *. cbn [w_accounts]. exact Hl.
Qed.

Lemma unlock_keeps_prefs pw w : w_prefs (snd (unlock P pw w)) = w_prefs w /\ w_name (snd (unlock P pw w)) = w_name w.
Proof.
  unfold unlock. destruct (is_locked w), (w_pw w); try (split; reflexivity);
    destruct (unlock_accounts P pw (w_accounts w)); split; reflexivity.
Qed.

Lemma unlock_true_pw pw w : fst (unlock P pw w) = UTrue -> w_pw (snd (unlock P pw w)) = Some pw.
Proof.
  unfold unlock. destruct (is_locked w); destruct (w_pw w) as [q|] eqn:Hq;
    try (destruct (unlock_accounts P pw (w_accounts w)) as [o accs]; cbn [fst snd]; intros ->; reflexivity).
  cbn [fst snd]. destruct (bytes_eqb pw q) eqn:E; [|discriminate]. intros _.
  apply bytes_eqb_eq in E. subst q. exact Hq.
Qed.

(* ... hence: start-up, unlock with its password (any string), any save -- the dict written is the sealed image *)
Theorem start_unlock_save_sealed : forall ts rnd pid st st' w0 (pw : bytes) ts' rnd',
  reload P (m_img st) = Some w0 -> is_locked w0 = true -> pref_is_none w0 = true ->
  step P path umask (MStart ts rnd pid) st = (OTrue, st') ->
  fst (unlock P pw (m_w st')) = UTrue ->
  let w2 := snd (unlock P pw (m_w st')) in
  fst (save_dict P ts' rnd' w2) = public_image P (w_name w2) (w_prefs w2) rnd' (map (seal P pw) (w_accounts w2)).
Proof.
  intros ts rnd pid st st' w0 pw ts' rnd' Hr Hl Hn Hs Hu w2.
  pose proof (start_enables_encryption ts rnd pid st st' w0 Hr Hl Hn Hs) as Hon.
  apply no_plaintext_on_disk.
  - subst w2. unfold pref_on in *. rewrite (proj1 (unlock_keeps_prefs pw (m_w st'))). exact Hon.
  - subst w2. apply unlock_true_pw. exact Hu.
Qed.

Theorem file_always_complete : forall ops st, coherent st -> coherent (run P path umask ops st).
Proof. induction ops as [|op ops IH]; intros st H; [exact H|]. cbn [run]. apply IH. apply step_coherent. exact H. Qed.
End MachineInv.

(* ------------------------------------------------------------------------------------------ *)
(* a toy instance of the primitives (for non-vacuity examples only): E key iv p = key ++ p     *)
(* ------------------------------------------------------------------------------------------ *)
Fixpoint strip_prefix (k c : bytes) : option bytes :=
  match k, c with
  | [], _ => Some c
  | x :: k', y :: c' => if byte_eqb x y then strip_prefix k' c' else None
  | _ :: _, [] => None
  end.

Lemma strip_prefix_app k p : strip_prefix k (k ++ p) = Some p.
Proof. induction k as [|x k IH]; cbn; [reflexivity|]. rewrite byte_eqb_refl. exact IH. Qed.

Definition toy_bad_seed : bytes := [byte_of_N 98; byte_of_N 97; byte_of_N 100].   (* "bad": not in the toy word list *)

Definition toy : prims := mkPrims
  (fun pw => byte_of_N 75 :: pw)
  (fun k iv p => k ++ p)
  (fun k iv c => match strip_prefix k c with Some p => DOk p | None => DBadPad end)
  (fun x => x) (fun x => Some x)
  (fun _ => true)
  (fun sd => sd) (fun pub => skipn 4 pub)      (* toy: an extended public key is "xpub" ++ the seed it comes from *)
  (fun sd => negb (bytes_eqb sd toy_bad_seed))
  (fun x => XOk x)
  (fun x k => x ++ [byte_of_N 47; byte_of_N 50; byte_of_N 47; byte_of_N (48 + k)])     (* toy: path text "x/2/k" *)
  (fun x => byte_of_N 34 :: x ++ [byte_of_N 34])
  (fun pw salt _ _ _ => pw ++ salt)
  (fun x => x) (fun x => ZOk x).

Lemma toy_DE : forall k iv p, D toy k iv (E toy k iv p) = DOk p.
Proof. intros. cbn. rewrite strip_prefix_app. reflexivity. Qed.
Lemma toy_b64 : forall x, b64d toy (b64e toy x) = Some x.
Proof. reflexivity. Qed.
Lemma toy_b64_nil : b64d toy [] = Some [].
Proof. reflexivity. Qed.
Lemma toy_z : forall x, zd toy (zc toy x) = ZOk x.
Proof. reflexivity. Qed.

Definition bN (l : list N) : bytes := map byte_of_N l.
Definition iv_a : bytes := repeat (byte_of_N 1) 16.
Definition iv_b : bytes := repeat (byte_of_N 2) 16.
Definition iv_c : bytes := repeat (byte_of_N 3) 16.

(* a seeded account with its private key, a key-only account, a watch-only account *)
Definition ex_seeded : account :=
  mkAccount (bN [108]) (bN [65]) (bN [115; 101; 101; 100]) [] (Some (bN [120; 112; 114; 118])) (bN [120; 112; 117; 98; 115; 101; 101; 100])
            false None None (JO []) 5 (JO [(bN [99], JS (bN [80; 69; 77]))]).
Definition ex_keyonly : account :=
  mkAccount (bN [108]) (bN [66]) [] (bN [120; 107]) (Some (bN [120; 107])) (bN [120; 112; 50]) false None None (JO []) 6 (JO []).
Definition ex_watch : account :=
  mkAccount (bN [108]) (bN [67]) [] [] None (bN [120; 112; 51]) false None None (JO []) 7 (JO []).
Definition ex_badseed : account :=
  mkAccount (bN [108]) (bN [68]) toy_bad_seed [] (Some (bN [120; 52])) (bN [120; 112; 117; 98; 98; 97; 100]) false None None (JO []) 8 (JO []).

Definition ex_pw : bytes := bN [112; 119].
Definition ex_pw2 : bytes := bN [113].
Definition ex_wallet : wallet := mkWallet (bN [87]) [] [ex_seeded; ex_keyonly; ex_watch] (Some ex_pw).

Lemma ex_wallet_wf : wf_wallet toy ex_wallet.
Proof.
  unfold wf_wallet, ex_wallet. cbn [w_accounts].
  repeat constructor; cbn; try reflexivity; try discriminate;
    try (intros x Hx; injection Hx as <-; repeat split; reflexivity);
    try (intros Hx; discriminate Hx).
  all: cbn in *; match goal with H : Some _ = Some _ |- _ => injection H as <- end; reflexivity.
Qed.

Lemma ex_rnd_ok : Forall len16 [iv_a; iv_b; iv_c].
Proof. repeat constructor. Qed.

(* ------------------------------------------------------------------------------------------ *)
(* through the disk: encrypted save, restart (from_storage), unlock                            *)
(* ------------------------------------------------------------------------------------------ *)
Lemma sortkeys_JA l : sortkeys (JA l) = JA (map sortkeys l).
Proof.
  reflexivity.
Qed.

Section Disk.
Variable P : prims.
Hypothesis H_DE : forall k iv p, D P k iv (E P k iv p) = DOk p.
Hypothesis H_b64 : forall x, b64d P (b64e P x) = Some x.
Hypothesis H_b64_nil : b64d P [] = Some [].

(* the ciphertext strings [sd], [pk] decrypt, under pw, to the secrets of [a] in whatever account they are stored *)
Definition decryptable (pw : bytes) (a : account) (sd pk : bytes) : Prop :=
  forall b, a_seed b = sd -> a_pks b = pk -> a_pub b = a_pub a ->
  exists ivs ivp, account_decrypt P pw b = (DTrue, set_secrets b (a_seed a) [] (a_priv a) false ivs ivp).

Lemma to_dict_enc_shape pw rnd a : wf_account P a -> Forall len16 rnd ->
  exists sd pk,
    fst (fst (account_to_dict P (Some pw) rnd a)) =
      JO [(c_ledger, JS (a_ledger a)); (c_name, JS (a_name a)); (c_seed, JS sd); (c_encrypted, JB true);
          (c_private_key, JS pk); (c_public_key, JS (a_pub a)); (c_address_generator, a_addrgen a);
          (c_modified_on, JN (a_modified a)); (c_certificates, a_certs a)]
    /\ decryptable pw a sd pk
    /\ Forall len16 (snd (account_to_dict P (Some pw) rnd a)).
Proof.
  intros [Hpl Hsu Hsw Hpr Hpk Hivs Hivp] Hr.
  unfold account_to_dict. rewrite Hpl. cbn [negb andb orb].
  set (ks := match a_priv a with Some x => x | None => a_pks a end).
  assert (Hks : (nonempty ks = true /\ a_priv a = Some ks /\ xparse P ks = XOk ks /\ utf8_ok P ks = true)
                \/ (ks = [] /\ a_priv a = None)).
  { subst ks. destruct (a_priv a) as [x|] eqn:Hx.
    - left. destruct (Hpr x eq_refl) as (H1 & H2 & H3). auto.
    - right. split; [apply Hpk; reflexivity|reflexivity]. }
  destruct Hks as [(Hkn & Hkp & Hkx & Hku)|(Hk0 & Hkp)].
  - rewrite Hkn.
    destruct (get_iv_len (a_iv_priv a) rnd Hivp Hr) as [Hl1 Hr1].
    destruct (get_iv (a_iv_priv a) rnd) as [iv1 rnd1]; cbn [fst snd] in Hl1, Hr1.
    destruct (nonempty (a_seed a)) eqn:Hne.
    + destruct (get_iv_len (a_iv_seed a) rnd1 Hivs Hr1) as [Hl2 Hr2].
      destruct (get_iv (a_iv_seed a) rnd1) as [iv2 rnd2]; cbn [fst snd] in Hl2, Hr2.
      exists (aes_encrypt P pw (a_seed a) iv2), (aes_encrypt P pw ks iv1). cbn [fst snd].
      split; [reflexivity|]. split; [|exact Hr2].
      intros b Hbs Hbp Hbpub. exists (Some iv2), (Some iv1).
      unfold account_decrypt, decrypt_seed. rewrite Hbs.
      rewrite (aes_encrypt_nonempty P H_b64 H_b64_nil pw (a_seed a) iv2 Hl2).
      rewrite (aes_roundtrip P H_DE H_b64 pw (a_seed a) iv2 Hl2 Hsu). rewrite Hne, Hbpub, (Hsw eq_refl).
      unfold decrypt_priv. cbn [a_pks set_secrets]. rewrite Hbp.
      rewrite (aes_encrypt_nonempty P H_b64 H_b64_nil pw ks iv1 Hl1).
      rewrite (aes_roundtrip P H_DE H_b64 pw ks iv1 Hl1 Hku). rewrite Hkn, Hkx, Hkp. reflexivity.
    + assert (Hs0 : a_seed a = []) by (apply nonempty_false; exact Hne). rewrite Hs0.
      exists [], (aes_encrypt P pw ks iv1). cbn [fst snd].
      split; [reflexivity|]. split; [|exact Hr1].
      intros b Hbs Hbp Hbpub. exists (a_iv_seed b), (Some iv1).
      unfold account_decrypt, decrypt_seed. rewrite Hbs. cbn [nonempty].
      unfold decrypt_priv. cbn [a_pks set_secrets]. rewrite Hbp.
      rewrite (aes_encrypt_nonempty P H_b64 H_b64_nil pw ks iv1 Hl1).
      rewrite (aes_roundtrip P H_DE H_b64 pw ks iv1 Hl1 Hku). rewrite Hkn, Hkx, Hkp. rewrite ?Hs0. reflexivity.
  - rewrite Hk0. cbn [nonempty].
    destruct (nonempty (a_seed a)) eqn:Hne.
    + destruct (get_iv_len (a_iv_seed a) rnd Hivs Hr) as [Hl2 Hr2].
      destruct (get_iv (a_iv_seed a) rnd) as [iv2 rnd2]; cbn [fst snd] in Hl2, Hr2.
      exists (aes_encrypt P pw (a_seed a) iv2), []. cbn [fst snd].
      split; [reflexivity|]. split; [|exact Hr2].
      intros b Hbs Hbp Hbpub. exists (Some iv2), (a_iv_priv b).
      unfold account_decrypt, decrypt_seed. rewrite Hbs.
      rewrite (aes_encrypt_nonempty P H_b64 H_b64_nil pw (a_seed a) iv2 Hl2).
      rewrite (aes_roundtrip P H_DE H_b64 pw (a_seed a) iv2 Hl2 Hsu). rewrite Hne, Hbpub, (Hsw eq_refl).
      unfold decrypt_priv. cbn [a_pks a_iv_priv set_secrets]. rewrite Hbp. cbn [nonempty]. rewrite Hkp. reflexivity.
    + assert (Hs0 : a_seed a = []) by (apply nonempty_false; exact Hne). rewrite Hs0.
      exists [], []. cbn [fst snd].
      split; [reflexivity|]. split; [|exact Hr].
      intros b Hbs Hbp Hbpub. exists (a_iv_seed b), (a_iv_priv b).
      unfold account_decrypt, decrypt_seed. rewrite Hbs. cbn [nonempty].
      unfold decrypt_priv. cbn [a_pks a_iv_priv set_secrets]. rewrite Hbp. cbn [nonempty]. rewrite Hkp. rewrite ?Hs0. reflexivity.
Qed.

(* from_dict of (the sorted-key reading of) an encrypted account dict *)
Lemma account_of_dict_enc l n sd pk pb ag mo ce :
  account_of_dict P (sortkeys (JO [(c_ledger, JS l); (c_name, JS n); (c_seed, JS sd); (c_encrypted, JB true);
                                   (c_private_key, JS pk); (c_public_key, JS pb); (c_address_generator, ag);
                                   (c_modified_on, JN mo); (c_certificates, ce)])) =
  Some (mkAccount l n sd pk None pb true None None (addrgen_norm (sortkeys ag)) mo (sortkeys ce)).
Proof. vm_compute. reflexivity. Qed.

Lemma reload_unlock_accounts pw : forall l rnd,
  Forall (wf_account P) l -> Forall len16 rnd ->
  exists l1 l2,
    accounts_of_dicts P (map sortkeys (fst (fst (accounts_to_dict P (Some pw) rnd l)))) = Some l1
    /\ Forall (fun b => a_encrypted b = true /\ a_priv b = None) l1
    /\ unlock_accounts P pw l1 = (UTrue, l2)
    /\ map secrets l2 = map secrets l.
Proof.
  induction l as [|a l IH]; intros rnd Hwf Hr.
  - exists [], []. cbn. repeat split; constructor.
  - inversion Hwf as [|? ? Ha Hl]; subst.
    cbn [accounts_to_dict].
    destruct (to_dict_enc_shape pw rnd a Ha Hr) as (sd & pk & Hd & Hdec & Hr1).
    destruct (account_to_dict P (Some pw) rnd a) as [[d a'] rnd1]. cbn [fst snd] in Hd, Hr1.
    destruct (IH rnd1 Hl Hr1) as (l1 & l2 & Ho & Hall & Hu & Hs).
    destruct (accounts_to_dict P (Some pw) rnd1 l) as [[ds r'] rnd2]. cbn [fst] in *.
    cbn [map accounts_of_dicts]. rewrite Hd, account_of_dict_enc, Ho.
    set (b := mkAccount (a_ledger a) (a_name a) sd pk None (a_pub a) true None None
                        (addrgen_norm (sortkeys (a_addrgen a))) (a_modified a) (sortkeys (a_certs a))).
    destruct (Hdec b eq_refl eq_refl eq_refl) as (ivs & ivp & Hb).
    eexists. eexists. split; [reflexivity|]. split; [constructor; [split; reflexivity|exact Hall]|].
    cbn [unlock_accounts]. change (a_encrypted b) with true. cbn iota. rewrite Hb, Hu.
    split; [reflexivity|]. cbn [map]. rewrite Hs. f_equal.
    unfold secrets. cbn. rewrite (wf_plain _ _ Ha). reflexivity.
Qed.

Theorem disk_roundtrip : forall w (pw : bytes) rnd,
  wf_wallet P w -> Forall len16 rnd ->
  exists w1 w2,
    wallet_of_dict P (fst (wallet_to_dict P (Some pw) rnd w)) = Some w1
    /\ Forall (fun b => a_encrypted b = true /\ a_priv b = None) (w_accounts w1)
    /\ w_pw w1 = None /\ w_name w1 = w_name w
    /\ unlock P pw w1 = (UTrue, w2)
    /\ map secrets (w_accounts w2) = map secrets (w_accounts w)
    /\ w_pw w2 = Some pw.
Proof.
  intros w pw rnd Hwf Hr.
  destruct (reload_unlock_accounts pw (w_accounts w) rnd Hwf Hr) as (l1 & l2 & Ho & Hall & Hu & Hs).
  unfold wallet_to_dict.
  destruct (accounts_to_dict P (Some pw) rnd (w_accounts w)) as [[ds accs] r] eqn:Hacc. cbn [fst] in Ho |- *.
  unfold wallet_of_dict.
  assert (Hsort : sortkeys (JO [(c_version, JN 1); (c_name, JS (w_name w)); (c_preferences, JO (w_prefs w)); (c_accounts, JA ds)])
                  = JO [(c_accounts, sortkeys (JA ds)); (c_name, JS (w_name w)); (c_preferences, sortkeys (JO (w_prefs w)));
                        (c_version, JN 1)]).
  { generalize (JA ds) (JO (w_prefs w)) (w_name w). intros x y z. vm_compute. reflexivity. }
  rewrite Hsort, sortkeys_JA.
  assert (Hg1 : forall a b c d, jstr_of (jget c_name [(c_accounts, a); (c_name, JS b); (c_preferences, c); (c_version, d)]) = Some b)
    by (intros; vm_compute; reflexivity).
  assert (Hg2 : forall a b c d, jget c_preferences [(c_accounts, a); (c_name, b); (c_preferences, c); (c_version, d)] = Some c)
    by (intros; vm_compute; reflexivity).
  assert (Hg3 : forall a b c d, jget c_accounts [(c_accounts, a); (c_name, b); (c_preferences, c); (c_version, d)] = Some a)
    by (intros; vm_compute; reflexivity).
  rewrite Hg1, Hg2, Hg3.
  assert (Hprefs : exists pl, sortkeys (JO (w_prefs w)) = JO pl) by (cbn [sortkeys]; eexists; reflexivity).
  destruct Hprefs as [pl ->]. rewrite Ho.
  eexists. exists (mkWallet (w_name w) pl l2 (Some pw)).
  split; [reflexivity|]. cbn [w_accounts w_pw w_name].
  split; [exact Hall|]. split; [reflexivity|]. split; [reflexivity|].
  rewrite unlock_nopw by reflexivity. cbn [w_accounts w_name w_prefs w_pw]. rewrite Hu. cbn [fst snd].
  repeat split. exact Hs.
Qed.

End Disk.

(* Wallet.save as a whole: whatever the wallet state, a kill anywhere inside save leaves the previous file or
   exactly the rendering of the dict this save computed *)
Theorem wallet_save_atomic : forall P umask path pid ts rnd w t t',
  crashes umask (storage_write path pid (render_file P (fst (save_dict P ts rnd w))) t) t t' ->
  fdata (t' path) = fdata (t path) \/ fdata (t' path) = Some (render_file P (fst (save_dict P ts rnd w))).
Proof. intros. eapply save_atomic. eassumption. Qed.

(* the premise of the failed-unlock theorem holds for the locked example wallet and another password: the two
   accounts with secrets refuse it, the watch-only account (nothing to decrypt) opens under any password and is
   trivially sealed under it *)
Lemma ex_locked_sealed :
  match lock toy [iv_a; iv_b; iv_c] ex_wallet with
  | Ok w1 => Forall (sealed_if_opened toy ex_pw2) (w_accounts w1) /\ fst (unlock toy ex_pw2 w1) = UFalse
  | Err _ => False
  end.
Proof.
  cbn [lock ex_wallet w_pw w_accounts w_name w_prefs].
  split; [|vm_compute; reflexivity].
  pose proof ex_wallet_wf as Hwf. unfold wf_wallet, ex_wallet in Hwf. cbn [w_accounts] in Hwf.
  inversion Hwf as [|? ? H1 Hwf2]; subst. inversion Hwf2 as [|? ? H2 Hwf3]; subst. inversion Hwf3 as [|? ? H3 _]; subst.
  repeat constructor.
  - intros _ H. vm_compute in H. discriminate H.
  - intros _ H. vm_compute in H. discriminate H.
  - intros _ _. exists ex_watch, []. split; [exact H3|]. split; [constructor|]. vm_compute. reflexivity.
Qed.

(* ------------------------------------------------------------------------------------------ *)
(* two processes saving the same wallet file, arbitrarily interleaved, each may die anywhere    *)
(* ------------------------------------------------------------------------------------------ *)
Lemma dec_of_N_inj a b : dec_of_N a = dec_of_N b -> a = b.
Proof. intros H. pose proof (N_of_dec_of_N a) as Ha. rewrite H, N_of_dec_of_N in Ha. congruence. Qed.

Lemma temp_path_inj path p q : temp_path path p = temp_path path q -> p = q.
Proof. unfold temp_path. intros H. apply app_inv_head in H. apply app_inv_head in H. apply dec_of_N_inj. exact H. Qed.

Section TwoWriters.
Variable umask : N.
Variable path : bytes.
Variables pid1 pid2 : N.
Hypothesis Hpid : pid1 <> pid2.
Variables d1 d2 : bytes.
Variable old : option bytes.
Let tmp1 := temp_path path pid1.
Let tmp2 := temp_path path pid2.

(* the operations of one save, for either outcome of its os.path.exists and any mode it may have read *)
Definition wops (tmp d : bytes) (st : bool) (m : N) : list fsop :=
  [FOpenW tmp; FWrite tmp d; FFlush tmp; FFsync tmp; FClose tmp; FExists path] ++
  (if st then [FStat path] else []) ++ [FRename tmp path; FChmod path m].

(* an operation a writer whose temp file is tmp may perform *)
Definition own (tmp : bytes) (op : fsop) : Prop :=
  match op with
  | FOpenW p | FWrite p _ | FFlush p | FFsync p | FClose p => p = tmp
  | FExists _ | FStat _ => True
  | FRename a b => a = tmp /\ b = path
  | FChmod p _ => p = path
  | FRemove _ => False
  end.

Definition is_rename (op : fsop) : bool := match op with FRename _ _ => true | _ => false end.

(* running the remaining operations of a writer alone, its temp file holds d whenever it is renamed *)
Fixpoint wh (tmp d : bytes) (l : list fsop) (t : fs) : Prop :=
  match l with
  | [] => True
  | op :: r => (if is_rename op then fdata (t tmp) = Some d else True) /\ wh tmp d r (apply_op umask op t)
  end.

Inductive inter : list fsop -> list fsop -> fs -> fs -> Prop :=
| i_stop : forall a b t, inter a b t t
| i_left : forall op a b t t', inter a b (apply_op umask op t) t' -> inter (op :: a) b t t'
| i_right : forall op a b t t', inter a b (apply_op umask op t) t' -> inter a (op :: b) t t'
| i_left_partial : forall p x y a b t t', inter [] b (apply_op umask (FWrite p x) t) t' -> inter (FWrite p (x ++ y) :: a) b t t'
| i_right_partial : forall p x y a b t t', inter a [] (apply_op umask (FWrite p x) t) t' -> inter a (FWrite p (x ++ y) :: b) t t'
| i_left_dies : forall a b t t', inter [] b t t' -> inter a b t t'
| i_right_dies : forall a b t t', inter a [] t t' -> inter a b t t'.

Definition okpath (t : fs) : Prop := fdata (t path) = old \/ fdata (t path) = Some d1 \/ fdata (t path) = Some d2.

Section Gen.
Variable tmp tmp' : bytes.     (* generic facts, instantiated twice below *)
Hypothesis Hne : bytes_eqb tmp tmp' = false.
Hypothesis Hne' : bytes_eqb tmp' tmp = false.
Hypothesis Hp : bytes_eqb path tmp = false.
Hypothesis Hp' : bytes_eqb tmp path = false.
Hypothesis Hq : bytes_eqb path tmp' = false.
Hypothesis Hq' : bytes_eqb tmp' path = false.

Lemma fs_set_other' p q f (t : fs) : bytes_eqb q p = false -> fs_set p f t q = t q.
Proof. unfold fs_set. intros ->. reflexivity. Qed.
Lemma fs_set_same' p f (t : fs) : fs_set p f t p = f.
Proof. unfold fs_set. rewrite bytes_eqb_refl. reflexivity. Qed.

(* an operation of the writer of tmp' leaves tmp alone *)
Lemma other_keeps op t : own tmp' op -> apply_op umask op t tmp = t tmp.
Proof.
  destruct op; cbn [own apply_op]; intros H; subst; try reflexivity; try contradiction.
  - apply fs_set_other'. exact Hne.
  - destruct (t tmp'); [apply fs_set_other'; exact Hne|reflexivity].
  - destruct H as [-> ->]. destruct (t tmp'); [|reflexivity].
    rewrite fs_set_other' by exact Hne. apply fs_set_other'. exact Hp'.
  - destruct (t path); [apply fs_set_other'; exact Hp'|reflexivity].
Qed.

(* an own operation acts on tmp the same way whatever the rest of the file system is *)
Lemma own_local op t t' : own tmp op -> t tmp = t' tmp -> apply_op umask op t tmp = apply_op umask op t' tmp.
Proof.
  destruct op; cbn [own apply_op]; intros H E; subst; try exact E; try contradiction.
  - rewrite !fs_set_same', E. reflexivity.
  - rewrite <- E. destruct (t tmp) eqn:Et; [rewrite !fs_set_same'; reflexivity|congruence].
  - destruct H as [-> ->]. rewrite <- E. destruct (t tmp) eqn:Et; [rewrite !fs_set_same'; reflexivity|congruence].
  - destruct (t path), (t' path); rewrite ?fs_set_other' by exact Hp'; exact E.
Qed.

Lemma wh_local d l : forall t t', Forall (own tmp) l -> t tmp = t' tmp -> wh tmp d l t -> wh tmp d l t'.
Proof.
  induction l as [|op l IH]; intros t t' Ho E H; [exact I|].
  inversion Ho as [|? ? Hop Hl]; subst. cbn [wh] in *. destruct H as [Hr Hw]. split.
  - rewrite <- E. exact Hr.
  - eapply IH; [exact Hl| |exact Hw]. apply own_local; assumption.
Qed.

Lemma wh_other d l op t : Forall (own tmp) l -> own tmp' op -> wh tmp d l t -> wh tmp d l (apply_op umask op t).
Proof. intros Ho Hop H. eapply wh_local; [exact Ho| |exact H]. symmetry. apply other_keeps. exact Hop. Qed.

(* an own operation keeps the wallet file at old / d1 / d2, given that d is one of d1 d2 *)
Lemma own_okpath d op t : (d = d1 \/ d = d2) -> own tmp op ->
  (if is_rename op then fdata (t tmp) = Some d else True) -> okpath t -> okpath (apply_op umask op t).
Proof.
  intros Hd Ho Hr Hok. unfold okpath in *.
  destruct op; cbn [own apply_op is_rename] in *; subst; try exact Hok; try contradiction.
  - rewrite fs_set_other' by exact Hp. exact Hok.
  - destruct (t tmp); [rewrite fs_set_other' by exact Hp|]; exact Hok.
  - destruct Ho as [-> ->]. destruct (t tmp) as [f|]; [|discriminate Hr].
    rewrite fs_set_other' by exact Hp. rewrite fs_set_same'. cbn in Hr |- *.
    destruct Hd as [<-|<-]; [right; left|right; right]; exact Hr.
  - destruct (t path) as [f|] eqn:Ef; [|rewrite Ef; exact Hok]. rewrite fs_set_same'. cbn in *. exact Hok.
Qed.

End Gen.

Lemma e12 : bytes_eqb tmp1 tmp2 = false.
Proof. apply bytes_eqb_neq. intros H. apply Hpid. eapply temp_path_inj. exact H. Qed.
Lemma e21 : bytes_eqb tmp2 tmp1 = false.
Proof. apply bytes_eqb_neq. intros H. apply Hpid. symmetry. eapply temp_path_inj. exact H. Qed.

Definition Inv (a b : list fsop) (t : fs) : Prop :=
  Forall (own tmp1) a /\ Forall (own tmp2) b /\ wh tmp1 d1 a t /\ wh tmp2 d2 b t /\ okpath t.

Lemma inter_inv a b t t' : inter a b t t' -> Inv a b t -> okpath t'.
Proof.
  induction 1 as [a b t|op a b t t' _ IH|op a b t t' _ IH|p x y a b t t' _ IH|p x y a b t t' _ IH|a b t t' _ IH|a b t t' _ IH];
    intros (Ha & Hb & Wa & Wb & Ok).
  - exact Ok.
  - inversion Ha as [|? ? Hop Hta]; subst. cbn [wh] in Wa. destruct Wa as [Wr Wt]. apply IH. repeat split.
    + exact Hta.
    + exact Hb.
    + exact Wt.
    + apply (wh_other tmp2 tmp1 e21 (eqb_path_temp path pid2) d2 b op t Hb Hop Wb).
    + apply (own_okpath tmp1 (eqb_temp_path path pid1) d1 op t (or_introl eq_refl) Hop Wr Ok).
  - inversion Hb as [|? ? Hop Htb]; subst. cbn [wh] in Wb. destruct Wb as [Wr Wt]. apply IH. repeat split.
    + exact Ha.
    + exact Htb.
    + apply (wh_other tmp1 tmp2 e12 (eqb_path_temp path pid1) d1 a op t Ha Hop Wa).
    + exact Wt.
    + apply (own_okpath tmp2 (eqb_temp_path path pid2) d2 op t (or_intror eq_refl) Hop Wr Ok).
  - inversion Ha as [|? ? Hop Hta]; subst. cbn [own] in Hop. subst p.
    assert (Hop' : own tmp1 (FWrite tmp1 x)) by reflexivity.
    apply IH. repeat split.
    + constructor.
    + exact Hb.
    + apply (wh_other tmp2 tmp1 e21 (eqb_path_temp path pid2) d2 b _ t Hb Hop' Wb).
    + apply (own_okpath tmp1 (eqb_temp_path path pid1) d1 _ t (or_introl eq_refl) Hop' I Ok).
  - inversion Hb as [|? ? Hop Htb]; subst. cbn [own] in Hop. subst p.
    assert (Hop' : own tmp2 (FWrite tmp2 x)) by reflexivity.
    apply IH. repeat split.
    + exact Ha.
    + constructor.
    + apply (wh_other tmp1 tmp2 e12 (eqb_path_temp path pid1) d1 a _ t Ha Hop' Wa).
    + apply (own_okpath tmp2 (eqb_temp_path path pid2) d2 _ t (or_intror eq_refl) Hop' I Ok).
  - apply IH. repeat split; try assumption. constructor.
  - apply IH. repeat split; try assumption. constructor.
Qed.
End TwoWriters.

Lemma wops_own path tmp d st m : Forall (own path tmp) (wops path tmp d st m).
Proof. unfold wops. destruct st; repeat constructor. Qed.

Lemma wops_wh umask path tmp d st m t : wh umask tmp d (wops path tmp d st m) t.
Proof.
  unfold wops. destruct st; cbn [app wh is_rename]; repeat split;
    cbn [apply_op]; rewrite fs_set_same'; cbn [f_data f_mode app];
    rewrite fs_set_same'; reflexivity.
Qed.

(* Two processes (different pids, hence different temp files) save the same wallet file; their operations interleave in
   any order and either process may die before any of its operations or inside its write, or run to completion.  At
   every moment the wallet file holds its previous content, or the complete content of one of the two saves. *)
Theorem two_writers_atomic : forall umask path pid1 pid2 d1 d2 s1 m1 s2 m2 t t',
  pid1 <> pid2 ->
  inter umask (wops path (temp_path path pid1) d1 s1 m1) (wops path (temp_path path pid2) d2 s2 m2) t t' ->
  fdata (t' path) = fdata (t path) \/ fdata (t' path) = Some d1 \/ fdata (t' path) = Some d2.
Proof.
  intros umask path pid1 pid2 d1 d2 s1 m1 s2 m2 t t' Hpid H.
  apply (inter_inv umask path pid1 pid2 Hpid d1 d2 (fdata (t path)) _ _ t t' H).
  repeat split.
  - apply wops_own.
  - apply wops_own.
  - apply wops_wh.
  - apply wops_wh.
  - left. reflexivity.
Qed.

Theorem unlock_of_unlocked : forall P w pw q, is_locked w = false -> w_pw w = Some q ->
  unlock P pw w = (if bytes_eqb pw q then UTrue else UFalse, w).
Proof. intros. apply unlock_of_unlocked_sec; assumption. Qed.
