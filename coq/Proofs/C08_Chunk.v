(* C08: a transaction is only ever verified against a header of a chunk that matches its built-in
   checkpoint -- for every sequence of verification attempts and whatever the server answers. *)
From Coq Require Import NArith ZArith List Bool Lia Arith.
From Coq.Strings Require Import Byte.
From LV Require Import Lib.Bytes Model.C08 Model.C08_Chunk Proofs.C08.
Import ListNotations.

Section Chunk.
Variable dsha : bytes -> bytes.
Variable csize : nat.
Variable cps : list bytes.
Notation total := (total csize cps).
Notation table := (table csize cps).
Notation attempt := (attempt dsha csize cps).
Notation attempts := (attempts dsha csize cps).

(* chunk number k holds headers c and c hashes to the k-th checkpoint *)
Definition matches_checkpoint (k : nat) (c : list bytes) : Prop := nth_error cps k = Some (dsha (concat c)).
Definition legit (present : chunks) : Prop := Forall (fun kc => matches_checkpoint (fst kc) (snd kc)) present.

Lemma find_chunk_legit present k c : legit present -> find_chunk k present = Some c -> matches_checkpoint k c.
Proof.
  induction present as [|[k' c'] r IH]; intros H F; cbn [find_chunk] in F; [discriminate|].
  inversion H; subst. destruct (Nat.eqb k k') eqn:E.
  - apply Nat.eqb_eq in E. subst. inversion F; subst. assumption.
  - apply IH; assumption.
Qed.

Lemma attempt_legit present st a : legit present -> legit (fst (attempt present st a)).
Proof.
  intro H. unfold C08_Chunk.attempt.
  destruct (find_chunk _ present); [exact H|].
  destruct (_ && is_ret_tx _); [|exact H].
  destruct (nth_error cps _) as [cp|] eqn:N; [|exact H].
  destruct (bytes_eqb _ cp) eqn:E; [|exact H].
  cbn [fst]. constructor; [|exact H]. cbn [fst snd]. unfold matches_checkpoint.
  apply bytes_eqb_eq in E. rewrite N, E. reflexivity.
Qed.

(* what a result must satisfy *)
Definition att_ok (a : attempt_in) (o : att_result) : Prop :=
  match o with
  | AttDone r _ =>
      t_verified (mv_state r) = true ->
      exists c, matches_checkpoint (Z.to_nat (a_height a) / csize) c /\
                in_range (table (Z.to_nat (a_height a) / csize) c) (a_height a) /\
                proof_checks dsha (table (Z.to_nat (a_height a) / csize) c) (a_raw a) (a_height a)
                             (effective (a_arg a) (a_net a))
  | AttMismatch st => t_verified st = false
  end.

Lemma attempt_ok present st a : legit present -> t_verified st = false -> att_ok a (snd (attempt present st a)).
Proof.
  intros HL Hst. unfold C08_Chunk.attempt.
  destruct (find_chunk _ present) as [c|] eqn:F.
  - cbn [snd att_ok]. intro V. exists c. split; [apply (find_chunk_legit _ _ _ HL F)|].
    apply (verified_iff dsha) in V; [exact V | exact Hst].
  - destruct (_ && is_ret_tx _) eqn:R.
    + destruct (nth_error cps _) as [cp|] eqn:N; [|cbn [snd att_ok]; exact Hst].
      destruct (bytes_eqb _ cp) eqn:E; [|cbn [snd att_ok]; exact Hst].
      cbn [snd att_ok]. intro V. exists (a_served a). split.
      * unfold matches_checkpoint. apply bytes_eqb_eq in E. rewrite N, E. reflexivity.
      * apply (verified_iff dsha) in V; [exact V | exact Hst].
    + cbn [snd att_ok]. intro V. exfalso.
      pose proof (verified_char dsha (repeat [] total) st (a_raw a) (a_height a) (a_arg a) (a_net a)) as C.
      cbv zeta in C. destruct C as [_ C2].
      rewrite C2 in V; [congruence|].
      intros [Hr Ho]. apply andb_false_iff in R. destruct R as [R|R].
      * apply in_range_dec in Hr. rewrite repeat_length in Hr. congruence.
      * rewrite Ho in R. discriminate.
Qed.

Lemma attempts_ok : forall l present, legit present -> Forall2 att_ok l (snd (attempts present l)).
Proof.
  induction l as [|a r IH]; intros present HL; cbn [C08_Chunk.attempts]; [constructor|].
  pose proof (attempt_legit present {| t_height := (-2)%Z; t_position := (-1)%Z; t_verified := false |} a HL) as L1.
  pose proof (attempt_ok present {| t_height := (-2)%Z; t_position := (-1)%Z; t_verified := false |} a HL eq_refl) as O1.
  destruct (attempt present _ a) as [p1 o]. cbn [fst snd] in *.
  specialize (IH p1 L1). destruct (attempts p1 r) as [p2 os]. cbn [snd] in *.
  constructor; assumption.
Qed.

(* MAIN: starting with every chunk missing, for EVERY sequence of attempts (whatever the server serves) *)
Theorem chunk_attempts_sound l : Forall2 att_ok l (snd (attempts [] l)).
Proof. apply attempts_ok. constructor. Qed.

(* after a restart on ANY file content: only chunks that hash to their checkpoint count as present, so the
   same guarantee holds for every sequence of attempts that follows *)
Lemma reopen_legit disk : legit (reopen dsha cps disk).
Proof.
  unfold legit, reopen. apply Forall_forall. intros [k c] Hin. apply filter_In in Hin. destruct Hin as [_ Hf].
  cbn [fst snd] in *. unfold matches_checkpoint.
  destruct (nth_error cps k) as [cp|]; [|discriminate]. apply bytes_eqb_eq in Hf. rewrite Hf. reflexivity.
Qed.

Theorem chunk_reopen_sound disk l : Forall2 att_ok l (snd (attempts (reopen dsha cps disk) l)).
Proof. apply attempts_ok, reopen_legit. Qed.

(* the header read at a height inside chunk k of the table is the corresponding header of that chunk *)
Lemma nth_firstn_lt {A} (l : list A) : forall n i d, (i < n)%nat -> nth i (firstn n l) d = nth i l d.
Proof.
  induction l as [|x l IH]; intros n i d H; [rewrite firstn_nil; reflexivity|].
  destruct n; [lia|]. destruct i; [reflexivity|]. cbn [firstn nth]. apply IH. lia.
Qed.

Lemma nth_table k c h d : (k * csize <= h < k * csize + length c)%nat -> (h < total)%nat ->
  nth h (table k c) d = nth (h - k * csize) c d.
Proof.
  intros H Ht. unfold C08_Chunk.table. rewrite nth_firstn_lt by exact Ht.
  rewrite app_nth2 by (rewrite repeat_length; lia). rewrite repeat_length.
  apply app_nth1. lia.
Qed.

End Chunk.
