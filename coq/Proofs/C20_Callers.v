From Coq Require Import NArith ZArith List Bool Lia.
From LV Require Import Lib.Bytes Lib.Decimal Model.C20 Proofs.C20 Model.C20_Callers.
Import ListNotations.
Local Open Scope N_scope.

Lemma parse_all_some ss ns : parse_all ss = Some ns -> Forall2 (fun s n => parse s = Some n) ss ns.
Proof.
  revert ns. induction ss as [|s r IH]; intros ns H; cbn [parse_all] in H.
  - injection H as <-. constructor.
  - destruct (parse s) as [n|] eqn:E; [|discriminate].
    destruct (parse_all r) as [ms|] eqn:Er; [|discriminate].
    injection H as <-. constructor; [exact E | apply IH; reflexivity].
Qed.

Lemma parse_all_none ss : parse_all ss = None <-> exists s, In s ss /\ parse s = None.
Proof.
  induction ss as [|s r IH]; cbn [parse_all].
  - split; [discriminate | intros (s & [] & _)].
  - destruct (parse s) as [n|] eqn:E.
    + destruct (parse_all r) as [ms|] eqn:Er.
      * split; [discriminate|]. intros (x & [->|Hin] & Hx); [congruence|].
        destruct IH as [_ IH]. discriminate IH. exists x. split; assumption.
      * split; [|reflexivity]. intros _. destruct IH as [IH _]. destruct (IH eq_refl) as (x & Hin & Hx).
        exists x. split; [right; exact Hin | exact Hx].
    + split; [|reflexivity]. intros _. exists s. split; [left; reflexivity | exact E].
Qed.

(* accepted: the result is the exact decimal of the sum of the parsed values *)
Theorem effective_exact amount supports out :
  effective amount supports = Some out ->
  exists ns m k, Forall2 (fun s n => parse s = Some n) (amount :: supports) ns /\
    dec_exact out = Some (m, k) /\ (m * 10 ^ 8 = Z.of_N (nsum ns) * 10 ^ Z.of_N k)%Z /\ 1 <= k <= 8.
Proof.
  unfold effective. destruct (parse_all (amount :: supports)) as [ns|] eqn:E; [|discriminate].
  intro H. injection H as <-.
  destruct (exact (Z.of_N (nsum ns))) as (m & k & H1 & H2 & H3).
  exists ns, m, k. split; [apply parse_all_some; exact E|]. split; [exact H1|]. split; [exact H2 | exact H3].
Qed.

(* refused exactly when one of the strings is refused by the strict parser: nothing is passed through *)
Theorem effective_rejects amount supports :
  effective amount supports = None <-> exists s, In s (amount :: supports) /\ parse s = None.
Proof.
  unfold effective. destruct (parse_all (amount :: supports)) as [ns|] eqn:E.
  - split; [discriminate|]. intro H. apply parse_all_none in H. congruence.
  - split; [|reflexivity]. intros _. apply parse_all_none. exact E.
Qed.

(* with no supports a canonical amount comes back unchanged, a padded one in canonical form *)
Theorem effective_no_supports n : n < 10 ^ 18 ->
  effective (format (Z.of_N n)) [] = Some (format (Z.of_N n)).
Proof.
  intro H. unfold effective. cbn [parse_all]. rewrite roundtrip by exact H.
  cbn [nsum fold_right]. rewrite N.add_0_r. reflexivity.
Qed.
