(* C11 proofs: _join_buckets, remove_peer, _split_bucket *)
From Coq Require Import NArith ZArith List Bool Lia Permutation Arith.
From LV Require Import Model.C11 Model.C11Spec Proofs.C11Base.
Import ListNotations.
Local Open Scope N_scope.
Ltac Zify.zify_post_hook ::= Z.to_euclidean_division_equations.

Lemma is_empty_nil b : is_empty b = true -> bpeers b = [].
Proof. unfold is_empty. destruct (bpeers b); [reflexivity | discriminate]. Qed.

Lemma bucket_ok_widen own b lo hi :
  bucket_ok own b -> lo <= blo b -> bhi b <= hi -> bucket_ok own (mkB lo hi (bpeers b)).
Proof.
  intros (R & L) H1 H2. split; cbn; [| exact L].
  eapply Forall_impl; [| exact R]. cbn. intros. lia.
Qed.

Lemma join_scan_cons2 rp a b rest :
  join_scan rp (a :: b :: rest) =
  if is_empty b then
    match rest with
    | c :: rest' =>
        let mid := (bhi b - blo b) / 2 + blo b in
        Some (set_hi a (if rp then mid else mid - 1) :: set_lo c mid :: rest')
    | [] => Some [set_hi a (bhi b)]
    end
  else match join_scan rp (b :: rest) with
       | Some r => Some (a :: r)
       | None => None
       end.
Proof. reflexivity. Qed.

Lemma join_scan_spec own l l' lo hi :
  join_scan true l = Some l' -> chain lo l hi -> Forall (bucket_ok own) l ->
  chain lo l' hi /\ Forall (bucket_ok own) l' /\ contacts l' = contacts l /\ S (length l') = length l.
Proof.
  revert l' lo. induction l as [| a l IH]; intros l' lo; [discriminate |].
  destruct l as [| b rest]; [discriminate |].
  rewrite join_scan_cons2. destruct (is_empty b) eqn:E.
  - apply is_empty_nil in E. destruct rest as [| c rest']; cbn zeta.
    + intros H C OK. inversion H; subst; clear H. cbn in C. destruct C as (C1 & C2 & C3 & C4 & C5).
      inversion OK as [| ? ? OKa OK']; subst. 
      split; [cbn; repeat split; lia |].
      split; [constructor; [apply bucket_ok_widen; [exact OKa | lia | lia] | constructor] |].
      split; [unfold set_hi, set_lo; rewrite !contacts_cons; cbn [bpeers]; rewrite E; reflexivity | reflexivity].
    + intros H C OK. inversion H; subst; clear H. cbn in C. destruct C as (C1 & C2 & C3 & C4 & C5 & C6 & C7).
      inversion OK as [| ? ? OKa OK']; subst. inversion OK' as [| ? ? OKb OK'']; subst.
      inversion OK'' as [| ? ? OKc OK''']; subst.
      split; [cbn; repeat split; try lia; exact C7 |].
      split; [constructor; [apply bucket_ok_widen; [exact OKa | lia | lia] |
                            constructor; [apply bucket_ok_widen; [exact OKc | lia | lia] | exact OK''']] |].
      split; [unfold set_hi, set_lo; rewrite !contacts_cons; cbn [bpeers]; rewrite E; reflexivity | reflexivity].
  - destruct (join_scan true (b :: rest)) as [r |] eqn:J; [| discriminate].
    intros H C OK. inversion H; subst; clear H.
    cbn in C. destruct C as (C1 & C2 & C3).
    inversion OK as [| ? ? OKa OK']; subst.
    destruct (IH r (bhi a) eq_refl C3 OK') as (I1 & I2 & I3 & I4).
    split; [cbn; auto |]. split; [constructor; assumption |].
    split; [rewrite !contacts_cons, I3; reflexivity | cbn in *; lia].
Qed.

Lemma join_step_spec own t t' lo hi :
  join_step true t = Some t' -> chain lo t hi -> Forall (bucket_ok own) t ->
  chain lo t' hi /\ Forall (bucket_ok own) t' /\ contacts t' = contacts t /\ S (length t') = length t.
Proof.
  destruct t as [| a [| b rest]]; try discriminate.
  cbn [join_step]. destruct (is_empty a) eqn:E.
  - apply is_empty_nil in E. intros H C OK. inversion H; subst; clear H.
    cbn in C. destruct C as (C1 & C2 & C3 & C4 & C5).
    inversion OK as [| ? ? OKa OK']; subst. inversion OK' as [| ? ? OKb OK'']; subst.
    split; [cbn; repeat split; try lia; exact C5 |].
    split; [constructor; [apply bucket_ok_widen; [exact OKb | lia | lia] | exact OK''] |].
    split; [unfold set_hi, set_lo; rewrite !contacts_cons; cbn [bpeers]; rewrite E; reflexivity | reflexivity].
  - apply join_scan_spec.
Qed.

Lemma join_n_spec own n t lo hi :
  chain lo t hi -> Forall (bucket_ok own) t ->
  chain lo (join_n true n t) hi /\ Forall (bucket_ok own) (join_n true n t) /\
  contacts (join_n true n t) = contacts t /\ (length (join_n true n t) <= length t)%nat.
Proof.
  revert t. induction n as [| n IH]; intros t C OK; cbn [join_n]; [auto |].
  destruct (join_step true t) as [t' |] eqn:J; [| auto].
  destruct (join_step_spec own _ _ _ _ J C OK) as (C' & OK' & E & L).
  destruct (IH t' C' OK') as (I1 & I2 & I3 & I4).
  split; [exact I1 |]. split; [exact I2 |]. split; [rewrite I3; exact E | lia].
Qed.

Lemma join_wf own t : WF own t -> WF own (join true t).
Proof.
  intros [C OK I Ky]. unfold join.
  destruct (join_n_spec own (length t) t 0 M C OK) as (C' & OK' & E & _).
  constructor; try assumption; rewrite E; assumption.
Qed.

Lemma join_contacts own t lo hi : chain lo t hi -> Forall (bucket_ok own) t -> contacts (join true t) = contacts t.
Proof. intros C OK. unfold join. apply (join_n_spec own (length t) t lo hi C OK). Qed.

(* the fuel [length t] is enough: afterwards nothing is left to join *)
Lemma join_n_done own n t lo hi :
  chain lo t hi -> Forall (bucket_ok own) t -> (length t <= n)%nat -> join_step true (join_n true n t) = None.
Proof.
  revert t. induction n as [| n IH]; intros t C OK L; cbn [join_n].
  - destruct t; [reflexivity | cbn in L; lia].
  - destruct (join_step true t) as [t' |] eqn:J; [| exact J].
    destruct (join_step_spec own _ _ _ _ J C OK) as (C' & OK' & E & L').
    apply IH; try assumption. lia.
Qed.

Lemma join_done own t : WF own t -> join_step true (join true t) = None.
Proof. intros [C OK _ _]. unfold join. eapply join_n_done; eauto. Qed.

(* ---------- replacing one bucket ---------- *)
Lemma chain_replace lo pre b b' post hi :
  chain lo (pre ++ b :: post) hi -> blo b' = blo b -> bhi b' = bhi b -> chain lo (pre ++ b' :: post) hi.
Proof.
  intros C E1 E2. apply chain_app in C. destruct C as (mid & C1 & C2). apply chain_app. exists mid.
  split; [exact C1 |]. cbn in *. rewrite E1, E2. exact C2.
Qed.

Lemma Forall_mid {A} (P : A -> Prop) pre b post : Forall P (pre ++ b :: post) <-> Forall P pre /\ P b /\ Forall P post.
Proof.
  rewrite Forall_app. split.
  - intros (H1 & H2). inversion H2; subst. auto.
  - intros (H1 & H2 & H3). split; [assumption | constructor; assumption].
Qed.

Lemma NoDup_map_sub {A B} (f : A -> B) l' l : sub l' l -> NoDup (map f l) -> NoDup (map f l').
Proof. intros S N. eapply sub_NoDup; [apply sub_map; exact S | exact N]. Qed.

Lemma NoDup_map_perm {A B} (f : A -> B) l' l : Permutation l l' -> NoDup (map f l) -> NoDup (map f l').
Proof. intros P N. eapply Permutation_NoDup; [apply Permutation_map; exact P | exact N]. Qed.

Lemma NoDup_map_NoDup {A B} (f : A -> B) l : NoDup (map f l) -> NoDup l.
Proof.
  induction l; cbn; intros N; [constructor |]. inversion N; subst. constructor; auto.
  intro. apply H1. apply in_map. assumption.
Qed.

Lemma NoDup_map_inj {A B} (f : A -> B) l x y : NoDup (map f l) -> In x l -> In y l -> f x = f y -> x = y.
Proof.
  induction l; cbn; intros N Hx Hy E; [tauto |]. inversion N; subst.
  destruct Hx as [-> | Hx], Hy as [-> | Hy]; auto.
  - exfalso. apply H1. rewrite E. apply in_map. assumption.
  - exfalso. apply H1. rewrite <- E. apply in_map. assumption.
Qed.

Lemma wf_replace_sub own pre b b' post :
  WF own (pre ++ b :: post) -> blo b' = blo b -> bhi b' = bhi b -> sub (bpeers b') (bpeers b) ->
  WF own (pre ++ b' :: post) /\ sub (contacts (pre ++ b' :: post)) (contacts (pre ++ b :: post)).
Proof.
  intros [C OK I Ky] E1 E2 S.
  assert (SS : sub (contacts (pre ++ b' :: post)) (contacts (pre ++ b :: post))).
  { rewrite !contacts_mid. apply sub_app; [apply sub_refl |]. apply sub_app; [exact S | apply sub_refl]. }
  split; [| exact SS]. constructor.
  - eapply chain_replace; eauto.
  - apply Forall_mid in OK. destruct OK as (O1 & (R & L) & O3). apply Forall_mid.
    split; [exact O1 |]. split; [| exact O3]. split.
    + rewrite E1, E2. eapply sub_Forall; eauto.
    + apply sub_length in S. lia.
  - eapply NoDup_map_sub; eauto.
  - eapply NoDup_map_sub; eauto.
Qed.

(* ---------- remove_first ---------- *)
Lemma remove_first_perm f l x :
  In x l -> f x = true -> (forall y, In y l -> f y = true -> y = x) -> Permutation l (x :: remove_first f l).
Proof.
  induction l as [| a l IH]; cbn; [tauto |]. intros Hx Fx U.
  destruct (f a) eqn:Fa.
  - assert (a = x) by (apply U; auto). subst. reflexivity.
  - destruct Hx as [-> | Hx]; [congruence |].
    rewrite perm_swap. constructor. apply IH; auto.
Qed.

Lemma remove_first_not_in f l x :
  NoDup l -> In x l -> f x = true -> (forall y, In y l -> f y = true -> y = x) -> ~ In x (remove_first f l).
Proof.
  induction l as [| a l IH]; cbn; [tauto |]. intros N Hx Fx U. inversion N; subst.
  destruct (f a) eqn:Fa.
  - assert (a = x) by (apply U; auto). subst. assumption.
  - destruct Hx as [-> | Hx]; [congruence |]. cbn. intros [-> | H]; [congruence |].
    revert H. apply IH; auto.
Qed.

Lemma remove_first_keeps f l y : In y l -> f y = false -> In y (remove_first f l).
Proof.
  induction l as [| a l IH]; cbn; [tauto |]. intros [-> | H] Fy.
  - rewrite Fy. left. reflexivity.
  - destruct (f a); [assumption | right; auto].
Qed.

Lemma existsb_peer_eqb q l : existsb (peer_eqb q) l = true <-> In q l.
Proof.
  rewrite existsb_exists. split.
  - intros (x & Hx & E). apply peer_eqb_spec in E. subst. assumption.
  - intros H. exists q. split; [assumption | apply peer_eqb_refl].
Qed.

Lemma NoDup_app_inv {A} (a b : list A) :
  NoDup (a ++ b) -> NoDup a /\ NoDup b /\ (forall x, In x a -> In x b -> False).
Proof.
  induction a as [| x a IH]; cbn; intros N.
  - split; [constructor |]. split; [assumption | tauto].
  - inversion N; subst. destruct (IH H2) as (Na & Nb & D).
    split; [constructor; [intro; apply H1; apply in_or_app; auto | assumption] |].
    split; [assumption |]. intros y [-> | Hy] Hb; [apply H1; apply in_or_app; auto | eauto].
Qed.

(* ---------- remove_peer ---------- *)
Lemma remove_peer_spec own t q :
  WF own t -> dist own (pid q) < M ->
  exists t', remove_peer true own t q = Some t' /\ WF own t' /\ sub (contacts t') (contacts t) /\
             ~ In q (contacts t') /\ (forall x, In x (contacts t) -> x <> q -> In x (contacts t')).
Proof.
  intros W D. pose proof W as [C OK I Ky]. unfold remove_peer.
  destruct (find_bucket_chain own (pid q) 0 t M C) as (pre & b & post & F); [lia |].
  rewrite F. pose proof (find_bucket_some _ _ _ _ _ _ F) as (Et & R & Pre).
  destruct (existsb (peer_eqb q) (bpeers b)) eqn:Ex.
  - apply existsb_peer_eqb in Ex. subst t.
    destruct (wf_replace_sub own pre b (bucket_remove b q) post W eq_refl eq_refl (remove_first_sub _ _)) as (W' & S).
    eexists. split; [reflexivity |]. split; [apply join_wf; exact W' |].
    destruct W' as [C' OK' I' Ky'].
    rewrite (join_contacts own _ 0 M C' OK').
    split; [exact S |].
    assert (ND : NoDup (contacts (pre ++ b :: post))) by (eapply NoDup_map_NoDup; eauto).
    rewrite !contacts_mid in *.
    apply NoDup_app_inv in ND. destruct ND as (N1 & N23 & D1).
    apply NoDup_app_inv in N23. destruct N23 as (N2 & N3 & D2). split.
    + cbn [bucket_remove bpeers]. rewrite !in_app_iff. intros [H | [H | H]].
      * apply (D1 q H). apply in_or_app. auto.
      * revert H. apply remove_first_not_in; auto.
        -- apply peer_eqb_refl.
        -- intros y _ E. apply peer_eqb_spec in E. auto.
      * apply (D2 q Ex H).
    + intros x Hx Nx. cbn [bucket_remove bpeers]. rewrite !in_app_iff in Hx |- *. destruct Hx as [H | [H | H]]; auto.
      right. left. apply remove_first_keeps; [assumption |].
      destruct (peer_eqb q x) eqn:E; [| reflexivity]. apply peer_eqb_spec in E. congruence.
  - exists t. split; [reflexivity |]. split; [exact W |]. split; [apply sub_refl |]. split; [| auto].
    intros Hq. assert (In q (bpeers b)) by (eapply in_contacts_found; eauto).
    apply existsb_peer_eqb in H. congruence.
Qed.
