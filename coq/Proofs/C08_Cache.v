(* C08: the transaction cache never serves a transaction as verified unless its proof checks against
   the header the wallet holds NOW at that height -- for every sequence of operations. *)
From Coq Require Import NArith ZArith List Bool Lia.
From Coq.Strings Require Import Byte.
From LV Require Import Lib.Bytes Model.C08 Model.C08_Cache Proofs.C08.
Import ListNotations.

Section Cache.
Variable dsha : bytes -> bytes.

(* a stored item is sound w.r.t. a header list: if flagged verified, its height has a header there and
   the stored proof folds, from the hash of the stored bytes, to that header's root *)
Definition entry_ok (headers : list bytes) (e : centry) : Prop :=
  t_verified (c_st e) = true ->
  in_range headers (t_height (c_st e)) /\ proof_checks dsha headers (c_raw e) (t_height (c_st e)) (c_resp e).

Definition slot_ok (headers : list bytes) (kv : bytes * option centry) : Prop :=
  match snd kv with Some e => entry_ok headers e | None => True end.

Definition inv (s : wstate) : Prop := Forall (slot_ok (w_headers s)) (w_cache s).

Lemma lookup_ok headers c k e : Forall (slot_ok headers) c -> lookup k c = Some (Some e) -> entry_ok headers e.
Proof.
  induction c as [|[k' v] r IH]; intros H L; cbn [lookup] in L; [discriminate|].
  inversion H; subst. destruct (bytes_eqb k k').
  - inversion L; subst. assumption.
  - apply IH; assumption.
Qed.

Lemma upsert_ok headers c k v : Forall (slot_ok headers) c -> slot_ok headers (k, v) ->
  Forall (slot_ok headers) (upsert k v c).
Proof.
  induction c as [|[k' v'] r IH]; intros H Hv; cbn [upsert].
  - constructor; [exact Hv | constructor].
  - inversion H; subst. destruct (bytes_eqb k k'); constructor; auto.
Qed.

(* what maybe_verify produces from a fresh transaction is a sound item *)
Lemma fetched_entry_ok headers raw h arg net :
  entry_ok headers {| c_raw := raw; c_resp := effective arg net;
                      c_st := mv_state (maybe_verify dsha headers (fresh h) raw h arg net) |}.
Proof.
  unfold entry_ok. cbn [c_st c_raw c_resp]. intro Hv.
  rewrite height_recorded.
  apply (verified_iff dsha headers (fresh h) raw h arg net) in Hv; [exact Hv | reflexivity].
Qed.

Lemma request_inv s key raw h arg net : inv s -> inv (fst (request dsha s key raw h arg net)).
Proof.
  intro H. unfold request.
  destruct (lookup key (w_cache s)) as [[e|]|] eqn:L.
  - destruct (t_verified (c_st e)) eqn:V; [exact H|].
    destruct (mv_outcome _); cbn [fst]; unfold inv; cbn [w_headers w_cache];
      try (apply upsert_ok; [exact H | apply fetched_entry_ok]); rewrite ?L; exact H.
  - destruct (mv_outcome _); cbn [fst]; unfold inv; cbn [w_headers w_cache];
      try (apply upsert_ok; [exact H | apply fetched_entry_ok]); rewrite ?L; exact H.
  - destruct (mv_outcome _); cbn [fst]; unfold inv; cbn [w_headers w_cache];
      try (apply upsert_ok; [exact H | apply fetched_entry_ok]); rewrite ?L;
      apply upsert_ok; [exact H | exact I | exact H | exact I].
Qed.

(* appending headers keeps every existing height's header *)
Lemma in_range_app headers newh h : in_range headers h -> in_range (headers ++ newh) h.
Proof. unfold in_range. rewrite app_length, Nat2Z.inj_add. lia. Qed.

Lemma proof_checks_app headers newh raw h m : in_range headers h ->
  proof_checks dsha headers raw h m -> proof_checks dsha (headers ++ newh) raw h m.
Proof.
  intros Hr [brs [pos [br [A [B [C [D E]]]]]]]. exists brs, pos, br. repeat split; try assumption.
  rewrite app_nth1; [exact D|]. unfold in_range in Hr. lia.
Qed.

Lemma entry_ok_app headers newh e : entry_ok headers e -> entry_ok (headers ++ newh) e.
Proof.
  intros H V. destruct (H V) as [R P]. split; [apply in_range_app, R | apply proof_checks_app; assumption].
Qed.

Lemma step_inv s op : inv s -> inv (fst (step dsha s op)).
Proof.
  intro H. destruct op as [key raw h arg net | newh | fork newh | fork newh | ]; cbn [step].
  - pose proof (request_inv s key raw h arg net H) as R.
    destruct (request dsha s key raw h arg net). exact R.
  - cbn [fst]. unfold inv in *. cbn [w_headers w_cache].
    eapply Forall_impl; [|exact H]. intros [k [e|]] Hk; cbn [slot_ok snd] in *; [|exact I].
    apply entry_ok_app, Hk.
  - cbn [fst]. unfold inv. cbn [w_cache]. constructor.
  - cbn [fst]. unfold inv. cbn [w_cache]. constructor.
  - cbn [fst]. unfold inv. cbn [w_cache]. constructor.
Qed.

(* a restart changes nothing about the headers the wallet verifies against: they are the ones the last
   extension / reorganisation left, whether or not the chain length changed in that session *)
Lemma restart_keeps_headers s : w_headers (fst (step dsha s OpRestart)) = w_headers s.
Proof. reflexivity. Qed.

Lemma final_app s ops1 ops2 : final dsha s (ops1 ++ ops2) = final dsha (final dsha s ops1) ops2.
Proof.
  unfold final. revert s. induction ops1 as [|op r IH]; intro s; cbn [app run]; [reflexivity|].
  destruct (step dsha s op) as [s1 o]. specialize (IH s1).
  destruct (run dsha s1 (r ++ ops2)) as [s2 os]. destruct (run dsha s1 r) as [s3 os3]. exact IH.
Qed.

Theorem restart_after_any_history headers0 ops :
  w_headers (final dsha {| w_headers := headers0; w_cache := [] |} (ops ++ [OpRestart])) =
  w_headers (final dsha {| w_headers := headers0; w_cache := [] |} ops).
Proof. rewrite final_app. reflexivity. Qed.

(* in particular an equal-length reorganisation survives the restart *)
Theorem reorg_survives_restart headers0 ops fork newh :
  w_headers (final dsha {| w_headers := headers0; w_cache := [] |} (ops ++ [OpReorg fork newh; OpRestart])) =
  firstn fork (w_headers (final dsha {| w_headers := headers0; w_cache := [] |} ops)) ++ newh.
Proof. rewrite final_app. reflexivity. Qed.

Lemma run_inv : forall ops s, inv s -> inv (final dsha s ops).
Proof.
  unfold final. induction ops as [|op rest IH]; intros s H; cbn [run]; [exact H|].
  pose proof (step_inv s op H) as H1. destruct (step dsha s op) as [s1 o]. cbn [fst] in H1.
  specialize (IH s1 H1). destruct (run dsha s1 rest) as [s2 os]. exact IH.
Qed.

(* MAIN: after ANY sequence of requests, header extensions and reorganisations starting from an empty
   cache, a request answered from the cache returns a transaction whose stored proof checks against the
   header the wallet holds NOW at the transaction's height *)
Theorem cache_hit_sound headers0 ops key raw h arg net st :
  let s := final dsha {| w_headers := headers0; w_cache := [] |} ops in
  snd (request dsha s key raw h arg net) = Hit st ->
  t_verified st = true /\
  exists e, lookup key (w_cache s) = Some (Some e) /\ c_st e = st /\
            in_range (w_headers s) (t_height st) /\
            proof_checks dsha (w_headers s) (c_raw e) (t_height st) (c_resp e).
Proof.
  cbv zeta. set (s := final dsha _ ops).
  assert (Hinv : inv s) by (apply run_inv; constructor).
  unfold request.
  destruct (lookup key (w_cache s)) as [[e|]|] eqn:L.
  - destruct (t_verified (c_st e)) eqn:V.
    + cbn [snd]. intro E. inversion E; subst st. split; [exact V|].
      exists e. split; [reflexivity|]. split; [reflexivity|].
      apply (lookup_ok _ _ _ _ Hinv L V).
    + destruct (mv_outcome _); cbn [snd]; discriminate.
  - destruct (mv_outcome _); cbn [snd]; discriminate.
  - destruct (mv_outcome _); cbn [snd]; discriminate.
Qed.

(* whatever is returned flagged verified (hit or download) is verified against the current headers *)
Theorem request_verified_sound headers0 ops key raw h arg net :
  let s := final dsha {| w_headers := headers0; w_cache := [] |} ops in
  let s' := fst (request dsha s key raw h arg net) in
  forall e, lookup key (w_cache s') = Some (Some e) -> entry_ok (w_headers s') e.
Proof.
  cbv zeta. intros e L.
  assert (Hinv : inv (final dsha {| w_headers := headers0; w_cache := [] |} ops)) by (apply run_inv; constructor).
  apply (request_inv _ key raw h arg net) in Hinv.
  exact (lookup_ok _ _ _ _ Hinv L).
Qed.

(* completeness side (what seeded change C08-8 breaks): an item that is cached but NOT verified never
   answers a request -- the transaction is downloaded and verified again; with a genuine proof and the
   header now present it comes back verified *)
Theorem unverified_item_is_refetched s key raw h arg net e :
  lookup key (w_cache s) = Some (Some e) -> t_verified (c_st e) = false ->
  snd (request dsha s key raw h arg net) =
  Fetched (mv_state (maybe_verify dsha (w_headers s) (fresh h) raw h arg net))
          (mv_outcome (maybe_verify dsha (w_headers s) (fresh h) raw h arg net)).
Proof.
  intros L V. unfold request. rewrite L, V.
  destruct (mv_outcome _); reflexivity.
Qed.

Theorem genuine_request_verified s key raws idx h arg net r :
  (idx < length raws)%nat -> in_range (w_headers s) h ->
  merkle_root dsha (map dsha raws) = Some r ->
  header_root_raw (nth (Z.to_nat h) (w_headers s) []) = r ->
  effective arg net = {| m_merkle := Some (map wire (branch dsha (map dsha raws) idx));
                         m_pos := Some (Z.of_nat idx) |} ->
  match snd (request dsha s key (nth idx raws []) h arg net) with
  | Hit st => t_verified st = true
  | Fetched st out => t_verified st = true /\ t_height st = h /\ t_position st = Z.of_nat idx /\ out = RetTx
  end.
Proof.
  intros Hi Hr Hroot Hh He. unfold request.
  pose proof (genuine_verified dsha (w_headers s) (fresh h) raws idx h arg net r Hi Hr Hroot Hh He) as G.
  cbv zeta in G. destruct G as [G1 [G2 [G3 G4]]].
  destruct (lookup key (w_cache s)) as [[e|]|] eqn:L.
  - destruct (t_verified (c_st e)) eqn:V; [cbn [snd]; exact V|].
    rewrite G4. cbn [snd]. repeat split; assumption.
  - rewrite G4. cbn [snd]. repeat split; assumption.
  - rewrite G4. cbn [snd]. repeat split; assumption.
Qed.

End Cache.
