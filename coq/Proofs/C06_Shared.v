(* C06 lemmas, part 8: a single-address and a deterministic account of the same mnemonic in one database. *)
From Coq Require Import Arith NArith List Bool Lia.
From Coq.Strings Require Import Byte.
From LV Require Import Lib.Bytes Model.C06 Proofs.C06_Num Proofs.C06_Gap.
Import ListNotations.
Local Open Scope N_scope.

Lemma ensure_gap_appends addr_of g v : exists ext, fst (ensure_gap addr_of g v) = v ++ ext.
Proof.
  unfold ensure_gap. destruct (_ =? g)%nat; cbn [fst]; [exists []; rewrite app_nil_r; reflexivity | eexists; reflexivity].
Qed.

Section Shared.
  Variable addr_of : N -> bytes.
  Variable master_addr : bytes.

  Notation sstep := (sstep addr_of master_addr true).
  Notation srun := (srun addr_of master_addr true).

  Lemma rows_of_app single a b : rows_of single (a ++ b) = rows_of single a ++ rows_of single b.
  Proof. unfold rows_of. rewrite filter_app, map_app. reflexivity. Qed.

  Lemma rows_of_tagged single tag l : rows_of single (map (pair tag) l) = if Bool.eqb tag single then l else [].
  Proof.
    unfold rows_of. induction l as [|x r IH]; cbn [map filter fst]; [destruct (Bool.eqb tag single); reflexivity|].
    destruct (Bool.eqb tag single) eqn:E; cbn [map snd]; rewrite IH; reflexivity.
  Qed.

  (* with the depth filter, one step on the shared table is one step of the deterministic chain on its own rows *)
  Lemma sstep_hd_view t op :
    rows_of false (sstep t op) =
    match op with SHd o => gstep addr_of (rows_of false t) o | SSingleEnsure => rows_of false t end.
  Proof.
    destruct op as [[g|n k]|]; cbn [C06.sstep manager_view].
    - rewrite rows_of_app, rows_of_tagged. cbn [Bool.eqb gstep].
      destruct (ensure_gap_appends addr_of g (rows_of false t)) as [ext E]. rewrite E.
      rewrite skipn_app, skipn_all, Nat.sub_diag. reflexivity.
    - cbn [gstep]. unfold rows_of, set_used. induction t as [|[tag r] t IH]; [reflexivity|].
      cbn [map filter fst snd]. destruct (Bool.eqb tag false); cbn [map snd]; rewrite IH; reflexivity.
    - destruct (rows_of true t); [|reflexivity]. rewrite rows_of_app. cbn. rewrite app_nil_r. reflexivity.
  Qed.

  (* whatever single-address operations are interleaved, the deterministic account's receiving chain is exactly
     the chain it would have had alone: m/0/0, m/0/1, ... in order *)
  Theorem shared_hd_chain_unaffected ops : rows_of false (srun ops) = grun addr_of (hd_ops ops).
  Proof.
    unfold C06.srun, grun.
    assert (H : forall t, rows_of false (fold_left sstep ops t) = fold_left (gstep addr_of) (hd_ops ops) (rows_of false t)).
    { induction ops as [|op rest IH]; intro t; [reflexivity|].
      cbn [fold_left]. rewrite IH, sstep_hd_view. destruct op as [o|]; reflexivity. }
    apply H.
  Qed.

  Lemma sstep_single_view t op :
    rows_of true (sstep t op) = match op with
                                | SSingleEnsure => match rows_of true t with [] => [mk_row 0 master_addr 0] | v => v end
                                | SHd (GUse n k) => set_used (addr_of n) k (rows_of true t)
                                | SHd (GEnsure _) => rows_of true t
                                end.
  Proof.
    destruct op as [[g|n k]|]; cbn [C06.sstep manager_view].
    - rewrite rows_of_app, rows_of_tagged. cbn [Bool.eqb]. apply app_nil_r.
    - unfold rows_of, set_used. induction t as [|[tag r] t IH]; [reflexivity|].
      cbn [map filter fst snd]. destruct (Bool.eqb tag true); cbn [map snd]; rewrite IH; reflexivity.
    - destruct (rows_of true t) eqn:E; [|exact E]. rewrite rows_of_app, E. reflexivity.
  Qed.

  (* the single-address account lists at most its one address, the account key's own, whatever the other account does *)
  Theorem shared_single_chain ops :
    map r_addr (rows_of true (srun ops)) = [] \/ map r_addr (rows_of true (srun ops)) = [master_addr].
  Proof.
    unfold C06.srun.
    assert (H : forall t, (map r_addr (rows_of true t) = [] \/ map r_addr (rows_of true t) = [master_addr]) ->
                map r_addr (rows_of true (fold_left sstep ops t)) = [] \/
                map r_addr (rows_of true (fold_left sstep ops t)) = [master_addr]).
    { induction ops as [|op rest IH]; intros t Ht; [exact Ht|]. cbn [fold_left]. apply IH.
      rewrite sstep_single_view. destruct op as [[g|n k]|].
      - exact Ht.
      - assert (E : map r_addr (set_used (addr_of n) k (rows_of true t)) = map r_addr (rows_of true t)).
        { unfold set_used. rewrite map_map. apply map_ext. intro r. destruct (bytes_eqb _ _); reflexivity. }
        rewrite E. exact Ht.
      - destruct (rows_of true t); [right; reflexivity | exact Ht]. }
    apply H. left. reflexivity.
  Qed.
End Shared.

(* ------------------------------------------------------------------ the code as it is (no depth filter) *)
Section AsIs.
  Variable addr_of : N -> bytes.
  Variable master_addr : bytes.
  Notation sstep0 := (C06.sstep addr_of master_addr false).
  Notation srun0 := (C06.srun addr_of master_addr false).

  Definition addrs (t : list srow) : list bytes := map (fun x => r_addr (snd x)) t.

  (* every step only appends rows; addresses already stored stay where they are *)
  Lemma sstep0_appends t op : exists ext, addrs (sstep0 t op) = addrs t ++ ext.
  Proof.
    destruct op as [[g|n k]|]; cbn [C06.sstep manager_view].
    - unfold addrs. rewrite map_app. eexists. reflexivity.
    - exists []. rewrite app_nil_r. unfold addrs. rewrite map_map. apply map_ext.
      intros [tag r]. cbn [fst snd]. destruct (bytes_eqb _ _); reflexivity.
    - destruct (map snd t); [|exists []; rewrite app_nil_r; reflexivity].
      unfold addrs. rewrite map_app. eexists. reflexivity.
  Qed.

  (* both managers look at the same rows *)
  Lemma manager_view_same t : manager_view false true t = manager_view false false t.
  Proof. reflexivity. Qed.

  (* known finding, in general form: once the single-address account has stored its row first, the first record every
     manager of that account id sees on chain 0 -- the deterministic account's "first receiving address" -- is the
     account key's own address, whatever happens afterwards *)
  Theorem shared_as_is_single_first ops single :
    hd_error (map r_addr (manager_view false single (srun0 (SSingleEnsure :: ops)))) = Some master_addr.
  Proof.
    unfold C06.srun. cbn [fold_left C06.sstep manager_view map app].
    assert (H : forall t, hd_error (addrs t) = Some master_addr ->
                hd_error (addrs (fold_left sstep0 ops t)) = Some master_addr).
    { induction ops as [|op rest IH]; intros t Ht; [exact Ht|]. cbn [fold_left]. apply IH.
      destruct (sstep0_appends t op) as [ext E]. rewrite E. destruct (addrs t); [discriminate | exact Ht]. }
    specialize (H [(true, mk_row 0 master_addr 0)] eq_refl).
    unfold manager_view, addrs in *. rewrite map_map. exact H.
  Qed.

  (* and the single-address manager never stores its key once any row is there: after a deterministic ensure with a
     positive gap first, the single-address account's view is the deterministic chain *)
  Theorem shared_as_is_hd_first g : (0 < g)%nat ->
    manager_view false true (srun0 [SHd (GEnsure g); SSingleEnsure]) = manager_view false false (srun0 [SHd (GEnsure g)])
    /\ manager_view false false (srun0 [SHd (GEnsure g)]) = fst (ensure_gap addr_of g []).
  Proof.
    intro Hg. unfold C06.srun. cbn [fold_left C06.sstep manager_view map app length skipn].
    destruct (fst (ensure_gap addr_of g [])) as [|r0 rest] eqn:E.
    - exfalso. unfold ensure_gap in E. cbn in E. destruct g; [lia|]. cbn in E. discriminate.
    - cbn [map snd]. split; [|rewrite map_map; cbn [snd]; rewrite map_id; reflexivity].
      rewrite map_map. cbn [snd]. rewrite map_id. reflexivity.
  Qed.
End AsIs.
