(* C17 proofs, part 8: the largest replies the node produces fit MSG_SIZE_LIMIT (they are sent, not refused). No axioms. *)
From Coq Require Import String.
From Coq Require Import NArith ZArith List Bool Lia.
From Coq.Strings Require Import Byte.
From LV Require Import Lib.Bytes Lib.Decimal Model.C17 Proofs.C17_Int Proofs.C17_Bencode Proofs.C17_Msg.
Import ListNotations.

Definition MSG_SIZE_LIMIT : nat := 1400.

Lemma dec_of_N_length n k : (n < 10 ^ N.of_nat k)%N -> (1 <= k)%nat -> (length (dec_of_N n) <= k)%nat.
Proof. intros H Hk. unfold dec_of_N. rewrite map_length. apply digits_length_bound; assumption. Qed.

Lemma dec_of_Z_length z k : (0 <= z < 10 ^ Z.of_nat k)%Z -> (1 <= k)%nat -> (length (dec_of_Z z) <= k)%nat.
Proof.
  intros [H0 H1] Hk.
  assert (Hn : (Z.to_N z < 10 ^ N.of_nat k)%N).
  { apply N2Z.inj_lt. rewrite Z2N.id by lia. rewrite N2Z.inj_pow. rewrite nat_N_Z. exact H1. }
  destruct z as [|p|p]; cbn [dec_of_Z]; try lia.
  - apply (dec_of_N_length 0); [|exact Hk]. apply N.lt_le_trans with (10 ^ N.of_nat 1)%N; [vm_compute; reflexivity|].
    apply N.pow_le_mono_r; lia.
  - apply dec_of_N_length; [|exact Hk]. exact Hn.
Qed.

Lemma len_int z : length (benc (BInt z)) = (2 + length (dec_of_Z z))%nat.
Proof. cbn [benc length]. rewrite app_length. cbn [length]. lia. Qed.

Lemma len_str s : length (benc (BStr s)) = (length (dec_of_N (blen s)) + 1 + length s)%nat.
Proof. cbn [benc]. rewrite app_length. cbn [length]. lia. Qed.

Lemma len_str_small s k : (length s = k)%nat -> (k < 100)%nat -> (length (benc (BStr s)) <= 3 + k)%nat.
Proof.
  intros H Hk. rewrite len_str. unfold blen. rewrite H.
  assert (length (dec_of_N (N.of_nat k)) <= 2)%nat.
  { apply dec_of_N_length; [|lia]. change (10 ^ N.of_nat 2)%N with 100%N. lia. }
  lia.
Qed.

Lemma len_str_le s k : (length s <= k)%nat -> (k < 100)%nat -> (length (benc (BStr s)) <= 3 + k)%nat.
Proof.
  intros H Hk. rewrite len_str. unfold blen.
  assert (length (dec_of_N (N.of_nat (length s))) <= 2)%nat.
  { apply dec_of_N_length; [|lia]. change (10 ^ N.of_nat 2)%N with 100%N. lia. }
  lia.
Qed.

Lemma len_list l : length (benc (BList l)) = (2 + length (concat (map benc l)))%nat.
Proof. rewrite benc_BList. cbn [length]. rewrite app_length. cbn [length]. lia. Qed.

Lemma insert_item_total p l :
  length (concat (map snd (insert_item p l))) = (length (snd p) + length (concat (map snd l)))%nat.
Proof.
  induction l as [|q r IH]; cbn [insert_item map concat]; [rewrite app_length; reflexivity|].
  destruct (key_leb (fst p) (fst q)); cbn [map concat]; rewrite !app_length; [reflexivity|].
  rewrite IH. lia.
Qed.

Lemma sort_items_total l : length (concat (map snd (sort_items l))) = length (concat (map snd l)).
Proof.
  induction l as [|p r IH]; [reflexivity|]. cbn [sort_items map concat].
  rewrite insert_item_total, app_length, IH. reflexivity.
Qed.

(* the length of an encoded dictionary does not depend on the order of its items *)
Lemma len_dict d : length (benc (BDict d)) = (2 + length (benc_items d))%nat.
Proof.
  rewrite benc_BDict_gen. cbn [length]. rewrite app_length. cbn [length]. rewrite sort_items_total.
  unfold benc_items. rewrite map_map.
  replace (map (fun x : bval * bval => snd (enc_pair x)) d) with (map (fun p : bval * bval => benc (fst p) ++ benc (snd p)) d).
  - lia.
  - apply map_ext. intros [k x]. reflexivity.
Qed.

Lemma concat_bound {A} (f : A -> list byte) (c : nat) (l : list A) :
  Forall (fun x => (length (f x) <= c)%nat) l -> (length (concat (map f l)) <= c * length l)%nat.
Proof.
  induction 1 as [|x r Hx Hr IH]; cbn [map concat length]; [lia|]. rewrite app_length. lia.
Qed.

Definition contact_small (c : bytes * bytes * Z) : Prop :=
  match c with (id, addr, port) => length id = 48%nat /\ (length addr <= 15)%nat /\ (0 <= port < 65536)%Z end.

Lemma len_contact c : contact_small c -> (length (benc (contact_val c)) <= 78)%nat.
Proof.
  destruct c as [[id addr] port]. intros (H1 & H2 & H3). cbn [contact_val]. rewrite len_list.
  cbn [map concat]. rewrite !app_length. cbn [length].
  pose proof (len_str_small id 48 H1 ltac:(lia)). pose proof (len_str_le addr 15 H2 ltac:(lia)).
  rewrite len_int. pose proof (dec_of_Z_length port 5 ltac:(change (10 ^ Z.of_nat 5)%Z with 100000%Z; lia) ltac:(lia)).
  lia.
Qed.

Definition find_value_payload (token key : bytes) (contacts : list (bytes * bytes * Z)) (peers : list bytes) (pages : Z) : bval :=
  BDict [(BStr (lit "token"), BStr token); (BStr (lit "contacts"), contacts_val contacts); (PV, BInt 1);
         (PAGE_KEY, BInt pages); (BStr key, peers_val peers)].

(* The largest first page of a findValue reply -- K = 8 contacts with 15-character addresses and 5-digit ports, 8
   compact peer addresses, the token, a page count below 10^6 -- is at most 1328 bytes: it fits MSG_SIZE_LIMIT (1400),
   so _send does not refuse it (and it does NOT fit 1232, the limit of the seeded change). *)
Theorem largest_reply_fits rpc node token key contacts peers pages :
  length rpc = 20%nat -> length node = 48%nat -> length token = 48%nat -> length key = 48%nat ->
  (length contacts <= 8)%nat -> Forall contact_small contacts ->
  (length peers <= 8)%nat -> Forall (fun p => length p = 54%nat) peers -> (0 <= pages < 1000000)%Z ->
  (length (encode_message (Response rpc node (find_value_payload token key contacts peers pages))) <= 1328)%nat.
Proof.
  intros Hr Hn Ht Hk Hc Hcs Hp Hps Hpg. unfold encode_message. cbn [value_of_message].
  rewrite len_dict. unfold benc_items. cbn [map concat fst snd]. rewrite !app_length. cbn [length].
  rewrite !len_int.
  pose proof (len_str_small rpc 20 Hr ltac:(lia)). pose proof (len_str_small node 48 Hn ltac:(lia)).
  replace (length (dec_of_Z 0)) with 1%nat by (vm_compute; reflexivity).
  replace (length (dec_of_Z 1)) with 1%nat by (vm_compute; reflexivity).
  replace (length (dec_of_Z 2)) with 1%nat by (vm_compute; reflexivity).
  replace (length (dec_of_Z 3)) with 1%nat by (vm_compute; reflexivity).
  unfold find_value_payload. rewrite len_dict. unfold benc_items. cbn [map concat fst snd]. rewrite !app_length. cbn [length].
  unfold PV, PAGE_KEY. rewrite !len_int.
  replace (length (dec_of_Z 1)) with 1%nat by (vm_compute; reflexivity).
  replace (length (benc (BStr (lit "token")))) with 7%nat by (vm_compute; reflexivity).
  replace (length (benc (BStr (lit "contacts")))) with 10%nat by (vm_compute; reflexivity).
  replace (length (benc (BStr s_protocolVersion))) with 18%nat by (vm_compute; reflexivity).
  replace (length (benc (BStr s_p))) with 3%nat by (vm_compute; reflexivity).
  pose proof (len_str_small token 48 Ht ltac:(lia)). pose proof (len_str_small key 48 Hk ltac:(lia)).
  pose proof (dec_of_Z_length pages 6 ltac:(change (10 ^ Z.of_nat 6)%Z with 1000000%Z; lia) ltac:(lia)).
  unfold contacts_val, peers_val. rewrite !len_list. rewrite !map_map.
  pose proof (concat_bound (fun c => benc (contact_val c)) 78 contacts
                (Forall_impl _ (fun c H => len_contact c H) Hcs)) as Hcc.
  assert (Hpp : (length (concat (map (fun s => benc (BStr s)) peers)) <= 57 * length peers)%nat).
  { apply concat_bound. eapply Forall_impl; [|exact Hps]. intros s Hs. apply (len_str_small s 54 Hs). lia. }
  unfold bytes in *. lia.
Qed.

Corollary largest_reply_within_limit rpc node token key contacts peers pages :
  length rpc = 20%nat -> length node = 48%nat -> length token = 48%nat -> length key = 48%nat ->
  (length contacts <= 8)%nat -> Forall contact_small contacts ->
  (length peers <= 8)%nat -> Forall (fun p => length p = 54%nat) peers -> (0 <= pages < 1000000)%Z ->
  (length (encode_message (Response rpc node (find_value_payload token key contacts peers pages))) <= MSG_SIZE_LIMIT)%nat.
Proof. intros. unfold MSG_SIZE_LIMIT. pose proof (largest_reply_fits rpc node token key contacts peers pages). lia. Qed.
