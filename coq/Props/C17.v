(* C17 property theorems: statements only, each closed by [exact]. *)
From Coq Require Import String.
From Coq Require Import NArith ZArith List Bool.
From Coq.Strings Require Import Byte.
From LV Require Import Lib.Bytes Lib.Decimal Model.C17 Proofs.C17_Int Proofs.C17_Bencode Proofs.C17_Msg Proofs.C17_Prefix Proofs.C17_Total Proofs.C17_Request Proofs.C17_LRU Proofs.C17_Size.
Import ListNotations.
Local Open Scope N_scope.

(* Python's int() reads back every integer that '%d' can print (at most 4300 digits: NBOUND = 10^4300). *)
Theorem C17_int_roundtrip : forall z : Z, (Z.abs z < Z.of_N NBOUND)%Z -> py_int_of_bytes (dec_of_Z z) = Some z.
Proof. exact py_int_dec_of_Z. Qed.
Print Assumptions C17_int_roundtrip.

Theorem C17_int_bound : NBOUND = 10 ^ N.of_nat 4300.
Proof. exact NBOUND_eq. Qed.
Print Assumptions C17_int_bound.

(* One call of _bdecode on bencode(v) followed by ANY bytes T returns v and leaves exactly T, for EVERY value
   (dictionaries and lists nested anywhere; [wfv] only asks what Python itself needs: integers and lengths within
   the 4300 digit limit, int / bytes keys listed in key order without repetition), any nesting depth within the
   bound, any loop budget at least the encoding's length. *)
Theorem C17_bdecode_bencode : forall v, wfv v -> forall steps depth T,
  (depth_of v <= depth)%nat -> (length (benc v) <= steps)%nat ->
  bdec steps depth (benc v ++ T) = Ok (v, T).
Proof. exact bdec_benc. Qed.
Print Assumptions C17_bdecode_bencode.

(* decode_datagram (encode m) = m for ALL well-formed requests (ping/store/findNode/findValue), responses
   (any payload in [wfv], nested dictionaries included: contact lists of any length, peer pages, findValue dictionaries, tokens) and errors
   (any valid UTF-8 texts), for every nesting bound that covers the message. *)
Theorem C17_message_roundtrip : forall fuel m,
  wf_message m -> (message_depth m <= fuel)%nat ->
  decode_datagram fuel (encode_message m) = inl (raw_of_message m).
Proof. exact decode_encode_message. Qed.
Print Assumptions C17_message_roundtrip.

(* Truncated datagrams are dropped: EVERY proper prefix of the datagram of a well-formed message (any request,
   response payload, error) is rejected by decode_datagram -- in particular the datagram without its last byte
   (which the decoder accepted before fix 67aa5e2). *)
Theorem C17_truncation_is_rejected : forall fuel m k,
  wf_message m -> (message_depth m <= fuel)%nat -> (k < length (encode_message m))%nat ->
  exists e, decode_datagram fuel (firstn k (encode_message m)) = inr e.
Proof. exact truncated_message_rejected. Qed.
Print Assumptions C17_truncation_is_rejected.

Theorem C17_last_byte_cut_is_rejected : forall fuel m,
  wf_message m -> (message_depth m <= fuel)%nat ->
  exists e, decode_datagram fuel (removelast (encode_message m)) = inr e.
Proof. exact last_byte_cut_rejected. Qed.
Print Assumptions C17_last_byte_cut_is_rejected.

(* the same one level down: on a proper prefix of bencode(v) the decoder fails, or (a cut-off string, read as a
   shorter one) swallows everything so that the enclosing loop fails; for lists and dictionaries it always fails *)
Theorem C17_bdecode_prefix : forall v, wfv v -> forall steps depth p q,
  p ++ q = benc v -> q <> [] -> (depth_of v <= depth)%nat -> (length p <= steps)%nat ->
  match v with
  | BList _ | BDict _ => is_err (bdec steps depth p)
  | _ => stuck (bdec steps depth p)
  end.
Proof. exact bdec_prefix. Qed.
Print Assumptions C17_bdecode_prefix.

(* instances: every request and every error needs nesting 4 resp. 2; contact lists and peer pages of ANY length *)
Theorem C17_request_roundtrip : forall fuel rpc node r,
  blen rpc = 20 -> blen node = 48 -> request_ok r -> (4 <= fuel)%nat ->
  decode_datagram fuel (encode_message (Request rpc node r))
  = inl (RReq rpc node (BStr (method_of r)) (BList (args_of node r))).
Proof. exact request_roundtrip. Qed.
Print Assumptions C17_request_roundtrip.

Theorem C17_error_roundtrip : forall fuel rpc node et tx,
  blen rpc = 20 -> blen node = 48 -> small et -> small tx -> utf8_valid et = true -> utf8_valid tx = true ->
  (2 <= fuel)%nat ->
  decode_datagram fuel (encode_message (Error rpc node et tx)) = inl (RErr rpc node et tx).
Proof. exact error_roundtrip. Qed.
Print Assumptions C17_error_roundtrip.

Theorem C17_contacts_response_roundtrip : forall fuel rpc node (l : list (bytes * bytes * Z)),
  blen rpc = 20 -> blen node = 48 -> Forall contact_ok l -> (4 <= fuel)%nat ->
  decode_datagram fuel (encode_message (Response rpc node (contacts_val l))) = inl (RResp rpc node (contacts_val l)).
Proof. exact contacts_roundtrip. Qed.
Print Assumptions C17_contacts_response_roundtrip.

Theorem C17_peers_response_roundtrip : forall fuel rpc node (l : list bytes),
  blen rpc = 20 -> blen node = 48 -> Forall small l -> (3 <= fuel)%nat ->
  decode_datagram fuel (encode_message (Response rpc node (peers_val l))) = inl (RResp rpc node (peers_val l)).
Proof. exact peers_roundtrip. Qed.
Print Assumptions C17_peers_response_roundtrip.

(* The code-shaped encoder (pre-encodes the pairs, insertion-sorts them by key) agrees with a plain structural
   reference encoder on every value whose dictionaries are listed in key order, hence on every message. *)
Theorem C17_reference_agrees_values : forall v, canonical v -> benc v = ref_benc v.
Proof. exact benc_ref. Qed.
Print Assumptions C17_reference_agrees_values.

Theorem C17_reference_agrees : forall m, wf_message m -> encode_message m = ref_benc (value_of_message m).
Proof. exact encode_message_ref. Qed.
Print Assumptions C17_reference_agrees.

(* and the order in which a dictionary's items are listed does not matter to the encoder *)
Theorem C17_encoding_ignores_dict_order : forall d d',
  Permutation.Permutation d d' -> keys_nodup d -> Forall (fun p => hashable (fst p) = true) d ->
  benc (BDict d) = benc (BDict d').
Proof. exact benc_dict_perm. Qed.
Print Assumptions C17_encoding_ignores_dict_order.

(* byte-for-byte wire layout *)
Theorem C17_ping_layout : forall rpc node, blen rpc = 20 -> blen node = 48 ->
  encode_message (Request rpc node Ping)
  = lit "di0ei0ei1e20:" ++ rpc ++ lit "i2e48:" ++ node ++ lit "i3e4:pingi4eld15:protocolVersioni1eeee".
Proof. exact ping_layout. Qed.
Print Assumptions C17_ping_layout.

Theorem C17_find_node_layout : forall rpc node key, blen rpc = 20 -> blen node = 48 -> blen key = 48 ->
  encode_message (Request rpc node (FindNode key))
  = lit "di0ei0ei1e20:" ++ rpc ++ lit "i2e48:" ++ node ++ lit "i3e8:findNodei4el48:" ++ key
    ++ lit "d15:protocolVersioni1eeee".
Proof. exact find_node_layout. Qed.
Print Assumptions C17_find_node_layout.

(* compact addresses: make then decode, and decode then make *)
Theorem C17_compact_address_roundtrip : forall node a b c d port,
  blen node = 48 -> (0 < port < 65536)%Z ->
  make_compact_address node (dotted a b c d) port = Ok ([a; b; c; d] ++ be_encode 2 (Z.to_N port) ++ node)
  /\ decode_compact_address ([a; b; c; d] ++ be_encode 2 (Z.to_N port) ++ node) = Ok (node, dotted a b c d, port).
Proof. exact compact_address_roundtrip. Qed.
Print Assumptions C17_compact_address_roundtrip.

Theorem C17_compact_address_decode_make : forall ca node addr port,
  decode_compact_address ca = Ok (node, addr, port) -> make_compact_address node addr port = Ok ca.
Proof. exact compact_address_decode_make. Qed.
Print Assumptions C17_compact_address_decode_make.

(* Garbage is dropped: for ALL byte strings and nesting bounds, whenever decoding fails (with whatever error),
   the handler's effect is exactly one failure recorded for the sender; routing table, data store and
   everything else are unchanged -- whatever the handlers for decoded messages do. *)
Theorem C17_garbage_is_dropped :
  forall (Routing Store Other Addr : Type)
         (process : node_state Routing Store Other Addr -> Addr -> rawmsg -> node_state Routing Store Other Addr)
         fuel st sender data e,
  decode_datagram fuel data = inr e ->
  let st' := datagram_received Routing Store Other Addr process fuel st sender data in
  routing _ _ _ _ st' = routing _ _ _ _ st /\ store _ _ _ _ st' = store _ _ _ _ st
  /\ other _ _ _ _ st' = other _ _ _ _ st /\ failures _ _ _ _ st' = sender :: failures _ _ _ _ st.
Proof. exact garbage_dropped. Qed.
Print Assumptions C17_garbage_is_dropped.

(* ... and for every SEQUENCE of undecodable datagrams from any senders *)
Theorem C17_garbage_sequences_are_dropped :
  forall (Routing Store Other Addr : Type)
         (process : node_state Routing Store Other Addr -> Addr -> rawmsg -> node_state Routing Store Other Addr)
         fuel (l : list (Addr * bytes)) st,
  Forall (fun p => exists e, decode_datagram fuel (snd p) = inr e) l ->
  let st' := receive_all Routing Store Other Addr process fuel st l in
  routing _ _ _ _ st' = routing _ _ _ _ st /\ store _ _ _ _ st' = store _ _ _ _ st
  /\ other _ _ _ _ st' = other _ _ _ _ st /\ failures _ _ _ _ st' = rev (map fst l) ++ failures _ _ _ _ st.
Proof. exact garbage_sequence_dropped. Qed.
Print Assumptions C17_garbage_sequences_are_dropped.

(* The decoder is total and its own loop budget is never the reason for an answer: on every byte string and
   every nesting bound it returns a message or one of the seven Python error classes that the handler catches. *)
Theorem C17_decoder_total : forall fuel data,
  match decode_datagram fuel data with
  | inl _ => True
  | inr e => e <> EInternal
  end.
Proof. exact decode_never_internal. Qed.
Print Assumptions C17_decoder_total.

(* What can be accepted at all: a dictionary (first byte 'd') whose ids are byte strings of 20 and 48 bytes,
   and whose error texts are valid UTF-8. *)
Theorem C17_accepted_header : forall fuel data m,
  decode_datagram fuel data = inl m ->
  blen (raw_rpc m) = 20 /\ blen (raw_node m) = 48
  /\ match m with RErr _ _ et tx => utf8_valid et = true /\ utf8_valid tx = true | _ => True end.
Proof. exact accepted_header. Qed.
Print Assumptions C17_accepted_header.

Theorem C17_accepted_starts_with_d : forall fuel data m,
  decode_datagram fuel data = inl m -> exists rest, data = c_d :: rest.
Proof. exact accepted_first_byte. Qed.
Print Assumptions C17_accepted_starts_with_d.

(* hence every datagram that does not start with 'd' is dropped: one failure for the sender, nothing else *)
Theorem C17_non_dictionary_is_dropped :
  forall (Routing Store Other Addr : Type)
         (process : node_state Routing Store Other Addr -> Addr -> rawmsg -> node_state Routing Store Other Addr)
         fuel st sender data,
  (forall rest, data <> c_d :: rest) ->
  let st' := datagram_received Routing Store Other Addr process fuel st sender data in
  routing _ _ _ _ st' = routing _ _ _ _ st /\ store _ _ _ _ st' = store _ _ _ _ st
  /\ other _ _ _ _ st' = other _ _ _ _ st /\ failures _ _ _ _ st' = sender :: failures _ _ _ _ st.
Proof. exact non_dictionary_dropped. Qed.
Print Assumptions C17_non_dictionary_is_dropped.

(* Decodes-but-invalid requests: for ALL byte strings, own ids, nesting bounds and whatever the abstract parts of
   the node do (which addresses can be contacts, reply transport, serving of VALID requests, response/error
   handling): a datagram that cannot be decoded, or that decodes to a request that is not a valid protocol request
   (unknown method, wrong arity, wrong key / hash length, bad store arguments, our own id, ...), never changes the
   routing component (table, queued additions/removals, ping queue) or the data store, and EXACTLY one failure is
   recorded for the address the datagram came from (fix 037dcb4: not for a routing-table contact that merely
   shares the node id, and also when that address cannot be a contact). *)
Theorem C17_invalid_request_never_changes_routing :
  forall (Routing Store Other Addr : Type) (usable : Addr -> bool)
         (note_request : Other -> Addr -> Other) (error_reply : Other -> Addr -> rawmsg -> Other)
         (serve process_other : node_state Routing Store Other Addr -> Addr -> rawmsg -> node_state Routing Store Other Addr)
         own fuel st sender data,
  match decode_datagram fuel data with
  | inr _ => True
  | inl m => is_request m = true /\ request_valid own m = false
  end ->
  let st' := node_receive Routing Store Other Addr usable note_request error_reply serve process_other
                          own fuel st sender data in
  routing _ _ _ _ st' = routing _ _ _ _ st /\ store _ _ _ _ st' = store _ _ _ _ st
  /\ failures _ _ _ _ st' = sender :: failures _ _ _ _ st.
Proof. exact not_a_valid_request_leaves_routing. Qed.
Print Assumptions C17_invalid_request_never_changes_routing.

(* what is (in)valid: unknown or non-bytes method, our own node id, a key that is not 48 bytes; and every request
   the protocol's own constructors build for another node is valid *)
Theorem C17_unknown_method_invalid : forall own rpc node method args,
  bytes_eqb method s_ping = false -> bytes_eqb method s_store = false ->
  bytes_eqb method s_findNode = false -> bytes_eqb method s_findValue = false ->
  request_valid own (RReq rpc node (BStr method) args) = false.
Proof. exact unknown_method_invalid. Qed.
Print Assumptions C17_unknown_method_invalid.

Theorem C17_own_id_invalid : forall own rpc method args, request_valid own (RReq rpc own method args) = false.
Proof. exact own_id_invalid. Qed.
Print Assumptions C17_own_id_invalid.

Theorem C17_short_key_invalid : forall own rpc node key rest, blen key <> 48 ->
  request_valid own (RReq rpc node (BStr s_findNode) (BList (BStr key :: rest ++ [pv_dict]))) = false
  /\ request_valid own (RReq rpc node (BStr s_findValue) (BList (BStr key :: rest ++ [pv_dict]))) = false.
Proof. exact short_key_invalid. Qed.
Print Assumptions C17_short_key_invalid.

Theorem C17_protocol_requests_valid : forall own rpc node r,
  node <> own -> request_servable r -> request_valid own (raw_of_message (Request rpc node r)) = true.
Proof. exact protocol_requests_valid. Qed.
Print Assumptions C17_protocol_requests_valid.

(* The error reply: cutting a text after n CHARACTERS keeps it valid UTF-8 (a cut after n bytes does not), so the
   text echoed for an unknown method of any length -- 'Invalid method: <name>' cut to 256 characters -- always
   builds a decodable ErrorDatagram of at most 1024 text bytes. *)
Theorem C17_truncation_by_characters_keeps_utf8 : forall n s, utf8_valid s = true -> utf8_valid (utf8_take n s) = true.
Proof. exact utf8_take_valid. Qed.
Print Assumptions C17_truncation_by_characters_keeps_utf8.

Theorem C17_error_text_is_valid_utf8 : forall method,
  utf8_valid method = true ->
  utf8_valid (invalid_method_text method) = true
  /\ (length (invalid_method_text method) <= 1024)%nat
  /\ exists t, s_invalid_method ++ method = invalid_method_text method ++ t.
Proof. exact invalid_method_text_ok. Qed.
Print Assumptions C17_error_text_is_valid_utf8.

(* "With the sender's failure recorded" on a long-running node: the failure records live in lbry.utils.LRUCache
   (capacity CACHE_SIZE = 16384).  For every capacity and every table, however full: the key that was just set is
   present with its value; the capacity is respected; unless the oldest entry had to make room every other key
   keeps its value; hence report_failure always leaves a record (previous newest, now) for the sender. *)
Theorem C17_lru_set_keeps_the_new_entry :
  forall (K V : Type) (keqb : K -> K -> bool), (forall a b, keqb a b = true <-> a = b) ->
  forall cap (c : lru K V) k v, lru_peek K V keqb (lru_set K V keqb cap c k v) k = Some v.
Proof. exact lru_set_peek. Qed.
Print Assumptions C17_lru_set_keeps_the_new_entry.

Theorem C17_lru_capacity_respected :
  forall (K V : Type) (keqb : K -> K -> bool), (forall a b, keqb a b = true <-> a = b) ->
  forall cap (c : lru K V) k v, (1 <= cap)%nat -> (length c <= cap)%nat ->
  (length (lru_set K V keqb cap c k v) <= cap)%nat.
Proof. exact lru_set_length. Qed.
Print Assumptions C17_lru_capacity_respected.

Theorem C17_lru_other_keys_kept :
  forall (K V : Type) (keqb : K -> K -> bool), (forall a b, keqb a b = true <-> a = b) ->
  forall cap (c : lru K V) k v k', k' <> k ->
  (lru_has K V keqb c k = true \/ (length c < cap)%nat) ->
  lru_peek K V keqb (lru_set K V keqb cap c k v) k' = lru_peek K V keqb c k'.
Proof. exact lru_set_other. Qed.
Print Assumptions C17_lru_other_keys_kept.

Theorem C17_failure_recorded_in_a_full_table :
  forall (K : Type) (keqb : K -> K -> bool), (forall a b, keqb a b = true <-> a = b) ->
  forall cap (c : lru K (option N * option N)) addr now,
  lru_peek K _ keqb (report_failure keqb cap c addr now) addr
  = Some (match lru_peek K _ keqb c addr with Some (_, last) => last | None => None end, Some now).
Proof. exact report_failure_recorded. Qed.
Print Assumptions C17_failure_recorded_in_a_full_table.

Theorem C17_failure_table_bounded :
  forall (K : Type) (keqb : K -> K -> bool), (forall a b, keqb a b = true <-> a = b) ->
  forall cap (c : lru K (option N * option N)) addr now,
  (1 <= cap)%nat -> (length c <= cap)%nat -> (length (report_failure keqb cap c addr now) <= cap)%nat.
Proof. exact report_failure_bounded. Qed.
Print Assumptions C17_failure_table_bounded.

(* "Every ... response ... encodes to a datagram": the largest reply the node produces -- the first findValue page
   with K = 8 contacts (15-character addresses, 5-digit ports), 8 compact peer addresses, the token and a page count
   below 10^6 -- is at most 1328 bytes, within MSG_SIZE_LIMIT = 1400, so KademliaProtocol._send does not refuse it. *)
Theorem C17_largest_reply_fits : forall rpc node token key contacts peers pages,
  length rpc = 20%nat -> length node = 48%nat -> length token = 48%nat -> length key = 48%nat ->
  (length contacts <= 8)%nat -> Forall contact_small contacts ->
  (length peers <= 8)%nat -> Forall (fun p => length p = 54%nat) peers -> (0 <= pages < 1000000)%Z ->
  (length (encode_message (Response rpc node (find_value_payload token key contacts peers pages))) <= MSG_SIZE_LIMIT)%nat.
Proof. exact largest_reply_within_limit. Qed.
Print Assumptions C17_largest_reply_fits.

(* every ASCII text is a valid error text *)
Theorem C17_ascii_is_utf8 : forall s, Forall (fun b => N_of_byte b <= 127) s -> utf8_valid s = true.
Proof. exact ascii_utf8. Qed.
Print Assumptions C17_ascii_is_utf8.

(* the defect repaired by 774587f, on the model of the OLD validation: a list of 20 integers passed as rpc_id *)
Theorem C17_old_id_check_refuted :
  let rpc := BList (repeat (BInt 0) 20) in
  let node := BStr (repeat (byte_of_N 110) 48) in
  check_ids_old rpc node = None /\ check_ids rpc node = Err EValue.
Proof. exact old_id_check_refuted. Qed.
Print Assumptions C17_old_id_check_refuted.

(* ---- non-vacuity and the regression corpus, evaluated on the model ---- *)
Definition rpc20 : bytes := repeat (byte_of_N 114) 20.
Definition node48 : bytes := repeat (byte_of_N 110) 48.

Example C17_ex_ping : decode_datagram 10 (encode_message (Request rpc20 node48 Ping))
  = inl (RReq rpc20 node48 (BStr s_ping) (BList [pv_dict])).
Proof. vm_compute. reflexivity. Qed.
(* the last byte cut off is rejected (it decoded to the same message before fix 67aa5e2), so are two bytes *)
Example C17_ex_ping_cut1 : decode_datagram 10 (removelast (encode_message (Request rpc20 node48 Ping))) = inr EIndex.
Proof. vm_compute. reflexivity. Qed.
Example C17_ex_ping_cut2 : decode_datagram 10 (removelast (removelast (encode_message (Request rpc20 node48 Ping))))
  = inr EIndex.
Proof. vm_compute. reflexivity. Qed.
(* nested dictionaries in non-tail position round-trip: {a: {b: 1}, c: 2} and {a: [{b: 1}, 5], c: 2} *)
Definition nested1 : list (bval * bval) :=
  [(BStr (lit "a"), BDict [(BStr (lit "b"), BInt 1)]); (BStr (lit "c"), BInt 2)].
Definition nested2 : list (bval * bval) :=
  [(BStr (lit "a"), BList [BDict [(BStr (lit "b"), BInt 1)]; BInt 5]); (BStr (lit "c"), BInt 2)].
Example C17_ex_nested1 : bdecode 10 (benc (BDict nested1)) = Ok nested1. Proof. vm_compute. reflexivity. Qed.
Example C17_ex_nested2 : bdecode 10 (benc (BDict nested2)) = Ok nested2. Proof. vm_compute. reflexivity. Qed.
(* REFUTED, on the model of the decoder as it was before 67aa5e2 (dict branch returned the index OF its 'e'):
   it accepted a ping without its last byte as the same dictionary, lost key c of {a: {b: 1}, c: 2} and could not
   read {a: [{b: 1}, 5], c: 2} at all *)
Example C17_old_decoder_refuted_truncation :
  bdecode_old 10 (removelast (encode_message (Request rpc20 node48 Ping)))
  = bdecode_old 10 (encode_message (Request rpc20 node48 Ping)).
Proof. vm_compute. reflexivity. Qed.
Example C17_old_decoder_refuted_truncation_accepts :
  match bdecode_old 10 (removelast (encode_message (Request rpc20 node48 Ping))) with Ok _ => true | Err _ => false end = true.
Proof. vm_compute. reflexivity. Qed.
Example C17_old_decoder_refuted_nested1 :
  bdecode_old 10 (benc (BDict nested1)) = Ok [(BStr (lit "a"), BDict [(BStr (lit "b"), BInt 1)])].
Proof. vm_compute. reflexivity. Qed.
Example C17_old_decoder_refuted_nested2 :
  bdecode_old 10 (benc (BDict nested2)) = Err EDecode.
Proof. vm_compute. reflexivity. Qed.
(* a findValue response: the dictionary is in tail position, its values are lists of lists *)
Definition fv_payload : bval :=
  BDict [(BStr (lit "contacts"), contacts_val [(node48, lit "1.2.3.4", 4444%Z)]);
         (BStr node48, peers_val [rpc20; rpc20]);
         (BStr (lit "p"), BInt 1); (BStr (lit "protocolVersion"), BInt 1); (BStr (lit "token"), BStr node48)].
Example C17_ex_find_value : decode_datagram 10 (encode_message (Response rpc20 node48 fv_payload))
  = inl (RResp rpc20 node48 fv_payload).
Proof. vm_compute. reflexivity. Qed.
Example C17_ex_find_value_sorted : keys_sorted (match fv_payload with BDict d => d | _ => [] end) = true.
Proof. vm_compute. reflexivity. Qed.
(* design-phase reproducers (F5, f234d13) and the ones found while building this check (774587f) *)
Example C17_ex_d : decode_datagram 10 (lit "d") = inr EIndex. Proof. vm_compute. reflexivity. Qed.
Example C17_ex_de : decode_datagram 10 (lit "de") = inr EKey. Proof. vm_compute. reflexivity. Qed.
Example C17_ex_neg : decode_datagram 10 (lit "l-3:e") = inr EDecode. Proof. vm_compute. reflexivity. Qed.
Example C17_ex_deep : decode_datagram 5 (lit "llllllllll") = inr ERecursion. Proof. vm_compute. reflexivity. Qed.
Example C17_ex_id_list : decode_datagram 10
  (lit "d1:0i1e1:1l" ++ concat (repeat (lit "i0e") 20) ++ lit "e1:248:" ++ node48 ++ lit "1:34:ponge") = inr EValue.
Proof. vm_compute. reflexivity. Qed.
(* int() itself is lax (still used for the octets of an address); the datagram decoder no longer is (4abdbc1) *)
Example C17_ex_strict1 : strict_int (lit "+1") = None. Proof. vm_compute. reflexivity. Qed.
Example C17_ex_strict2 : strict_int (lit "0333") = None. Proof. vm_compute. reflexivity. Qed.
Example C17_ex_strict3 : strict_int (lit "-0") = None. Proof. vm_compute. reflexivity. Qed.
Example C17_ex_strict4 : strict_int (lit "-17") = Some (-17)%Z. Proof. vm_compute. reflexivity. Qed.
Example C17_ex_lax_int1 : py_int_of_bytes (lit " +1_0 ") = Some 10%Z. Proof. vm_compute. reflexivity. Qed.
Example C17_ex_lax_int2 : py_int_of_bytes (lit "1__0") = None. Proof. vm_compute. reflexivity. Qed.
Example C17_ex_lax_int3 : py_int_of_bytes (lit "- 1") = None. Proof. vm_compute. reflexivity. Qed.
Example C17_ex_lax_int4 : py_int_of_bytes (lit "") = None. Proof. vm_compute. reflexivity. Qed.
(* every truncation of this ping is dropped (an instance of C17_truncation_is_rejected, by computation) *)
Example C17_ex_truncations_of_ping :
  let p := encode_message (Request rpc20 node48 Ping) in
  forallb (fun k => match decode_datagram 10 (firstn k p) with inr _ => true | inl _ => false end)
          (seq 0 (length p)) = true.
Proof. vm_compute. reflexivity. Qed.
(* the seeded scenario: ping mutated to pinf *)
Example C17_ex_pinf : request_valid node48 (RReq rpc20 rpc20 (BStr (lit "pinf")) (BList [pv_dict])) = false.
Proof. vm_compute. reflexivity. Qed.
Example C17_ex_ping_valid : request_valid node48 (RReq rpc20 rpc20 (BStr s_ping) (BList [pv_dict])) = true.
Proof. vm_compute. reflexivity. Qed.
(* the byte-wise cut of the seeded change splits the 2-byte character that straddles byte 256 *)
Example C17_ex_byte_cut_invalid :
  utf8_valid (firstn 256 (s_invalid_method ++ repeat (byte_of_N 97) 239 ++ [byte_of_N 195; byte_of_N 169])) = false.
Proof. vm_compute. reflexivity. Qed.
Example C17_ex_char_cut_valid :
  utf8_valid (invalid_method_text (repeat (byte_of_N 97) 239 ++ [byte_of_N 195; byte_of_N 169; byte_of_N 195; byte_of_N 169])) = true.
Proof. vm_compute. reflexivity. Qed.
(* a full table of capacity 3: a fourth sender is recorded, the oldest record makes room; a known sender is updated *)
Example C17_ex_full_failure_table : failures_run 3 [10; 11; 12; 13; 11]
  = [(12, (None, Some 3)); (13, (None, Some 4)); (11, (Some 2, Some 5))].
Proof. vm_compute. reflexivity. Qed.
(* the bound is reached (so a limit of 1232 bytes, as in the seeded change, refuses a legitimate reply) *)
Example C17_ex_largest_reply_size :
  length (encode_message (Response rpc20 node48
            (find_value_payload node48 node48
               (repeat (node48, repeat (byte_of_N 50) 15, 65535%Z) 8) (repeat (repeat (byte_of_N 1) 54) 8) 999999%Z)))
  = 1328%nat.
Proof. vm_compute. reflexivity. Qed.
(* not bencode: underscores / sign / leading zero in an integer, bytes after the value (all served before 4abdbc1) *)
Definition ping_bytes : bytes := encode_message (Request rpc20 node48 Ping).
Example C17_ex_trailing_junk : decode_datagram 10 (ping_bytes ++ lit "garbage") = inr EDecode.
Proof. vm_compute. reflexivity. Qed.
Example C17_ex_lax_type : decode_datagram 10 (lit "di0ei+0ei1e20:" ++ rpc20 ++ lit "i2e48:" ++ node48 ++ lit "i3e4:pingi4eld15:protocolVersioni1eeee")
  = inr EDecode.
Proof. vm_compute. reflexivity. Qed.
Example C17_ex_leading_zero_length : decode_datagram 10 (lit "di0ei0ei1e020:" ++ rpc20 ++ lit "i2e48:" ++ node48 ++ lit "i3e4:pingi4eld15:protocolVersioni1eeee")
  = inr EDecode.
Proof. vm_compute. reflexivity. Qed.
