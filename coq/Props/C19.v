(* C19 property theorems: statements only, each closed by [exact].
   Vocabulary (all in Model/C19.v): [clean_pass net limit d] = DiskSpaceManager._clean(net) with that limit on
   database state d: (list handed to delete_blobs, state after); [used_mb] = the usage the pass computes
   (int(bytes/2^20) per class); [pass_rows] = the rows behind the deletion list; [credited] = the megabytes the
   loop accounts for them (int(length/2^20) each); [excess] = usage - limit; [run] = a history of passes,
   clean() calls and blobs (re)appearing. *)
From Coq Require Import NArith ZArith List Bool.
From LV Require Import Model.C19 Proofs.C19.
Import ListNotations.
Local Open Scope N_scope.

(* Nothing is removed when usage is within the limit: for every state, both classes, every limit. *)
Theorem C19_no_delete_within_limit : forall d net limit,
  (Z.of_N (used_mb net d) <= limit)%Z -> clean_pass net limit d = ([], d).
Proof. exact no_delete_within_limit. Qed.
Print Assumptions C19_no_delete_within_limit.

(* Content storage unlimited (limit 0): the content pass removes nothing, whatever the usage. *)
Theorem C19_unlimited_content_untouched : forall d, clean_pass false 0 d = ([], d).
Proof. exact unlimited_content_untouched. Qed.
Print Assumptions C19_unlimited_content_untouched.

(* Every hash a pass deletes is the hash of a blob row with is_mine = 0 ... *)
Theorem C19_never_own : forall net limit d h, In h (fst (clean_pass net limit d)) ->
  exists b, In b (blobs d) /\ b_hash b = h /\ b_mine b = false.
Proof. exact never_own. Qed.
Print Assumptions C19_never_own.

(* ... so (blob_hash being the primary key) every own blob keeps its row and its file. *)
Theorem C19_own_blobs_kept : forall net limit d b, hashes_unique d -> In b (blobs d) -> b_mine b = true ->
  In b (blobs (snd (clean_pass net limit d))) /\
  (In (b_hash b) (disk d) -> In (b_hash b) (disk (snd (clean_pass net limit d)))).
Proof. exact own_kept. Qed.
Print Assumptions C19_own_blobs_kept.

(* Over every history of passes (any class, any limit), clean() calls, status reads, blobs appearing (add_blobs with any
   is_mine in the tuple), restarts (BlobManager.setup) with blob files hidden or restored in between, start-up recovery
   of streams whose descriptor file was lost (StreamManager.initialize_from_database), and blobs the
   user removes himself through the API: a hash that is the user's own (and that he does not remove himself) is in
   no deletion list, stays own, and keeps its file unless somebody moved that file away. *)
Theorem C19_never_own_history : forall ops d h, hashes_unique d -> In h (own_hashes d) -> ~ In h (user_deleted ops) ->
  (forall dl, In dl (fst (run ops d)) -> ~ In h dl) /\ In h (own_hashes (snd (run ops d))) /\
  (In h (disk d) -> ~ In h (hidden ops) -> In h (disk (snd (run ops d)))).
Proof. exact history_never_own. Qed.
Print Assumptions C19_never_own_history.

(* A pass removes blobs only from its own storage class, and only when that class is over its limit. *)
Theorem C19_only_over_limit_class : forall net limit d h, In h (fst (clean_pass net limit d)) ->
  (limit < Z.of_N (used_mb net d))%Z /\ in_class net d h.
Proof. exact only_over_limit_class. Qed.
Print Assumptions C19_only_over_limit_class.

(* Nothing but the deleted hashes disappears; the other tables are untouched. *)
Theorem C19_only_deleted_disappear : forall net limit d b, In b (blobs d) ->
  ~ In (b_hash b) (fst (clean_pass net limit d)) -> In b (blobs (snd (clean_pass net limit d))).
Proof. exact only_deleted_disappear. Qed.
Print Assumptions C19_only_deleted_disappear.

(* After a pass usage is within the limit whenever enough removable blobs existed (recomputed usage of the
   state after the pass; needs the tables to be keyed by stream_hash and descriptors below 1 MiB, see the two
   witnesses below for why). *)
Theorem C19_reaches_limit : forall net limit d, tables_ok d -> net = true \/ limit <> 0%Z -> enough net limit d ->
  (Z.of_N (used_mb net (snd (clean_pass net limit d))) <= limit)%Z.
Proof. exact reaches_limit. Qed.
Print Assumptions C19_reaches_limit.

(* The same in the pass's own accounting, with no hypothesis on the tables: the loop ends with available >= 0. *)
Theorem C19_reaches_limit_accounting : forall net limit d, net = true \/ limit <> 0%Z -> enough net limit d ->
  (excess net limit d <= Z.of_N (credited (pass_rows net limit d)))%Z \/ (excess net limit d <= 0)%Z.
Proof. exact reaches_limit_accounting. Qed.
Print Assumptions C19_reaches_limit_accounting.

(* When the removable blobs do not suffice, all of them go (and nothing else can). *)
Theorem C19_exhausts_when_not_enough : forall net limit d, net = true \/ limit <> 0%Z ->
  (limit < Z.of_N (used_mb net d))%Z -> ~ enough net limit d -> pass_rows net limit d = cands net d.
Proof. exact exhausts_when_not_enough. Qed.
Print Assumptions C19_exhausts_when_not_enough.

(* Bounded overshoot, in the pass's whole-megabyte accounting: accounted space freed < excess + MB of the last
   deleted blob (deletion stops at the first blob that brings the accounted usage within the limit). *)
Theorem C19_bounded_overshoot : forall net limit d, pass_rows net limit d <> [] ->
  (Z.of_N (credited (pass_rows net limit d))
   < excess net limit d + Z.of_N (mb (r_len (last (pass_rows net limit d) row0))))%Z.
Proof. exact bounded_overshoot. Qed.
Print Assumptions C19_bounded_overshoot.

(* With blobs of at most 2 MiB (the protocol maximum): accounted space freed <= excess + 1 MB. *)
Theorem C19_bounded_overshoot_2mib : forall net limit d,
  (forall b, In b (blobs d) -> b_len b <= 2 * MiB) -> pass_rows net limit d <> [] ->
  (Z.of_N (credited (pass_rows net limit d)) <= excess net limit d + 1)%Z.
Proof. exact bounded_overshoot_2mib. Qed.
Print Assumptions C19_bounded_overshoot_2mib.

(* Real bytes: what the whole-megabyte accounting allows is up to one uncounted megabyte per deleted blob:
   bytes removed < (excess + MB of the last deleted blob + number of deleted rows) MiB. *)
Theorem C19_real_bytes_bound : forall net limit d, hashes_unique d -> pass_rows net limit d <> [] ->
  (Z.of_N (freed_bytes (fst (clean_pass net limit d)) d)
   < (excess net limit d + Z.of_N (mb (r_len (last (pass_rows net limit d) row0)))
      + Z.of_nat (length (pass_rows net limit d))) * Z.of_N MiB)%Z.
Proof. exact real_bytes_bound. Qed.
Print Assumptions C19_real_bytes_bound.

(* A second pass right after a pass deletes nothing and leaves the state unchanged (hence so does any number
   of repeated passes). *)
Theorem C19_second_pass_noop : forall net limit d, tables_ok d ->
  clean_pass net limit (snd (clean_pass net limit d)) = ([], snd (clean_pass net limit d)).
Proof. exact second_pass_noop. Qed.
Print Assumptions C19_second_pass_noop.

(* clean() (content pass then network pass) run twice: the second run deletes nothing. *)
Theorem C19_clean_twice_noop : forall cl nl d, tables_ok d ->
  clean cl nl (snd (clean cl nl d)) = (([], []), snd (clean cl nl d)).
Proof. exact clean_twice_noop. Qed.
Print Assumptions C19_clean_twice_noop.

(* The invariants the theorems assume are kept by a pass. *)
Theorem C19_wf_preserved : forall net limit d, wf d -> wf (snd (clean_pass net limit d)).
Proof. exact wf_pass. Qed.
Print Assumptions C19_wf_preserved.

(* clean() removes nothing when both classes are within their limits (content: or unlimited). *)
Theorem C19_clean_within_limits : forall cl nl d,
  (Z.of_N (used_mb false d) <= cl)%Z \/ cl = 0%Z -> (Z.of_N (used_mb true d) <= nl)%Z -> clean cl nl d = (([], []), d).
Proof. exact clean_within_limits. Qed.
Print Assumptions C19_clean_within_limits.

(* One clean() call: BOTH classes end within their limits when enough removable blobs exist for each at the moment its
   pass runs (the network pass always runs, on the state the content pass left). *)
Theorem C19_clean_reaches_both : forall cl nl d, tables_ok d -> cl <> 0%Z -> enough false cl d ->
  enough true nl (snd (clean_pass false cl d)) ->
  (Z.of_N (used_mb false (snd (clean cl nl d))) <= cl)%Z /\ (Z.of_N (used_mb true (snd (clean cl nl d))) <= nl)%Z.
Proof. exact clean_reaches_both. Qed.
Print Assumptions C19_clean_reaches_both.

(* No pass ever increases the usage of either class. *)
Theorem C19_usage_never_increases : forall net net' limit d,
  used_mb net' (snd (clean_pass net limit d)) <= used_mb net' d.
Proof. exact usage_never_increases. Qed.
Print Assumptions C19_usage_never_increases.

(* Which blobs go: a pass deletes a prefix of the candidate list of its class ... *)
Theorem C19_deletes_prefix : forall net limit d, exists rest, cands net d = pass_rows net limit d ++ rest.
Proof. exact pass_rows_prefix. Qed.
Print Assumptions C19_deletes_prefix.

(* ... and that list is ordered as the queries say: network blobs largest first (oldest first among equal sizes);
   content: stream blobs oldest first (smaller first among equal ages), then stream descriptors oldest first. *)
Theorem C19_candidates_sorted : forall d,
  sorted_by net_le (cands true d) /\
  exists cb sd, cands false d = cb ++ sd /\ sorted_by content_le cb /\ sorted_by sd_le sd.
Proof. exact cands_sorted. Qed.
Print Assumptions C19_candidates_sorted.

(* A database created by an older release and upgraded by migrate14to15 (is_mine default 1): nothing that was stored
   before the upgrade is ever deleted by a cleanup pass, over every later history. *)
Theorem C19_migrated_never_deleted : forall legacy post sb st fl dk ops r,
  hashes_unique (migrated_db legacy post sb st fl dk) -> In r legacy -> ~ In (fst (fst r)) (user_deleted ops) ->
  (forall dl, In dl (fst (run ops (migrated_db legacy post sb st fl dk))) -> ~ In (fst (fst r)) dl) /\
  In (fst (fst r)) (own_hashes (snd (run ops (migrated_db legacy post sb st fl dk)))).
Proof. exact migrated_never_deleted. Qed.
Print Assumptions C19_migrated_never_deleted.

(* After a restart (BlobManager.setup) only blobs whose file is really in the blob directory are 'finished', i.e. charged
   to a storage class; on an emptied directory nothing is charged, so no pass can delete anything for vanished blobs. *)
Theorem C19_setup_only_present : forall now sizes d b,
  In b (blobs (setup now sizes d)) -> b_fin b = true -> In (b_hash b) (disk d).
Proof. exact setup_only_present. Qed.
Print Assumptions C19_setup_only_present.

Theorem C19_setup_empty_dir_no_usage : forall now sizes d net, disk d = [] -> used_mb net (setup now sizes d) = 0.
Proof. exact setup_empty_dir_no_usage. Qed.
Print Assumptions C19_setup_empty_dir_no_usage.

(* Start-up recovery of a stream (rows dropped and re-inserted) keeps every blob's ownership. *)
Theorem C19_recover_keeps_ownership : forall sd now d h, hashes_unique d -> In h (own_hashes d) ->
  In h (own_hashes (recover sd now d)) /\ hashes_unique (recover sd now d) /\
  (In h (disk d) -> In h (disk (recover sd now d))).
Proof. exact recover_keeps_own. Qed.
Print Assumptions C19_recover_keeps_ownership.

(* Configuration layers: the limit the user assigns is the limit in force whatever the command line, environment or
   config file say -- including 0, the default, i.e. "content storage unlimited" (then C19_unlimited_content_untouched
   applies). *)
Theorem C19_assigned_limit_in_force : forall updating v l, effective (assign updating v l) = v.
Proof. exact assign_effective. Qed.
Print Assumptions C19_assigned_limit_in_force.

(* A history can be cut anywhere (the correspondence steps the extracted [run] one operation at a time). *)
Theorem C19_run_app : forall ops1 ops2 d,
  run (ops1 ++ ops2) d =
  (fst (run ops1 d) ++ fst (run ops2 (snd (run ops1 d))), snd (run ops2 (snd (run ops1 d)))).
Proof. exact run_app. Qed.
Print Assumptions C19_run_app.

(* The expression before commit 9764e59 ("limit == 0 if not network else available >= 0"): with a non-zero
   content limit it never returned early, so any state with a candidate lost a blob; concrete witness:
   3 MB used, limit 100 MB, blob 1 deleted, while the repaired test deletes nothing. *)
Theorem C19_old_condition_refuted :
  wf witness_db /\ (Z.of_N (used_mb false witness_db) <= 100)%Z /\
  fst (clean_pass_old false 100 witness_db) = [1] /\ clean_pass false 100 witness_db = ([], witness_db).
Proof. exact old_condition_refuted. Qed.
Print Assumptions C19_old_condition_refuted.

Theorem C19_old_always_deletes : forall limit d, limit <> 0%Z -> cands false d <> [] ->
  fst (clean_pass_old false limit d) <> [].
Proof. exact old_always_deletes. Qed.
Print Assumptions C19_old_always_deletes.

(* ---- non-vacuity: the hypotheses are inhabited by a state on which things really happen ---- *)
Theorem C19_ex_wf : wf ex_db /\ wf sweep_db.
Proof. exact (conj ex_db_wf sweep_db_wf). Qed.
Print Assumptions C19_ex_wf.

Theorem C19_ex_hyps : (enough false 5 ex_db /\ enough true 1 ex_db) /\
  (pass_rows false 5 ex_db <> [] /\ pass_rows true 1 ex_db <> []) /\ (In 21 (own_hashes ex_db) /\ In 21 (disk ex_db)) /\
  (~ enough false 1 sweep_db /\ (1 < Z.of_N (used_mb false sweep_db))%Z).
Proof. exact (conj ex_db_enough (conj ex_db_rows (conj ex_db_own sweep_db_not_enough))). Qed.
Print Assumptions C19_ex_hyps.

(* content: 8 MB used (4 content + 4 own), limit 5: the two oldest 2 MiB blobs go, 4 MB remain *)
Example C19_ex_content :
  (used_mb false ex_db, fst (clean_pass false 5 ex_db), used_mb false (snd (clean_pass false 5 ex_db)))
  = (8, [31; 32], 4).
Proof. vm_compute. reflexivity. Qed.
(* network: 3 MB used, limit 1: the largest blob goes first; the pass stops there *)
Example C19_ex_network :
  (used_mb true ex_db, fst (clean_pass true 1 ex_db), used_mb true (snd (clean_pass true 1 ex_db))) = (3, [40], 1).
Proof. vm_compute. reflexivity. Qed.
(* clean() then clean() again *)
Example C19_ex_clean :
  (fst (clean 5 1 ex_db), fst (clean 5 1 (snd (clean 5 1 ex_db)))) = (([31; 32], [40]), ([], [])).
Proof. vm_compute. reflexivity. Qed.

(* The literal whole-megabyte reading at work: 2 MB used, limit 1 MB (excess 1), three 0.95 MiB blobs each
   accounted as 0 MB: all three and then all three descriptors are deleted, accounted space freed 0 MB,
   2989941 bytes gone.  Allowed by C19_bounded_overshoot / C19_real_bytes_bound (6 rows, so < 7 MiB). *)
Example C19_submib_sweep_witness :
  (used_mb false sweep_db, fst (clean_pass false 1 sweep_db), credited (pass_rows false 1 sweep_db),
   freed_bytes (fst (clean_pass false 1 sweep_db)) sweep_db)
  = (2, [1; 2; 3; 11; 12; 13], 0, 2989941).
Proof. vm_compute. reflexivity. Qed.

(* Why C19_reaches_limit needs [tables_ok].  (a) a 1 MiB stream descriptor is credited 1 MB although usage never
   counted it: 4 MB used, limit 2, enough by the accounting, 3 MB used afterwards. *)
Example C19_sd_credit_witness :
  (used_mb false sd_credit_db, credited (cands false sd_credit_db), fst (clean_pass false 2 sd_credit_db),
   used_mb false (snd (clean_pass false 2 sd_credit_db))) = (4, 2, [1; 2], 3).
Proof. vm_compute. reflexivity. Qed.
(* (b) two file rows for one stream: the same blob is credited twice. *)
Example C19_dup_file_witness :
  (used_mb false dup_file_db, credited (cands false dup_file_db), fst (clean_pass false 2 dup_file_db),
   used_mb false (snd (clean_pass false 2 dup_file_db))) = (4, 2, [1; 1], 3).
Proof. vm_compute. reflexivity. Qed.

(* The network query before its repair listed the descriptor (blob 2) of a downloaded stream; with the seeded blobs not
   covering the excess the old list was walked to the end and the descriptor went, although no class counts it and
   content storage was unlimited.  The repaired query never lists it (C19_only_over_limit_class: is_sd = false). *)
Example C19_old_network_query_refuted :
  (map r_hash (cands_net_old netsd_db), map r_hash (cands true netsd_db), fst (clean_pass true 0 netsd_db))
  = ([3; 4; 2], [3; 4], [3; 4]).
Proof. vm_compute. reflexivity. Qed.
