(* C19 property theorems: statements only, each closed by [exact]. *)
From Coq Require Import NArith ZArith List Bool.
From LV Require Import Model.C19 Proofs.C19.
Import ListNotations.
Local Open Scope N_scope.

Theorem C19_unlimited_content_untouched : forall d, clean_pass false 0 d = ([], d).
Proof. exact unlimited_content_untouched. Qed.
Print Assumptions C19_unlimited_content_untouched.
