(* C09 property theorems: statements only, each closed by [exact].
   A run is ANY list of steps (Server / Begin a / Save a / SetHist a / Gap a / GapChain c / Restart) accepted by [run]:
   steps of different addresses interleave freely, the per-address lock is the only ordering constraint;
   a Server step is accepted only for a consistent state (unique non-null ids, parents present, listed in
   the canonical order: confirmed by (height, id), then mempool by id) that retracts nothing.
   Restart = the wallet process dies at any point (all running updates and their locks are gone, the database keeps
   what was committed) and starts again, ensuring the gap of every chain; [no_server ops] excludes both a server
   change and a restart. *)
From Coq Require Import NArith ZArith List Bool.
From LV Require Import Model.C09 Proofs.C09.
Import ListNotations.

(* Rows only grow: along any run no txo / txi row disappears, no transaction id leaves the tx table and
   no generated address is forgotten. *)
Theorem C09_rows_monotone : forall ops s s', run s ops = Some s' ->
  (forall r, In r (txo_t s) -> In r (txo_t s')) /\ (forall r, In r (txi_t s) -> In r (txi_t s')) /\
  (forall p, In p (ids (tx_t s)) -> In p (ids (tx_t s'))) /\ (forall a, known s a = true -> known s' a = true).
Proof. exact rows_monotone. Qed.
Print Assumptions C09_rows_monotone.

(* Nothing is invented: in every reachable state each txo row is an output of a transaction the server
   has, each txi row is an input of such a transaction spending an output that pays the row's address,
   each stored transaction is the server's. *)
Theorem C09_rows_sound : forall g ops s, run (init g) ops = Some s ->
  (forall r, In r (txo_t s) -> exists t h, In (t, h) (server s) /\ r_txid r = t_id t /\
       nth_error (t_outs t) (r_pos r) = Some (r_out r) /\ r_type r = txo_type t (r_pos r) (r_out r)) /\
  (forall i, In i (txi_t s) -> exists t h t' h' o, In (t, h) (server s) /\ i_txid i = t_id t /\
       nth_error (t_ins t) (i_ipos i) = Some (i_prev i, i_ppos i) /\ In (t', h') (server s) /\ t_id t' = i_prev i /\
       nth_error (t_outs t') (i_ppos i) = Some o /\ pays (i_addr i) o = true) /\
  (forall x, In x (tx_t s) -> exists h, In (fst x, h) (server s)).
Proof. exact rows_sound. Qed.
Print Assumptions C09_rows_sound.

(* One address: after an update_history of [a] that was notified of the current server status began at some
   point of a stretch [ops2] without server change (arbitrary steps of other addresses interleaved, stale or
   duplicate notifications of [a] included), as soon as it has written the history (and ever after, lock
   released or not) the stored history of [a] IS the server's history, as a list. *)
Theorem C09_address_history : forall g ops1 ops2 s1 s2 a,
  run (init g) ops1 = Some s1 -> run s1 ops2 = Some s2 -> no_server ops2 ->
  In (Begin a (server_hist (server s1) a)) ops2 ->
  server s2 = server s1 /\
  (aget (pend s2) a = Some HistSet \/ aget (pend s2) a = None -> get_hist s2 a = server_hist (server s2) a).
Proof. exact address_complete. Qed.
Print Assumptions C09_address_history.

(* ... and whenever the stored history of [a] contains the server's, every output paying [a] and every spend
   of such an output by a transaction the server knows is recorded. *)
Theorem C09_address_complete : forall g ops s a, run (init g) ops = Some s ->
  incl (server_hist (server s) a) (get_hist s a) ->
  (forall t h pos o, In (t, h) (server s) -> nth_error (t_outs t) pos = Some o -> o_kind o = PKH a ->
     has_txo (txo_t s) (t_id t) pos = true) /\
  (forall t h k p i t' h' o, In (t, h) (server s) -> nth_error (t_ins t) k = Some (p, i) ->
     In (t', h') (server s) -> t_id t' = p -> nth_error (t_outs t') i = Some o -> o_kind o = PKH a ->
     has_txi (txi_t s) p i = true).
Proof. exact address_recorded. Qed.
Print Assumptions C09_address_complete.

(* Convergence, schedule part: after the last server change every generated address has had one sync begun
   with the current status, in any order and interleaving, and nothing is in flight: every stored history
   equals the server's and (hence) every address is in sync. *)
Theorem C09_all_synced : forall g ops1 ops2 s1 s2,
  run (init g) ops1 = Some s1 -> run s1 ops2 = Some s2 -> no_server ops2 -> quiescent s2 ->
  (forall a, known s2 a = true -> In (Begin a (server_hist (server s1) a)) ops2) ->
  in_sync s2 /\ forall a, known s2 a = true -> get_hist s2 a = server_hist (server s2) a.
Proof. exact in_sync_reached. Qed.
Print Assumptions C09_all_synced.

(* Convergence, state part: in a reachable state where every generated address is in sync, the wallet's unspent
   rows are exactly the specification set: outputs of server transactions paying a generated address of the
   account's chains that no server transaction spends. *)
Theorem C09_converges : forall g ops s, run (init g) ops = Some s -> in_sync s ->
  forall cs r, In r (utxos s cs) <-> In r (spec_utxos (server s) s cs).
Proof. exact conv_utxos. Qed.
Print Assumptions C09_converges.

(* ... hence the balances the wallet reports are the sums over that specification set: spendable funds
   (types other / purchase), value locked in claims, value locked in supports, and the total, each apart. *)
Theorem C09_balance : forall g ops s, run (init g) ops = Some s -> in_sync s -> forall cs,
  balance s cs = sum_amount (filter (fun r => spendable_type (r_type r)) (spec_utxos (server s) s cs)) /\
  claims_total s cs = sum_amount (filter (fun r => claim_type (r_type r)) (spec_utxos (server s) s cs)) /\
  supports_total s cs = sum_amount (filter (fun r => N.eqb (r_type r) 3) (spec_utxos (server s) s cs)) /\
  total s cs = sum_amount (spec_utxos (server s) s cs).
Proof. exact balance_eqs. Qed.
Print Assumptions C09_balance.

(* Gap: at a quiescent in-sync point, if the server has history for the n'-th address of a chain then every
   address up to n' + gap has been generated (hence, by C09_converges, funds sent there are found). *)
Theorem C09_gap_found : forall g ops s, run (init g) ops = Some s -> quiescent s -> in_sync s ->
  forall c n n', known s (W c n') = true -> server_hist (server s) (W c n') <> [] -> n <= n' + nget (gaps s) c ->
  known s (W c n) = true.
Proof. exact gap_found. Qed.
Print Assumptions C09_gap_found.

(* subscribe_addresses (the paging loop through which a (re)subscription or a freshly generated stretch of
   addresses reaches the server): for every batch size b > 0 and every address list - in particular lists longer
   than one batch of 1000 - each address gets exactly one update task, in order, carrying the status the server
   answered for that very address. *)
Theorem C09_subscribe_all : forall b (status : addr -> hist) addrs, 0 < b ->
  subscribe_plan b addrs (map status) = map (fun a => (a, status a)) addrs.
Proof. exact subscribe_all. Qed.
Print Assumptions C09_subscribe_all.

(* non-vacuity: a consistent two-transaction server (fund address 0; spend it to address 1 with a claim back to
   address 0 and a third-party output), the two addresses synced INTERLEAVED (address 1 saves first and cannot
   resolve the spend; address 0 then records it), gap 2: the run is accepted, ends quiescent and in sync with
   balance 600 spendable + 300 in claims, utxos = specification set, 4 addresses generated. *)
Example C09_ex_run : option_map ex_report (run (init [(0%N, 2)]) ex_ops)
  = Some (600%N, 300%N, [(2%N, 0); (2%N, 1)], [(2%N, 0); (2%N, 1)], 4, 0, true).
Proof. vm_compute. reflexivity. Qed.
Example C09_ex_server_ok : server_ok_b ex_S = true.
Proof. vm_compute. reflexivity. Qed.
Example C09_ex_subscribe : subscribe_plan 2 [W 0 0; W 0 1; W 0 2; W 0 3; W 0 4] (map (fun a => match a with W _ n => [(N.of_nat n, 1%Z)] | _ => [] end))
  = [(W 0 0, [(0%N, 1%Z)]); (W 0 1, [(1%N, 1%Z)]); (W 0 2, [(2%N, 1%Z)]); (W 0 3, [(3%N, 1%Z)]); (W 0 4, [(4%N, 1%Z)])].
Proof. vm_compute. reflexivity. Qed.
