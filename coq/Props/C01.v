(* C01 property theorems: statements only, each closed by [exact].
   Model: Model/C01.v (one blob, any number of writers, the event loop's FIFO ready queue, the executor).
   All theorems hold for EVERY hash function H, every blob name h, both blob kinds (file / in-memory buffer),
   with or without completion callback, and every list of operations
   (SetLength / Open / Write / CloseW / CloseBlob / Tick / Drain / IoDone / Read / Delete), i.e. every chunking,
   every number of writers, every interleaving, every placement of loop iterations and executor completions, and
   any number of re-downloads of the same object after it was read out (BlobBuffer) or deleted.
   [core_ops] = no Read/Delete in the list; [no_delete] = no Delete in the list. *)
From Coq Require Import NArith ZArith List Bool.
From LV Require Import Lib.Bytes Model.C01 Proofs.C01 Model.C01Announce Proofs.C01Announce.
Import ListNotations.
Local Open Scope N_scope.

(* 0. Where a history starts.  [start kd file expected] is the object BlobManager.get_blob(hash, expected) creates
      over a blob directory that holds [file] under the blob's name (None: no such file; the fresh object [init] is
      [start kd None None]).  [start_ok]: the expected length, if given, is at most 2^21, and a file that IS TAKEN
      OVER is an intact copy; a file whose size differs from a non-zero expected length needs no assumption.
      The constructor over an existing file: size = expected (or no / zero expected length) -> taken over, verified,
      length = size; size <> expected -> file deleted, not verified, no length; hence verified with an announced
      length L means the stored file has exactly L bytes. *)
Theorem C01_constructor_over_existing_file : forall f expected,
  let s := start KFile (Some f) expected in
  (taken_over f expected ->
     s_verified s = true /\ s_store s = Some f /\ s_len s = Some (N.of_nat (length f)))
  /\ (~ taken_over f expected -> s_verified s = false /\ s_store s = None /\ s_len s = None)
  /\ (forall L, expected = Some L -> L <> 0 -> s_verified s = true -> s_len s = Some L /\ N.of_nat (length f) = L).
Proof. exact start_existing_file. Qed.
Print Assumptions C01_constructor_over_existing_file.

Theorem C01_fresh_object_is_a_start : forall H h kd, start_ok H h kd None None /\ start kd None None = init.
Proof. exact (fun H h kd => conj (start_ok_fresh H h kd) (start_fresh kd)). Qed.
Print Assumptions C01_fresh_object_is_a_start.

(* 1. Whatever has been done to the blob: if it is verified, bytes are stored, they have exactly the accepted
      length, that length is in 1..2^21, and they hash to the blob's name; and anything that is ever in the
      store (file in the blob directory / buffer) has these properties, verified or not. *)
Theorem C01_only_matching_bytes_verified : forall H h kd cb file expected, start_ok H h kd file expected -> forall ops,
  let s := run H h kd cb ops (start kd file expected) in
  (s_verified s = true ->
     exists b L, s_store s = Some b /\ s_len s = Some L /\ N.of_nat (length b) = L
                 /\ 0 < L <= MAX_BLOB_SIZE /\ H b = h)
  /\ (forall b, s_store s = Some b ->
     exists L, s_len s = Some L /\ N.of_nat (length b) = L /\ 0 < L <= MAX_BLOB_SIZE /\ H b = h).
Proof. exact only_matching_start. Qed.
Print Assumptions C01_only_matching_bytes_verified.

(* 1b. The result of any writer's future, in any reachable state, is a complete correct copy of admissible size
       (that its size was the length accepted at that moment is theorem 2). *)
Theorem C01_writer_result_is_correct_copy : forall H h kd cb file expected, start_ok H h kd file expected -> forall ops i w b,
  nth_error (s_ws (run H h kd cb ops (start kd file expected))) i = Some w -> w_fut w = FOk b ->
  0 < N.of_nat (length b) <= MAX_BLOB_SIZE /\ H b = h.
Proof. exact writer_result_good_start. Qed.
Print Assumptions C01_writer_result_is_correct_copy.

(* 2. Exact outcome of one write on a live writer (open, future pending; then hash input = buffer) of a blob
      of accepted length L > 0, t = bytes received so far ++ this chunk:
      shorter -> still pending; exactly L and H t = h -> finished with result t (and with nothing else);
      exactly L and H t <> h -> InvalidBlobHashError; longer -> InvalidDataError and the buffer is not
      extended.  The call itself returns normally. *)
Theorem C01_writer_result_exact : forall H h L w d,
  live L w ->
  let t := w_buf w ++ d in
  let w' := fst (fst (wr_write H h (Some L) w d)) in
  (N.of_nat (length t) < L -> w' = mkW (w_key w) true t t FPending)
  /\ (N.of_nat (length t) = L -> H t = h -> w' = mkW (w_key w) false t t (FOk t))
  /\ (N.of_nat (length t) = L -> H t <> h -> w' = mkW (w_key w) false t t FErrHash)
  /\ (L < N.of_nat (length t) -> w' = mkW (w_key w) false (w_buf w) t FErrLen)
  /\ (forall b, w_fut w' = FOk b <-> b = t /\ N.of_nat (length t) = L /\ H t = h)
  /\ snd (wr_write H h (Some L) w d) = ROk.
Proof. exact writer_write_exact. Qed.
Print Assumptions C01_writer_result_exact.

(* 2a. History level, for every operation list (resets included) and every writer ever created: let t be the
       concatenation, in order, of the chunks of those Write calls on this writer that got past write()'s guards
       (result ROk or InvalidStateError, i.e. not refused with OSError) - [written].  Then t is exactly what the
       writer has hashed, and: result b => b = t, H t = h, 0 < |t| <= 2^21; InvalidBlobHashError => H t <> h;
       still pending => |t| < the accepted length. *)
Theorem C01_writer_result_exact_history : forall H h kd cb file expected, start_ok H h kd file expected -> forall ops i w,
  nth_error (s_ws (run H h kd cb ops (start kd file expected))) i = Some w ->
  let t := written i ops (results H h kd cb ops (start kd file expected)) in
  w_seen w = t
  /\ (forall b, w_fut w = FOk b -> b = t /\ H t = h /\ 0 < N.of_nat (length t) <= MAX_BLOB_SIZE)
  /\ (w_fut w = FErrHash -> H t <> h)
  /\ (w_fut w = FPending -> forall L, s_len (run H h kd cb ops (start kd file expected)) = Some L -> L <> 0 -> N.of_nat (length t) < L).
Proof. exact writer_history_start. Qed.
Print Assumptions C01_writer_result_exact_history.

(* 2b. A write (of anything, by any writer, in any state) never stores, verifies or announces anything by
       itself: it changes that one writer and may schedule that writer's three callbacks, nothing else. *)
Theorem C01_write_stores_nothing : forall H h i d s,
  let s' := fst (write H h i d s) in
  s_store s' = s_store s /\ s_io s' = s_io s /\ s_verified s' = s_verified s /\ s_writing s' = s_writing s
  /\ s_completed s' = s_completed s /\ s_len s' = s_len s /\ s_map s' = s_map s
  /\ (forall b, In (QTask b) (s_q s') -> In (QTask b) (s_q s)).
Proof. exact write_frame. Qed.
Print Assumptions C01_write_stores_nothing.

(* 3. Chunking is irrelevant: two chunkings of the same data (total not above the blob length) leave the
      writer in the same state; and the state-level run of the chunk writes computes exactly [feed]. *)
Theorem C01_chunking_irrelevant : forall H h L w cs1 cs2,
  live L w -> N.of_nat (length (w_buf w)) < L ->
  concat cs1 = concat cs2 -> N.of_nat (length (w_buf w ++ concat cs1)) <= L ->
  feed H h (Some L) w cs1 = feed H h (Some L) w cs2.
Proof. exact chunking_irrelevant. Qed.
Print Assumptions C01_chunking_irrelevant.

Theorem C01_chunk_writes_are_feed : forall H h kd cb i cs s w,
  nth_error (s_ws s) i = Some w ->
  nth_error (s_ws (run H h kd cb (map (Write i) cs) s)) i = Some (feed H h (s_len s) w cs).
Proof. exact run_writes_feed. Qed.
Print Assumptions C01_chunk_writes_are_feed.

(* [nofail s]: no callback of a save whose executor job FAILED (IoFail: disk full, no permission, ...) is still
   queued in s.  A failed write leaves the blob unverified and writeable (theorem 1 covers every history, failed
   writes included: never verified without the bytes stored); the next complete correct copy is then saved again. *)

(* 4. First complete correct copy wins - on a fresh object and on every later delivery to the same object: after
      ANY history (reads and deletes included), if a live writer receives the chunk that completes a correct copy,
      then (a) whatever operations other than a reset follow, as soon as the ready queue is empty and the executor
      has no job, the blob is verified and the store holds bytes of the accepted length hashing to the name;
      (b) drain; io; drain reaches such a state, with writing cleared, and - if nothing was being saved before -
      the completion callback called exactly once more than the calls already made or already queued. *)
Theorem C01_first_complete_copy_wins : forall H h kd cb file expected, start_ok H h kd file expected -> forall ops i w d L,
  let s := run H h kd cb ops (start kd file expected) in
  nth_error (s_ws s) i = Some w -> w_open w = true -> w_fut w = FPending -> s_len s = Some L -> 0 < L ->
  N.of_nat (length (w_buf w ++ d)) = L -> H (w_buf w ++ d) = h ->
  nofail s ->
  let s1 := fst (step H h kd cb (Write i d) s) in
  (forall ops', core_ops ops' -> let s' := run H h kd cb ops' s1 in s_q s' = [] -> s_io s' = None ->
     s_verified s' = true /\ exists b, s_store s' = Some b /\ H b = h /\ N.of_nat (length b) = L)
  /\ (let s4 := run H h kd cb [Drain; IoDone; Drain] s1 in
      s_q s4 = [] /\ s_verified s4 = true /\ s_writing s4 = false
      /\ (exists b, s_store s4 = Some b /\ H b = h /\ N.of_nat (length b) = L)
      /\ (s_verified s = false -> s_writing s = false ->
          s_completed s4 = (s_completed s + cnt is_cp (s_q s) + if cb then 1 else 0)%nat)).
Proof. exact first_copy_wins_start. Qed.
Print Assumptions C01_first_complete_copy_wins.

(* 4a. "... with exactly those bytes stored".  If, at the moment the live writer completes its correct copy t,
       the blob is neither verified nor being saved and every writer_finished_callback still waiting in the ready
       queue belongs to a writer that finished WITHOUT a result ([loser]) - i.e. this copy is the first - then
       whatever happens afterwards (until the object is reset) nothing but t is ever in the store.  (Without "first", theorem 4 still gives
       bytes of the same length and the same hash: equal to t unless H collides.) *)
Theorem C01_first_complete_copy_exact_bytes : forall H h kd cb file expected, start_ok H h kd file expected -> forall ops i w d L,
  let s := run H h kd cb ops (start kd file expected) in
  nth_error (s_ws s) i = Some w -> w_open w = true -> w_fut w = FPending -> s_len s = Some L -> 0 < L ->
  N.of_nat (length (w_buf w ++ d)) = L -> H (w_buf w ++ d) = h ->
  s_verified s = false -> s_writing s = false ->
  (forall j, In (QWfc j) (s_q s) -> loser s j) ->
  nofail s ->
  let s1 := fst (step H h kd cb (Write i d) s) in
  forall ops' x, core_ops ops' -> s_store (run H h kd cb ops' s1) = Some x -> x = w_buf w ++ d.
Proof. exact first_copy_exact_start. Qed.
Print Assumptions C01_first_complete_copy_exact_bytes.

(* 4b. ... and every other writer is shut down, after ANY history: after the first drain (and still after
       drain; io; drain) no writer at all is open or pending, and no writer was created meanwhile. *)
Theorem C01_first_complete_copy_closes_others : forall H h kd cb file expected, start_ok H h kd file expected -> forall ops i w d L,
  let s := run H h kd cb ops (start kd file expected) in
  nth_error (s_ws s) i = Some w -> w_open w = true -> w_fut w = FPending -> s_len s = Some L -> 0 < L ->
  N.of_nat (length (w_buf w ++ d)) = L -> H (w_buf w ++ d) = h ->
  let s1 := fst (step H h kd cb (Write i d) s) in
  let s2 := run H h kd cb [Drain] s1 in
  let s4 := run H h kd cb [Drain; IoDone; Drain] s1 in
  (forall j wj, nth_error (s_ws s2) j = Some wj -> w_open wj = false /\ w_fut wj <> FPending)
  /\ (forall j wj, nth_error (s_ws s4) j = Some wj -> w_open wj = false /\ w_fut wj <> FPending)
  /\ length (s_ws s4) = length (s_ws s).
Proof. exact first_copy_closes_others_start. Qed.
Print Assumptions C01_first_complete_copy_closes_others.

(* 4c. The completion callback never fires twice on an object that is not reset in between. *)
Theorem C01_completed_at_most_once : forall H h kd cb file expected, start_ok H h kd file expected -> forall ops, core_ops ops ->
  (s_completed (run H h kd cb ops (start kd file expected)) <= 1)%nat.
Proof. exact completed_at_most_once_start. Qed.
Print Assumptions C01_completed_at_most_once.

(* 4d. Drain really terminates with an empty ready queue, from any state. *)
Theorem C01_drain_quiescent : forall kd cb s, s_q (drain kd cb s) = [].
Proof. exact (drain_quiescent (fun b => b) nil). Qed.
Print Assumptions C01_drain_quiescent.

(* 5. An accepted length is at most 2^21 and is changed by nothing but delete(); a length outside 0..2^21 is
      refused in every state; a length inside is accepted when none was accepted before. *)
Theorem C01_length_once_bounded : forall H h kd cb file expected, start_ok H h kd file expected -> forall ops1 ops2 L,
  s_len (run H h kd cb ops1 (start kd file expected)) = Some L ->
  L <= MAX_BLOB_SIZE /\ (no_delete ops2 -> s_len (run H h kd cb (ops1 ++ ops2) (start kd file expected)) = Some L).
Proof. exact length_once_bounded_start. Qed.
Print Assumptions C01_length_once_bounded.

Theorem C01_length_outside_refused : forall n s,
  (n < 0 \/ Z.of_N MAX_BLOB_SIZE < n)%Z -> set_length n s = s.
Proof. exact (set_length_refused (fun b => b) nil). Qed.
Print Assumptions C01_length_outside_refused.

Theorem C01_length_inside_accepted : forall n s,
  (0 <= n <= Z.of_N MAX_BLOB_SIZE)%Z -> s_len s = None -> s_len (set_length n s) = Some (Z.to_N n).
Proof. exact (set_length_accepted (fun b => b) nil). Qed.
Print Assumptions C01_length_inside_accepted.

(* 5b. BlobManager.is_blob_verified(hash, any length) and ensure_completed_blobs_status([hash]) for the object the
       manager holds are pure queries, and they answer "yes" - the latter then records the blob as 'finished', which is
       what gets it announced (theorem 6) - only for a verified blob storing bytes of the accepted length that hash
       to the name, after any history. *)
Theorem C01_manager_says_verified_only_if_verified : forall H h kd cb file expected, start_ok H h kd file expected ->
  forall ops o, (o = Ensure \/ exists n, o = IsVerified n) ->
  snd (step H h kd cb o (run H h kd cb ops (start kd file expected))) = RBool true ->
  let s := run H h kd cb ops (start kd file expected) in
  fst (step H h kd cb o s) = s /\ s_verified s = true /\
  exists b L, s_store s = Some b /\ s_len s = Some L /\ N.of_nat (length b) = L
              /\ 0 < L <= MAX_BLOB_SIZE /\ H b = h.
Proof. exact manager_yes_only_verified_start. Qed.
Print Assumptions C01_manager_says_verified_only_if_verified.

(* 6. "... announced only if ...".  The blob table and get_blobs_to_announce (Model/C01Announce.v), for every list
      of table operations (add_blobs pending/finished, set_announce, single announce, update_last_announced,
      downgrade to pending, delete), both settings of announce_head_and_sd_only and every clock value: a hash is
      handed to the announcer only if add_blobs(..., finished=True) was called for it - which only
      BlobManager.blob_completed does, for a BlobFile, i.e. the completion callback of theorems 1 and 4 (so the blob
      is verified and stores bytes of the announced length hashing to its name). *)
Theorem C01_announced_only_if_completed : forall ops head_and_sd_only now h,
  In h (to_announce head_and_sd_only now (arun ops [])) -> In h (completed_of ops).
Proof. exact announce_only_completed. Qed.
Print Assumptions C01_announced_only_if_completed.

(* 6b. A blob whose row is pending (only known from a stream descriptor, or its download failed) is not handed
       out, under either setting; and the head-and-sd-only list is contained in the announce-everything list. *)
Theorem C01_pending_never_announced : forall head_and_sd_only now t h,
  (forall r, In r t -> r_hash r = h -> is_fin r = false) -> ~ In h (to_announce head_and_sd_only now t).
Proof. exact pending_not_announced. Qed.
Print Assumptions C01_pending_never_announced.

Theorem C01_announce_head_only_subset : forall now t h,
  In h (to_announce true now t) -> In h (to_announce false now t).
Proof. exact head_only_subset. Qed.
Print Assumptions C01_announce_head_only_subset.

(* ---- non-vacuity: concrete histories (toy hash: H b = b, so the blob named [1;2;3] is the bytes 1 2 3) ---- *)
Definition Hid (b : bytes) : bytes := b.
Definition nm : bytes := [Byte.x01; Byte.x02; Byte.x03].

(* two peers, the first sends a corrupted copy in two chunks, the second the correct one in three.  After
   [ex_ops] the hypotheses of theorems 4, 4a and 4b hold for writer 1 and the missing chunk [3] ... *)
Definition ex_ops : list op :=
  [SetLength 3; Open 1; Open 2; Write 0 [Byte.x01]; Write 1 [Byte.x01]; Write 0 [Byte.x02; Byte.xff];
   Write 1 [Byte.x02]; Tick].
Example C01_ex_hypotheses :
  let s := run Hid nm KFile true ex_ops init in
  (exists w, nth_error (s_ws s) 1 = Some w /\ w_open w = true /\ w_fut w = FPending
                /\ w_buf w = [Byte.x01; Byte.x02]) /\ s_len s = Some 3
  /\ s_verified s = false /\ s_writing s = false /\ s_q s = [].
Proof. exact ex_hypotheses. Qed.
(* ... and the run ends as the theorems say: written once, verified, callback once, both writers closed *)
Example C01_ex_wins :
  let s := run Hid nm KFile true (ex_ops ++ [Write 1 [Byte.x03]; Drain; IoDone; Drain]) init in
  (s_verified s, s_store s, s_completed s, map w_open (s_ws s), map w_fut (s_ws s), s_q s)
  = (true, Some nm, 1%nat, [false; false], [FErrHash; FOk nm], []).
Proof. vm_compute. reflexivity. Qed.

(* the same object again: a BlobBuffer is read out (consumed), a second peer delivers, verified again, second call;
   a BlobFile is deleted, the length announced again, delivered again *)
Example C01_ex_redownload_buffer :
  let s := run Hid nm KBuffer true [SetLength 3; Open 1; Write 0 nm; Drain; IoDone; Drain; Read; Open 2;
                                     Write 1 [Byte.x01; Byte.x02]; Write 1 [Byte.x03]; Drain; IoDone; Drain] init in
  (s_verified s, s_store s, s_completed s, map w_fut (s_ws s)) = (true, Some nm, 2%nat, [FOk nm; FOk nm]).
Proof. vm_compute. reflexivity. Qed.
Example C01_ex_redownload_file :
  let s := run Hid nm KFile true [SetLength 3; Open 1; Write 0 nm; Drain; IoDone; Drain; Delete; SetLength 3; Open 1;
                                   Write 1 nm; Drain; IoDone; Drain] init in
  (s_verified s, s_store s, s_len s, s_completed s) = (true, Some nm, Some 3, 2%nat).
Proof. vm_compute. reflexivity. Qed.

(* restart over a truncated file with the length known: the file is dropped, nothing verified, and the blob is
   downloaded again; over an intact file: verified at once, a writer is refused *)
Example C01_ex_restart_truncated :
  let s0 := start KFile (Some [Byte.x01; Byte.x02]) (Some 3) in
  let s := run Hid nm KFile true [SetLength 3; Open 1; Write 0 nm; Drain; IoDone; Drain] s0 in
  (s_verified s0, s_store s0, s_len s0, s_verified s, s_store s, s_completed s) = (false, None, None, true, Some nm, 1%nat).
Proof. vm_compute. reflexivity. Qed.
Example C01_ex_restart_intact :
  let s0 := start KFile (Some nm) (Some 3) in
  (s_verified s0, s_store s0, s_len s0, snd (step Hid nm KFile true (Open 1) s0)) = (true, Some nm, Some 3, ROSError).
Proof. vm_compute. reflexivity. Qed.

(* three blobs known from a descriptor (pending); blob 3 is completed, blob 1 got a corrupted copy, blob 2 a
   truncated one: only 3 is handed to the announcer when everything is announced, nothing under head-and-sd-only
   until 3 is flagged *)
Example C01_ex_announce :
  let t := arun [AAdd 1 false; AAdd 2 false; AAdd 3 false; AAdd 3 true] [] in
  (to_announce false 1000 t, to_announce true 1000 t, to_announce true 1000 (arun [AShould 3; AShould 1] t)) = ([3], [], [3]).
Proof. vm_compute. reflexivity. Qed.

(* the defect repaired by 82794e2 (the done-callbacks of save_verified_blob ignored the outcome of the write task),
   on a model of the OLD code ([run_oldfail]) and on the model: a complete correct copy is delivered, the disk write
   fails; old: verified, completion callback fired, nothing stored; now: not verified, writeable, nothing announced,
   and a second delivery is saved *)
Example C01_failed_write_marks_verified_refuted :
  let ops := [SetLength 3; Open 1; Write 0 nm; Drain; IoFail; Drain] in
  let so := run_oldfail Hid nm KFile true ops init in
  let sn := run Hid nm KFile true ops init in
  let sr := run Hid nm KFile true (ops ++ [Open 2; Write 1 nm; Drain; IoDone; Drain]) init in
  (s_verified so, s_store so, s_completed so) = (true, None, 1%nat)
  /\ (s_verified sn, s_store sn, s_completed sn, s_writing sn, s_q sn) = (false, None, 0%nat, false, [])
  /\ (s_verified sr, s_store sr, s_completed sr) = (true, Some nm, 1%nat).
Proof. exact failed_write_old_vs_new. Qed.

(* over-long by one byte: InvalidDataError, nothing stored, nothing verified *)
Example C01_ex_overlong :
  let s := run Hid nm KBuffer true [SetLength 3; Open 0; Write 0 [Byte.x01; Byte.x02]; Write 0 [Byte.x03; Byte.x00];
                                     Drain; IoDone; Drain] init in
  (s_verified s, s_store s, s_completed s, map w_fut (s_ws s)) = (false, None, 0%nat, [FErrLen]).
Proof. vm_compute. reflexivity. Qed.

(* the boundary of the length check *)
Example C01_ex_length :
  (s_len (set_length 2097152 init), s_len (set_length 2097153 init), s_len (set_length (-1) init),
   s_len (set_length 0 init), s_len (set_length 5 (set_length 3 init)))
  = (Some 2097152, None, None, Some 0, Some 3).
Proof. vm_compute. reflexivity. Qed.

(* The defect repaired by 597bcef, as a machine-checked fact about a model of the OLD code ([run_old]:
   remove_writer deleted writers[key] whoever was registered under it): peer 1 fails, is opened again before the
   loop ran, the stale remove_writer of the failed writer unregistered the NEW writer, so when peer 2 delivered the
   blob, writer 1 was neither closed nor cancelled - theorem 4b was false for the old code.  The repaired model
   closes it on the same history. *)
Definition stale_ops : list op :=
  [SetLength 3; Open 1; Write 0 [Byte.x01; Byte.x02; Byte.x03; Byte.x04]; Open 1; Tick; Open 2;
   Write 2 nm; Drain; IoDone; Drain].
Example C01_stale_reopen_orphans_writer_refuted :
  let so := run_old Hid nm KFile true stale_ops init in
  let sn := run Hid nm KFile true stale_ops init in
  (s_verified so, map w_open (s_ws so), map w_fut (s_ws so)) = (true, [false; true; false], [FErrLen; FPending; FOk nm])
  /\ (s_verified sn, map w_open (s_ws sn), map w_fut (s_ws sn))
     = (true, [false; false; false], [FErrLen; FCancelled; FOk nm]).
Proof. exact stale_reopen_old_vs_new. Qed.
