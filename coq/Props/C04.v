(* C04 property theorems: statements only, each closed by [exact]. *)
From Coq Require Import NArith ZArith List Bool.
From Coq.Strings Require Import Byte.
From LV Require Import Lib.Bytes Wire.CompactSize Wire.Tx Model.C04 Proofs.C04 Model.C04_Obj Proofs.C04_Obj.
Import ListNotations.
Local Open Scope N_scope.

(* What Transaction._serialize_for_signature(i) writes is exactly the legacy Bitcoin SIGHASH_ALL preimage:
   version, every outpoint and sequence, the spent script in input i and the empty script elsewhere,
   all outputs, locktime, hash type 1 -- for every transaction, index and script. *)
Theorem C04_preimage_is_spec : forall t i script, sighash_preimage t i script = sighash_spec t i script.
Proof. exact preimage_is_spec. Qed.
Print Assumptions C04_preimage_is_spec.

(* The preimage binds the whole transaction: two well-formed transactions with equal preimages agree on
   version, locktime, every output, every outpoint and every sequence number, and (for non-empty spent
   scripts, in-range indices) on the signed input's index and script.  Hence changing any of these changes
   the bytes that are double-hashed and signed. *)
Theorem C04_preimage_binds_tx : forall t1 t2 i1 i2 s1 s2,
  wf_tx t1 -> wf_tx t2 ->
  N.of_nat (length s1) < MAXSIZE1 -> N.of_nat (length s2) < MAXSIZE1 ->
  sighash_preimage t1 i1 s1 = sighash_preimage t2 i2 s2 ->
  tx_version t1 = tx_version t2 /\ tx_locktime t1 = tx_locktime t2 /\ tx_outs t1 = tx_outs t2 /\
  map outpoint (tx_ins t1) = map outpoint (tx_ins t2) /\ map ti_seq (tx_ins t1) = map ti_seq (tx_ins t2) /\
  ((i1 < length (tx_ins t1))%nat -> (i2 < length (tx_ins t2))%nat -> s1 <> [] -> s2 <> [] -> i1 = i2 /\ s1 = s2).
Proof. exact preimage_binds. Qed.
Print Assumptions C04_preimage_binds_tx.

(* Channel signatures: the digest preimage (36-byte first-input outpoint, 20-byte channel claim hash, claim
   message bytes) determines all three pieces; so does the legacy preimage (25-byte address, payload,
   reversed 20-byte channel hash).  Changing the claim content, the channel or the first input therefore
   changes the bytes that are hashed; no assumption on the hash. *)
Theorem C04_channel_digest_binds : forall fo fo' ch ch' m m',
  length fo = 36%nat -> length fo' = 36%nat -> length ch = 20%nat -> length ch' = 20%nat ->
  channel_pieces fo ch m = channel_pieces fo' ch' m' -> fo = fo' /\ ch = ch' /\ m = m'.
Proof. exact channel_pieces_inj. Qed.
Print Assumptions C04_channel_digest_binds.

Theorem C04_legacy_digest_binds : forall a a' p p' ch ch',
  length a = 25%nat -> length a' = 25%nat -> length ch = 20%nat -> length ch' = 20%nat ->
  legacy_pieces a p ch = legacy_pieces a' p' ch' -> a = a' /\ p = p' /\ ch = ch'.
Proof. exact legacy_pieces_inj. Qed.
Print Assumptions C04_legacy_digest_binds.

Theorem C04_outpoint_binds : forall h h' p p', length h = 32%nat -> length h' = 32%nat ->
  p < 4294967296 -> p' < 4294967296 -> outpoint_bytes h p = outpoint_bytes h' p' -> h = h' /\ p = p'.
Proof. exact outpoint_bytes_inj. Qed.
Print Assumptions C04_outpoint_binds.

(* Model-level signing: for every hash, key map and signature scheme with verify (pub sk) d (sign sk d) = true,
   a claim signed by a channel validates against that channel, and an input signature is the scheme's
   signature over the double hash of the SIGHASH_ALL preimage followed by the hash-type byte 0x01. *)
Theorem C04_signed_validates : forall (sha256 : bytes -> bytes) (pub : bytes -> bytes)
  (sign : bytes -> bytes -> bytes) (verify : bytes -> bytes -> bytes -> bool),
  (forall sk d, verify (pub sk) d (sign sk d) = true) ->
  forall sk fo ch m, is_signed_by sha256 verify (pub sk) fo ch m (sign_claim sha256 sign sk fo ch m) = true.
Proof. exact signed_validates. Qed.
Print Assumptions C04_signed_validates.

Theorem C04_input_signature_validates : forall (sha256 : bytes -> bytes) (pub : bytes -> bytes)
  (sign : bytes -> bytes -> bytes) (verify : bytes -> bytes -> bytes -> bool),
  (forall sk d, verify (pub sk) d (sign sk d) = true) ->
  forall sk t i script, exists sg,
    input_signature sha256 sign sk t i script = sg ++ [byte_of_N 1] /\
    verify (pub sk) (input_digest sha256 t i script) sg = true.
Proof. exact input_signature_validates. Qed.
Print Assumptions C04_input_signature_validates.

(* Object histories.  One signable object held by an output of a fixed transaction (first outpoint fo, holder address
   addr) goes through ANY history of sign / clear_signature / edit / re-read steps starting from ANY state -- fresh,
   signed in the current format, or decoded from an earlier release (o_legacy = Some payload).  Once a channel signs
   it, and as long as only re-reads and edits that leave the serialisation unchanged follow, it validates against that
   channel; for every scheme with verify (pub sk) d (sign sk d) = true. *)
Theorem C04_resigned_validates : forall (sha256 : bytes -> bytes) (pub : bytes -> bytes)
  (sign : bytes -> bytes -> bytes) (verify : bytes -> bytes -> bytes -> bool) (fo addr : bytes),
  (forall sk d, verify (pub sk) d (sign sk d) = true) ->
  forall o0 before sk ch after,
  forallb (keeps (o_msg (orun sha256 sign fo o0 before))) after = true ->
  obj_valid sha256 verify fo addr (pub sk) (orun sha256 sign fo o0 (before ++ OSign sk ch :: after)) = true.
Proof. exact resigned_validates. Qed.
Print Assumptions C04_resigned_validates.

(* ... and what is hashed then is the current-format preimage over the signer's channel hash and the message as it
   was when signed: nothing of an earlier release's payload survives a new signature. *)
Theorem C04_resigned_digest_current : forall (sha256 : bytes -> bytes) (sign : bytes -> bytes -> bytes) (fo addr : bytes)
  o0 before sk ch after,
  forallb (keeps (o_msg (orun sha256 sign fo o0 before))) after = true ->
  let o := orun sha256 sign fo o0 (before ++ OSign sk ch :: after) in
  o_legacy o = None /\ o_ch o = ch /\
  obj_pieces fo addr o = channel_pieces fo ch (o_msg (orun sha256 sign fo o0 before)).
Proof. exact resigned_digest_current. Qed.
Print Assumptions C04_resigned_digest_current.

(* Validation against a CHANNEL (public key pk, claim hash ch), as Output.is_signed_by does since /repo fb0a075: a re-signed
   object validates against its signer, and a channel with any other claim hash is refused whatever key it carries --
   the signer's own key included ("stops validating if ... the channel ... is changed"). *)
Theorem C04_resigned_validates_channel : forall (sha256 : bytes -> bytes) (pub : bytes -> bytes)
  (sign : bytes -> bytes -> bytes) (verify : bytes -> bytes -> bytes -> bool) (fo addr : bytes),
  (forall sk d, verify (pub sk) d (sign sk d) = true) ->
  forall o0 before sk ch after,
  forallb (keeps (o_msg (orun sha256 sign fo o0 before))) after = true ->
  obj_valid_channel sha256 verify fo addr (pub sk) ch (orun sha256 sign fo o0 (before ++ OSign sk ch :: after)) = true.
Proof. exact resigned_validates_channel. Qed.
Print Assumptions C04_resigned_validates_channel.

Theorem C04_other_channel_refused : forall (sha256 : bytes -> bytes) (verify : bytes -> bytes -> bytes -> bool)
  (fo addr : bytes) o pk ch, ch <> o_ch o -> obj_valid_channel sha256 verify fo addr pk ch o = false.
Proof. exact other_channel_refused. Qed.
Print Assumptions C04_other_channel_refused.

(* clear_signature: until somebody signs again the object validates against no key at all. *)
Theorem C04_cleared_never_validates : forall (sha256 : bytes -> bytes) (sign : bytes -> bytes -> bytes)
  (verify : bytes -> bytes -> bytes -> bool) (fo addr : bytes) o0 before after pk,
  forallb not_sign after = true ->
  obj_valid sha256 verify fo addr pk (orun sha256 sign fo o0 (before ++ OClear :: after)) = false.
Proof. exact cleared_never_validates. Qed.
Print Assumptions C04_cleared_never_validates.

(* a reader of the transaction reaches the same verdict as the holder of a current-format object *)
Theorem C04_reread_preserves_current : forall (sha256 : bytes -> bytes) (sign : bytes -> bytes -> bytes)
  (verify : bytes -> bytes -> bytes -> bool) (fo addr : bytes) o pk,
  o_legacy o = None ->
  obj_valid sha256 verify fo addr pk (ostep sha256 sign fo o OReread) = obj_valid sha256 verify fo addr pk o.
Proof. exact reread_preserves_current. Qed.
Print Assumptions C04_reread_preserves_current.

(* The behaviour of Output.sign before /repo commit a3011f6 (the legacy marker survives a new signature) is REFUTED
   by a witness: a scheme satisfying the hypothesis above under which the freshly signed object does not validate. *)
Theorem C04_old_sign_refuted :
  (forall sk d, toy_verify sk d (toy_sign sk d) = true) /\
  obj_valid toy_sha toy_verify [x0a] [x0b] [x07]
    (ostep_old toy_sha toy_sign [x0a] legacy_start (OSign [x07] [x06])) = false /\
  obj_valid toy_sha toy_verify [x0a] [x0b] [x07]
    (ostep toy_sha toy_sign [x0a] legacy_start (OSign [x07] [x06])) = true.
Proof. exact (conj toy_verify_sign (conj old_sign_refuted new_sign_ok)). Qed.
Print Assumptions C04_old_sign_refuted.

(* non-vacuity *)
Example C04_ex_wf : wf_tx sample_tx4.
Proof. exact sample_tx4_wf. Qed.
Example C04_ex_preimage_len : length (sighash_preimage sample_tx4 1 [byte_of_N 118; byte_of_N 169; byte_of_N 20]) = 151%nat.
Proof. vm_compute. reflexivity. Qed.
