(* C12 property theorems (components; the whole-network hit guarantee is NOT a theorem, see meta.json).
   Statements only, each closed by [exact]. *)
From Coq Require Import NArith ZArith List Bool Arith Permutation.
From Coq.Strings Require Import Byte.
From LV Require Import Lib.Bytes Model.C12 Proofs.C12.
Import ListNotations.

(* ---------------- data store ---------------- *)
(* For every history of announcements (DAdd) and cleanup passes (DExpire): a peer is returned for a blob at
   time [now] iff the abstract record "last announcement not since cleaned up" holds a timestamp ts with
   now < ts + 86400, and the peer is not known bad.  [a_run] is the specification-level partial map
   (key, peer) -> time; the implementation-shaped list-of-lists store refines it. *)
Theorem C12_store_visible_until_expiry : forall (ops : list dop) (k p : N) (now : Z) (bad : N -> bool),
  In p (ds_get (ds_run ops) k now bad) <->
  exists ts, a_run ops k p = Some ts /\ (now < ts + 86400)%Z /\ bad p = false.
Proof. exact store_visible_until_expiry. Qed.
Print Assumptions C12_store_visible_until_expiry.

(* refresh replaces the timestamp: right after (re-)announcing at time t, visibility depends on t alone *)
Theorem C12_store_refresh : forall (ops : list dop) (k p : N) (t now : Z) (bad : N -> bool),
  In p (ds_get (ds_run (ops ++ [DAdd k p t])) k now bad) <-> (now < t + 86400)%Z /\ bad p = false.
Proof. exact store_refresh. Qed.
Print Assumptions C12_store_refresh.

Theorem C12_store_no_duplicates : forall ops k now bad, NoDup (ds_get (ds_run ops) k now bad).
Proof. exact store_get_NoDup. Qed.
Print Assumptions C12_store_no_duplicates.

(* ---------------- paging ---------------- *)
(* One storing node holding any set of up to K*(MAX_VALUE_PAGES+1) = 264 distinct peers, shuffled in any
   way, walked by the client's page loop: every stored peer is delivered exactly once. *)
Theorem C12_paging_complete : forall (stored shuffled : list N),
  NoDup stored -> Permutation shuffled stored -> length stored <= K * (MAX_VALUE_PAGES + 1) ->
  Permutation (delivered N.eqb shuffled) stored /\ NoDup (delivered N.eqb shuffled).
Proof. exact (paging_complete_shuffled N.eqb N.eqb_eq). Qed.
Print Assumptions C12_paging_complete.

(* beyond the cap the client stops after MAX_VALUE_PAGES+1 pages: exactly 264 peers *)
Theorem C12_paging_cap : forall (l : list N),
  NoDup l -> K * (MAX_VALUE_PAGES + 1) < length l -> length (delivered N.eqb l) = K * (MAX_VALUE_PAGES + 1).
Proof. exact (paging_cap_exceeded N.eqb N.eqb_eq). Qed.
Print Assumptions C12_paging_cap.

(* the page count before commit bd444d0 (n // (K+1) + 1): complete iff n/9 + n mod 9 <= 16 *)
Theorem C12_paging_old_refuted : forall (l : list N),
  NoDup l -> (delivered_old N.eqb l = l <-> good_count_old (length l) = true).
Proof. exact (paging_old_refuted N.eqb N.eqb_eq). Qed.
Print Assumptions C12_paging_old_refuted.

(* against ANY storing node (hostile included): the capped page loop ends after at most MAX_VALUE_PAGES+1 requests *)
Theorem C12_paging_terminates_any_server : forall (srv : nat -> list N * nat) (fuel : nat),
  MAX_VALUE_PAGES + 2 <= fuel ->
  let r := walk N.eqb real_cap fuel srv {| pg := 0; disc := [] |} [] [] in
  snd r = true /\ length (snd (fst r)) <= MAX_VALUE_PAGES + 1.
Proof. exact paging_terminates_any_server. Qed.
Print Assumptions C12_paging_terminates_any_server.

(* the loop before commit fac7223: a fresh full page announcing one more page always makes it ask again *)
Theorem C12_uncapped_page_step_refuted : forall (st : pstate) (items : list N) (pages : nat),
  items <> [] -> NoDup items -> (forall x, In x items -> ~ In x (disc st)) ->
  K <= length items -> pg st < pages ->
  page_step N.eqb None st items pages = ({| pg := S (pg st); disc := disc st ++ items |}, true).
Proof. exact (page_step_uncapped_again N.eqb N.eqb_eq). Qed.
Print Assumptions C12_uncapped_page_step_refuted.

(* ---------------- finder bookkeeping ---------------- *)
(* For ANY sequence of events (replies with any contacts, timeouts, errors, crashes, in any order): the number
   of probes ever scheduled is at most the id-less seeds plus (1 + MAX_VALUE_PAGES) per distinct peer ever
   mentioned.  Each probe ends within one RPC timeout (protocol.send_request), hence the time bound. *)
Theorem C12_finder_terminates : forall (prm : fparams) (evs : list fev),
  fp_cap prm = real_cap ->
  f_sched (final_state prm evs) <=
  seeds_of evs + (1 + MAX_VALUE_PAGES) * length (nodup N.eq_dec (mentioned evs)).
Proof. exact (fun prm evs => finder_probe_bound prm MAX_VALUE_PAGES evs). Qed.
Print Assumptions C12_finder_terminates.

(* node lookups (no value replies): one probe per distinct peer *)
Theorem C12_finder_terminates_node : forall (prm : fparams) (evs : list fev),
  fp_cap prm = real_cap -> forallb (fun e => negb (is_vreply e)) evs = true ->
  f_sched (final_state prm evs) <= seeds_of evs + length (nodup N.eq_dec (mentioned evs)).
Proof. exact (fun prm evs => finder_probe_bound_node prm MAX_VALUE_PAGES evs). Qed.
Print Assumptions C12_finder_terminates_node.

Theorem C12_finder_alpha : forall (prm : fparams) (evs : list fev),
  fp_cap prm = real_cap -> length (f_running (final_state prm evs)) <= ALPHA + seeds_of evs.
Proof. exact (fun prm evs => finder_alpha prm MAX_VALUE_PAGES evs). Qed.
Print Assumptions C12_finder_alpha.

(* after every search round of a reachable state: a probe is running or the end marker has been queued *)
Theorem C12_finder_progress : forall prm evs ev st' outs tag,
  fp_cap prm = real_cap ->
  (exists good, ev = EStart good) \/
  (exists p tid good, ev = EDone p tid good /\ f_on (final_state prm evs) = true) ->
  fstep prm (final_state prm evs) ev = (st', outs, tag) ->
  f_running st' <> [] \/ In OFinish outs.
Proof. exact (fun prm evs ev st' outs tag => round_progress prm MAX_VALUE_PAGES evs ev st' outs tag). Qed.
Print Assumptions C12_finder_progress.

Theorem C12_finder_contacted_grows : forall prm evs ev st' outs tag,
  fp_cap prm = real_cap -> is_vreply ev = false ->
  fstep prm (final_state prm evs) ev = (st', outs, tag) ->
  forall x, In x (f_contacted (final_state prm evs)) -> In x (f_contacted st').
Proof. exact (fun prm evs ev st' outs tag => contacted_monotone prm MAX_VALUE_PAGES evs ev st' outs tag). Qed.
Print Assumptions C12_finder_contacted_grows.

Theorem C12_finder_pages_capped : forall prm evs k v,
  fp_cap prm = real_cap -> In (k, v) (f_pages (final_state prm evs)) -> v <= MAX_VALUE_PAGES.
Proof. exact (fun prm evs k v => finder_pages_capped prm MAX_VALUE_PAGES evs k v). Qed.
Print Assumptions C12_finder_pages_capped.

(* the loop before commit fac7223: a single hostile peer drives 35 probes, above the bound 33 that the capped
   loop keeps on the same events *)
Theorem C12_uncapped_pager_refuted :
  exists evs, length (nodup N.eq_dec (mentioned evs)) = 1 /\ seeds_of evs = 0 /\
    f_sched (final_state (prm_value None) evs) > (1 + MAX_VALUE_PAGES) * 1 /\
    f_sched (final_state (prm_value real_cap) evs) <= (1 + MAX_VALUE_PAGES) * 1.
Proof. exact uncapped_pager_refuted. Qed.
Print Assumptions C12_uncapped_pager_refuted.

(* the done-callback (commit 8221320: a finished probe removes only its OWN running_probes entry): along every run in
   which each callback comes after its task's result, "no probe tracked as running" implies "no probe result
   pending" - so the end of the search (declared only when nothing is tracked) never drops a page on its way *)
Theorem C12_finder_exhaustion_sound : forall (prm : fparams) (evs : list fev),
  fp_stalepop prm = false -> run_wf prm f_init evs ->
  f_running (final_state prm evs) = [] -> f_pending (final_state prm evs) = [].
Proof. exact exhaustion_sound. Qed.
Print Assumptions C12_finder_exhaustion_sound.

(* the callback before 8221320 (pop whatever entry the peer has): on a well-formed run of six events the end is
   declared while the next page of peer 2 is pending; the repaired callback keeps it tracked on the same events *)
Theorem C12_stale_pop_refuted :
  run_wf (prm_race true) f_init race_evs /\
  f_running (final_state (prm_race true) race_evs) = [] /\
  f_pending (final_state (prm_race true) race_evs) = [(2%N, 2)] /\
  In OFinish (fst (last (snd (frun (prm_race true) f_init race_evs)) ([], 0%N))) /\
  f_running (final_state (prm_race false) race_evs) = [2%N] /\
  ~ In OFinish (fst (last (snd (frun (prm_race false) f_init race_evs)) ([], 0%N))).
Proof. exact stale_pop_refuted. Qed.
Print Assumptions C12_stale_pop_refuted.

(* ---------------- outputs ---------------- *)
(* node lookup, any state, any event: a yielded peer was reported good by the peer manager at that moment
   (it replied), was never yielded before, and its record is not the searching node *)
Theorem C12_outputs_valid_node : forall prm st ev st' outs tag ps x,
  fstep prm st ev = (st', outs, tag) -> In (OYield ps) outs -> In x ps ->
  In x (good_of ev) /\ ~ In x (f_yielded st) /\
  exists q, In q (f_active st') /\ pid q = x /\ self_id q = false.
Proof. exact node_yield_valid'. Qed.
Print Assumptions C12_outputs_valid_node.

(* value lookup: a yielded address is one of the event's raw items and decodes as a well-formed public address *)
Theorem C12_outputs_valid_value : forall prm st ev st' outs tag cs c,
  fstep prm st ev = (st', outs, tag) -> In (OVYield cs) outs -> In c cs ->
  valid_compact c = true /\
  exists p sb raw pages cts chk, ev = EValueReply p sb raw pages cts chk /\ In (VB c) raw.
Proof. exact value_yield_valid'. Qed.
Print Assumptions C12_outputs_valid_value.

Theorem C12_valid_compact_spec : forall bs, valid_compact bs = true ->
  length bs = 54 /\ (1024 <= be_decode (firstn 2 (skipn 4 bs)) < 65536)%N /\
  public_ip (nthN bs 0) (nthN bs 1) (nthN bs 2) (nthN bs 3) = true.
Proof. exact valid_compact_spec. Qed.
Print Assumptions C12_valid_compact_spec.

(* ---------------- production lookup (Node.accumulate_peers) and reply size ---------------- *)
(* the udp port the producer pings for a peer known only by its tcp port is the peer's real udp port exactly
   for the supported layouts: one port for both protocols, or a legacy instance tcp 3333+i / udp 4444+i *)
Theorem C12_udp_guess_supported : forall udp tcp : N,
  guess_udp tcp = udp <-> port_layout_supported udp tcp.
Proof. exact guess_udp_supported. Qed.
Print Assumptions C12_udp_guess_supported.

(* a peer that is not the searcher and not known bad, on a supported layout, is handed out or pinged on its real port *)
Theorem C12_producer_reaches : forall (good : option bool) (known : option N) (udp tcp : N),
  good <> Some false -> port_layout_supported udp tcp -> (known = None \/ known = Some udp) -> udp <> 0%N ->
  producer_action false good known tcp = APut \/ producer_action false good known tcp = APing udp.
Proof. exact producer_action_reaches. Qed.
Print Assumptions C12_producer_reaches.

(* the largest first findValue page (K contacts with 15-character dotted quads and 5-digit ports, K blob peers,
   page count below 10^6) fits MSG_SIZE_LIMIT *)
Theorem C12_first_page_fits : forall (cs : list (nat * N)) (c : nat) (pages : N),
  length cs <= K -> Forall (fun x => fst x <= 15 /\ (snd x < 65536)%N) cs -> c <= K -> (pages < 1000000)%N ->
  find_value_reply_size (Some cs) (Some c) pages <= MSG_SIZE_LIMIT.
Proof. exact first_page_fits. Qed.
Print Assumptions C12_first_page_fits.

(* KademliaRPC.store (commit 0c01d02) only accepts tcp ports 1024..65535: every stored peer with a public address
   has a compact address that every searcher decodes as well-formed (no page is discarded because of it) *)
Theorem C12_stored_peer_compact_valid : forall (ip id : bytes) (port : N),
  length ip = 4 -> length id = 48 ->
  public_ip (nthN ip 0) (nthN ip 1) (nthN ip 2) (nthN ip 3) = true -> store_port_ok port = true ->
  valid_compact (mk_compact_addr ip port id) = true.
Proof. exact stored_peer_compact_valid. Qed.
Print Assumptions C12_stored_peer_compact_valid.

(* PingQueue.enqueue_maybe_ping keeps the EARLIER time: once a contact is queued for time a, whatever is enqueued
   afterwards (further requests of the same busy contact included) its verification ping is due at a or before *)
Theorem C12_ping_never_postponed : forall (ops : list (N * Z)) (q : pq) (p : N) (a : Z),
  pq_get q p = Some a ->
  exists t, pq_get (fold_left (fun s o => pq_enqueue s (fst o) (snd o)) ops q) p = Some t /\ (t <= a)%Z.
Proof. exact pq_never_postponed. Qed.
Print Assumptions C12_ping_never_postponed.

(* ---------------- non-vacuity / concrete instances ---------------- *)
(* F9 (machine-checked): 89 peers on one node, old page count: 88 delivered *)
Example C12_ex_old_89 : delivered_old N.eqb (seqN 89) = firstn 88 (seqN 89).
Proof. vm_compute. reflexivity. Qed.
Example C12_ex_new_89 : delivered N.eqb (seqN 89) = seqN 89.
Proof. vm_compute. reflexivity. Qed.
Example C12_ex_new_264 : length (delivered N.eqb (seqN 264)) = 264.
Proof. vm_compute. reflexivity. Qed.
Example C12_ex_new_265 : length (delivered N.eqb (seqN 265)) = 264.
Proof. vm_compute. reflexivity. Qed.
(* a stored peer is visible one second before expiry and gone at expiry; a bad peer is filtered *)
Example C12_ex_store :
  (ds_get (ds_run [DAdd 7 1 100; DAdd 7 2 200; DAdd 7 1 300]) 7 86499 (fun _ => false),
   ds_get (ds_run [DAdd 7 1 100; DAdd 7 2 200; DAdd 7 1 300]) 7 86600 (fun _ => false),
   ds_get (ds_run [DAdd 7 1 100; DAdd 7 2 200; DAdd 7 1 300]) 7 0 (fun p => N.eqb p 1),
   ds_run [DAdd 7 1 100; DAdd 7 2 200; DExpire 86501 []])
  = ([1; 2], [1], [2], [(7, [(2, 200%Z)])])%N.
Proof. vm_compute. reflexivity. Qed.
Example C12_ex_compact : (valid_compact (mk_compact 5), decode_compact [x01; x02; x03]) = (true, DCrash).
Proof. vm_compute. reflexivity. Qed.
(* a concrete node lookup: two known peers, one replies with a closer contact, the searcher itself and a known-bad
   contact; one times out; the lookup ends by exhaustion and yields the two good peers closest first *)
Definition ex_peer (i d : N) : peer := {| pid := i; pdist := d; has_id := true; self_id := false; self_addr := false |}.
Definition ex_me : peer := {| pid := 9; pdist := 0; has_id := true; self_id := true; self_addr := true |}.
Definition ex_prm : fparams := {| fp_kind := KNode; fp_key_is_self := false; fp_maxres := 16; fp_cap := real_cap; fp_stalepop := false |}.
Definition ex_evs : list fev :=
  [EInit [ex_peer 1 5; ex_peer 2 3]; EStart [];
   ENodeReply (ex_peer 2 3) false [(ex_peer 3 1, false); (ex_me, false); (ex_peer 4 7, true)] true false [];
   EDone 2 0 []; EFail 1; EDone 1 1 [];
   ENodeReply (ex_peer 3 1) false [(ex_peer 2 3, false)] true false []; EDone 3 2 [2; 3]%N]%N.
Example C12_ex_finder :
  (snd (frun ex_prm f_init ex_evs), f_sched (final_state ex_prm ex_evs), f_contacted (final_state ex_prm ex_evs))
  = ([([], 0); ([OSched 2; OSched 1], 0); ([], 0); ([OSched 3], 0); ([], 0); ([], 0); ([], 0);
      ([OYield [3; 2]; OFinish], 0)], 3%nat, [2; 1; 3])%N.
Proof. vm_compute. reflexivity. Qed.
Example C12_ex_reply_size :
  (find_value_reply_size (Some (repeat (15, 44444%N) 8)) (Some 8) 2, find_value_reply_size (Some (repeat (7, 4444%N) 8)) (Some 8) 2,
   find_value_reply_size None (Some 8) 13, guess_udp 3334, guess_udp 5000, guess_udp 3333)
  = (1323, 1243, 688, 4445%N, 5000%N, 4444%N).
Proof. vm_compute. reflexivity. Qed.
(* a port the old store rule (0 < port < 65535) let through: the whole findValue page is discarded by the searcher *)
Example C12_ex_low_port :
  (store_port_ok 80, decode_compact (mk_compact_addr [x01; x00; x00; x04] 80 (repeat x07 48)), store_port_ok 1024, store_port_ok 65535)
  = (false, DInvalid, true, true).
Proof. vm_compute. reflexivity. Qed.
