(* C18 property theorems: statements only, each closed by [exact].
   restart s = BlobManager.setup() run on fresh memory over the disk and blob table of s  (Model/C18.v);
   every theorem below quantifies over ALL states s (any directory content, any table content), hence over
   every earlier history and crash placement; C18_history additionally walks arbitrary operation lists. *)
From Coq Require Import NArith List Bool.
From Coq.Strings Require Import Byte.
From LV Require Import Lib.Bytes Model.C18 Proofs.C18.
Import ListNotations.
Local Open Scope N_scope.

(* ===== The two headline statements of the plan (DESIGN.md section 8), each for EVERY state s: no assumption on what
   the blob directory holds (regular files, links to files, sub-directories, dangling links, junk names) or on the
   table.  "file" = is_file: a regular file or a symbolic link to one.  The finer-grained theorems follow. ===== *)

(* After a start: the directory is untouched; everything reported as completed has its file; every blob file
   present is 'finished'; every row that was 'finished' and has lost its file is 'pending'; every row that is
   'finished' now has its file. *)
Theorem C18_setup_establishes : forall s,
  disk (restart s) = disk s /\
  (forall h, In h (completed (restart s)) -> valid_name h = true /\ is_file (disk (restart s)) h = true) /\
  (forall h, valid_name h = true -> is_file (disk (restart s)) h = true ->
             db_status (db (restart s)) h = Some Finished) /\
  (forall h, db_status (db s) h = Some Finished -> is_file (disk s) h = false ->
             db_status (db (restart s)) h = Some Pending) /\
  (forall h, db_status (db (restart s)) h = Some Finished ->
             valid_name h = true /\ is_file (disk (restart s)) h = true).
Proof. exact restart_ok. Qed.
Print Assumptions C18_setup_establishes.

(* A further start with nothing changed reports exactly the blob files present and leaves the table alone. *)
Theorem C18_setup_idempotent : forall s,
  disk (restart (restart s)) = disk s /\
  (forall h, In h (completed (restart (restart s))) <-> valid_name h = true /\ is_file (disk s) h = true) /\
  (forall h, db_status (db (restart (restart s))) h = db_status (db (restart s)) h).
Proof. exact setup_idempotent. Qed.
Print Assumptions C18_setup_idempotent.

(* setup never touches the blob directory *)
Theorem C18_setup_disk_unchanged : forall s, disk (restart s) = disk s.
Proof. exact restart_disk. Qed.
Print Assumptions C18_setup_disk_unchanged.

(* Exactly which hashes are reported as completed after a start: the valid blob-hash names that are files and
   had a 'finished' row. *)
Theorem C18_completed_exact : forall s h,
  In h (completed (restart s)) <->
  valid_name h = true /\ is_file (disk s) h = true /\ db_status (db s) h = Some Finished.
Proof. exact restart_completed_In. Qed.
Print Assumptions C18_completed_exact.

(* Clause 1: every blob reported as completed has its file in the blob directory. *)
Theorem C18_completed_have_files : forall s h,
  In h (completed (restart s)) -> valid_name h = true /\ is_file (disk (restart s)) h = true.
Proof. exact completed_have_files. Qed.
Print Assumptions C18_completed_have_files.

(* Clause 2: every blob file present (regular file whose name is a blob hash) is 'finished' afterwards;
   no assumption on directory or table. *)
Theorem C18_files_finished : forall s h, valid_name h = true -> is_file (disk s) h = true ->
  db_status (db (restart s)) h = Some Finished.
Proof. exact files_finished. Qed.
Print Assumptions C18_files_finished.

(* Clause 3: every 'finished' row whose file has disappeared (nothing there, or only a directory or a dangling
   link) is 'pending' afterwards, and conversely every row that is 'finished' afterwards has its file. *)
Theorem C18_missing_downgraded : forall s h, db_status (db s) h = Some Finished ->
  is_file (disk s) h = false -> db_status (db (restart s)) h = Some Pending.
Proof. exact missing_downgraded. Qed.
Print Assumptions C18_missing_downgraded.

Theorem C18_finished_have_files : forall s h,
  db_status (db (restart s)) h = Some Finished -> valid_name h = true /\ is_file (disk s) h = true.
Proof. exact finished_have_files. Qed.
Print Assumptions C18_finished_have_files.

(* The whole table after a start, row by row (the three clauses above are instances). *)
Theorem C18_setup_db_exact : forall s h,
  db_status (db (restart s)) h =
  if valid_name h && is_file (disk s) h then Some Finished
  else match db_status (db s) h with Some Finished => Some Pending | x => x end.
Proof. exact restart_db_exact. Qed.
Print Assumptions C18_setup_db_exact.

(* What must NOT change: a row is invented only for a blob file that is present, and no row is deleted. *)
Theorem C18_rows_not_invented : forall s h, db_status (db s) h = None -> db_status (db (restart s)) h <> None ->
  valid_name h = true /\ is_file (disk s) h = true /\ db_status (db (restart s)) h = Some Finished.
Proof. exact rows_not_invented. Qed.
Print Assumptions C18_rows_not_invented.

Theorem C18_rows_not_deleted : forall s h, db_status (db s) h <> None -> db_status (db (restart s)) h <> None.
Proof. exact rows_not_deleted. Qed.
Print Assumptions C18_rows_not_deleted.

(* Clause 4: a further restart with nothing changed reports exactly the blob files present, leaves the table
   as it is, and every later restart reports the same set. *)
Theorem C18_second_restart_exact : forall s h,
  In h (completed (restart (restart s))) <-> valid_name h = true /\ is_file (disk s) h = true.
Proof. exact second_restart_exact. Qed.
Print Assumptions C18_second_restart_exact.

Theorem C18_restart_db_idempotent : forall s h,
  db_status (db (restart (restart s))) h = db_status (db (restart s)) h.
Proof. exact restart_db_idempotent. Qed.
Print Assumptions C18_restart_db_idempotent.

Theorem C18_restart_stable : forall s h,
  In h (completed (restart (restart (restart s)))) <-> In h (completed (restart (restart s))).
Proof. exact restart_stable. Qed.
Print Assumptions C18_restart_stable.

(* Whatever is not a (link to a) regular file -- nothing there, a sub-directory, a dangling symlink -- is not
   'finished' after a start and is reported by no start, whatever the table said before. *)
Theorem C18_second_restart_general : forall s h, is_file (disk s) h = false ->
  db_status (db (restart s)) h <> Some Finished /\
  ~ In h (completed (restart s)) /\ ~ In h (completed (restart (restart s))).
Proof. exact second_restart_general. Qed.
Print Assumptions C18_second_restart_general.

(* Histories: after ANY list of completions, unfinished downloads, publishes, API deletions, stream deletions,
   external file creation/overwrite/removal, forced table rows, process deaths between a file write and its
   database write (whole or partial file, mid-publish with any k files written and j recorded) and restarts
   (with config.save_blobs switched on or off at will)
   symlinks to regular files (relocated blobs), dangling symlinks and sub-directories planted in the blob directory
   -- in any order and number, no exclusion -- a restart establishes all clauses, and one more restart reports
   exactly the files present. *)
Theorem C18_history : forall ops,
  let s := run init ops in
  (disk (restart s) = disk s /\
   (forall h, In h (completed (restart s)) -> valid_name h = true /\ is_file (disk (restart s)) h = true) /\
   (forall h, valid_name h = true -> is_file (disk (restart s)) h = true ->
              db_status (db (restart s)) h = Some Finished) /\
   (forall h, db_status (db s) h = Some Finished -> is_file (disk s) h = false ->
              db_status (db (restart s)) h = Some Pending) /\
   (forall h, db_status (db (restart s)) h = Some Finished ->
              valid_name h = true /\ is_file (disk (restart s)) h = true)) /\
  (forall h, In h (completed (restart (restart s))) <-> valid_name h = true /\ is_file (disk s) h = true) /\
  (forall h, db_status (db (restart (restart s))) h = db_status (db (restart s)) h).
Proof. exact history_ok. Qed.
Print Assumptions C18_history.

(* Between restarts: as long as only API operations run (completions, unfinished downloads, publishes, API and
   stream deletions, restarts) -- no death, nothing behind the daemon's back -- every blob file present stays
   recorded as finished at every moment; a start establishes this from ANY state without planted directories.
   files_recorded s :=  files_only (disk s) /\ (forall h, valid_name h -> is_file (disk s) h -> status h = Finished)
                        /\ no cached in-memory blob (BlobBuffer, save_blobs off) has a file of its name. *)
Theorem C18_api_keeps_files_recorded : forall ops s, forallb is_api_op ops = true ->
  files_recorded s -> files_recorded (run s ops).
Proof. exact run_files_recorded. Qed.
Print Assumptions C18_api_keeps_files_recorded.

Theorem C18_start_establishes_files_recorded : forall s, files_only (disk s) -> files_recorded (restart s).
Proof. exact restart_files_recorded. Qed.
Print Assumptions C18_start_establishes_files_recorded.

(* "... reports as completed (and therefore announces and offers to peers) has its file": the work list of the DHT
   announcer, SQLiteStorage.get_blobs_to_announce(), under BOTH settings of announce_head_and_sd_only, read right
   after a start: every announced hash has its file; with "announce everything" it is exactly the files present;
   the head/sd-only list is the marked (should_announce) part of it. *)
Theorem C18_announced_have_files : forall head s h,
  In h (announce_list head (restart s)) -> valid_name h = true /\ is_file (disk (restart s)) h = true.
Proof. exact announced_have_files. Qed.
Print Assumptions C18_announced_have_files.

Theorem C18_announce_all_exact : forall s h,
  In h (announce_list false (restart s)) <-> valid_name h = true /\ is_file (disk s) h = true.
Proof. exact announce_all_exact. Qed.
Print Assumptions C18_announce_all_exact.

Theorem C18_announce_head_subset : forall s h, In h (announce_list true s) ->
  In h (announce_list false s) /\ mem h (marked s) = true.
Proof. exact announce_head_subset. Qed.
Print Assumptions C18_announce_head_subset.

(* Between restarts, since 1ed13b5 (delete_blob always un-reports): along completions, publishes, API and stream
   deletions and restarts -- no death, nothing behind the daemon's back, no download abandoned after BlobFile.__init__
   removed a file of another length (OTouch) -- everything reported as completed has its file AT EVERY MOMENT, not only
   after a start.   completed_backed s := files_recorded s /\ forall k, In k (completed s) -> is_file (disk s) k. *)
Theorem C18_api_keeps_completed_backed : forall ops s, forallb is_api_op_strict ops = true ->
  completed_backed s -> completed_backed (run s ops).
Proof. exact run_completed_backed. Qed.
Print Assumptions C18_api_keeps_completed_backed.

Theorem C18_start_establishes_completed_backed : forall s, files_only (disk s) -> completed_backed (restart s).
Proof. exact restart_completed_backed. Qed.
Print Assumptions C18_start_establishes_completed_backed.

(* ===== Daemon start = BlobManager.setup followed by StreamManager.initialize_from_database (model: daemon_start):
   every managed stream whose sd blob is not verified is recovered -- the sd blob file is written again, the
   stream's rows are deleted and re-inserted as 'pending' (storage.recover_streams), and THEN
   ensure_completed_blobs_status marks those that have a file 'finished' -- and every stream's sd blob is loaded.
   A stream is (sd hash, sd length, content hashes, "its sd blob file does not hold JSON"): such a damaged sd blob is
   removed by the parser and (repaired behaviour) dropped from cache, completed set and table in the same step.
   For every state s and every list L of streams such that no DIRECTORY or symlink loop sits under an sd name (a
   write there fails while its completion callbacks still run): ===== *)
Theorem C18_daemon_start_establishes : forall L s,
  (forall st, In st L -> is_dir (disk s) (st_sd st) = false) ->
  let t := daemon_start s L in
  (forall h, In h (completed t) -> is_file (disk t) h = true) /\
  (forall h, valid_name h = true -> is_file (disk t) h = true -> db_status (db t) h = Some Finished) /\
  (forall h, db_status (db t) h = Some Finished -> is_file (disk t) h = true).
Proof. exact daemon_start_ok. Qed.
Print Assumptions C18_daemon_start_establishes.

(* ... and a further start with nothing changed reports exactly the files present *)
Theorem C18_daemon_start_then_restart_exact : forall s L h,
  (forall st, In st L -> is_dir (disk s) (st_sd st) = false) ->
  (In h (completed (restart (daemon_start s L))) <->
   valid_name h = true /\ is_file (disk (daemon_start s L)) h = true).
Proof. exact daemon_start_then_restart_exact. Qed.
Print Assumptions C18_daemon_start_then_restart_exact.

Theorem C18_daemon_start_announced_have_files : forall s L head h,
  (forall st, In st L -> is_dir (disk s) (st_sd st) = false) ->
  In h (announce_list head (daemon_start s L)) -> is_file (disk (daemon_start s L)) h = true.
Proof. exact daemon_start_announced_have_files. Qed.
Print Assumptions C18_daemon_start_announced_have_files.

(* the daemon start only ever adds files (re-created sd blobs); the one file it may remove is the sd blob of a
   stream whose sd blob file does not hold JSON (removed together with its row and its report, see inv3 above) *)
Theorem C18_daemon_start_keeps_files : forall s L h,
  (forall st, In st L -> st_not_json st = true -> st_sd st <> h) ->
  is_file (disk s) h = true -> is_file (disk (daemon_start s L)) h = true.
Proof. exact daemon_start_disk_grows. Qed.
Print Assumptions C18_daemon_start_keeps_files.

(* config.save_blobs (part of the state, chosen again at each restart) plays no part in what a start does; every
   theorem above quantifies over all states, hence over both settings. *)
Theorem C18_save_setting_irrelevant : forall s b,
  disk (restart_with s b) = disk (restart s) /\ db (restart_with s b) = db (restart s) /\
  completed (restart_with s b) = completed (restart s).
Proof. exact restart_with_same. Qed.
Print Assumptions C18_save_setting_irrelevant.

(* Reachable states keep the directory names, the table's primary key and the completed set duplicate-free
   (so comparing the model's lists with the implementation's sets / rows is meaningful). *)
Theorem C18_keys_unique : forall ops,
  NoDup (map fst (disk (run init ops))) /\ NoDup (map fst (db (run init ops))) /\ NoDup (completed (run init ops)).
Proof. exact reachable_keys_unique. Qed.
Print Assumptions C18_keys_unique.

(* ---------- non-vacuity and documented boundary behaviour (concrete runs of the model) ---------- *)
Definition hA : name := repeat x61 96.                      (* "aaa...a" *)
Definition hB : name := repeat x62 96.
Definition hC : name := repeat x2c 96.                      (* 96 commas: accepted by the regex [a-f,0-9] *)
Definition hN : name := repeat x63 95 ++ [x0a].             (* 95 hex digits and a trailing newline: accepted *)

Example C18_names : (valid_name hA, valid_name hC, valid_name hN, valid_name (repeat x41 96),
                     valid_name (repeat x61 95), valid_name (repeat x61 97), valid_name (repeat x61 95 ++ [x67]))
                    = (true, true, true, false, false, false, false).
Proof. vm_compute. reflexivity. Qed.

(* death between the file write and the database write; the restart records the file, the next one reports it *)
Example C18_crash_then_restart :
  let s := run init [OCrashWrite hA 5 5; ORestart] in
  (alive (run init [OCrashWrite hA 5 5]), db_status (db (run init [OCrashWrite hA 5 5])) hA,
   db_status (db s) hA, completed s, completed (restart s)) = (false, None, Some Finished, [], [hA]).
Proof. vm_compute. reflexivity. Qed.

(* a file removed behind the daemon's back *)
Example C18_removed_then_restart :
  let s := run init [OComplete hA 5; OExtRemove hA; ORestart] in
  (db_status (db (run init [OComplete hA 5])) hA, db_status (db s) hA, completed s) = (Some Finished, Some Pending, []).
Proof. vm_compute. reflexivity. Qed.

(* a death in the middle of a publish: 2 of 3 files written, 1 recorded *)
Example C18_publish_crash :
  let s := run init [OPublishCrash [(hA, 5); (hB, 6)] (hC, 7) 2 1; ORestart; ORestart] in
  (map fst (disk s), db_status (db s) hA, db_status (db s) hB, db_status (db s) hC, length (completed s))
  = ([hB; hA], Some Finished, Some Finished, None, 2%nat).
Proof. vm_compute. reflexivity. Qed.

(* deleting a published blob through the API (its BlobFile was never entered in BlobManager.blobs) removes file,
   row AND report; before 1ed13b5 (delete_blob_old) the hash stayed in completed_blob_hashes without a file *)
Example C18_delete_unreports_old_refuted :
  let s := run init [OPublish [(hA, 5)] (hB, 7)] in
  let t := run s [ODelete [hA] true] in
  let u := delete_blob_old s hA in
  ((mem hA (completed t), is_file (disk t) hA, db_status (db t) hA), (mem hA (completed u), is_file (disk u) hA))
  = ((false, false, None), (true, false)).
Proof. vm_compute. reflexivity. Qed.

(* a download onto a DIRECTORY fails (the rename cannot replace it): since 82794e2 nothing is marked or recorded;
   onto a dangling link or a symlink loop the rename replaces the link by the file *)
Example C18_failed_write_records_nothing :
  let s := run init [OExtDir hA; OExtLoop hB; OExtLink hC None] in
  (snd (step s (OComplete hA 5)), completed (fst (step s (OComplete hA 5))), db_status (db (fst (step s (OComplete hA 5)))) hA,
   snd (step s (OComplete hB 6)), is_file (disk (fst (step s (OComplete hB 6)))) hB,
   snd (step s (OComplete hC 7)), is_file (disk (fst (step s (OComplete hC 7)))) hC)
  = (RFailed, [], None, RDone, true, RDone, true).
Proof. vm_compute. reflexivity. Qed.

(* a death in the middle of writing '<hash>.tmp' (1cc6188) leaves nothing under the blob's name *)
Example C18_crash_mid_write_leaves_no_blob :
  let s := run init [OCrashWrite hA 5 3; ORestart; ORestart] in
  (is_file (disk s) hA, db_status (db s) hA, completed s) = (false, None, []).
Proof. vm_compute. reflexivity. Qed.

(* A DIRECTORY named like a blob hash is not listed by the scan (item.is_file()): a 'finished' row for it is
   downgraded and it is not reported. *)
Example C18_directory_entry_not_reported :
  let s := run init [OExtDir hA; OExtDb hA (Some Finished); ORestart] in
  (completed s, is_file (disk s) hA, db_status (db s) hA, announce_list false s) = ([], false, Some Pending, []).
Proof. vm_compute. reflexivity. Qed.

(* The scan BEFORE the repair (8ca445d) listed every blob-hash name: a relocated blob whose target was deleted (a
   dangling link) kept its 'finished' row, was reported as completed and announced although no file exists --
   the old start-up violates clauses 1 and 3 on this input; the repaired one does not. *)
Example C18_old_scan_refuted :
  let s := run init [OComplete hA 5; OExtRemove hA; OExtLink hA None] in
  (is_file (disk s) hA,
   db_status (db (restart_old s)) hA, completed (restart_old s), announce_list false (restart_old s),
   db_status (db (restart s)) hA, completed (restart s), announce_list false (restart s))
  = (false, Some Finished, [hA], [hA], Some Pending, [], []).
Proof. vm_compute. reflexivity. Qed.

(* the first start after a file appeared records it but does not yet report it (clause 4 needs the second) *)
Example C18_first_start_underreports :
  let s := run init [OExtFile hA 3; ORestart] in
  (completed s, db_status (db s) hA, completed (restart s)) = ([], Some Finished, [hA]).
Proof. vm_compute. reflexivity. Qed.

(* with save_blobs off a completed download stays in memory: a 'pending' row, no file, nothing reported;
   after a restart with save_blobs on the same download writes the file and is recorded *)
Example C18_memory_only_blob :
  let s := run init [ORestartSave false; OComplete hA 5] in
  let t := run s [ORestartSave true; OComplete hA 5] in
  (db_status (db s) hA, is_file (disk s) hA, completed s, db_status (db t) hA, is_file (disk t) hA, completed t)
  = (Some Pending, false, [], Some Finished, true, [hA]).
Proof. vm_compute. reflexivity. Qed.

(* two blobs downloaded, the file of one removed behind the daemon's back, restart: only the other is announced;
   a published stream's sd blob is the only one on the head/sd-only list, and leaves it when its file vanishes *)
Example C18_announce_after_file_removed :
  let s := run init [OComplete hA 5; OComplete hB 6; OExtRemove hA; ORestart] in
  let t := run init [OPublish [(hA, 5)] (hB, 7); ORestart] in
  let u := run t [OExtRemove hB; ORestart] in
  (announce_list false s, announce_list true s, announce_list true t, length (announce_list false t),
   announce_list true u, announce_list false u)
  = ([hB], [], [hB], 2%nat, [], [hA]).
Proof. vm_compute. reflexivity. Qed.

(* C18_files_finished holds for EVERY file size: a file above MAX_BLOB_SIZE (2 MiB) dropped into the directory
   is recorded by the next start and reported by the one after, like any other *)
Example C18_oversized_file_recorded :
  let s := run init [OExtFile hA 2097152; OExtFile hB 2097153; OExtFile hC 6291461; ORestart] in
  (db_status (db s) hA, db_status (db s) hB, db_status (db s) hC, length (completed (restart s)))
  = (Some Finished, Some Finished, Some Finished, 3%nat).
Proof. vm_compute. reflexivity. Qed.

(* a blob relocated to another volume and linked back IS a blob file present (EFile stands for a regular file or a
   link to one): recorded by the next start, reported by the one after.  A DANGLING link is no file: never
   recorded, and a 'finished' row for it is downgraded and not reported.  Re-downloading a blob whose name is a
   dangling link writes through the link: the file exists again and is recorded. *)
Example C18_symlinked_blob :
  let s := run init [OExtLink hA (Some 1000); OExtLink hB None; OExtLink hC None; OExtDb hC (Some Finished); ORestart] in
  let t := run s [OComplete hC 7] in
  (is_file (disk s) hA, db_status (db s) hA, db_status (db s) hB, is_file (disk s) hC, db_status (db s) hC,
   completed s, completed (restart s), is_file (disk t) hC, db_status (db t) hC)
  = (true, Some Finished, None, false, Some Pending, [], [hA], true, Some Finished).
Proof. vm_compute. reflexivity. Qed.

(* a managed stream (content hA, sd hB of 7 bytes) whose sd blob file vanished: the daemon start re-creates the sd
   blob file, and afterwards BOTH blob files are 'finished'; the next start reports both *)
Example C18_daemon_start_recovers_stream :
  let s := run init [OPublish [(hA, 5)] (hB, 7); OExtRemove hB] in
  let t := daemon_start s [(hB, 7, [hA], false)] in
  (is_file (disk s) hB, is_file (disk t) hB, db_status (db t) hA, db_status (db t) hB, completed t,
   length (completed (restart t)), announce_list true t)
  = (false, true, Some Finished, Some Finished, [hB; hA], 2%nat, [hB]).
Proof. vm_compute. reflexivity. Qed.

(* a symbolic link that leads back to itself under a blob-hash name (scandir lists it, is_file() raises ELOOP): not
   a file -- a 'finished' row for it is downgraded, it is not reported, and the start goes through *)
Example C18_symlink_loop_is_no_file :
  let s := run init [OComplete hA 5; OExtRemove hA; OExtLoop hA; OExtLoop hB; ORestart] in
  (is_file (disk s) hA, db_status (db s) hA, db_status (db s) hB, completed s, alive s)
  = (false, Some Pending, None, [], true).
Proof. vm_compute. reflexivity. Qed.

(* the sd blob hB of a managed stream is overwritten behind the daemon's back.
   t: with bytes that are not JSON -> the daemon start removes the file AND the report AND the row;
   u: the same under the behaviour before the repair -> the file is gone, yet hB is still reported as completed,
      recorded 'finished' and on the announce list (the old start-up breaks clauses 1 and 3);
   v: with a descriptor that is valid JSON but has the wrong stream hash -> nothing is removed. *)
Example C18_damaged_sd_old_refuted :
  let s := run init [OPublish [(hA, 5)] (hB, 7); OExtFile hB 7] in
  let t := daemon_start s [(hB, 7, [hA], true)] in
  let u := daemon_start_old s [(hB, 7, [hA], true)] in
  let v := daemon_start s [(hB, 7, [hA], false)] in
  ((is_file (disk t) hB, mem hB (completed t), db_status (db t) hB, announce_list true t),
   (is_file (disk u) hB, mem hB (completed u), db_status (db u) hB, announce_list true u),
   (is_file (disk v) hB, mem hB (completed v), db_status (db v) hB))
  = ((false, false, None, []), (false, true, Some Finished, [hB]), (true, true, Some Finished)).
Proof. vm_compute. reflexivity. Qed.
