(* C05 property theorems: statements only, each closed by [exact]. *)
From Coq Require Import NArith ZArith List Bool.
From LV Require Import Lib.Bytes Wire.CompactSize Wire.Tx Model.C05 Proofs.C05 Model.C05Cache Proofs.C05Cache.
Import ListNotations.
Local Open Scope N_scope.

(* Every n < 2^64 written as a compact size reads back as n, whatever follows; the encoding
   has 1, 3, 5 or 9 bytes and the width is the smallest whose range holds n. *)
Theorem C05_compact_size_roundtrip : forall n rest, n < 18446744073709551616 ->
  read_cs (cs_encode n ++ rest) = ROk (Some n, rest) /\
  length (cs_encode n) = cs_width n /\
  ((cs_width n = 1%nat /\ n < 253) \/ (cs_width n = 3%nat /\ 253 <= n < 65536) \/
   (cs_width n = 5%nat /\ 65536 <= n < 4294967296) \/ (cs_width n = 9%nat /\ 4294967296 <= n)).
Proof. exact compact_size_roundtrip. Qed.
Print Assumptions C05_compact_size_roundtrip.

(* For every well-formed transaction (32-bit version/index/sequence/locktime, 64-bit amounts,
   32-byte outpoint hashes, scripts shorter than 2^63, at least one input, any number of inputs
   and outputs below 2^64) the reader applied to the written bytes -- followed by anything --
   returns exactly its fields: no None, flag 0, no witnesses. *)
Theorem C05_tx_roundtrip : forall t rest, wf_tx t -> deserialize (serialize t ++ rest) = ROk (lift t).
Proof. exact deserialize_serialize. Qed.
Print Assumptions C05_tx_roundtrip.

(* The bytes determine the transaction (also when other bytes follow). *)
Theorem C05_serialize_injective : forall t1 t2, wf_tx t1 -> wf_tx t2 ->
  serialize t1 = serialize t2 -> t1 = t2.
Proof. exact serialize_injective. Qed.
Print Assumptions C05_serialize_injective.

Theorem C05_serialize_prefix_free : forall t1 t2 r1 r2, wf_tx t1 -> wf_tx t2 ->
  serialize t1 ++ r1 = serialize t2 ++ r2 -> t1 = t2 /\ r1 = r2.
Proof. exact serialize_prefix_free. Qed.
Print Assumptions C05_serialize_prefix_free.

(* Writing what was read gives the identical bytes (the writer here is the Python-faithful one,
   which raises struct.error on None / out-of-range fields -- it does not on these). *)
Theorem C05_reserialize_identical : forall t rest, wf_tx t ->
  exists p, deserialize (serialize t ++ rest) = ROk p /\ p = lift t /\ pser p = ROk (serialize t).
Proof. exact roundtrip_reserialize. Qed.
Print Assumptions C05_reserialize_identical.

(* A transaction assembled through the library serialises to [serialize t] and its id is the
   byte-reversed double hash of exactly those bytes; for every function in the place of sha256. *)
Theorem C05_built_raw_and_id : forall (sha256 : bytes -> bytes) t, wf_tx t ->
  build_raw t = ROk (serialize t) /\ build_id sha256 t = ROk (rev (sha256 (sha256 (serialize t)))).
Proof. exact build_ok. Qed.
Print Assumptions C05_built_raw_and_id.

(* Segwit: the witness-carrying encoding of (t, witnesses), any non-zero flag byte, parses to the
   fields of t (plus flag and the flattened witness items); its id is the reversed double hash of
   the LEGACY encoding of t, the same id the legacy encoding itself gets. *)
Theorem C05_segwit_txid : forall (sha256 : bytes -> bytes) t flag wits rest,
  wf_tx t -> wf_wits t wits -> 0 < flag < 256 ->
  deserialize (serialize_segwit t flag wits ++ rest) = ROk (lift_with flag (concat wits) t) /\
  txid_of_raw sha256 (serialize_segwit t flag wits ++ rest) = ROk (rev (sha256 (sha256 (serialize t)))) /\
  txid_of_raw sha256 (serialize t) = ROk (rev (sha256 (sha256 (serialize t)))).
Proof. exact segwit_full. Qed.
Print Assumptions C05_segwit_txid.

(* The reader is total: on every byte string it returns fields or one of the Python error
   classes; the model's fuel never runs out. *)
Theorem C05_deserialize_total : forall raw, deserialize raw <> RErr EOutOfFuel.
Proof. exact deserialize_total. Qed.
Print Assumptions C05_deserialize_total.

(* Soundness of the reader on ARBITRARY bytes (shorter than 2^63): whenever it returns fields with at
   least one input and the writer accepts them (no None, all in range), those fields are a
   well-formed transaction t, the writer emits exactly serialize t (which reads back as t), and the
   id is the reversed double hash of serialize t when a non-zero segwit flag was seen, of the given
   bytes otherwise. Covers non-minimal size prefixes, trailing bytes and any witness layout. *)
Theorem C05_reader_sound : forall (sha256 : bytes -> bytes) raw p b,
  N.of_nat (length raw) < MAXSIZE1 -> deserialize raw = ROk p -> p_ins p <> [] -> pser p = ROk b ->
  (exists t, wf_tx t /\ b = serialize t /\
             p_version p = Some (tx_version t) /\ p_ins p = map lift_in (tx_ins t) /\
             p_outs p = map lift_out (tx_outs t) /\ p_locktime p = Some (tx_locktime t) /\
             deserialize b = ROk (lift t)) /\
  txid_of_raw sha256 raw = ROk (rev (sha256 (sha256 (if truthy (p_flag p) then b else raw)))).
Proof. exact parsed_id. Qed.
Print Assumptions C05_reader_sound.

(* The number of bytes written is the sum of the parts (Transaction.size, base_size, Input/Output.size),
   for every transaction. *)
Theorem C05_size : forall t, length (serialize t) = tx_size t.
Proof. exact serialize_length. Qed.
Print Assumptions C05_size.

(* Serialisation caches of a Transaction object (_raw, _raw_outputs, id), for EVERY history of
   add_inputs/add_outputs, _reset, raw reads and id reads that contains no in-place field edit:
   raw is the serialisation of the fields held now and id its reversed double hash. *)
Theorem C05_cache_reads_current : forall (sha256 : bytes -> bytes) t ops,
  forallb (fun op => negb (is_edit op)) ops = true ->
  let s := fst (crun sha256 (c_init t) ops) in
  fst (read_raw s) = serialize (c_cur s) /\
  fst (read_id sha256 s) = rev (sha256 (sha256 (serialize (c_cur s)))).
Proof. exact reads_current_without_edits. Qed.
Print Assumptions C05_cache_reads_current.

(* ... and for EVERY history whatsoever (fields edited in place, other coroutines reading raw/id in
   between, in any order) that ends with _reset(): this is the shape of Transaction.sign
   (_reset; per input: await key, write signature in place; _reset) under any interleaving. *)
Theorem C05_cache_reset_makes_current : forall (sha256 : bytes -> bytes) s ops,
  let s' := fst (crun sha256 s (ops ++ [OReset])) in
  fst (read_raw s') = serialize (c_cur s') /\
  fst (read_id sha256 s') = rev (sha256 (sha256 (serialize (c_cur s')))).
Proof. exact reset_makes_current. Qed.
Print Assumptions C05_cache_reset_makes_current.

(* a PARSED transaction (the given bytes cached as _raw, segwit flag set or not, id / raw_sans_segwit
   possibly read before): after the first add_inputs / add_outputs / _reset, and as long as no field is
   edited in place without a reset afterwards, raw, raw_sans_segwit and id are those of the fields the
   object holds now -- the witness-stripped bytes cached by an earlier id read do not survive the change. *)
Theorem C05_cache_parsed_reads_current : forall (sha256 : bytes -> bytes) t raw seg before op after,
  (op = OReset \/ exists t', op = OAdd t') ->
  forallb (fun op => negb (is_edit op)) after = true ->
  let s := fst (crun sha256 (c_parsed t raw seg) (before ++ op :: after)) in
  fst (read_raw s) = serialize (c_cur s) /\ fst (read_sans s) = serialize (c_cur s) /\
  fst (read_id sha256 s) = rev (sha256 (sha256 (serialize (c_cur s)))).
Proof. exact parsed_reads_current_after_change. Qed.
Print Assumptions C05_cache_parsed_reads_current.

(* non-vacuity: the hypotheses are inhabited, and concrete instances *)
Example C05_ex_wf : wf_tx sample_tx /\ wf_wits sample_tx sample_wits.
Proof. exact sample_wf. Qed.
Example C05_ex_roundtrip : deserialize (serialize sample_tx) = ROk (lift sample_tx).
Proof. vm_compute. reflexivity. Qed.
Example C05_ex_segwit :
  deserialize (serialize_segwit sample_tx 1 sample_wits) = ROk (lift_with 1 (concat sample_wits) sample_tx).
Proof. vm_compute. reflexivity. Qed.
Example C05_ex_cs : map cs_width [0; 252; 253; 65535; 65536; 4294967295; 4294967296] = [1; 1; 3; 3; 5; 5; 9]%nat.
Proof. vm_compute. reflexivity. Qed.
(* C05_reader_sound applies to inputs that are not of the form [serialize t] *)
Example C05_ex_reader_sound :
  let raw := serialize_segwit sample_tx 1 sample_wits ++ [byte_of_N 9] in
  let p := lift_with 1 (concat sample_wits) sample_tx in
  N.of_nat (length raw) < MAXSIZE1 /\ deserialize raw = ROk p /\ p_ins p <> [] /\
  pser p = ROk (serialize sample_tx) /\ raw <> serialize sample_tx.
Proof. exact sample_reader_sound_hyps. Qed.
(* the trailing reset is needed: reset, an interleaved id read, a signature written in place, no
   reset -> raw is the pre-signature serialisation *)
Example C05_ex_sign_needs_final_reset :
  let s' := fst (crun (fun b => b) (c_init sample_tx) [OReset; OReadId; OEdit sample_tx2]) in
  fst (read_raw s') <> serialize (c_cur s').
Proof. exact sign_without_final_reset_refuted. Qed.
(* add_inputs/add_outputs whose iterable raises midway: appended items without a reset leave a stale
   raw (old _add); with the reset (OAdd, the repaired _add) raw is current *)
Example C05_ex_partial_add_needs_reset :
  let s' := fst (crun (fun b => b) (c_init sample_tx) [OReadRaw; OEdit sample_tx2]) in
  fst (read_raw s') <> serialize (c_cur s') /\
  let s'' := fst (crun (fun b => b) (c_init sample_tx) [OReadRaw; OAdd sample_tx2]) in
  fst (read_raw s'') = serialize (c_cur s'').
Proof. exact partial_add_without_reset_refuted. Qed.
(* a transaction without inputs does NOT round-trip (its bytes start with the segwit marker):
   the reason wf_tx asks for an input *)
Example C05_ex_no_input : deserialize (serialize no_input_tx) <> ROk (lift no_input_tx).
Proof. exact no_input_ambiguous. Qed.
(* parsed segwit object, id read (fills _raw_sans_segwit), fields changed: without a reset raw_sans_segwit is
   the old stripped serialisation; with add_outputs' reset it and the id are current *)
Example C05_ex_parsed_segwit_needs_sans_reset :
  let s' := fst (crun (fun b => b) (c_parsed sample_tx (serialize sample_tx) true) [OReadId; OEdit sample_tx2]) in
  fst (read_sans s') <> serialize (c_cur s') /\
  let s'' := fst (crun (fun b => b) (c_parsed sample_tx (serialize sample_tx) true) [OReadId; OAdd sample_tx2]) in
  fst (read_sans s'') = serialize (c_cur s'') /\ fst (read_id (fun b => b) s'') = rev (serialize (c_cur s'')).
Proof. exact parsed_segwit_stale_without_reset_refuted. Qed.
