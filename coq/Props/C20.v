(* C20 property theorems: statements only, each closed by [exact]. *)
From Coq Require Import NArith ZArith List Bool.
From LV Require Import Lib.Bytes Lib.Decimal Model.C20 Proofs.C20.
Import ListNotations.
Local Open Scope N_scope.

(* Formatting any amount below 10^18 dewies (covers the 2.1e17 supply) and parsing it back
   yields the same integer. *)
Theorem C20_roundtrip : forall n : N, n < 10 ^ 18 -> parse (format (Z.of_N n)) = Some n.
Proof. exact roundtrip. Qed.
Print Assumptions C20_roundtrip.

(* For every integer z (negative deltas included, no bound) the printed string reads as
   "[-]digits.digits" with mantissa m and k fraction digits, 1<=k<=8, and m/10^k = z/10^8 exactly. *)
Theorem C20_exact : forall z : Z, exists m k,
  dec_exact (format z) = Some (m, k) /\ (m * 10 ^ 8 = z * 10 ^ Z.of_N k)%Z /\ 1 <= k <= 8.
Proof. exact exact. Qed.
Print Assumptions C20_exact.

(* Anything accepted lies in the grammar (<=10 integer digits '.' 1..8 fraction digits, nothing
   else) and its value is computed exactly (no rounding); everything in the grammar is accepted. *)
Theorem C20_rejects : forall s n, parse s = Some n ->
  exists whole frac, in_grammar s whole frac /\
     n = dval whole * 10 ^ 8 + dval frac * 10 ^ N.of_nat (8 - length frac).
Proof. exact parse_sound. Qed.
Print Assumptions C20_rejects.

Theorem C20_accepts_grammar : forall s whole frac, in_grammar s whole frac -> exists n, parse s = Some n.
Proof. exact parse_complete. Qed.
Print Assumptions C20_accepts_grammar.

(* non-vacuity: concrete instances *)
Example C20_ex1 : parse (format 9007199254740993%Z) = Some 9007199254740993.
Proof. vm_compute. reflexivity. Qed.
Example C20_ex2 : dec_exact (format (-1234500000)%Z) = Some ((-12345)%Z, 3).
Proof. vm_compute. reflexivity. Qed.
