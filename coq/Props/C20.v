(* C20 property theorems: statements only, each closed by [exact]. *)
From Coq Require Import NArith ZArith List Bool.
From LV Require Import Lib.Bytes Lib.Decimal Model.C20 Proofs.C20 Model.C20_Callers Proofs.C20_Callers
  Proofs.C20_More Model.C20_Dict Proofs.C20_Dict.
Import ListNotations.
Local Open Scope N_scope.

(* Formatting any amount below 10^18 dewies (covers the 2.1e17 supply) and parsing it back
   yields the same integer. *)
Theorem C20_roundtrip : forall n : N, n < 10 ^ 18 -> parse (format (Z.of_N n)) = Some n.
Proof. exact roundtrip. Qed.
Print Assumptions C20_roundtrip.

(* For every integer z (negative deltas included, no bound) the printed string reads as
   "[-]digits.digits" with mantissa m and k fraction digits, 1<=k<=8, and m/10^k = z/10^8 exactly. *)
Theorem C20_exact : forall z : Z, exists m k,
  dec_exact (format z) = Some (m, k) /\ (m * 10 ^ 8 = z * 10 ^ Z.of_N k)%Z /\ 1 <= k <= 8.
Proof. exact exact. Qed.
Print Assumptions C20_exact.

(* Anything accepted lies in the grammar (<=10 integer digits '.' 1..8 fraction digits, nothing
   else) and its value is computed exactly (no rounding); everything in the grammar is accepted. *)
Theorem C20_rejects : forall s n, parse s = Some n ->
  exists whole frac, in_grammar s whole frac /\
     n = dval whole * 10 ^ 8 + dval frac * 10 ^ N.of_nat (8 - length frac).
Proof. exact parse_sound. Qed.
Print Assumptions C20_rejects.

Theorem C20_accepts_grammar : forall s whole frac, in_grammar s whole frac -> exists n, parse s = Some n.
Proof. exact parse_complete. Qed.
Print Assumptions C20_accepts_grammar.

(* Callers.  storage.calculate_effective_amount (the effective amount of a stored claim: amount plus supports): when it
   answers, every string was accepted by the strict parser and the answer is the exact decimal of the SUM of their values
   (mantissa m, k fraction digits, 1<=k<=8, m/10^k = sum/10^8); it refuses exactly when one of the strings is refused --
   with or without supports, nothing is passed through unparsed. *)
Theorem C20_effective_exact : forall amount supports out,
  effective amount supports = Some out ->
  exists ns m k, Forall2 (fun s n => parse s = Some n) (amount :: supports) ns /\
    dec_exact out = Some (m, k) /\ (m * 10 ^ 8 = Z.of_N (nsum ns) * 10 ^ Z.of_N k)%Z /\ 1 <= k <= 8.
Proof. exact effective_exact. Qed.
Print Assumptions C20_effective_exact.

Theorem C20_effective_rejects : forall amount supports,
  effective amount supports = None <-> exists s, In s (amount :: supports) /\ parse s = None.
Proof. exact effective_rejects. Qed.
Print Assumptions C20_effective_rejects.

Theorem C20_effective_no_supports : forall n, n < 10 ^ 18 ->
  effective (format (Z.of_N n)) [] = Some (format (Z.of_N n)).
Proof. exact effective_no_supports. Qed.
Print Assumptions C20_effective_no_supports.

(* Distinct amounts never print alike: for ALL integers, no bound. *)
Theorem C20_format_injective : forall z1 z2 : Z, format z1 = format z2 -> z1 = z2.
Proof. exact format_injective. Qed.
Print Assumptions C20_format_injective.

(* A negative delta prints as '-' followed by the printed magnitude; the strict parser (no sign in its grammar) refuses
   the signed string rather than dropping the sign, and the magnitude reads back exactly. *)
Theorem C20_negative_printed : forall p,
  format (Zneg p) = minus_byte :: format (Zpos p) /\ parse (format (Zneg p)) = None.
Proof. exact negative_printed. Qed.
Print Assumptions C20_negative_printed.

Theorem C20_negative_magnitude_roundtrip : forall p, Npos p < 10 ^ 18 ->
  parse (tl (format (Zneg p))) = Some (Npos p).
Proof. exact negative_magnitude_roundtrip. Qed.
Print Assumptions C20_negative_magnitude_roundtrip.

(* Everything the parser accepts is below 10^18, and printing it and reading it again gives the same amount
   (parse . format . parse = parse): no accepted spelling loses or gains a dewy on the way through the daemon. *)
Theorem C20_parse_bound : forall s n, parse s = Some n -> n < 10 ^ 18.
Proof. exact parse_bound. Qed.
Print Assumptions C20_parse_bound.

Theorem C20_parse_format_parse : forall s n, parse s = Some n -> parse (format (Z.of_N n)) = Some n.
Proof. exact parse_format_parse. Qed.
Print Assumptions C20_parse_format_parse.

(* dewies.dict_values_to_lbc (Model/C20_Dict.v), for every nested dictionary and EVERY path into it: the output has an
   entry exactly where the input has one and it is the conversion of the input's entry; an integer at any depth is
   rendered by the exact printer (negative deltas included); anything that is neither an integer nor a dictionary is
   handed back unchanged; a second application changes nothing. *)
Theorem C20_dict_shape : forall path v, lookup path (to_lbc v) = option_map to_lbc (lookup path v).
Proof. exact lookup_to_lbc. Qed.
Print Assumptions C20_dict_shape.

Theorem C20_dict_int_leaf : forall path v z, lookup path v = Some (JVInt z) ->
  exists m k, lookup path (to_lbc v) = Some (JVStr (format z)) /\
    dec_exact (format z) = Some (m, k) /\ (m * 10 ^ 8 = z * 10 ^ Z.of_N k)%Z /\ 1 <= k <= 8.
Proof. exact int_leaf. Qed.
Print Assumptions C20_dict_int_leaf.

Theorem C20_dict_other_leaf : forall path v x, lookup path v = Some x ->
  (forall z, x <> JVInt z) -> (forall b, x <> JVBool b) -> (forall kvs, x <> JVDict kvs) ->
  lookup path (to_lbc v) = Some x.
Proof. exact other_leaf. Qed.
Print Assumptions C20_dict_other_leaf.

Theorem C20_dict_idempotent : forall path v, lookup path (to_lbc (to_lbc v)) = lookup path (to_lbc v).
Proof. exact to_lbc_idem_at. Qed.
Print Assumptions C20_dict_idempotent.

(* non-vacuity: concrete instances *)
Example C20_ex1 : parse (format 9007199254740993%Z) = Some 9007199254740993.
Proof. vm_compute. reflexivity. Qed.
Example C20_ex2 : dec_exact (format (-1234500000)%Z) = Some ((-12345)%Z, 3).
Proof. vm_compute. reflexivity. Qed.
Example C20_ex3 : effective (format 150000000%Z) [format 25000000%Z; format 1%Z] = Some (format 175000001%Z).
Proof. vm_compute. reflexivity. Qed.
Example C20_ex4 : parse (format (-150000000)%Z) = None.
Proof. vm_compute. reflexivity. Qed.
Example C20_ex4b : parse (tl (format (-150000000)%Z)) = Some 150000000.
Proof. vm_compute. reflexivity. Qed.
Example C20_ex5 :
  let a := [byte_of_N 97] in let fee := [byte_of_N 102; byte_of_N 101; byte_of_N 101] in
  lookup [a; fee] (to_lbc (JVDict [(a, JVDict [([byte_of_N 120], JVOther [byte_of_N 78]); (fee, JVInt (-5)%Z)])]))
  = Some (JVStr (format (-5)%Z)).
Proof. vm_compute. reflexivity. Qed.
