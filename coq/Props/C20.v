(* C20 property theorems: statements only, each closed by [exact]. *)
From Coq Require Import NArith ZArith List Bool.
From LV Require Import Lib.Bytes Lib.Decimal Model.C20 Proofs.C20 Model.C20_Callers Proofs.C20_Callers.
Import ListNotations.
Local Open Scope N_scope.

(* Formatting any amount below 10^18 dewies (covers the 2.1e17 supply) and parsing it back
   yields the same integer. *)
Theorem C20_roundtrip : forall n : N, n < 10 ^ 18 -> parse (format (Z.of_N n)) = Some n.
Proof. exact roundtrip. Qed.
Print Assumptions C20_roundtrip.

(* For every integer z (negative deltas included, no bound) the printed string reads as
   "[-]digits.digits" with mantissa m and k fraction digits, 1<=k<=8, and m/10^k = z/10^8 exactly. *)
Theorem C20_exact : forall z : Z, exists m k,
  dec_exact (format z) = Some (m, k) /\ (m * 10 ^ 8 = z * 10 ^ Z.of_N k)%Z /\ 1 <= k <= 8.
Proof. exact exact. Qed.
Print Assumptions C20_exact.

(* Anything accepted lies in the grammar (<=10 integer digits '.' 1..8 fraction digits, nothing
   else) and its value is computed exactly (no rounding); everything in the grammar is accepted. *)
Theorem C20_rejects : forall s n, parse s = Some n ->
  exists whole frac, in_grammar s whole frac /\
     n = dval whole * 10 ^ 8 + dval frac * 10 ^ N.of_nat (8 - length frac).
Proof. exact parse_sound. Qed.
Print Assumptions C20_rejects.

Theorem C20_accepts_grammar : forall s whole frac, in_grammar s whole frac -> exists n, parse s = Some n.
Proof. exact parse_complete. Qed.
Print Assumptions C20_accepts_grammar.

(* Callers.  storage.calculate_effective_amount (the effective amount of a stored claim: amount plus supports): when it
   answers, every string was accepted by the strict parser and the answer is the exact decimal of the SUM of their values
   (mantissa m, k fraction digits, 1<=k<=8, m/10^k = sum/10^8); it refuses exactly when one of the strings is refused --
   with or without supports, nothing is passed through unparsed. *)
Theorem C20_effective_exact : forall amount supports out,
  effective amount supports = Some out ->
  exists ns m k, Forall2 (fun s n => parse s = Some n) (amount :: supports) ns /\
    dec_exact out = Some (m, k) /\ (m * 10 ^ 8 = Z.of_N (nsum ns) * 10 ^ Z.of_N k)%Z /\ 1 <= k <= 8.
Proof. exact effective_exact. Qed.
Print Assumptions C20_effective_exact.

Theorem C20_effective_rejects : forall amount supports,
  effective amount supports = None <-> exists s, In s (amount :: supports) /\ parse s = None.
Proof. exact effective_rejects. Qed.
Print Assumptions C20_effective_rejects.

Theorem C20_effective_no_supports : forall n, n < 10 ^ 18 ->
  effective (format (Z.of_N n)) [] = Some (format (Z.of_N n)).
Proof. exact effective_no_supports. Qed.
Print Assumptions C20_effective_no_supports.

(* non-vacuity: concrete instances *)
Example C20_ex1 : parse (format 9007199254740993%Z) = Some 9007199254740993.
Proof. vm_compute. reflexivity. Qed.
Example C20_ex2 : dec_exact (format (-1234500000)%Z) = Some ((-12345)%Z, 3).
Proof. vm_compute. reflexivity. Qed.
Example C20_ex3 : effective (format 150000000%Z) [format 25000000%Z; format 1%Z] = Some (format 175000001%Z).
Proof. vm_compute. reflexivity. Qed.
