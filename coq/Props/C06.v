(* C06 property theorems: statements only, each closed by [exact]. *)
From Coq Require Import Arith NArith List Bool Permutation.
From Coq.Strings Require Import Byte.
From LV Require Import Lib.Bytes Model.C06 Proofs.C06_Num Proofs.C06_Base58 Proofs.C06_Keys Proofs.C06_Ckd
  Proofs.C06_Gap Proofs.C06_Mnemonic Proofs.C06_Normalize Proofs.C06_Shared.
Import ListNotations.
Local Open Scope N_scope.

(* ======================================================================== Base58 *)

(* Every byte string that contains a non-zero byte (any number of leading zero bytes) encodes, and the
   encoding decodes back to exactly that byte string. *)
Theorem C06_base58_roundtrip : forall b : bytes, (exists c, In c b /\ c <> x00) ->
  exists t, b58_encode b = Ok t /\ b58_decode t = Ok b.
Proof. exact b58_roundtrip. Qed.
Print Assumptions C06_base58_roundtrip.

(* The guard is needed: k >= 1 zero bytes encode to k '1' characters, which decode to k+1 zero bytes. *)
Theorem C06_base58_allzero_counterexample : forall k : nat, (0 < k)%nat ->
  b58_encode (repeat x00 k) = Ok (repeat one_char k) /\
  b58_decode (repeat one_char k) = Ok (repeat x00 (S k)).
Proof. exact b58_allzero. Qed.
Print Assumptions C06_base58_allzero_counterexample.

(* The empty byte string is refused by encode itself (ValueError from int('', 16)). *)
Theorem C06_base58_empty_rejected : b58_encode [] = Err EValue.
Proof. exact b58_encode_empty. Qed.
Print Assumptions C06_base58_empty_rejected.

(* Conversely every accepted text other than "111..1" is the encoding of what it decodes to, *)
Theorem C06_base58_decode_encode : forall t b, b58_decode t = Ok b -> (exists c, In c t /\ c <> one_char) ->
  b58_encode b = Ok t.
Proof. exact b58_decode_encode. Qed.
Print Assumptions C06_base58_decode_encode.

(* and no two texts decode to the same bytes. *)
Theorem C06_base58_decode_injective : forall t1 t2 b, b58_decode t1 = Ok b -> b58_decode t2 = Ok b -> t1 = t2.
Proof. exact b58_decode_inj. Qed.
Print Assumptions C06_base58_decode_injective.

(* decode accepts exactly the non-empty strings over the 58-character alphabet (everything else is a Base58Error), *)
Theorem C06_base58_decode_accepts : forall t,
  (exists b, b58_decode t = Ok b) <-> (t <> [] /\ Forall (fun c => In c alphabet) t).
Proof. exact b58_decode_accepts. Qed.
Print Assumptions C06_base58_decode_accepts.

(* and different byte strings (each with a non-zero byte) have different encodings. *)
Theorem C06_base58_encode_injective : forall b1 b2 t,
  (exists c, In c b1 /\ c <> x00) -> (exists c, In c b2 /\ c <> x00) ->
  b58_encode b1 = Ok t -> b58_encode b2 = Ok t -> b1 = b2.
Proof. exact b58_encode_injective. Qed.
Print Assumptions C06_base58_encode_injective.

(* ======================================================================== Base58Check *)

(* Every payload whose first byte is non-zero (every LBRY version / prefix byte) survives
   encode_check / decode_check.  [dsha] is any function returning at least 4 bytes on this payload. *)
Theorem C06_base58check_roundtrip : forall (dsha : bytes -> bytes) p c r,
  p = c :: r -> c <> x00 -> (4 <= length (dsha p))%nat ->
  exists t, b58_encode_check dsha p = Ok t /\ b58_decode_check dsha t = Ok p.
Proof. exact b58check_roundtrip. Qed.
Print Assumptions C06_base58check_roundtrip.

(* In fact every payload at all -- empty, or beginning with zero bytes -- round-trips as long as payload ++ checksum
   is not the all-zero string (the Base58 quirk is unreachable through Base58Check otherwise). *)
Theorem C06_base58check_roundtrip_general : forall (dsha : bytes -> bytes) p,
  (exists c, In c (p ++ checksum dsha p) /\ c <> x00) -> (4 <= length (dsha p))%nat ->
  exists t, b58_encode_check dsha p = Ok t /\ b58_decode_check dsha t = Ok p.
Proof. exact b58check_roundtrip_general. Qed.
Print Assumptions C06_base58check_roundtrip_general.

(* Checksum errors are rejected: a result is returned only when the last four decoded bytes are the
   first four bytes of the hash of the rest (no assumption on the hash). *)
Theorem C06_base58check_rejects : forall (dsha : bytes -> bytes) t p, b58_decode_check dsha t = Ok p ->
  exists b, b58_decode t = Ok b /\ p = firstn (length b - 4) b /\ skipn (length b - 4) b = checksum dsha p.
Proof. exact b58check_rejects. Qed.
Print Assumptions C06_base58check_rejects.

(* A damaged string is never accepted as the original payload: two strings accepted with the same payload
   are the same string. *)
Theorem C06_base58check_injective : forall (dsha : bytes -> bytes) t1 t2 p,
  b58_decode_check dsha t1 = Ok p -> b58_decode_check dsha t2 = Ok p -> t1 = t2.
Proof. exact b58check_inj. Qed.
Print Assumptions C06_base58check_injective.

(* The only ways decode_check fails: empty string, a character outside the alphabet, checksum mismatch. *)
Theorem C06_base58check_error_classes : forall (dsha : bytes -> bytes) t e,
  b58_decode_check dsha t = Err e -> e = EEmpty \/ e = EChar \/ e = EChecksum.
Proof. exact b58check_errors. Qed.
Print Assumptions C06_base58check_error_classes.

(* ======================================================================== extended keys *)

(* The 78-byte layout: every well-formed key (depth < 256, 4-byte fingerprint, child number < 2^32,
   32-byte chain code, valid 33-byte point or valid 32-byte scalar) parses back to itself, field by field. *)
Theorem C06_extkey_roundtrip : forall (ver_pub ver_priv : bytes) (pub_valid : bytes -> bool),
  length ver_pub = 4%nat -> length ver_priv = 4%nat -> ver_pub <> ver_priv ->
  forall k, xk_wf pub_valid k ->
  length (xk_serialize ver_pub ver_priv k) = 78%nat /\
  xk_parse ver_pub ver_priv pub_valid (xk_serialize ver_pub ver_priv k) = Ok k.
Proof. exact (fun vp vs pv h1 h2 h3 k hk => conj (xk_serialize_length vp vs pv h1 h2 k hk) (xk_parse_serialize vp vs pv h1 h2 h3 k hk)). Qed.
Print Assumptions C06_extkey_roundtrip.

(* Whatever the parser accepts is a well-formed key whose serialisation is the input. *)
Theorem C06_extkey_parse_sound : forall (ver_pub ver_priv : bytes) (pub_valid : bytes -> bool),
  length ver_pub = 4%nat -> length ver_priv = 4%nat -> ver_pub <> ver_priv ->
  forall e k, xk_parse ver_pub ver_priv pub_valid e = Ok k ->
  xk_wf pub_valid k /\ xk_serialize ver_pub ver_priv k = e.
Proof. exact xk_parse_sound. Qed.
Print Assumptions C06_extkey_parse_sound.

(* String form (Base58Check of the 78 bytes).  The key object built by from_extended_key_string keeps every
   field except the parent fingerprint (it has no parent object; known finding
   {"op":"xparse","finding":"parent-fingerprint-dropped"}): [xk_forget_parent]. *)
Theorem C06_extkey_string_roundtrip : forall (ver_pub ver_priv : bytes) (pub_valid : bytes -> bool),
  length ver_pub = 4%nat -> length ver_priv = 4%nat -> ver_pub <> ver_priv ->
  forall dsha : bytes -> bytes, hd x00 ver_pub <> x00 -> hd x00 ver_priv <> x00 ->
  forall k, xk_wf pub_valid k -> (4 <= length (dsha (xk_serialize ver_pub ver_priv k)))%nat ->
  exists t, xk_to_string ver_pub ver_priv dsha k = Ok t /\
            xk_of_string ver_pub ver_priv pub_valid dsha t = Ok (xk_forget_parent k).
Proof. exact xk_string_roundtrip. Qed.
Print Assumptions C06_extkey_string_roundtrip.

(* An extended-key string is accepted only if its Base58Check checksum matches and the 78 bytes are a
   well-formed key; the key object is that key without its parent fingerprint. *)
Theorem C06_extkey_string_sound : forall (ver_pub ver_priv : bytes) (pub_valid : bytes -> bool),
  length ver_pub = 4%nat -> length ver_priv = 4%nat -> ver_pub <> ver_priv ->
  forall (dsha : bytes -> bytes) t k, xk_of_string ver_pub ver_priv pub_valid dsha t = Ok k ->
  exists k0, b58_decode_check dsha t = Ok (xk_serialize ver_pub ver_priv k0) /\ xk_wf pub_valid k0 /\
             k = xk_forget_parent k0.
Proof. exact xk_of_string_sound. Qed.
Print Assumptions C06_extkey_string_sound.

(* decode -> encode gives the string back exactly for strings with a zero parent fingerprint (master keys, the only
   keys LBRY stores). *)
Theorem C06_extkey_string_decode_encode_master : forall (ver_pub ver_priv : bytes) (pub_valid : bytes -> bool),
  length ver_pub = 4%nat -> length ver_priv = 4%nat -> ver_pub <> ver_priv ->
  forall (dsha : bytes -> bytes) t k, xk_of_string ver_pub ver_priv pub_valid dsha t = Ok k ->
  (exists c, In c t /\ c <> one_char) ->
  (forall k0, b58_decode_check dsha t = Ok (xk_serialize ver_pub ver_priv k0) -> xk_pfp k0 = zero4) ->
  xk_to_string ver_pub ver_priv dsha k = Ok t.
Proof. exact xk_string_decode_encode_master. Qed.
Print Assumptions C06_extkey_string_decode_encode_master.

(* For a master key (zero parent fingerprint) parsing and serialising again gives the same 78 bytes. *)
Theorem C06_extkey_reserialize_master : forall (ver_pub ver_priv : bytes) (pub_valid : bytes -> bool),
  length ver_pub = 4%nat -> length ver_priv = 4%nat -> ver_pub <> ver_priv ->
  forall k, xk_wf pub_valid k -> xk_pfp k = zero4 ->
  res_map (xk_serialize ver_pub ver_priv)
          (xk_from_extended ver_pub ver_priv pub_valid (xk_serialize ver_pub ver_priv k))
  = Ok (xk_serialize ver_pub ver_priv k).
Proof. exact xk_reserialize_master. Qed.
Print Assumptions C06_extkey_reserialize_master.

(* ======================================================================== derivation *)

(* Non-hardened public derivation matches private derivation, for every valid private key, every chain
   code, every index below 2^31 and every HMAC: same child public key, chain code, fingerprint, depth,
   child number -- or the same failure.  The only assumption (premise [group_hom]) is that k |-> k*G maps
   scalar addition mod n to point addition. *)
Theorem C06_ckd_public_matches_private :
  forall (hmac512 : bytes -> bytes -> bytes) (pub : bytes -> bytes) (pub_add : bytes -> bytes -> option bytes)
         (hash160 : bytes -> bytes),
  (forall k l, priv_valid k = true -> pub_add (pub k) l = option_map pub (priv_add k l)) ->
  forall k i, priv_ok k -> i < HARDENED ->
  ckd_pub hmac512 pub_add hash160 (neuter pub k) i = res_map (neuter pub) (ckd_priv hmac512 pub hash160 k i).
Proof. exact ckd_public_matches_private. Qed.
Print Assumptions C06_ckd_public_matches_private.

(* ... and along whole paths of non-hardened indices. *)
Theorem C06_derive_public_matches_private :
  forall (hmac512 : bytes -> bytes -> bytes) (pub : bytes -> bytes) (pub_add : bytes -> bytes -> option bytes)
         (hash160 : bytes -> bytes),
  (forall k l, priv_valid k = true -> pub_add (pub k) l = option_map pub (priv_add k l)) ->
  forall path k, priv_ok k -> Forall (fun i => i < HARDENED) path ->
  derive hmac512 pub pub_add hash160 (neuter pub k) path
  = res_map (neuter pub) (derive hmac512 pub pub_add hash160 k path).
Proof. exact derive_public_matches_private. Qed.
Print Assumptions C06_derive_public_matches_private.

(* Paths compose: deriving along p ++ q is deriving along p and then along q (m/a/b = (m/a)/b). *)
Theorem C06_derive_composes :
  forall (hmac512 : bytes -> bytes -> bytes) (pub : bytes -> bytes) (pub_add : bytes -> bytes -> option bytes)
         (hash160 : bytes -> bytes) p q k,
  derive hmac512 pub pub_add hash160 k (p ++ q)
  = bind (derive hmac512 pub pub_add hash160 k p) (fun c => derive hmac512 pub pub_add hash160 c q).
Proof. exact derive_app. Qed.
Print Assumptions C06_derive_composes.

(* Hardened derivation from a public key is refused, at a single step and anywhere in a path. *)
Theorem C06_hardened_needs_private :
  forall (hmac512 : bytes -> bytes -> bytes) (pub_add : bytes -> bytes -> option bytes) (hash160 : bytes -> bytes) k i,
  HARDENED <= i -> ckd_pub hmac512 pub_add hash160 k i = Err EIndex.
Proof. exact ckd_pub_hardened_refused. Qed.
Print Assumptions C06_hardened_needs_private.

Theorem C06_hardened_needs_private_path :
  forall (hmac512 : bytes -> bytes -> bytes) (pub : bytes -> bytes) (pub_add : bytes -> bytes -> option bytes)
         (hash160 : bytes -> bytes) path k,
  xk_kind k = KPub -> Exists (fun i => HARDENED <= i) path ->
  exists e, derive hmac512 pub pub_add hash160 k path = Err e.
Proof. exact derive_pub_hardened_refused. Qed.
Print Assumptions C06_hardened_needs_private_path.

(* Private derivation stays inside the valid scalars 1..n-1 and records depth; the child scalar is
   (k + I_L) mod n (see [priv_add]). *)
Theorem C06_derive_private_valid :
  forall (hmac512 : bytes -> bytes -> bytes) (pub : bytes -> bytes) (pub_add : bytes -> bytes -> option bytes)
         (hash160 : bytes -> bytes) path k c,
  priv_ok k -> derive hmac512 pub pub_add hash160 k path = Ok c ->
  priv_ok c /\ xk_depth c = xk_depth k + N.of_nat (length path).
Proof. exact derive_priv_ok. Qed.
Print Assumptions C06_derive_private_valid.

(* The index encoding (hardened flag + 31 bits -> 4 bytes big endian) is injective and decodable. *)
Theorem C06_index_encoding_injective : forall h1 i1 h2 i2, i1 < HARDENED -> i2 < HARDENED ->
  index_bytes h1 i1 = index_bytes h2 i2 -> h1 = h2 /\ i1 = i2.
Proof. exact index_bytes_injective. Qed.
Print Assumptions C06_index_encoding_injective.

Theorem C06_index_encoding_decodes : forall h i, i < HARDENED ->
  length (index_bytes h i) = 4%nat /\ be_decode (index_bytes h i) = child_number h i /\
  (HARDENED <=? be_decode (index_bytes h i)) = h.
Proof. exact index_bytes_decode. Qed.
Print Assumptions C06_index_encoding_decodes.

(* The HMAC message (33-byte serialised key ++ 4-byte index) determines both parts. *)
Theorem C06_ckd_message_injective : forall s1 s2 i1 i2, length s1 = length s2 -> i1 < INDEX_LIMIT -> i2 < INDEX_LIMIT ->
  s1 ++ be_encode 4 i1 = s2 ++ be_encode 4 i2 -> s1 = s2 /\ i1 = i2.
Proof. exact ckd_message_injective. Qed.
Print Assumptions C06_ckd_message_injective.

(* ======================================================================== addresses *)

(* address = Base58Check(prefix ++ hash160(pubkey)): decodes back with its checksum verified, and
   address_to_hash160 recovers the key hash, for every non-zero one-byte prefix. *)
Theorem C06_address_roundtrip : forall (hash160 dsha : bytes -> bytes) c pk,
  c <> x00 -> length (hash160 pk) = 20%nat -> (4 <= length (dsha ([c] ++ hash160 pk)))%nat ->
  exists a, address hash160 dsha [c] pk = Ok a /\ address_to_hash160 a = Ok (hash160 pk).
Proof. exact address_to_hash160_roundtrip. Qed.
Print Assumptions C06_address_roundtrip.

Theorem C06_address_injective : forall (hash160 dsha : bytes -> bytes) prefix pk1 pk2 a c r,
  prefix = c :: r -> c <> x00 ->
  (4 <= length (dsha (prefix ++ hash160 pk1)))%nat -> (4 <= length (dsha (prefix ++ hash160 pk2)))%nat ->
  address hash160 dsha prefix pk1 = Ok a -> address hash160 dsha prefix pk2 = Ok a -> hash160 pk1 = hash160 pk2.
Proof. exact address_injective. Qed.
Print Assumptions C06_address_injective.

(* The address validator (Ledger.is_pubkey_address / is_script_address, used by valid_address_or_error) rejects
   checksum errors: it answers true only when the string decodes to version byte :: rest followed by the matching
   4-byte checksum; it accepts every address the wallet produces; and a different string that it accepts is never
   an alias of that address (it carries a different payload). *)
Theorem C06_address_validator_sound : forall (dsha : bytes -> bytes) v a, is_version_address dsha v a = Ok true ->
  exists r, b58_decode_check dsha a = Ok (v :: r) /\ b58_decode a = Ok ((v :: r) ++ checksum dsha (v :: r)).
Proof. exact validator_sound. Qed.
Print Assumptions C06_address_validator_sound.

Theorem C06_address_validator_accepts : forall (hash160 dsha : bytes -> bytes) c pk a,
  c <> x00 -> (4 <= length (dsha ([c] ++ hash160 pk)))%nat ->
  address hash160 dsha [c] pk = Ok a -> is_version_address dsha c a = Ok true.
Proof. exact validator_accepts_address. Qed.
Print Assumptions C06_address_validator_accepts.

Theorem C06_address_validator_no_alias : forall (hash160 dsha : bytes -> bytes) c pk a a',
  address hash160 dsha [c] pk = Ok a -> c <> x00 -> (4 <= length (dsha ([c] ++ hash160 pk)))%nat ->
  a' <> a -> is_version_address dsha c a' = Ok true ->
  exists r, b58_decode_check dsha a' = Ok (c :: r) /\ r <> hash160 pk.
Proof. exact validator_no_alias. Qed.
Print Assumptions C06_address_validator_no_alias.

Theorem C06_valid_address_sound : forall (dsha : bytes -> bytes) pv sv allow a,
  valid_address dsha pv sv allow a = true ->
  is_version_address dsha pv a = Ok true \/ (allow = true /\ is_version_address dsha sv a = Ok true).
Proof. exact valid_address_sound. Qed.
Print Assumptions C06_valid_address_sound.

(* The address handed out for (chain c, index i) from the account PUBLIC key (get_public_key / _generate_keys)
   is the address of the key derived from the account PRIVATE key along m/c/i (get_private_key): the wallet
   holds the signing key of every address it lists. *)
Theorem C06_chain_address_private_key :
  forall (hmac512 : bytes -> bytes -> bytes) (pub : bytes -> bytes) (pub_add : bytes -> bytes -> option bytes)
         (hash160 : bytes -> bytes),
  (forall k l, priv_valid k = true -> pub_add (pub k) l = option_map pub (priv_add k l)) ->
  forall (dsha : bytes -> bytes) prefix k c i, priv_ok k -> c < HARDENED -> i < HARDENED ->
  chain_address hmac512 pub_add hash160 dsha prefix (neuter pub k) c i =
  bind (derive hmac512 pub pub_add hash160 k [c; i]) (fun sk => address hash160 dsha prefix (pubkey_of pub sk)).
Proof. exact chain_address_private. Qed.
Print Assumptions C06_chain_address_private_key.

(* ======================================================================== address chains *)

(* Whatever the history of ensure_address_gap calls (any gap values) and usage updates, row i of a chain has
   index i and the address derived for index i: two wallets restored from the same key list the same addresses
   in the same order. *)
Theorem C06_addresses_deterministic : forall (addr_of : N -> bytes) (ops1 ops2 : list gop) (i : nat),
  (i < length (grun addr_of ops1))%nat -> (i < length (grun addr_of ops2))%nat ->
  ident (nth i (grun addr_of ops1) (mk_row 0 [] 0)) = ident (nth i (grun addr_of ops2) (mk_row 0 [] 0)) /\
  ident (nth i (grun addr_of ops1) (mk_row 0 [] 0)) = (N.of_nat i, addr_of (N.of_nat i)).
Proof. exact (fun a o1 o2 i h1 h2 => conj (addresses_deterministic a o1 o2 i h1 h2) (grun_row a o1 i h1)). Qed.
Print Assumptions C06_addresses_deterministic.

(* After any history, ensure_address_gap leaves the last [gap] addresses unused, only appends (existing rows
   unchanged, new rows unused) and keeps the indices contiguous from 0. *)
Theorem C06_gap_maintained : forall (addr_of : N -> bytes) (ops : list gop) (gap : nat),
  let before := grun addr_of ops in
  let after := grun addr_of (ops ++ [GEnsure gap]) in
  (exists ext, after = before ++ ext /\ all_unused ext) /\
  wf_table addr_of after /\ (gap <= length after)%nat /\ all_unused (skipn (length after - gap) after).
Proof. exact gap_maintained. Qed.
Print Assumptions C06_gap_maintained.

(* It generates no more than necessary: if anything was generated, the chain now has exactly [gap] rows or the
   row just below the final window of [gap] unused rows is a used one. *)
Theorem C06_gap_tight : forall (addr_of : N -> bytes) (gap : nat) (t : list row), wf_table addr_of t ->
  snd (ensure_gap addr_of gap t) <> [] ->
  let t' := fst (ensure_gap addr_of gap t) in
  length t' = gap \/ ((gap < length t')%nat /\ unused (nth (length t' - gap - 1) t' (mk_row 0 [] 0)) = false).
Proof. exact ensure_gap_tight. Qed.
Print Assumptions C06_gap_tight.

(* Calling ensure_address_gap again right away generates nothing. *)
Theorem C06_gap_idempotent : forall (addr_of : N -> bytes) (gap : nat) (t : list row), wf_table addr_of t ->
  ensure_gap addr_of gap (fst (ensure_gap addr_of gap t)) = (fst (ensure_gap addr_of gap t), []).
Proof. exact ensure_gap_idempotent. Qed.
Print Assumptions C06_gap_idempotent.

(* get_address_records lists exactly the rows of the chain ordered by (used_times, n). *)
Theorem C06_address_records_sorted : forall t : list row,
  Permutation (address_records t) t /\ sorted (address_records t).
Proof. exact address_records_spec. Qed.
Print Assumptions C06_address_records_sorted.

(* One ledger database, a single-address account and a deterministic account of the SAME mnemonic (same account id,
   both on chain 0).  The code as it is ([flt = false], known findings {"op":"generator_switch",...}): both managers look
   at the same rows; once the single-address account has stored its row first, the first chain-0 record of that account
   id -- the deterministic account's "first receiving address" -- is the account key's own address whatever happens
   afterwards; and when the deterministic account came first, the single-address account never stores its key and
   lists the deterministic chain. *)
Theorem C06_shared_database_as_is_single_first : forall (addr_of : N -> bytes) (master_addr : bytes) (ops : list sop) single,
  hd_error (map r_addr (manager_view false single (srun addr_of master_addr false (SSingleEnsure :: ops)))) = Some master_addr.
Proof. exact shared_as_is_single_first. Qed.
Print Assumptions C06_shared_database_as_is_single_first.

Theorem C06_shared_database_as_is_hd_first : forall (addr_of : N -> bytes) (master_addr : bytes) (g : nat), (0 < g)%nat ->
  manager_view false true (srun addr_of master_addr false [SHd (GEnsure g); SSingleEnsure])
  = manager_view false false (srun addr_of master_addr false [SHd (GEnsure g)]) /\
  manager_view false false (srun addr_of master_addr false [SHd (GEnsure g)]) = fst (ensure_gap addr_of g []).
Proof. exact shared_as_is_hd_first. Qed.
Print Assumptions C06_shared_database_as_is_hd_first.

(* The design that would satisfy the property's clause on this history ([flt = true]: each manager filters the rows
   it looks at by its own key depth) -- NOT what the code does: the deterministic account's receiving chain is then
   exactly the chain it would have alone, and the single-address account lists only the account key's address. *)
Theorem C06_shared_database_with_depth_filter_hd_chain : forall (addr_of : N -> bytes) (master_addr : bytes) (ops : list sop),
  rows_of false (srun addr_of master_addr true ops) = grun addr_of (hd_ops ops).
Proof. exact shared_hd_chain_unaffected. Qed.
Print Assumptions C06_shared_database_with_depth_filter_hd_chain.

Theorem C06_shared_database_with_depth_filter_single_chain : forall (addr_of : N -> bytes) (master_addr : bytes) (ops : list sop),
  map r_addr (rows_of true (srun addr_of master_addr true ops)) = [] \/
  map r_addr (rows_of true (srun addr_of master_addr true ops)) = [master_addr].
Proof. exact shared_single_chain. Qed.
Print Assumptions C06_shared_database_with_depth_filter_single_chain.

(* ======================================================================== mnemonic *)

(* For every word list without duplicates, with at least two words, none empty or containing whitespace:
   decoding the word encoding of ANY i >= 0 gives i. *)
Theorem C06_mnemonic_roundtrip : forall words : list bytes,
  NoDup words -> (2 <= length words)%nat -> Forall good_word words ->
  forall i : N, mnemonic_decode words (mnemonic_encode words i) = Ok i.
Proof. exact mnemonic_roundtrip. Qed.
Print Assumptions C06_mnemonic_roundtrip.

(* Hence different numbers have different phrases. *)
Theorem C06_mnemonic_injective : forall words : list bytes,
  NoDup words -> (2 <= length words)%nat -> Forall good_word words ->
  forall i j : N, mnemonic_encode words i = mnemonic_encode words j -> i = j.
Proof. exact mnemonic_encode_injective. Qed.
Print Assumptions C06_mnemonic_injective.

(* What is accepted are words of the list, read as base-n digits, first word least significant. *)
Theorem C06_mnemonic_decode_sound : forall words : list bytes, (2 <= length words)%nat -> forall s i,
  mnemonic_decode words s = Ok i ->
  exists ds, split_ws s = map (fun d => nth (N.to_nat d) words []) ds /\
             Forall (fun d => d < nwords words) ds /\ i = val_lsb (nwords words) ds.
Proof. exact mnemonic_decode_sound. Qed.
Print Assumptions C06_mnemonic_decode_sound.

(* ======================================================================== mnemonic text normalisation *)

(* normalize_text applies NFKD first, then lower-casing, then accent stripping: spellings with the same NFKD form
   (precomposed vs decomposed accents, full-width vs ASCII, ideographic vs ASCII space) -- and more generally
   spellings that agree after NFKD, lower-casing and accent stripping -- give the same key-stretching input. *)
Theorem C06_normalize_equivalent_spellings :
  forall (nfkd lower : list N -> list N) (combining : N -> bool) s1 s2,
  strip_accents combining (lower (nfkd s1)) = strip_accents combining (lower (nfkd s2)) ->
  normalize_text nfkd lower combining s1 = normalize_text nfkd lower combining s2.
Proof. exact normalize_accent_case_insensitive. Qed.
Print Assumptions C06_normalize_equivalent_spellings.

Theorem C06_normalize_respects_nfkd :
  forall (nfkd lower : list N -> list N) (combining : N -> bool) s1 s2, nfkd s1 = nfkd s2 ->
  normalize_text nfkd lower combining s1 = normalize_text nfkd lower combining s2.
Proof. exact normalize_respects_nfkd. Qed.
Print Assumptions C06_normalize_respects_nfkd.

(* Every character of the normalised text other than U+0020 is a NON-combining character of lower(NFKD(s)):
   no accent reaches PBKDF2. *)
Theorem C06_normalize_no_combining :
  forall (nfkd lower : list N -> list N) (combining : N -> bool) s c,
  In c (normalize_text nfkd lower combining s) -> c <> 32 -> combining c = false /\ In c (lower (nfkd s)).
Proof. exact normalize_no_combining. Qed.
Print Assumptions C06_normalize_no_combining.

(* ' '.join(s.split()) keeps the words and is idempotent; the CJK rule deletes ASCII whitespace only. *)
Theorem C06_normalize_whitespace : forall s : list N,
  splitg is_ws_cp (collapse_ws s) = splitg is_ws_cp s /\ collapse_ws (collapse_ws s) = collapse_ws s.
Proof. exact (fun s => conj (collapse_ws_words s) (collapse_ws_idempotent s)). Qed.
Print Assumptions C06_normalize_whitespace.

Theorem C06_normalize_cjk_rule_keeps_content : forall s prev,
  filter (fun c => negb (is_ascii_ws c)) (rm_cjk_spaces prev s) = filter (fun c => negb (is_ascii_ws c)) s.
Proof. exact rm_cjk_spaces_content. Qed.
Print Assumptions C06_normalize_cjk_rule_keeps_content.

(* ======================================================================== non-vacuity *)
Example C06_ex_quirk : (b58_decode [x31], b58_encode [x00]) = (Ok [x00; x00], Ok [x31]).
Proof. vm_compute. reflexivity. Qed.

(* "2g" = 0x61 : encode/decode of a string with two leading zero bytes *)
Example C06_ex_b58 : (b58_encode [x00; x00; x61], b58_decode [x31; x31; x32; x67])
                     = (Ok [x31; x31; x32; x67], Ok [x00; x00; x61]).
Proof. vm_compute. reflexivity. Qed.

(* the hypotheses of the index theorem are inhabited at the boundaries: 2^31-1 normal vs 0 hardened *)
Example C06_ex_index : (index_bytes false 2147483647, index_bytes true 0, index_bytes true 2147483647)
                       = ([x7f; xff; xff; xff], [x80; x00; x00; x00], [xff; xff; xff; xff]).
Proof. vm_compute. reflexivity. Qed.

(* scalar addition wraps modulo the group order and refuses a zero result or a tweak >= n *)
Example C06_ex_priv_add :
  (priv_add (be_encode 32 (ORDER - 1)) (be_encode 32 2), priv_add (be_encode 32 (ORDER - 1)) (be_encode 32 1),
   priv_add (be_encode 32 5) (be_encode 32 ORDER), priv_valid (be_encode 32 (ORDER - 1)), priv_valid (be_encode 32 ORDER))
  = (Some (be_encode 32 1), None, None, true, false).
Proof. vm_compute. reflexivity. Qed.

(* a gap history: gap 3, address 1 used twice, ensure again -> indices 0..4, last three unused *)
Example C06_ex_gap :
  map (fun r => (r_n r, r_used r)) (grun (fun n => [byte_of_N n]) [GEnsure 3; GUse 1 2; GEnsure 3])
  = [(0, 0); (1, 2); (2, 0); (3, 0); (4, 0)].
Proof. vm_compute. reflexivity. Qed.

(* a three-word list: 11 = 2 + 0*3 + 1*9 *)
Example C06_ex_mnemonic :
  (mnemonic_encode [[x61]; [x62]; [x63]] 11, mnemonic_decode [[x61]; [x62]; [x63]] [x63; x20; x61; x20; x62])
  = ([x63; x20; x61; x20; x62], Ok 11).
Proof. vm_compute. reflexivity. Qed.

(* "A  B" with an ideographic space collapses; the space between two CJK characters is dropped, the one next to a
   Latin letter stays: 0x4E00 ' ' 0x4E8C ' ' 'a' *)
Example C06_ex_normalize :
  (collapse_ws [65; 12288; 32; 66], rm_cjk_spaces None [19968; 32; 20108; 32; 97]) = ([65; 32; 66], [19968; 20108; 32; 97]).
Proof. vm_compute. reflexivity. Qed.

(* the known finding on a concrete key below the master (parent fingerprint 3442193e, as in BIP32 vector 1 m/0H):
   the parsed key does not re-serialise to the bytes it was parsed from, only to those bytes with 00000000 *)
Example C06_fingerprint_dropped_witness :
  (bytes_eqb (xk_serialize [x04; x88; xb2; x1e] [x04; x88; xad; xe4]
                (xk_forget_parent (mk_xkey KPub 1 [x34; x42; x19; x3e] 2147483648 (repeat x11 32) (x02 :: repeat x22 32))))
             (xk_serialize [x04; x88; xb2; x1e] [x04; x88; xad; xe4]
                (mk_xkey KPub 1 [x34; x42; x19; x3e] 2147483648 (repeat x11 32) (x02 :: repeat x22 32))),
   res_map xk_pfp (xk_from_extended [x04; x88; xb2; x1e] [x04; x88; xad; xe4] (fun _ => true)
                     (xk_serialize [x04; x88; xb2; x1e] [x04; x88; xad; xe4]
                        (mk_xkey KPub 1 [x34; x42; x19; x3e] 2147483648 (repeat x11 32) (x02 :: repeat x22 32)))))
  = (false, Ok zero4).
Proof. vm_compute. reflexivity. Qed.

(* the known finding on the shared table: after a single-address account of the same mnemonic, the deterministic
   account's receiving chain is [account key's address, m/0/1, m/0/2] -- m/0/0 is never generated; with the depth
   filter it would be [m/0/0, m/0/1, m/0/2] *)
Example C06_shared_rows_witness :
  (map r_addr (manager_view false false (srun (fun n => [byte_of_N n]) [xff] false [SSingleEnsure; SHd (GEnsure 3)])),
   map r_addr (manager_view true false (srun (fun n => [byte_of_N n]) [xff] true [SSingleEnsure; SHd (GEnsure 3)])))
  = ([[xff]; [x01]; [x02]], [[x00]; [x01]; [x02]]).
Proof. vm_compute. reflexivity. Qed.
