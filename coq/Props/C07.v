(* C07 property theorems: statements only, each closed by [exact]. *)
From Coq Require Import NArith ZArith List Bool.
From Coq.Strings Require Import Byte.
From LV Require Import Lib.Bytes Model.C07 Proofs.C07.
Import ListNotations.

(* ---- compact targets (ArithUint256.compact / from_compact), for every value ---- *)
(* the sign bit is never set; decoding the compact form gives the value with its low [cshift v] bits
   cleared, hence never more than the value and equal to it in all higher bits; re-encoding is stable;
   for 256-bit values the two assert statements of _calculate_compact hold and the result fits 32 bits *)
Theorem C07_compact_facts : forall v : N,
  N.testbit (compact v) 23 = false /\
  (N.land (compact v) 8388607 < 2 ^ 23)%N /\ N.shiftr (compact v) 24 = csize v /\
  from_compact (compact v) = N.shiftl (N.shiftr v (cshift v)) (cshift v) /\
  (from_compact (compact v) <= v)%N /\
  (v < from_compact (compact v) + 2 ^ cshift v)%N /\
  N.shiftr (from_compact (compact v)) (cshift v) = N.shiftr v (cshift v) /\
  ((v < 2 ^ 23)%N -> from_compact (compact v) = v) /\
  compact (from_compact (compact v)) = compact v /\
  ((v < 2 ^ 256)%N -> compact_asserts v = true /\ (compact v < 2 ^ 32)%N).
Proof. exact compact_facts. Qed.
Print Assumptions C07_compact_facts.

(* ---- Python's int(a / b) as modelled by div_round53, and the retarget rule ---- *)
(* an integer quotient with at most 53 significant bits is returned exactly (no float error) *)
Theorem C07_div_exact : forall b k : N,
  (0 < b)%N -> (k mod 2 ^ (N.log2 k - 52) = 0)%N -> div_round53 (b * k) b = k.
Proof. exact div_round53_exact. Qed.
Print Assumptions C07_div_exact.

(* blocks exactly on schedule (150 s apart) leave the target exactly as the previous bits encode it,
   capped by max_target: the float division introduces no drift *)
Theorem C07_retarget_on_schedule : forall (mt : N) (pp : option bytes) (cur : bytes),
  let prev := match pp with Some x => x | None => cur end in
  (Z.of_N (h_time cur) - Z.of_N (h_time prev) = 150)%Z ->
  (from_compact (h_bits cur) * 150 < 2 ^ 256)%N ->
  next_target mt pp (Some cur) = N.min mt (from_compact (h_bits cur)).
Proof. exact retarget_on_schedule. Qed.
Print Assumptions C07_retarget_on_schedule.

(* ---- 112-byte header <-> record ---- *)
Theorem C07_header_codec_bytes : forall r : bytes, length r = HS ->
  exists h, deserialize r = Some h /\ serialize h = Some r.
Proof. exact codec_bytes. Qed.
Print Assumptions C07_header_codec_bytes.

Theorem C07_header_codec_record : forall h : header,
  (version h < 2 ^ 32)%N -> (timestamp h < 2 ^ 32)%N -> (bits h < 2 ^ 32)%N -> (nonce h < 2 ^ 32)%N ->
  length (prev_block_hash h) = 32 -> length (merkle_root h) = 32 -> length (claim_trie_root h) = 32 ->
  exists r, serialize h = Some r /\ length r = HS /\ deserialize r = Some h.
Proof. exact codec_header. Qed.
Print Assumptions C07_header_codec_record.

(* ---- what "obeys the rules" means, and that validate_chunk's loop decides exactly that ---- *)
(* [chain_rules c hs]: every header x at position k of hs satisfies [header_rules] relative to the headers
   at k-1 and k-2: position 0 hashes to the genesis hash; otherwise prev field = double SHA-256 of the header
   below, and (when difficulty is validated) bits = compact (next_target ...) and pow_value x <= that target *)
Theorem C07_rules_are_what_is_validated :
  forall (sha256 sha512 rmd160 : bytes -> bytes) (c : cfg) (hs : list bytes),
  validate sha256 sha512 rmd160 c None None hs = None <-> chain_rules sha256 sha512 rmd160 c hs.
Proof. exact valid_chain_rules. Qed.
Print Assumptions C07_rules_are_what_is_validated.

(* "meets ITS proof-of-work target": an accepted header meets the target its own bits encode (as lbrycrd's
   SetCompact(nBits) check does), i.e. the demanded retarget value with its low bits cleared, hence also the exact
   retarget value *)
Theorem C07_accepted_meets_bits_target :
  forall (sha256 sha512 rmd160 : bytes -> bytes) (c : cfg) (pp : option bytes) (pr x : bytes),
  validate_difficulty c = true ->
  header_rules sha256 sha512 rmd160 c pp (Some pr) x ->
  let t := next_target (max_target c) pp (Some pr) in
  h_bits x = compact t /\
  (pow_value sha256 sha512 rmd160 x <= from_compact (h_bits x))%N /\
  from_compact (h_bits x) = N.shiftl (N.shiftr t (cshift t)) (cshift t) /\
  (pow_value sha256 sha512 rmd160 x <= t)%N.
Proof. exact accepted_meets_bits_target. Qed.
Print Assumptions C07_accepted_meets_bits_target.

(* ---- the chain invariant ---- *)
(* For every sequence of connect calls (any start heights, any byte strings as batches), started from a
   stored chain that obeys the rules (e.g. the empty one): the whole stored chain -- which by
   C07_connect_all_or_nothing ends with the most recently connected batch -- still obeys the rules. *)
Theorem C07_chain_invariant :
  forall (sha256 sha512 rmd160 : bytes -> bytes) (c : cfg) (ops : list (nat * bytes)) (s : st),
  wf s -> chain_rules sha256 sha512 rmd160 c (stored_chain s) ->
  let s' := run_connects sha256 sha512 rmd160 c s ops in
  wf s' /\ chain_rules sha256 sha512 rmd160 c (stored_chain s').
Proof. exact chain_invariant_rules. Qed.
Print Assumptions C07_chain_invariant.

(* connect either stores the whole batch -- return value = number of headers, the stored chain becomes
   the old chain below `start` followed by the batch, nothing above it -- or leaves the state untouched
   (return 0 / IndexError / AssertionError): in particular nothing at or beyond an invalid header is stored *)
Theorem C07_connect_all_or_nothing :
  forall (sha256 sha512 rmd160 : bytes -> bytes) c s start batch s' r,
  wf s -> connect sha256 sha512 rmd160 c s start batch = (s', r) ->
  (stored r = true ->
     exists n, r = COk n /\ length batch = HS * n /\ 0 < n /\ start <= hsize s /\
       io s' = firstn (HS * start) (io s) ++ batch /\ hsize s' = start + n /\ missing s' = missing s /\
       validate sha256 sha512 rmd160 c (below2 (io s) start) (below1 (io s) start) (chunks n batch) = None) /\
  (stored r = false -> s' = s).
Proof. exact connect_all_or_nothing. Qed.
Print Assumptions C07_connect_all_or_nothing.

(* whatever is accepted is valid: if the chain below `start` obeys the rules, an accepted batch makes the
   stored chain exactly "chain below start ++ batch", and that chain obeys the rules (so a batch containing a
   header that breaks a rule is never accepted, and by all-or-nothing none of it is stored) *)
Theorem C07_connect_accepted_valid :
  forall (sha256 sha512 rmd160 : bytes -> bytes) c s start batch s' n,
  wf s -> connect sha256 sha512 rmd160 c s start batch = (s', COk (S n)) ->
  chain_rules sha256 sha512 rmd160 c (chunks start (io s)) ->
  chain_rules sha256 sha512 rmd160 c (stored_chain s') /\
  stored_chain s' = chunks start (io s) ++ chunks (S n) batch.
Proof. exact connect_accepted_valid. Qed.
Print Assumptions C07_connect_accepted_valid.

(* a fully valid batch that extends the chain is stored whole *)
Theorem C07_connect_valid_accepted :
  forall (sha256 sha512 rmd160 : bytes -> bytes) c s start batch n,
  wf s -> length batch = HS * S n -> start <= hsize s ->
  chain_rules sha256 sha512 rmd160 c (chunks start (io s) ++ chunks (S n) batch) ->
  connect sha256 sha512 rmd160 c s start batch = (connect_write s start batch, COk (S n)).
Proof. exact connect_valid_accepted. Qed.
Print Assumptions C07_connect_valid_accepted.

(* connecting a batch in two pieces succeeds exactly when connecting it whole does, with the same final state *)
Theorem C07_split_batches :
  forall (sha256 sha512 rmd160 : bytes -> bytes) c s start a b na nb,
  wf s -> length a = HS * S na -> length b = HS * S nb ->
  forall s2,
  (connect sha256 sha512 rmd160 c s start (a ++ b) = (s2, COk (S na + S nb)) <->
   exists s1, connect sha256 sha512 rmd160 c s start a = (s1, COk (S na)) /\
              connect sha256 sha512 rmd160 c s1 (start + S na) b = (s2, COk (S nb))).
Proof. exact split_batches. Qed.
Print Assumptions C07_split_batches.

(* the target never exceeds max_target; for a 256-bit max_target the asserts of _calculate_compact cannot
   fire during validation and the expected bits fit 32 bits *)
Theorem C07_validation_never_asserts : forall (mt : N) (pp p : option bytes), (mt < 2 ^ 256)%N ->
  compact_asserts (next_target mt pp p) = true /\ (compact (next_target mt pp p) < 2 ^ 32)%N.
Proof. exact validation_never_asserts. Qed.
Print Assumptions C07_validation_never_asserts.

(* ---- checkpointed chunks ---- *)
(* a fetched chunk changes the state only if its double SHA-256 is the built-in checkpoint of its chunk *)
Theorem C07_checkpoint_only :
  forall (sha256 : bytes -> bytes) c s height chunk s' r,
  fetch_chunk sha256 c s height chunk = (s', r) ->
  (r = FStored <-> lookup (chunk_start height) (checkpoints c) = Some (dsha sha256 chunk)) /\
  (r <> FStored -> s' = s) /\
  (r = FStored -> io s' = write_at (HS * chunk_start height) chunk (io s)).
Proof. exact checkpoint_only. Qed.
Print Assumptions C07_checkpoint_only.

Theorem C07_checkpoint_only_on_demand :
  forall (sha256 : bytes -> bytes) c s height chunk s' r,
  ensure_chunk_at sha256 c s height chunk = (s', r) ->
  s' <> s -> lookup (chunk_start height) (checkpoints c) = Some (dsha sha256 chunk).
Proof. exact ensure_chunk_only. Qed.
Print Assumptions C07_checkpoint_only_on_demand.

(* get() / hash() / get_raw_header() while a chunk getter is installed: whatever the server answers, the
   state changes only by storing a chunk whose hash is the built-in checkpoint of that 1000-block range; a
   range without a checkpoint is never written by a lookup *)
Theorem C07_lookup_checkpoint_only :
  forall (sha256 : bytes -> bytes) c s height chunk s' r l,
  lookup_header sha256 c s height chunk = (s', r, l) ->
  s' <> s -> lookup (chunk_start height) (checkpoints c) = Some (dsha sha256 chunk).
Proof. exact lookup_only. Qed.
Print Assumptions C07_lookup_checkpoint_only.

(* the chain invariant for histories that mix connect calls with lookups (any height, any server answer)
   in ranges that have no checkpoint: the stored chain keeps obeying the rules *)
Theorem C07_chain_invariant_with_lookups :
  forall (sha256 sha512 rmd160 : bytes -> bytes) (c : cfg) (ops : list hop) (s : st),
  lookups_uncheckpointed c ops ->
  wf s -> chain_rules sha256 sha512 rmd160 c (stored_chain s) ->
  let s' := fold_left (hstep sha256 sha512 rmd160 c) ops s in
  wf s' /\ chain_rules sha256 sha512 rmd160 c (stored_chain s').
Proof. exact chain_invariant_lookups. Qed.
Print Assumptions C07_chain_invariant_with_lookups.

(* open() = read, repair, re-pad, THEN recompute the missing set: after open() every checkpointed chunk either is
   flagged missing or what is stored for it hashes to the built-in checkpoint; and a height in a chunk flagged
   missing is never reported as present (so a lookup fetches, and C07_lookup_checkpoint_only applies) *)
Theorem C07_open_missing_exact :
  forall (sha256 sha512 rmd160 : bytes -> bytes) (c : cfg) (file : bytes) (h : nat) (e : bytes),
  In (h, e) (checkpoints c) ->
  let s := hopen sha256 sha512 rmd160 c file in
  In h (missing s) \/ dsha sha256 (read_n (io s) h CHUNK) = e.
Proof. exact open_missing_exact. Qed.
Print Assumptions C07_open_missing_exact.

Theorem C07_missing_not_served :
  forall (sha256 : bytes -> bytes) (c : cfg) (s : st) (height : nat),
  (exists e, lookup (chunk_start height) (checkpoints c) = Some e) ->
  In (chunk_start height) (missing s) -> has_header sha256 c s height = false.
Proof. exact missing_not_served. Qed.
Print Assumptions C07_missing_not_served.

(* open() on ANY file content: what is loaded is a byte prefix of the file (the whole file, or a whole
   number of headers), its headers are the first [hsize] headers of the file, they link by prev hash from
   the height where the check starts ([open_start]: 0 for a misaligned file or a store without checkpoints, else
   max(checkpoints)+1000), when the check starts at 0 the first header is the genesis block, and if nothing was
   dropped the tip itself obeys link, bits and proof of work relative to the two headers below it ([tip_ok]) *)
Theorem C07_open_yields_linked_prefix :
  forall (sha256 sha512 rmd160 : bytes -> bytes) (c : cfg) (file : bytes),
  let s := load_repair sha256 sha512 rmd160 c file in
  let H := chunks (length file / HS) file in
  let start := open_start c file in
  io s = firstn (length (io s)) file /\
  (io s = file \/ length (io s) = HS * hsize s) /\
  tight s /\ hsize s <= length file / HS /\ missing s = [] /\
  stored_chain s = firstn (hsize s) H /\
  linked sha256 (skipn start (stored_chain s)) /\
  (start = 0 -> forall x, nth_error (stored_chain s) 0 = Some x -> repair_genesis_ok sha256 c x = true) /\
  (hsize s = length file / HS -> Nat.max start 1 < hsize s -> tip_ok sha256 sha512 rmd160 c (stored_chain s)).
Proof. exact open_linked_prefix. Qed.
Print Assumptions C07_open_yields_linked_prefix.

(* [linked] in index form: consecutive headers are joined by prev hash *)
Theorem C07_linked_means :
  forall (sha256 : bytes -> bytes) (l : list bytes),
  linked sha256 l <->
  (forall i a b, nth_error l i = Some a -> nth_error l (S i) = Some b -> h_prev b = dsha sha256 a).
Proof. exact linked_iff. Qed.
Print Assumptions C07_linked_means.

(* how much is dropped, for ANY file: either everything is kept (and then the tip obeys the rules), or all links
   hold and exactly the tip is dropped because it breaks a rule, or the chain is cut at k-1 where k is the FIRST
   height above the start of the check whose link to its predecessor is broken (k = 0: genesis test failed) -- i.e.
   from one before the first header found damaged *)
Theorem C07_open_after_damage :
  forall (sha256 sha512 rmd160 : bytes -> bytes) (c : cfg) (file : bytes),
  let s := load_repair sha256 sha512 rmd160 c file in
  let H := chunks (length file / HS) file in
  let n := length file / HS in
  let start := open_start c file in
  (io s = file /\ hsize s = n /\ (Nat.max start 1 < n -> tip_ok sha256 sha512 rmd160 c H))
  \/ (Nat.max start 1 < n /\ ~ tip_ok sha256 sha512 rmd160 c H /\ linked sha256 (skipn start H) /\
      hsize s = n - 1 /\ io s = firstn (HS * (n - 1)) file)
  \/ (exists k, k < length H /\ hsize s = k - 1 /\ io s = firstn (HS * (k - 1)) file /\
        linked sha256 (skipn start (firstn k H)) /\
        ((k = 0 /\ start = 0 /\ exists x, nth_error H 0 = Some x /\ repair_genesis_ok sha256 c x = false)
         \/ (start < k /\ exists x y, nth_error H (k - 1) = Some x /\ nth_error H k = Some y /\
                                      h_prev y <> dsha sha256 x))).
Proof. exact open_drops_from_first_break. Qed.
Print Assumptions C07_open_after_damage.

(* the property's own phrase: ONE stored header above the start of the check overwritten so that the damage
   shows in a prev-hash link -- the loaded chain is the undamaged prefix cut one before the damaged header
   or exactly at it *)
Theorem C07_open_after_single_damage :
  forall (sha256 sha512 rmd160 : bytes -> bytes) (c : cfg) (hs : list bytes) (d : nat) (x' : bytes),
  Forall (fun x : bytes => length x = HS) hs -> linked sha256 hs -> length x' = HS ->
  (forall x, nth_error hs 0 = Some x -> repair_genesis_ok sha256 c x = true) ->
  repair_start c < d -> d < length hs ->
  ((forall p, nth_error hs (d - 1) = Some p -> h_prev x' <> dsha sha256 p)
   \/ (exists y, nth_error hs (S d) = Some y /\ h_prev y <> dsha sha256 x')) ->
  let s := load_repair sha256 sha512 rmd160 c (concat (replace_nth d x' hs)) in
  (hsize s = d - 1 \/ hsize s = d) /\ io s = firstn (HS * hsize s) (concat hs).
Proof. exact open_after_single_damage. Qed.
Print Assumptions C07_open_after_single_damage.

(* the LAST header overwritten with its prev field intact (no successor can expose it through a link) so that it
   breaks a rule (bits or proof of work): exactly the tip is dropped, everything below it is loaded *)
Theorem C07_open_after_tip_damage :
  forall (sha256 sha512 rmd160 : bytes -> bytes) (c : cfg) (hs : list bytes) (x' g : bytes) (n : nat),
  genesis c = Some g ->
  Forall (fun x : bytes => length x = HS) hs -> chain_rules sha256 sha512 rmd160 c hs -> length x' = HS ->
  length hs = S n -> Nat.max (repair_start c) 1 <= n ->
  (forall p, nth_error hs (n - 1) = Some p -> h_prev x' = dsha sha256 p) ->
  check_header sha256 sha512 rmd160 c (prev2 hs n) (prev1 hs n) x' <> None ->
  load_repair sha256 sha512 rmd160 c (concat (firstn n hs ++ [x'])) = mkSt (concat (firstn n hs)) n [].
Proof. exact open_after_tip_damage. Qed.
Print Assumptions C07_open_after_tip_damage.

(* a stored chain that obeys the rules, cut at ANY byte offset m: exactly the m/112 whole headers are loaded --
   only the partial header is lost *)
Theorem C07_open_after_cut :
  forall (sha256 sha512 rmd160 : bytes -> bytes) (c : cfg) (hs : list bytes) (m : nat) (g : bytes),
  genesis c = Some g ->
  Forall (fun x : bytes => length x = HS) hs -> chain_rules sha256 sha512 rmd160 c hs ->
  m <= length (concat hs) ->
  load_repair sha256 sha512 rmd160 c (firstn m (concat hs)) = mkSt (firstn m (concat hs)) (m / HS) [].
Proof. exact open_after_cut. Qed.
Print Assumptions C07_open_after_cut.

(* connect invariant and restart together: a stored chain that obeys the rules, cut at any byte by a crash,
   is loaded as its m/112 whole headers, and these still obey all the rules *)
Theorem C07_restart_after_cut_keeps_rules :
  forall (sha256 sha512 rmd160 : bytes -> bytes) (c : cfg) (hs : list bytes) (m : nat) (g : bytes),
  genesis c = Some g ->
  Forall (fun x : bytes => length x = HS) hs -> chain_rules sha256 sha512 rmd160 c hs ->
  m <= length (concat hs) ->
  let s := load_repair sha256 sha512 rmd160 c (firstn m (concat hs)) in
  hsize s = m / HS /\ io s = firstn m (concat hs) /\
  stored_chain s = firstn (m / HS) hs /\ chain_rules sha256 sha512 rmd160 c (stored_chain s).
Proof. exact restart_after_cut_keeps_rules. Qed.
Print Assumptions C07_restart_after_cut_keeps_rules.

(* close() writes exactly the chain in memory, and a restart WITHOUT any crash loads exactly what was stored
   (same bytes, same length) whenever that chain obeys the rules -- in particular after a reorganisation to a
   shorter chain nothing of the abandoned tail comes back *)
Theorem C07_close_reopen_exact :
  forall (sha256 sha512 rmd160 : bytes -> bytes) (c : cfg) (s : st) (f : option bytes) (hs : list bytes) (g : bytes),
  genesis c = Some g ->
  io s = concat hs -> Forall (fun x : bytes => length x = HS) hs -> chain_rules sha256 sha512 rmd160 c hs ->
  hclose s f = io s /\
  load_repair sha256 sha512 rmd160 c (hclose s f) = mkSt (io s) (length hs) [].
Proof. exact close_reopen_exact. Qed.
Print Assumptions C07_close_reopen_exact.

(* ---- the two repaired defects, machine-checked on models of the OLD code ---- *)
(* before 64a9e0b: a fork shorter than the old tail, then the old chain's continuation at len(headers):
   all accepted, 4 headers counted, broken link inside the chain that ends with the last connected batch *)
Theorem C07_chain_invariant_old_refuted :
  let r := run_log (connect_old toy toy toy) w_ops in
  snd r = [COk 3; COk 1; COk 1] /\ hsize (fst r) = 4 /\
  validate toy toy toy w_cfg None None (chunks 4 (io (fst r))) = Some RPrev.
Proof. exact chain_invariant_old_refuted. Qed.
Print Assumptions C07_chain_invariant_old_refuted.

(* before 54b8776: 37 headers with a garbage tip were all kept *)
Theorem C07_repair_old_refuted :
  let s := mkSt w_file 37 [] in
  repair_fail toy w_rcfg 0 (chunks 37 w_file) = Some 36 /\
  hsize (repair_old toy w_rcfg s 0) = 37 /\
  hsize (repair toy toy toy w_rcfg s 0) = 35.
Proof. exact repair_old_refuted. Qed.
Print Assumptions C07_repair_old_refuted.

(* ---- non-vacuity ---- *)
(* the invariant's hypotheses hold for the empty chain; a history that accepts, forks and refuses *)
Example C07_ex_history :
  let r := run_log (connect toy toy toy) w_ops in
  (snd r, hsize (fst r), validate toy toy toy w_cfg None None (chunks 2 (io (fst r))))
  = ([COk 3; COk 1; CIndexError], 2, None).
Proof. vm_compute. reflexivity. Qed.
(* main-net values: 0x1f00ffff <-> 0xffff * 2^224 *)
Example C07_ex_compact :
  (compact (65535 * 2 ^ 224), from_compact 520159231) = (520159231%N, (65535 * 2 ^ 224)%N).
Proof. vm_compute. reflexivity. Qed.
(* int(a / b): ties go to the even significand, a quotient just below 1 rounds up to 1, fractions are dropped *)
Example C07_ex_div_tie :
  (div_round53 (2 ^ 53 + 1) 1, div_round53 (2 ^ 53 + 3) 1, div_round53 (2 ^ 60 - 1) (2 ^ 60), div_round53 7 2)
  = ((2 ^ 53)%N, (2 ^ 53 + 4)%N, 1%N, 3%N).
Proof. vm_compute. reflexivity. Qed.
(* lbrycrd's retarget test vector: bits 0x1f00ffff, zero time span -> 0x1f00e146 *)
Example C07_ex_retarget :
  compact (next_target (65535 * 2 ^ 224 + (2 ^ 224 - 1))
             None (Some (repeat x00 104 ++ [xff; xff; x00; x1f] ++ repeat x00 4))) = 520151366%N.
Proof. vm_compute. reflexivity. Qed.

(* before the close() fix: 3 headers on disk, 2 in memory after a shorter fork; the 'r+b' overwrite kept the third,
   the next open() met the broken link and kept 1 header (a validly stored one lost); the repaired close reloads 2 *)
Theorem C07_close_old_refuted :
  let old_file := wA0 ++ wA1 ++ wA2 in
  let s := mkSt (wA0 ++ wB1) 2 [] in
  (length (hclose_old s (Some old_file)) / HS,
   hsize (load_repair toy toy toy w_rcfg (hclose_old s (Some old_file))),
   hsize (load_repair toy toy toy w_rcfg (hclose s (Some old_file))))
  = (3, 1, 2).
Proof. exact close_old_refuted. Qed.
Print Assumptions C07_close_old_refuted.
