(* C07 property theorems: statements only, each closed by [exact]. *)
From Coq Require Import NArith ZArith List Bool.
From LV Require Import Lib.Bytes Model.C07 Proofs.C07.
Import ListNotations.

(* For every sequence of connect calls (any start heights, any bytes as batches), started from a stored
   chain that obeys the rules (e.g. the empty one): every stored header still obeys the rules relative to
   the two headers below it -- height 0 hashes to the genesis hash, every other header's prev field is the
   double SHA-256 of the header below, its bits equal compact(next_target) and its proof-of-work value is
   at most that target. *)
Theorem C07_chain_invariant :
  forall (sha256 sha512 rmd160 : bytes -> bytes) (c : cfg) (ops : list (nat * bytes)) (s : st),
  wf s -> chain_rules sha256 sha512 rmd160 c (stored_chain s) ->
  let s' := run_connects sha256 sha512 rmd160 c s ops in
  wf s' /\ chain_rules sha256 sha512 rmd160 c (stored_chain s').
Proof. exact chain_invariant_rules. Qed.
Print Assumptions C07_chain_invariant.

(* connect either stores the whole batch (return = number of headers, the chain is cut to end with the
   batch) or leaves the state untouched. *)
Theorem C07_connect_all_or_nothing :
  forall (sha256 sha512 rmd160 : bytes -> bytes) c s start batch s' r,
  wf s -> connect sha256 sha512 rmd160 c s start batch = (s', r) ->
  (stored r = true ->
     exists n, r = COk n /\ length batch = HS * n /\ 0 < n /\ start <= hsize s /\
       io s' = firstn (HS * start) (io s) ++ batch /\ hsize s' = start + n /\ missing s' = missing s /\
       validate sha256 sha512 rmd160 c (below2 (io s) start) (below1 (io s) start) (chunks n batch) = None) /\
  (stored r = false -> s' = s).
Proof. exact connect_all_or_nothing. Qed.
Print Assumptions C07_connect_all_or_nothing.

(* a fully valid batch that extends the chain is stored whole *)
Theorem C07_connect_valid_accepted :
  forall (sha256 sha512 rmd160 : bytes -> bytes) c s start batch n,
  wf s -> length batch = HS * S n -> start <= hsize s ->
  chain_rules sha256 sha512 rmd160 c (chunks start (io s) ++ chunks (S n) batch) ->
  connect sha256 sha512 rmd160 c s start batch = (connect_write s start batch, COk (S n)).
Proof. exact connect_valid_accepted. Qed.
Print Assumptions C07_connect_valid_accepted.
