(* C11 property theorems: statements only, each closed by [exact].
   Vocabulary (Model/C11Spec.v): [run own ops] is the routing table of the node [own] after the history [ops]
   (adds with arbitrary peer-manager facts and probe outcomes, adds/removes without node id, removals),
   started from the single bucket [0, 2^384); [op_valid] only says node ids are 48-byte strings. *)
From Coq Require Import NArith ZArith List Bool.
From LV Require Import Model.C11 Model.C11Spec Proofs.C11Sys Proofs.C11More Proofs.C11.
Import ListNotations.
Local Open Scope N_scope.

(* After ANY history, for ANY own id and ANY probe outcomes / peer-manager facts: buckets are contiguous from 0 to
   2^384 with non-empty ranges, every contact lies in its bucket's range, no bucket holds more than K contacts,
   no node id and no (address, port) occurs twice. *)
Theorem C11_wellformed : forall own ops,
  own < M -> Forall op_valid ops ->
  chain 0 (run own ops) M /\ Forall (bucket_ok own) (run own ops) /\
  NoDup (map pid (contacts (run own ops))) /\ NoDup (map pkey (contacts (run own ops))).
Proof. exact wellformed. Qed.
Print Assumptions C11_wellformed.

(* Every distance below 2^384 is covered by exactly one bucket, every other number by none. *)
Theorem C11_covered_once : forall own ops d,
  own < M -> Forall op_valid ops -> covering (run own ops) d = if d <? M then 1%nat else 0%nat.
Proof. exact covered_once. Qed.
Print Assumptions C11_covered_once.

(* The recursion of add_peer is bounded: with fuel 386 (one level per halving of a 384-bit range, plus the probe
   retry) it never runs out and it never fails to find a bucket; unless a probe fails locally it returns. *)
Theorem C11_fuel_suffices : forall own ops p e fuel,
  own < M -> Forall op_valid ops -> pid p < M -> (386 <= fuel)%nat ->
  exists r probed t', add_peer true own e fuel (run own ops) p = (r, probed, t') /\ r <> ErrFuel /\ r <> ErrIndex /\
    ((forall q, probe e q <> PLocalFail) -> exists v, r = Ret v).
Proof. exact fuel_suffices. Qed.
Print Assumptions C11_fuel_suffices.

(* No operation of any history raises IndexError or runs out of fuel (the only exception that can leave add_peer is the
   probe's own, see C11_local_failure_displaces_nobody). *)
Theorem C11_no_error : forall own ops, own < M -> Forall op_valid ops -> Forall out_ok (outs own ops).
Proof. exact no_error. Qed.
Print Assumptions C11_no_error.

(* find_close_peers returns exactly the [count] (K when count is 0/None) nearest contacts other than the node itself
   and the requester: strictly ascending by XOR distance, only eligible contacts, every eligible contact left out
   is farther than every contact returned, and the length is min(count, number of eligible contacts). *)
Theorem C11_closest_exact : forall own ops key count sender,
  own < M -> Forall op_valid ops -> (0 <= count)%Z ->
  exact_closest own sender (run own ops) key (if (count =? 0)%Z then K else Z.to_nat count)
                (find_close own (run own ops) key count sender).
Proof. exact closest_exact. Qed.
Print Assumptions C11_closest_exact.

(* The RPC layer (KademliaRPC.find_node, and the contacts of find_value) answers a requester with exactly the K
   nearest contacts other than the node itself and the requester: the requester is excluded BEFORE truncation. *)
Theorem C11_rpc_closest_exact : forall own ops key requester,
  own < M -> Forall op_valid ops ->
  exact_closest own (Some requester) (run own ops) key K (rpc_find_node own (run own ops) key requester) /\
  exact_closest own (Some requester) (run own ops) key K (rpc_find_value_contacts own (run own ops) key requester).
Proof. exact rpc_exact. Qed.
Print Assumptions C11_rpc_closest_exact.

(* A contact that answers the probe -- or that could not even be asked because the local send failed (PLocalFail) -- is
   still in the table after a newcomer with another id at another address was offered, whatever the rest of the
   environment says: only a timeout or an error answer (PDead) can cost a contact its place. *)
Theorem C11_live_contact_kept : forall own ops p e x,
  own < M -> Forall op_valid ops -> pid p < M ->
  In x (contacts (run own ops)) -> pid x <> pid p -> pkey x <> pkey p -> probe e x <> PDead ->
  In x (contacts (fst (step true own (run own ops) (Add p e)))).
Proof. exact live_contact_kept. Qed.
Print Assumptions C11_live_contact_kept.

(* Sharper: such a contact disappears only if it was the one probed and the probe failed. *)
Theorem C11_displaced_only_if_probed : forall own ops p e x,
  own < M -> Forall op_valid ops -> pid p < M ->
  In x (contacts (run own ops)) -> pid x <> pid p -> pkey x <> pkey p ->
  match step true own (run own ops) (Add p e) with
  | (t', OAdd _ probed) => In x (contacts t') \/ (In x probed /\ probe e x = PDead)
  | _ => False
  end.
Proof. exact displaced_only_if_probed. Qed.
Print Assumptions C11_displaced_only_if_probed.

(* A newcomer closer to the own id than the K-th closest known contact (fewer than K known contacts are at least
   as close) is always admitted: add_peer returns True and the newcomer is in the table. *)
Theorem C11_closer_admitted : forall own ops p e,
  own < M -> Forall op_valid ops -> pid p < M ->
  (at_least_as_close own (run own ops) p < K)%nat ->
  exists probed, snd (step true own (run own ops) (Add p e)) = OAdd (Ret true) probed /\
                 In p (contacts (fst (step true own (run own ops) (Add p e)))).
Proof. exact closer_admitted. Qed.
Print Assumptions C11_closer_admitted.

(* remove_peer removes exactly the given contact (same id, address and port) and nothing else. *)
Theorem C11_remove_exact : forall own ops p,
  own < M -> Forall op_valid ops -> pid p < M ->
  snd (step true own (run own ops) (Remove p)) = ORemove true /\
  forall x, In x (contacts (fst (step true own (run own ops) (Remove p)))) <-> In x (contacts (run own ops)) /\ x <> p.
Proof. exact remove_exact. Qed.
Print Assumptions C11_remove_exact.

(* get_peer finds the contact with the given node id exactly when the table knows one. *)
Theorem C11_get_peer_exact : forall own ops id,
  own < M -> Forall op_valid ops -> id < M ->
  exists r, get_peer own (run own ops) id = Some r /\
    match r with
    | Some q => In q (contacts (run own ops)) /\ pid q = id
    | None => forall q, In q (contacts (run own ops)) -> pid q <> id
    end.
Proof. exact get_peer_exact. Qed.
Print Assumptions C11_get_peer_exact.

(* Among several buckets none is empty: _join_buckets always runs to completion (as long as no probe failed locally:
   that exception leaves add_peer past the pending _join_buckets calls). *)
Theorem C11_no_empty_bucket : forall own ops,
  own < M -> Forall op_valid ops -> Forall op_nofail ops ->
  (length (run own ops) <= 1)%nat \/ Forall (fun b => bpeers b <> []) (run own ops).
Proof. exact no_empty_bucket. Qed.
Print Assumptions C11_no_empty_bucket.

(* A probe that fails locally (the OSError of sendto() that KademliaProtocol._send puts on the pending future) is not
   evidence against the incumbent: the exception leaves add_peer, exactly one contact was probed and it is still in
   the table, the newcomer is not inserted, nothing new appears and every contact at another address is kept. *)
Theorem C11_local_failure_displaces_nobody : forall own ops p e probed,
  own < M -> Forall op_valid ops -> pid p < M ->
  snd (step true own (run own ops) (Add p e)) = OAdd ErrProbe probed ->
  let t' := fst (step true own (run own ops) (Add p e)) in
  (exists q, probed = [q] /\ probe e q = PLocalFail /\ In q (contacts t')) /\
  (forall x, In x (contacts t') -> pid x <> pid p) /\
  (forall x, In x (contacts t') -> In x (contacts (run own ops))) /\
  (forall x, In x (contacts (run own ops)) -> pkey x <> pkey p -> In x (contacts t')).
Proof. exact local_failure_displaces_nobody. Qed.
Print Assumptions C11_local_failure_displaces_nobody.

(* One add_peer call sends at most one probe. *)
Theorem C11_single_probe : forall own ops p e,
  own < M -> Forall op_valid ops -> pid p < M ->
  match snd (step true own (run own ops) (Add p e)) with
  | OAdd _ probed => (length probed <= 1)%nat
  | _ => False
  end.
Proof. exact single_probe. Qed.
Print Assumptions C11_single_probe.

(* A rejected newcomer (add_peer returns False) is not in the table, nothing new appears, and every contact at
   another address is still there. *)
Theorem C11_rejected_unchanged : forall own ops p e probed,
  own < M -> Forall op_valid ops -> pid p < M ->
  snd (step true own (run own ops) (Add p e)) = OAdd (Ret false) probed ->
  let t' := fst (step true own (run own ops) (Add p e)) in
  (forall x, In x (contacts t') -> pid x <> pid p) /\
  (forall x, In x (contacts t') -> In x (contacts (run own ops))) /\
  (forall x, In x (contacts (run own ops)) -> pkey x <> pkey p -> In x (contacts t')).
Proof. exact rejected_unchanged. Qed.
Print Assumptions C11_rejected_unchanged.

(* The table driven by the modelled PeerManager (report_failure / report_last_replied / report_last_requested,
   contact_triple_is_good, get_last_replied), clock and protocol (KademliaProtocol._add_peer with its real ping, the
   add queue of routing_table_task) is one of the histories quantified over above, so every theorem of this file applies
   to it; reached only through the protocol, no probe outcome arrives at the table as a local failure. *)
Theorem C11_pm_refines : forall own sops,
  Forall sop_valid sops ->
  exists ops, Forall op_valid ops /\ s_tab (sys_run own sops) = run own ops /\
              (Forall sop_proto sops -> Forall op_nofail ops).
Proof. exact pm_refines. Qed.
Print Assumptions C11_pm_refines.

(* The queue of routing_table_task loses nobody: a contact handed to KademliaProtocol.add_peer (other than the own id)
   is still queued or has been offered to TreeRoutingTable.add_peer -- whatever else was reported, popped or probed
   in between, in whatever order the task pops. *)
Theorem C11_reported_never_lost : forall own sops p,
  pid p <> own -> In (SReport p) sops ->
  In p (s_pending (sys_run own sops)) \/ exists e, In (Add p e) (compile own sys_init sops).
Proof. exact reported_never_lost. Qed.
Print Assumptions C11_reported_never_lost.

(* ... and when the task pops a queued contact that is closer than the K-th closest known one, it is admitted. *)
Theorem C11_queued_closer_admitted : forall own sops p pr w,
  own < M -> Forall sop_valid sops -> pid p < M ->
  In p (s_pending (sys_run own sops)) ->
  (at_least_as_close own (s_tab (sys_run own sops)) p < K)%nat ->
  In p (contacts (s_tab (fst (sys_step true own (sys_run own sops) (SDrainPick p pr w))))).
Proof. exact queued_closer_admitted. Qed.
Print Assumptions C11_queued_closer_admitted.

(* Through the protocol a failed local send of the probe keeps the incumbent and raises nothing, so no empty bucket
   survives among several. *)
Theorem C11_sys_no_empty_bucket : forall own sops,
  own < M -> Forall sop_valid sops -> Forall sop_proto sops ->
  (length (s_tab (sys_run own sops)) <= 1)%nat \/ Forall (fun b => bpeers b <> []) (s_tab (sys_run own sops)).
Proof. exact sys_no_empty_bucket. Qed.
Print Assumptions C11_sys_no_empty_bucket.

Theorem C11_sys_wellformed : forall own sops,
  own < M -> Forall sop_valid sops ->
  chain 0 (s_tab (sys_run own sops)) M /\ Forall (bucket_ok own) (s_tab (sys_run own sops)) /\
  NoDup (map pid (contacts (s_tab (sys_run own sops)))) /\ NoDup (map pkey (contacts (s_tab (sys_run own sops)))).
Proof. exact sys_wellformed. Qed.
Print Assumptions C11_sys_wellformed.

(* The OLD _join_buckets (range_max = midpoint - 1), same model with rp = false: after the history gap_ops the
   distance 2^382 + 2^381 - 1 is in no bucket and adding that id raises IndexError; the repaired code covers it
   once and admits the contact. *)
Theorem C11_join_gap_refuted :
  let t := fst (run_from false 0 init gap_ops) in
  Forall op_valid gap_ops /\ gap_d < M /\
  covering t gap_d = 0%nat /\
  snd (step false 0 t (Add (pk gap_d 14) env0)) = OAdd ErrIndex [] /\
  covering (run 0 gap_ops) gap_d = 1%nat /\
  snd (step true 0 (run 0 gap_ops) (Add (pk gap_d 14) env0)) = OAdd (Ret true) [].
Proof. exact join_gap_refuted. Qed.
Print Assumptions C11_join_gap_refuted.

(* non-vacuity: the histories quantified over reach split tables, full buckets, probes and admissions *)
Example C11_ex_split : (length (run 0 gap_ops), length (contacts (run 0 gap_ops))) = (2%nat, 12%nat).
Proof. vm_compute. reflexivity. Qed.
(* bucket 0 is full (8 contacts), yet a newcomer at distance 5 has only 4 known contacts at least as close *)
Example C11_ex_admit_hyp :
  (map (fun b => length (bpeers b)) (run 0 gap_ops), at_least_as_close 0 (run 0 gap_ops) (pk 5 20)) = ([8%nat; 4%nat], 4%nat).
Proof. vm_compute. reflexivity. Qed.
(* a ninth far contact: the full far bucket cannot split, its first contact is probed, answers, and is kept *)
Example C11_ex_probe :
  let far := map (fun i => Add (pk (2 ^ 383 + i) i) env0) [1; 2; 3; 4; 5; 6; 7; 8] in
  snd (step true 0 (run 0 far) (Add (pk (2 ^ 383 + 9) 9) env0)) = OAdd (Ret false) [pk (2 ^ 383 + 1) 1].
Proof. vm_compute. reflexivity. Qed.
(* the three nearest to key 3 for requester 2 among the twelve contacts of that table *)
Example C11_ex_find : map pid (find_close 0 (run 0 gap_ops) 3 3 (Some 2)) = [3; 1; 4].
Proof. vm_compute. reflexivity. Qed.
(* REFUTED for the code as it is (clean-tree finding, reported): taken literally, "a contact that still answers pings is
   never displaced by a newcomer at a different address" also covers a newcomer that claims a KNOWN node id from another
   endpoint.  KBucket.add_peer replaces the stored entry at once, without a ping to the stored endpoint: the probe
   answers (env0), nothing is probed, yet the contact at endpoint 100 is gone.  This is why C11_live_contact_kept
   carries the hypothesis pid x <> pid p; the monitor reports every such event under the signature
   {"finding": "C11-same-id-other-endpoint-replaces-without-probe"}. *)
Example C11_same_id_other_endpoint_refuted :
  step true 0 (run 0 [Add (mkPeer 7 100 4444) env0]) (Add (mkPeer 7 200 4444) env0)
  = ([mkB 0 M [mkPeer 7 200 4444]], OAdd (Ret true) []).
Proof. vm_compute. reflexivity. Qed.
(* requester 3 looks up its own id in a table of twelve contacts: eight answers, itself left out, the ninth nearest in *)
Example C11_ex_rpc : map pid (rpc_find_node 0 (run 0 gap_ops) 3 3) = [2; 1; 4; 11; 10; 12; 20; 2 ^ 383 + 3].
Proof. vm_compute. reflexivity. Qed.
(* the same ninth far contact while the local send of the ping fails: the exception leaves add_peer, all eight stay *)
Example C11_ex_local_failure :
  let far := map (fun i => Add (pk (2 ^ 383 + i) i) env0) [1; 2; 3; 4; 5; 6; 7; 8] in
  let e := mkEnv (fun _ => false) (fun _ => Stale) (fun _ => PLocalFail) in
  (snd (step true 0 (run 0 far) (Add (pk (2 ^ 383 + 9) 9) e)),
   map pid (contacts (fst (step true 0 (run 0 far) (Add (pk (2 ^ 383 + 9) 9) e)))))
  = (OAdd ErrProbe [pk (2 ^ 383 + 1) 1], map (fun i => 2 ^ 383 + i) [1; 2; 3; 4; 5; 6; 7; 8]).
Proof. vm_compute. reflexivity. Qed.
