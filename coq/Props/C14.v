(* C14 property theorems: statements only, each closed by [exact]. *)
From Coq Require Import NArith ZArith List Bool Arith.
From LV Require Import Model.C03 Model.C14 Proofs.C14.
Import ListNotations.

(* For every number of builds, every chooser that answers with a duplicate-free sub-list of the rows it
   was shown (C03_select_sound: every strategy does), every continuation / finishing policy, every wallet
   and EVERY schedule: no outpoint is held by two builds, what is reserved in the wallet is exactly the
   union of the inputs of the builds in flight, and a held output is not offered to anybody. *)
Theorem C14_exclusive :
  forall n choose more finish can_sign,
  (forall b r l, NoDup (map uid l) -> incl (choose b r l) l /\ NoDup (map uid (choose b r l))) ->
  forall w0, NoDup (map (fun e : utxo * bool => uid (fst e)) w0) -> (forall e, In e w0 -> snd e = false) ->
  forall sched,
  let st := run true n choose more finish can_sign sched (init w0) in
  (forall b1 b2 i, b1 <> b2 -> In i (held_ids st b1) -> In i (held_ids st b2) -> False) /\
  (forall b, NoDup (held_ids st b)) /\
  (forall i, In i (reserved_ids (wal st)) <-> exists b, b < n /\ In i (held_ids st b)) /\
  (forall b u, In u (held (bs st b)) -> ~ In u (unreserved (wal st))).
Proof. exact exclusive. Qed.
Print Assumptions C14_exclusive.

(* The same with the chooser of the real code (Model/C03's selection, each build with its own strategy and
   the deficits it asks for): its premise is discharged by C03_select_sound / C03_sqlite_sound. *)
Theorem C14_exclusive_real_chooser :
  forall fpb shuffle, (forall l, Permutation.Permutation l (shuffle l)) -> (0 <= fpb)%Z ->
  forall strat amount n more finish can_sign w0,
  NoDup (map (fun e : utxo * bool => uid (fst e)) w0) -> (forall e, In e w0 -> snd e = false) ->
  forall sched,
  let st := run true n (c03_choose fpb shuffle strat amount) more finish can_sign sched (init w0) in
  (forall b1 b2 i, b1 <> b2 -> In i (held_ids st b1) -> In i (held_ids st b2) -> False) /\
  (forall b, NoDup (held_ids st b)) /\
  (forall i, In i (reserved_ids (wal st)) <-> exists b, b < n /\ In i (held_ids st b)) /\
  (forall b u, In u (held (bs st b)) -> ~ In u (unreserved (wal st))).
Proof. exact exclusive_c03. Qed.
Print Assumptions C14_exclusive_real_chooser.

(* [can_sign b inputs] = false makes build b fail in tx.sign after its last round (locked account, missing key):
   it then goes through Abort = release_tx like a build that found no funds, and ends Failed.
   Once every build has failed (for lack of funds OR while signing), been abandoned or been broadcast nothing is reserved; if none was
   broadcast the wallet is exactly what it was: every output is available again. *)
Theorem C14_all_released :
  forall n choose more finish can_sign,
  (forall b r l, NoDup (map uid l) -> incl (choose b r l) l /\ NoDup (map uid (choose b r l))) ->
  forall w0, NoDup (map (fun e : utxo * bool => uid (fst e)) w0) -> (forall e, In e w0 -> snd e = false) ->
  forall sched,
  let st := run true n choose more finish can_sign sched (init w0) in
  (forall b, b < n -> finished (ph (bs st b)) = true) ->
  reserved_ids (wal st) = [] /\
  ((forall b, b < n -> ph (bs st b) <> PDone Broadcast) -> wal st = w0).
Proof. exact all_released. Qed.
Print Assumptions C14_all_released.

(* Non-vacuity: the same programs without their Lock/Unlock steps admit a schedule in which two builds
   hold the same outpoint. *)
Theorem C14_lock_needed :
  exists n choose more finish can_sign w0 sched,
    (forall b r l, NoDup (map uid l) -> incl (choose b r l) l /\ NoDup (map uid (choose b r l))) /\
    NoDup (map (fun e : utxo * bool => uid (fst e)) w0) /\ (forall e, In e w0 -> snd e = false) /\
    let st := run false n choose more finish can_sign sched (init w0) in
    exists i, In i (held_ids st 0) /\ In i (held_ids st 1).
Proof. exact lock_needed. Qed.
Print Assumptions C14_lock_needed.

Example C14_ex_with_lock :
  let st := run true 2 first_one (fun _ _ _ => false) (fun _ => false) (fun _ _ => true) demo_sched (init demo_wallet) in
  held_ids st 0 = [1%N] /\ held_ids st 1 = [] /\ lock st = Some 1%nat.
Proof. exact demo_with_lock. Qed.

(* non-vacuity for the signing failure: funded, tx.sign raises, everything is released *)
Example C14_ex_sign_fails :
  let st := run true 1 first_one (fun _ _ _ => false) (fun _ => false) (fun _ _ => false)
                [0; 0; 0; 0; 0; 0]%nat (init demo_wallet) in
  ph (bs st 0%nat) = PDone Failed /\ reserved_ids (wal st) = [] /\ wal st = demo_wallet /\
  (let st5 := run true 1 first_one (fun _ _ _ => false) (fun _ => false) (fun _ _ => false)
                  [0; 0; 0; 0; 0]%nat (init demo_wallet) in
   ph (bs st5 0%nat) = PAbort /\ held_ids st5 0%nat = [1%N]).
Proof. exact demo_sign_fails. Qed.
