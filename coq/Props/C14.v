(* C14 property theorems: statements only, each closed by [exact].
   Model/C14.v: every build runs PreLock; Pre; PreUnlock (reserve the pre-chosen wallet outputs under the lock), then
   rounds of Lock; Read; Select; Reserve; Unlock, then Abort (nothing found, or tx.sign raised) or Finish (broadcast /
   abandon); [run use_lock lock_pre n choose more finish pre start quits can_sign sched st] executes one step of the named
   build per element of the ARBITRARY schedule [sched].
   Premise about pre-chosen inputs ([fresh_sched]): whenever a build reserves its pre-chosen wallet outputs they are
   unreserved at that moment.  The code does not refuse a pre-chosen output that another build already holds, so this
   is a duty of the caller; with no pre-chosen wallet outputs the premise is void ([C14_fresh_when_no_prechosen]). *)
From Coq Require Import NArith ZArith List Bool Arith.
From LV Require Import Model.C03 Model.C14 Proofs.C14.
Import ListNotations.

(* For every number of builds, every chooser that answers with a duplicate-free sub-list of the rows it was shown
   (C03_select_sound: every strategy does), every continuation / signing / finishing policy, every wallet, all
   pre-chosen wallet outputs and EVERY schedule: no outpoint is held by two builds - selected or pre-chosen -, what
   is reserved in the wallet is exactly the union of the inputs of the builds in flight, and a held output is not
   offered to anybody. *)
Theorem C14_exclusive :
  forall n choose more finish pre start quits can_sign,
  (forall b, NoDup (map uid (pre b))) ->
  (forall b r l, NoDup (map uid l) -> incl (choose b r l) l /\ NoDup (map uid (choose b r l))) ->
  forall w0, NoDup (map (fun e : utxo * bool => uid (fst e)) w0) -> (forall e, In e w0 -> snd e = false) ->
  forall sched,
  fresh_sched n choose more finish pre start quits can_sign sched (init w0) ->
  let st := run true true n choose more finish pre start quits can_sign sched (init w0) in
  (forall b1 b2 i, b1 <> b2 -> In i (held_ids st b1) -> In i (held_ids st b2) -> False) /\
  (forall b, NoDup (held_ids st b)) /\
  (forall i, In i (reserved_ids (wal st)) <-> exists b, b < n /\ In i (held_ids st b)) /\
  (forall b u, In u (held (bs st b)) -> ~ In u (unreserved (wal st))).
Proof. exact exclusive. Qed.
Print Assumptions C14_exclusive.

(* without pre-chosen wallet outputs the premise holds for every schedule *)
Theorem C14_fresh_when_no_prechosen :
  forall n choose more finish pre start quits can_sign sched,
  (forall b, pre b = []) -> forall st, fresh_sched n choose more finish pre start quits can_sign sched st.
Proof. exact fresh_sched_nil_pre. Qed.
Print Assumptions C14_fresh_when_no_prechosen.

(* The same with the chooser of the real code (Model/C03's selection, each build with its own strategy and the
   deficits it asks for): its premise is discharged by C03_select_sound / C03_sqlite_sound. *)
Theorem C14_exclusive_real_chooser :
  forall fpb shuffle, (forall l, Permutation.Permutation l (shuffle l)) -> (0 <= fpb)%Z ->
  forall strat amount n more finish pre start quits can_sign w0,
  (forall b, NoDup (map uid (pre b))) ->
  NoDup (map (fun e : utxo * bool => uid (fst e)) w0) -> (forall e, In e w0 -> snd e = false) ->
  forall sched,
  fresh_sched n (c03_choose fpb shuffle strat amount) more finish pre start quits can_sign sched (init w0) ->
  let st := run true true n (c03_choose fpb shuffle strat amount) more finish pre start quits can_sign sched (init w0) in
  (forall b1 b2 i, b1 <> b2 -> In i (held_ids st b1) -> In i (held_ids st b2) -> False) /\
  (forall b, NoDup (held_ids st b)) /\
  (forall i, In i (reserved_ids (wal st)) <-> exists b, b < n /\ In i (held_ids st b)) /\
  (forall b u, In u (held (bs st b)) -> ~ In u (unreserved (wal st))).
Proof. exact exclusive_c03. Qed.
Print Assumptions C14_exclusive_real_chooser.

(* [can_sign b inputs] = false makes build b fail in tx.sign after its last round (locked account, missing key):
   it then goes through Abort = release_tx like a build that found no funds, and ends Failed.
   Once every build has failed (for lack of funds OR while signing), been abandoned or been broadcast nothing is
   reserved; if none was broadcast the wallet is exactly what it was: every output is available again. *)
Theorem C14_all_released :
  forall n choose more finish pre start quits can_sign,
  (forall b, NoDup (map uid (pre b))) ->
  (forall b r l, NoDup (map uid l) -> incl (choose b r l) l /\ NoDup (map uid (choose b r l))) ->
  forall w0, NoDup (map (fun e : utxo * bool => uid (fst e)) w0) -> (forall e, In e w0 -> snd e = false) ->
  forall sched,
  fresh_sched n choose more finish pre start quits can_sign sched (init w0) ->
  let st := run true true n choose more finish pre start quits can_sign sched (init w0) in
  (forall b, b < n -> finished (ph (bs st b)) = true) ->
  reserved_ids (wal st) = [] /\
  ((forall b, b < n -> ph (bs st b) <> PDone Broadcast) -> wal st = w0).
Proof. exact all_released. Qed.
Print Assumptions C14_all_released.

(* Non-vacuity: the same programs without their Lock/Unlock steps admit a schedule in which two builds hold the same
   outpoint (no pre-chosen inputs involved). *)
Theorem C14_lock_needed :
  exists n choose more finish pre start quits can_sign w0 sched,
    (forall b, pre b = []) /\
    (forall b r l, NoDup (map uid l) -> incl (choose b r l) l /\ NoDup (map uid (choose b r l))) /\
    NoDup (map (fun e : utxo * bool => uid (fst e)) w0) /\ (forall e, In e w0 -> snd e = false) /\
    let st := run false true n choose more finish pre start quits can_sign sched (init w0) in
    exists i, In i (held_ids st 0) /\ In i (held_ids st 1).
Proof. exact lock_needed. Qed.
Print Assumptions C14_lock_needed.

Example C14_ex_with_lock :
  let st := run true true 2 first_one (fun _ _ _ => false) (fun _ => false) (fun _ => []) (fun _ => true) (fun _ _ => false) (fun _ _ => true) demo_sched (init demo_wallet) in
  held_ids st 0 = [1%N] /\ held_ids st 1 = [] /\ lock st = Some 1%nat.
Proof. exact demo_with_lock. Qed.

(* non-vacuity for the signing failure: funded, tx.sign raises, everything is released *)
Example C14_ex_sign_fails :
  let st := run true true 1 first_one (fun _ _ _ => false) (fun _ => false) (fun _ => []) (fun _ => true) (fun _ _ => false) (fun _ _ => false)
                [0; 0; 0; 0; 0; 0; 0; 0; 0]%nat (init demo_wallet) in
  ph (bs st 0%nat) = PDone Failed /\ reserved_ids (wal st) = [] /\ wal st = demo_wallet /\
  (let st5 := run true true 1 first_one (fun _ _ _ => false) (fun _ => false) (fun _ => []) (fun _ => true) (fun _ _ => false) (fun _ _ => false)
                  [0; 0; 0; 0; 0; 0; 0; 0]%nat (init demo_wallet) in
   ph (bs st5 0%nat) = PAbort /\ held_ids st5 0%nat = [1%N]).
Proof. exact demo_sign_fails. Qed.

(* The defect repaired by `fix: pre-chosen inputs are reserved under the UTXO reservation lock`: with the pre-chosen
   reservation OUTSIDE the lock (lock_pre = false) and every other lock step in place, build 0 reads the wallet, build 1
   reserves its pre-chosen output 1, build 0 selects and reserves output 1 as well: both hold it. *)
Example C14_prechosen_race_old_refuted :
  let st := run true false 2 first_one (fun _ _ _ => false) (fun _ => false) race_pre (fun b => Nat.eqb b 0)
                (fun _ _ => false) (fun _ _ => true) race_sched (init demo_wallet) in
  held_ids st 0%nat = [1%N] /\ held_ids st 1%nat = [1%N].
Proof. exact prechosen_race_old_refuted. Qed.
(* the repaired program on the same schedule: build 1 waits for the lock *)
Example C14_prechosen_race_repaired :
  let st := run true true 2 first_one (fun _ _ _ => false) (fun _ => false) race_pre (fun b => Nat.eqb b 0)
                (fun _ _ => false) (fun _ _ => true) race_sched (init demo_wallet) in
  held_ids st 0%nat = [1%N] /\ held_ids st 1%nat = [] /\ ph (bs st 1%nat) = PPreLock.
Proof. exact prechosen_race_repaired. Qed.
(* a sweep: the pre-chosen output covers the cost, the build holds it without ever asking for funds, and abandoning it
   restores the wallet *)
Example C14_prechosen_sweep :
  let run_ s := run true true 1 first_one (fun _ _ _ => false) (fun _ => false)
                (fun _ => [mkU 1 500000 5 true true 1]) (fun _ => false) (fun _ _ => false) (fun _ _ => true) s (init demo_wallet) in
  held_ids (run_ [0; 0; 0]%nat) 0%nat = [1%N] /\ reserved_ids (wal (run_ [0; 0; 0]%nat)) = [1%N] /\
  ph (bs (run_ [0; 0; 0; 0]%nat) 0%nat) = PDone Released /\ wal (run_ [0; 0; 0; 0]%nat) = demo_wallet.
Proof. exact prechosen_sweep. Qed.

(* Broadcast outcomes: Finish with [finish b] = false is every way a send can fail (rejected, connection down,
   cancelled while pending): the inputs are released and the build is over; and a build that is over does nothing
   more - in particular its released transaction is not sent later. *)
Theorem C14_failed_send_releases :
  forall use_lock lock_pre n choose more finish pre start quits can_sign st b,
  b < n -> ph (bs st b) = PFinish -> quits b (rnd (bs st b)) = false -> finish b = false ->
  let st' := step use_lock lock_pre n choose more finish pre start quits can_sign st b in
  wal st' = release (map uid (held (bs st b))) (wal st) /\ ph (bs st' b) = PDone Released /\ held (bs st' b) = [].
Proof. exact failed_send_releases. Qed.
Print Assumptions C14_failed_send_releases.
Theorem C14_done_is_final :
  forall use_lock lock_pre n choose more finish pre start quits can_sign st b,
  finished (ph (bs st b)) = true ->
  step use_lock lock_pre n choose more finish pre start quits can_sign st b = st.
Proof. exact done_is_final. Qed.
Print Assumptions C14_done_is_final.

(* Cancellation ([quits b r] = true: build b is cancelled while it waits for the lock of round r + 1, or after its
   last round r before its transaction is handed out): the build goes through Abort = release_tx and ends Failed, so
   C14_exclusive and C14_all_released hold for cancelled builds as for any other failure (they quantify over [quits]). *)
Example C14_ex_cancelled :
  let run_ q s := run true true 1 first_one (fun _ _ _ => false) (fun _ => false) (fun _ => []) (fun _ => true) q
                      (fun _ _ => true) s (init demo_wallet) in
  ph (bs (run_ (fun _ r => Nat.eqb r 0) [0; 0; 0; 0; 0]%nat) 0%nat) = PDone Failed /\
  ph (bs (run_ (fun _ r => Nat.eqb r 1) [0; 0; 0; 0; 0; 0; 0; 0; 0]%nat) 0%nat) = PAbort /\
  held_ids (run_ (fun _ r => Nat.eqb r 1) [0; 0; 0; 0; 0; 0; 0; 0; 0]%nat) 0%nat = [1%N] /\
  wal (run_ (fun _ r => Nat.eqb r 1) [0; 0; 0; 0; 0; 0; 0; 0; 0; 0]%nat) = demo_wallet.
Proof. exact demo_cancelled. Qed.
