(* C14 property theorems: statements only, each closed by [exact]. *)
From Coq Require Import NArith ZArith List Bool Arith.
From LV Require Import Model.C03 Model.C14 Proofs.C14.
Import ListNotations.

(* For every number of builds, every chooser that answers with a duplicate-free sub-list of the rows it
   was shown (C03_select_sound: every strategy does), every continuation / finishing policy, every wallet
   and EVERY schedule: no outpoint is held by two builds, what is reserved in the wallet is exactly the
   union of the inputs of the builds in flight, and a held output is not offered to anybody. *)
Theorem C14_exclusive :
  forall n choose more finish,
  (forall b r l, NoDup (map uid l) -> incl (choose b r l) l /\ NoDup (map uid (choose b r l))) ->
  forall w0, NoDup (map (fun e : utxo * bool => uid (fst e)) w0) -> (forall e, In e w0 -> snd e = false) ->
  forall sched,
  let st := run true n choose more finish sched (init w0) in
  (forall b1 b2 i, b1 <> b2 -> In i (held_ids st b1) -> In i (held_ids st b2) -> False) /\
  (forall b, NoDup (held_ids st b)) /\
  (forall i, In i (reserved_ids (wal st)) <-> exists b, b < n /\ In i (held_ids st b)) /\
  (forall b u, In u (held (bs st b)) -> ~ In u (unreserved (wal st))).
Proof. exact exclusive. Qed.
Print Assumptions C14_exclusive.

(* The same with the chooser of the real code (Model/C03's selection, each build with its own strategy and
   the deficits it asks for): its premise is discharged by C03_select_sound / C03_sqlite_sound. *)
Theorem C14_exclusive_real_chooser :
  forall fpb shuffle, (forall l, Permutation.Permutation l (shuffle l)) -> (0 <= fpb)%Z ->
  forall strat amount n more finish w0,
  NoDup (map (fun e : utxo * bool => uid (fst e)) w0) -> (forall e, In e w0 -> snd e = false) ->
  forall sched,
  let st := run true n (c03_choose fpb shuffle strat amount) more finish sched (init w0) in
  (forall b1 b2 i, b1 <> b2 -> In i (held_ids st b1) -> In i (held_ids st b2) -> False) /\
  (forall b, NoDup (held_ids st b)) /\
  (forall i, In i (reserved_ids (wal st)) <-> exists b, b < n /\ In i (held_ids st b)) /\
  (forall b u, In u (held (bs st b)) -> ~ In u (unreserved (wal st))).
Proof. exact exclusive_c03. Qed.
Print Assumptions C14_exclusive_real_chooser.

(* Once every build has failed, been abandoned or been broadcast nothing is reserved; if none was
   broadcast the wallet is exactly what it was: every output is available again. *)
Theorem C14_all_released :
  forall n choose more finish,
  (forall b r l, NoDup (map uid l) -> incl (choose b r l) l /\ NoDup (map uid (choose b r l))) ->
  forall w0, NoDup (map (fun e : utxo * bool => uid (fst e)) w0) -> (forall e, In e w0 -> snd e = false) ->
  forall sched,
  let st := run true n choose more finish sched (init w0) in
  (forall b, b < n -> finished (ph (bs st b)) = true) ->
  reserved_ids (wal st) = [] /\
  ((forall b, b < n -> ph (bs st b) <> PDone Broadcast) -> wal st = w0).
Proof. exact all_released. Qed.
Print Assumptions C14_all_released.

(* Non-vacuity: the same programs without their Lock/Unlock steps admit a schedule in which two builds
   hold the same outpoint. *)
Theorem C14_lock_needed :
  exists n choose more finish w0 sched,
    (forall b r l, NoDup (map uid l) -> incl (choose b r l) l /\ NoDup (map uid (choose b r l))) /\
    NoDup (map (fun e : utxo * bool => uid (fst e)) w0) /\ (forall e, In e w0 -> snd e = false) /\
    let st := run false n choose more finish sched (init w0) in
    exists i, In i (held_ids st 0) /\ In i (held_ids st 1).
Proof. exact lock_needed. Qed.
Print Assumptions C14_lock_needed.

Example C14_ex_with_lock :
  let st := run true 2 first_one (fun _ _ _ => false) (fun _ => false) demo_sched (init demo_wallet) in
  held_ids st 0 = [1%N] /\ held_ids st 1 = [] /\ lock st = Some 1%nat.
Proof. exact demo_with_lock. Qed.
