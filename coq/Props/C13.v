(* C13 property theorems: statements only, each closed by [exact].
   P ranges over ALL implementations of the library primitives (SHA, AES-CBC/PKCS7, base64, scrypt, zlib, UTF-8
   validity, word-list membership, extended-key parsing, JSON string escaping); the only facts assumed about them are
   the explicit premises DE / B64 / B64nil / ZZ below. *)
From Coq Require Import NArith ZArith List Bool.
From LV Require Import Lib.Bytes Lib.Decimal Model.C13 Proofs.C13.
Import ListNotations.
Local Open Scope N_scope.

Definition DE (P : prims) := forall k iv p, D P k iv (E P k iv p) = DOk p.
Definition B64 (P : prims) := forall x, b64d P (b64e P x) = Some x.
Definition B64nil (P : prims) := b64d P [] = Some [].
Definition ZZ (P : prims) := forall x, zd P (zc P x) = ZOk x.

(* Lock a wallet (every account encrypted under the wallet's password, any init-vector supply) and unlock it with
   the same password: unlock answers True and every account has exactly the seed, private key, public key (hence
   addresses) and flag it had; in between every account is encrypted and holds no private key object.
   wf_wallet: seeds are str (valid UTF-8) that regenerate the account's public key (true of every account built by
   Account.from_dict from a seed, whatever the words), private keys are parseable extended keys. *)
Theorem C13_unlock_restores : forall P, DE P -> B64 P -> B64nil P ->
  forall w pw rnd, wf_wallet P w -> w_pw w = Some pw -> Forall len16 rnd ->
  exists w1 w2,
    lock P rnd w = Ok w1
    /\ Forall (fun b => a_encrypted b = true /\ a_priv b = None) (w_accounts w1)
    /\ unlock P pw w1 = (UTrue, w2)
    /\ map secrets (w_accounts w2) = map secrets (w_accounts w)
    /\ is_locked w2 = false /\ w_pw w2 = Some pw /\ w_name w2 = w_name w /\ w_prefs w2 = w_prefs w.
Proof. exact unlock_restores. Qed.
Print Assumptions C13_unlock_restores.

(* Deterministic channel keys (account key / CHANNEL / k, what DeterministicChannelKeyManager hands out): none while
   locked, and after unlock with the same password exactly those the accounts had before locking, for every k. *)
Theorem C13_channel_keys_restored : forall P, DE P -> B64 P -> B64nil P ->
  forall w pw rnd k, wf_wallet P w -> w_pw w = Some pw -> Forall len16 rnd ->
  exists w1 w2,
    lock P rnd w = Ok w1 /\ Forall (fun b => channel_view P b k = None) (w_accounts w1)
    /\ unlock P pw w1 = (UTrue, w2)
    /\ map (fun a => channel_view P a k) (w_accounts w2) = map (fun a => channel_view P a k) (w_accounts w).
Proof. exact channel_keys_restored. Qed.
Print Assumptions C13_channel_keys_restored.

(* The same through the disk: the dict of an encrypted save (what storage.write renders), read back as
   Wallet.from_storage does (keys sorted, every account flagged encrypted, no password in memory), then unlocked
   with the password of the save: True, and the same seeds, private keys, public keys as before the save. *)
Theorem C13_disk_roundtrip : forall P, DE P -> B64 P -> B64nil P ->
  forall w (pw : bytes) rnd, wf_wallet P w -> Forall len16 rnd ->
  exists w1 w2,
    wallet_of_dict P (fst (wallet_to_dict P (Some pw) rnd w)) = Some w1
    /\ Forall (fun b => a_encrypted b = true /\ a_priv b = None) (w_accounts w1)
    /\ w_pw w1 = None /\ w_name w1 = w_name w
    /\ unlock P pw w1 = (UTrue, w2)
    /\ map secrets (w_accounts w2) = map secrets (w_accounts w)
    /\ w_pw w2 = Some pw.
Proof. exact disk_roundtrip. Qed.
Print Assumptions C13_disk_roundtrip.

(* Wallet.unlock answers False -- whichever account refused the password, or because the wallet is already unlocked and
   has another password (6c52396) -- then the wallet is as locked as it was (locked stays locked) and
   password, name, preferences and EVERY account (all fields but the init vectors remembered by the refusing
   account) are what they were: accounts that did open have been encrypted again, bit for bit.
   Premise [sealed_if_opened]: an account that this password opens was sealed under it by Account.encrypt (nothing is
   assumed about what a key decrypts that did not encrypt, so a foreign ciphertext that happens to open could not be
   restored bit for bit).
   PARTIAL in one respect only: that a wrong password IS refused is cryptographic chance (padding, UTF-8, public key
   of the seed, Base58 checksum) and is not claimed; the theorem starts from the refusal. *)
Theorem C13_failed_unlock_unchanged_partial : forall P, DE P -> B64 P -> B64nil P ->
  forall w pw,
  Forall (sealed_if_opened P pw) (w_accounts w) ->
  fst (unlock P pw w) = UFalse ->
  is_locked (snd (unlock P pw w)) = is_locked w
  /\ w_pw (snd (unlock P pw w)) = w_pw w
  /\ w_name (snd (unlock P pw w)) = w_name w /\ w_prefs (snd (unlock P pw w)) = w_prefs w
  /\ map strip_iv (w_accounts (snd (unlock P pw w))) = map strip_iv (w_accounts w).
Proof. exact failed_unlock_unchanged. Qed.
Print Assumptions C13_failed_unlock_unchanged_partial.

(* Refusal of any kind (False, or a Base58Error escaping from Account.decrypt) by the FIRST encrypted account: the
   same conclusion for every P with no premise at all about the accounts.  (An exception raised by a LATER account
   skips the re-locking; it needs a corrupted private-key ciphertext under the right password.) *)
Theorem C13_failed_unlock_first_account_unchanged : forall P w pw pre a post,
  w_accounts w = pre ++ a :: post ->
  Forall (fun x => a_encrypted x = false) pre -> a_encrypted a = true ->
  fst (account_decrypt P pw a) <> DTrue ->
  fst (unlock P pw w) <> UTrue
  /\ is_locked (snd (unlock P pw w)) = true
  /\ w_pw (snd (unlock P pw w)) = w_pw w
  /\ w_name (snd (unlock P pw w)) = w_name w /\ w_prefs (snd (unlock P pw w)) = w_prefs w
  /\ map strip_iv (w_accounts (snd (unlock P pw w))) = map strip_iv (w_accounts w).
Proof. exact failed_unlock_unchanged_first. Qed.
Print Assumptions C13_failed_unlock_first_account_unchanged.

(* An already unlocked wallet that has a password: unlock accepts exactly that password and changes nothing either
   way -- a typo can no longer replace the password the next save encrypts with (6c52396). *)
Theorem C13_unlock_of_unlocked_wallet_keeps_password : forall P w pw q,
  is_locked w = false -> w_pw w = Some q ->
  unlock P pw w = (if bytes_eqb pw q then UTrue else UFalse, w).
Proof. exact unlock_of_unlocked. Qed.
Print Assumptions C13_unlock_of_unlocked_wallet_keeps_password.

(* REFUTED claims about the code before the two repairs (cfbbf5f, a1c8e7f), kept machine-checked:
   the old Wallet.unlock left the accounts before the refusing one decrypted ... *)
Theorem C13_old_unlock_left_earlier_accounts_decrypted_refuted : forall P pw pre a post pre',
  unlock_accounts_old P pw pre = (UTrue, pre') -> a_encrypted a = true ->
  fst (account_decrypt P pw a) <> DTrue ->
  fst (unlock_accounts_old P pw (pre ++ a :: post)) <> UTrue /\
  snd (unlock_accounts_old P pw (pre ++ a :: post)) = pre' ++ snd (account_decrypt P pw a) :: post.
Proof. exact old_unlock_left_earlier_accounts_decrypted. Qed.
Print Assumptions C13_old_unlock_left_earlier_accounts_decrypted_refuted.

(* ... and the old Account.decrypt (English word-list check on the decrypted seed) refused the very password an
   account was encrypted with whenever its seed did not pass that check *)
Theorem C13_old_seed_check_refused_correct_password_refuted : forall P, DE P -> B64 P -> B64nil P ->
  forall a pw rnd,
  a_encrypted a = false -> nonempty (a_seed a) = true -> utf8_ok P (a_seed a) = true ->
  seed_ok P (a_seed a) = false -> iv_ok (a_iv_seed a) -> Forall len16 rnd ->
  fst (account_decrypt_old P pw (fst (account_encrypt P pw rnd a))) = DFalse.
Proof. exact old_seed_check_refused_correct_password. Qed.
Print Assumptions C13_old_seed_check_refused_correct_password_refuted.

(* With the encrypt-on-disk preference on and a password set -- ANY string, the empty one included (55a4e60) -- the dict
   Wallet.save hands to storage.write is [public_image] of name, preferences, the init-vector supply and, per account,
   its public part (a record with no seed / private-key field; it does hold the channel keys, which are written as they
   are) and the two functions iv |-> E key iv seed, iv |-> E key iv private_key_string: seed and private key reach the
   file only as outputs of E.  Holds for every P, no hypothesis. *)
Theorem C13_no_plaintext_on_disk : forall P w pw ts rnd,
  pref_on w = true -> w_pw w = Some pw ->
  fst (save_dict P ts rnd w) = public_image P (w_name w) (w_prefs w) rnd (map (seal P pw) (w_accounts w)).
Proof. exact no_plaintext_on_disk. Qed.
Print Assumptions C13_no_plaintext_on_disk.

(* hence: same public parts and same ciphertexts => byte-identical files, whatever the seeds and keys are *)
Theorem C13_file_depends_on_ciphertexts_only : forall P w1 w2 pw ts rnd,
  pref_on w1 = true -> pref_on w2 = true -> w_pw w1 = Some pw -> w_pw w2 = Some pw ->
  w_name w1 = w_name w2 -> w_prefs w1 = w_prefs w2 ->
  Forall2 same_sealed (map (seal P pw) (w_accounts w1)) (map (seal P pw) (w_accounts w2)) ->
  render_file P (fst (save_dict P ts rnd w1)) = render_file P (fst (save_dict P ts rnd w2)).
Proof. exact file_depends_on_ciphertexts_only. Qed.
Print Assumptions C13_file_depends_on_ciphertexts_only.

(* WalletStorage.write (temp file, write, flush, fsync, close, exists, [stat], rename, chmod): for EVERY crash
   point -- before any operation, after all of them, or inside the write after any prefix of its bytes -- and every
   initial file system (wallet file present or absent, stale temp file or not) the wallet file holds either exactly
   its previous content (or is still absent) or exactly the new content. *)
Theorem C13_save_atomic : forall umask path pid data t t',
  crashes umask (storage_write path pid data t) t t' ->
  fdata (t' path) = fdata (t path) \/ fdata (t' path) = Some data.
Proof. exact save_atomic. Qed.
Print Assumptions C13_save_atomic.

(* the same for Wallet.save as a whole (the new content is the rendering of the dict this save computed) *)
Theorem C13_wallet_save_atomic : forall P umask path pid ts rnd w t t',
  crashes umask (storage_write path pid (render_file P (fst (save_dict P ts rnd w))) t) t t' ->
  fdata (t' path) = fdata (t path) \/ fdata (t' path) = Some (render_file P (fst (save_dict P ts rnd w))).
Proof. exact wallet_save_atomic. Qed.
Print Assumptions C13_wallet_save_atomic.

Theorem C13_save_completes : forall umask path pid data t,
  run_ops umask (storage_write path pid data t) t path =
    Some (mkFile data (match t path with Some f => f_mode f | None => 384 end)).
Proof. exact save_completes. Qed.
Print Assumptions C13_save_completes.

(* the except branch of write (remove, then rename; taken when os.rename refuses an existing target, i.e. on
   Windows) is not atomic: some crash leaves no wallet file at all *)
Theorem C13_fallback_not_atomic : forall umask path pid data t f, t path = Some f ->
  exists t', crashes umask (storage_write_fallback path pid data t) t t' /\ t' path = None.
Proof. exact fallback_not_atomic. Qed.
Print Assumptions C13_fallback_not_atomic.

(* histories: for every sequence of wallet operations (encrypt, decrypt, lock, unlock, save, reload, add account,
   set preference, account-level encrypt/decrypt, overwritten ciphertexts) with the process killed at ANY point of
   ANY of the saves (MSaveCrash n k, all n k), the wallet file is always the complete rendering of a dict that a
   save handed to storage.write, or absent if there never was one *)
Theorem C13_file_always_complete : forall P path umask ops st,
  coherent P path st -> coherent P path (run P path umask ops st).
Proof. exact file_always_complete. Qed.
Print Assumptions C13_file_always_complete.

(* Daemon start-up (WalletManager.from_lbrynet_config): a wallet file whose accounts are stored encrypted and that has
   no (or a null) encrypt-on-disk preference -- a file older than the preference -- comes up with the preference ON ... *)
Theorem C13_start_enables_encryption : forall P path umask ts rnd pid st st' w0,
  reload P (m_img st) = Some w0 -> is_locked w0 = true -> pref_is_none w0 = true ->
  step P path umask (MStart ts rnd pid) st = (OTrue, st') ->
  pref_on (m_w st') = true.
Proof. exact start_enables_encryption. Qed.
Print Assumptions C13_start_enables_encryption.

(* ... so that after unlocking it with its password every later save writes the sealed image
   (seed and private key only as outputs of E), exactly as for a wallet encrypted by Wallet.encrypt *)
Theorem C13_start_unlock_save_sealed : forall P path umask ts rnd pid st st' w0 (pw : bytes) ts' rnd',
  reload P (m_img st) = Some w0 -> is_locked w0 = true -> pref_is_none w0 = true ->
  step P path umask (MStart ts rnd pid) st = (OTrue, st') ->
  fst (unlock P pw (m_w st')) = UTrue ->
  let w2 := snd (unlock P pw (m_w st')) in
  fst (save_dict P ts' rnd' w2) = public_image P (w_name w2) (w_prefs w2) rnd' (map (seal P pw) (w_accounts w2)).
Proof. exact start_unlock_save_sealed. Qed.
Print Assumptions C13_start_unlock_save_sealed.

(* pack then unpack with the same password gives back the JSON text of the wallet (any 16-byte salt/iv) *)
Theorem C13_pack_unpack : forall P, DE P -> B64 P -> ZZ P ->
  forall w pw iv, len16 iv -> is_locked w = false ->
  exists packed, pack P pw iv w = Ok packed /\ unpack P pw packed = Ok (to_json P w).
Proof. exact pack_unpack. Qed.
Print Assumptions C13_pack_unpack.

(* Wallet.merge's choice between plain JSON (password None) and an encrypted payload (any string): a payload packed
   with ANY password -- pw = [] is the empty password -- comes back as the wallet's JSON when merged with that password *)
Theorem C13_merge_payload_roundtrip : forall P, DE P -> B64 P -> ZZ P ->
  forall w pw iv, len16 iv -> is_locked w = false ->
  exists packed, pack P pw iv w = Ok packed /\ merge_payload P (Some pw) packed = Ok (to_json P w)
                 /\ merge_payload P None (to_json P w) = Ok (to_json P w).
Proof. exact merge_payload_roundtrip. Qed.
Print Assumptions C13_merge_payload_roundtrip.

(* why the temp file name carries the pid: with ONE shared temp file (pidA = pidB) a second writer that dies right after
   opening its temp file while the first is between fsync and rename makes the first rename an EMPTY file onto the wallet;
   with different pids the same schedule leaves the first writer's complete content *)
Example C13_ex_shared_temp_file_not_atomic :
  let path := [byte_of_N 119] in
  let t := fs_set path (Some (mkFile [byte_of_N 1] 384)) (fun _ => None) in
  (fdata (two_writers 18 path 7 7 [byte_of_N 2] [byte_of_N 3] 5 1 0 t path),
   fdata (two_writers 18 path 7 8 [byte_of_N 2] [byte_of_N 3] 5 1 0 t path))
  = (Some [], Some [byte_of_N 2]).
Proof. vm_compute. reflexivity. Qed.

(* start-up of a file with encrypted accounts and no encrypt-on-disk preference: the preference comes up ON *)
Example C13_ex_start_legacy_file :
  match lock toy [iv_a; iv_b; iv_c] ex_wallet with
  | Ok w1 =>
      let img := fst (wallet_to_dict toy None [] w1) in
      let st := mkState default_wallet (fun _ => None) (Some img) in
      match reload toy (Some img) with
      | Some w0 => (pref_on w0, is_locked w0, pref_is_none w0,
                    pref_on (m_w (snd (step toy [byte_of_N 119] 18 (MStart 5 [] 9) st))))
      | None => (true, false, false, false)
      end
  | Err _ => (true, false, false, false)
  end = (false, true, true, true).
Proof. vm_compute. reflexivity. Qed.

Example C13_ex_merge_empty_password :
  match pack toy [] iv_a ex_wallet with
  | Ok p => merge_payload toy (Some []) p = Ok (to_json toy ex_wallet)
  | Err _ => False end.
Proof. vm_compute. reflexivity. Qed.

(* A sync payload written by ANOTHER writer of the same format with any scrypt parameters n r p in its 's:n:r:p:' header
   (Wallet.pack always writes 8192:16:1) is opened by its own password: the reader derives the key with the parameters the
   header states; merge restores the JSON text. *)
Theorem C13_foreign_payload_merges : forall P, DE P -> B64 P -> ZZ P ->
  forall pw js iv n r p, len16 iv ->
  merge_payload P (Some pw) (foreign_payload P pw (zc P js) iv n r p) = Ok js.
Proof. exact foreign_payload_merges. Qed.
Print Assumptions C13_foreign_payload_merges.

(* Two processes (different pids, hence different temp files '<wallet>.tmp.<pid>') save the same wallet file; their
   operations interleave in ANY order (for either outcome of each one's os.path.exists and any mode it read), and either
   process may die before any of its operations or inside its write: the wallet file always holds its previous content
   or the complete content of one of the two saves. *)
Theorem C13_two_writers_atomic : forall umask path pid1 pid2 d1 d2 s1 m1 s2 m2 t t',
  pid1 <> pid2 ->
  inter umask (wops path (temp_path path pid1) d1 s1 m1) (wops path (temp_path path pid2) d2 s2 m2) t t' ->
  fdata (t' path) = fdata (t path) \/ fdata (t' path) = Some d1 \/ fdata (t' path) = Some d2.
Proof. exact two_writers_atomic. Qed.
Print Assumptions C13_two_writers_atomic.

(* ---- non-vacuity: a toy cipher satisfies the premises, and concrete wallets exercise each statement ---- *)
Example C13_ex_premises : DE toy /\ B64 toy /\ B64nil toy /\ ZZ toy.
Proof. exact (conj toy_DE (conj toy_b64 (conj toy_b64_nil toy_z))). Qed.
Example C13_ex_wf : wf_wallet toy ex_wallet /\ Forall len16 [iv_a; iv_b; iv_c].
Proof. exact (conj ex_wallet_wf ex_rnd_ok). Qed.

(* three accounts (seed + key, key only, watch only): locked, all encrypted; unlocked, all secrets back *)
Example C13_ex_roundtrip :
  match lock toy [iv_a; iv_b; iv_c] ex_wallet with
  | Ok w1 => (is_locked w1, map a_priv (w_accounts w1),
              fst (unlock toy ex_pw w1), map secrets (w_accounts (snd (unlock toy ex_pw w1))))
  | Err _ => (false, [], UFalse, [])
  end = (true, [None; None; None], UTrue, map secrets (w_accounts ex_wallet)).
Proof. vm_compute. reflexivity. Qed.

(* another password: refused by the first account, nothing changes *)
Example C13_ex_wrong_password :
  match lock toy [iv_a; iv_b; iv_c] ex_wallet with
  | Ok w1 => (fst (unlock toy ex_pw2 w1), is_locked (snd (unlock toy ex_pw2 w1)),
              bytes_eqb (a_seed (hd ex_watch (w_accounts (snd (unlock toy ex_pw2 w1)))))
                        (a_seed (hd ex_watch (w_accounts w1))))
  | Err _ => (UTrue, false, false)
  end = (UFalse, true, true).
Proof. vm_compute. reflexivity. Qed.

(* accounts encrypted under different passwords: unlock with the first one is refused by the second account and
   the first account is encrypted again, bit for bit (the old code left it decrypted) *)
Example C13_ex_mixed_passwords :
  let a1 := fst (account_encrypt toy ex_pw [iv_a; iv_b] ex_seeded) in
  let a2 := fst (account_encrypt toy ex_pw2 [iv_c] ex_keyonly) in
  let w := mkWallet [] [] [a1; a2] None in
  (fst (unlock toy ex_pw w), map a_encrypted (w_accounts (snd (unlock toy ex_pw w))),
   map a_seed (w_accounts (snd (unlock toy ex_pw w))), map a_pks (w_accounts (snd (unlock toy ex_pw w))),
   map a_encrypted (snd (unlock_accounts_old toy ex_pw [a1; a2])))
  = (UFalse, [true; true], map a_seed [a1; a2], map a_pks [a1; a2], [false; true]).
Proof. vm_compute. reflexivity. Qed.

(* a seed outside the toy word list: unlocks with its password now; the old check refused it *)
Example C13_ex_seed_outside_word_list :
  let w := mkWallet [] [] [ex_badseed] (Some ex_pw) in
  match lock toy [iv_a; iv_b] w with
  | Ok w1 => (fst (unlock toy ex_pw w1), map secrets (w_accounts (snd (unlock toy ex_pw w1))),
              fst (account_decrypt_old toy ex_pw (hd ex_watch (w_accounts w1))))
  | Err _ => (UFalse, [], DTrue)
  end = (UTrue, [secrets ex_badseed], DFalse).
Proof. vm_compute. reflexivity. Qed.

(* the premises of C13_failed_unlock_unchanged_partial are inhabited: the locked example wallet, another password *)
Example C13_ex_failed_unlock_premises :
  match lock toy [iv_a; iv_b; iv_c] ex_wallet with
  | Ok w1 => Forall (sealed_if_opened toy ex_pw2) (w_accounts w1) /\ fst (unlock toy ex_pw2 w1) = UFalse
  | Err _ => False
  end.
Proof. exact ex_locked_sealed. Qed.

(* a crash just after the rename (n = 8 complete operations) shows the new content; just before it, the old *)
Example C13_ex_crash :
  let path := [byte_of_N 119] in
  let t := fs_set path (Some (mkFile [byte_of_N 1] 420)) (fun _ => None) in
  let ops := storage_write path 7 [byte_of_N 2; byte_of_N 3] t in
  (fdata (crash_at 18 7 0 ops t path), fdata (crash_at 18 8 0 ops t path), fdata (crash_at 18 1 1 ops t (temp_path path 7)))
  = (Some [byte_of_N 1], Some [byte_of_N 2; byte_of_N 3], Some [byte_of_N 2]).
Proof. vm_compute. reflexivity. Qed.

(* encrypted save of the example wallet: the dict holds E outputs (here key ++ plaintext under the toy cipher,
   visibly a function of the key) and the channel key in the clear *)
Example C13_ex_sealed :
  let w := pref_set EOD (JB true) 1 ex_wallet in
  (pref_on w, fst (save_dict toy 1 [iv_a; iv_b; iv_c] w)) =
  (true, public_image toy (w_name w) (w_prefs w) [iv_a; iv_b; iv_c] (map (seal toy ex_pw) (w_accounts w))).
Proof. vm_compute. reflexivity. Qed.

Example C13_ex_disk :
  match wallet_of_dict toy (fst (wallet_to_dict toy (Some ex_pw) [iv_a; iv_b; iv_c] ex_wallet)) with
  | Some w1 => (is_locked w1, fst (unlock toy ex_pw w1), map secrets (w_accounts (snd (unlock toy ex_pw w1))))
  | None => (false, UFalse, [])
  end = (true, UTrue, map secrets (w_accounts ex_wallet)).
Proof. vm_compute. reflexivity. Qed.

Example C13_ex_pack : match pack toy ex_pw iv_a ex_wallet with
                      | Ok p => unpack toy ex_pw p = Ok (to_json toy ex_wallet)
                      | Err _ => False end.
Proof. vm_compute. reflexivity. Qed.
