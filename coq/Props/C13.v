(* C13 property theorems: statements only, each closed by [exact].
   P ranges over ALL implementations of the library primitives (SHA, AES-CBC/PKCS7, base64, scrypt, zlib, UTF-8
   validity, word-list membership, extended-key parsing, JSON string escaping); the only facts assumed about them are
   the explicit premises DE / B64 / B64nil / ZZ below. *)
From Coq Require Import NArith ZArith List Bool.
From LV Require Import Lib.Bytes Lib.Decimal Model.C13 Proofs.C13.
Import ListNotations.
Local Open Scope N_scope.

Definition DE (P : prims) := forall k iv p, D P k iv (E P k iv p) = DOk p.
Definition B64 (P : prims) := forall x, b64d P (b64e P x) = Some x.
Definition B64nil (P : prims) := b64d P [] = Some [].
Definition ZZ (P : prims) := forall x, zd P (zc P x) = ZOk x.

(* Lock a wallet (every account encrypted under the wallet's password, any init-vector supply) and unlock it with
   the same password: unlock answers True and every account has exactly the seed, private key, public key (hence
   addresses) and flag it had; in between every account is encrypted and holds no private key object.
   wf_wallet: seeds are str (valid UTF-8) made of word-list words, private keys are parseable extended keys --
   see C13_unlock_refuses_correct_password_when_seed_not_in_word_list for what happens otherwise. *)
Theorem C13_unlock_restores : forall P, DE P -> B64 P -> B64nil P ->
  forall w pw rnd, wf_wallet P w -> w_pw w = Some pw -> Forall len16 rnd ->
  exists w1 w2,
    lock P rnd w = Ok w1
    /\ Forall (fun b => a_encrypted b = true /\ a_priv b = None) (w_accounts w1)
    /\ unlock P pw w1 = (UTrue, w2)
    /\ map secrets (w_accounts w2) = map secrets (w_accounts w)
    /\ is_locked w2 = false /\ w_pw w2 = Some pw /\ w_name w2 = w_name w /\ w_prefs w2 = w_prefs w.
Proof. exact unlock_restores. Qed.
Print Assumptions C13_unlock_restores.

(* PARTIAL (what is missing: that a wrong password IS refused -- that is cryptographic chance: padding, UTF-8,
   word list, Base58 checksum -- nothing is assumed about decryption under another key).  What is proved, for every
   P: if the FIRST encrypted account refuses the password (False or an escaping Base58Error) then unlock does not
   answer True, the wallet is still locked, and password, name, preferences and every account (seed, key strings,
   key object, flags; all but the remembered init vectors) are unchanged. *)
Theorem C13_failed_unlock_unchanged_partial : forall P w pw pre a post,
  w_accounts w = pre ++ a :: post ->
  Forall (fun x => a_encrypted x = false) pre -> a_encrypted a = true ->
  fst (account_decrypt P pw a) <> DTrue ->
  fst (unlock P pw w) <> UTrue
  /\ is_locked (snd (unlock P pw w)) = true
  /\ w_pw (snd (unlock P pw w)) = w_pw w
  /\ w_name (snd (unlock P pw w)) = w_name w /\ w_prefs (snd (unlock P pw w)) = w_prefs w
  /\ map strip_iv (w_accounts (snd (unlock P pw w))) = map strip_iv (w_accounts w).
Proof. exact failed_unlock_unchanged. Qed.
Print Assumptions C13_failed_unlock_unchanged_partial.

(* ... and when a LATER account refuses, the accounts before it have been decrypted and stay so: the wallet is
   locked but not unchanged (finding; see C13_ex_partial_unlock). *)
Theorem C13_failed_unlock_keeps_earlier_accounts_decrypted : forall P pw pre a post pre',
  unlock_accounts P pw pre = (UTrue, pre') -> a_encrypted a = true ->
  fst (account_decrypt P pw a) <> DTrue ->
  fst (unlock_accounts P pw (pre ++ a :: post)) <> UTrue /\
  snd (unlock_accounts P pw (pre ++ a :: post)) = pre' ++ snd (account_decrypt P pw a) :: post.
Proof. exact failed_unlock_prefix. Qed.
Print Assumptions C13_failed_unlock_keeps_earlier_accounts_decrypted.

(* With the encrypt-on-disk preference on and a non-blank password set, the dict Wallet.save hands to
   storage.write is [public_image] of name, preferences, the init-vector supply and, per account, its public part
   (a record with no seed / private-key field; it does hold the channel keys, which are written as they are) and
   the two functions iv |-> E key iv seed, iv |-> E key iv private_key_string: seed and private key reach the file
   only as outputs of E.  Holds for every P, no hypothesis. *)
Theorem C13_no_plaintext_on_disk : forall P w pw ts rnd,
  pref_on w = true -> w_pw w = Some pw -> pw <> [] ->
  fst (save_dict P ts rnd w) = public_image P (w_name w) (w_prefs w) rnd (map (seal P pw) (w_accounts w)).
Proof. exact no_plaintext_on_disk. Qed.
Print Assumptions C13_no_plaintext_on_disk.

(* hence: same public parts and same ciphertexts => byte-identical files, whatever the seeds and keys are *)
Theorem C13_file_depends_on_ciphertexts_only : forall P w1 w2 pw ts rnd,
  pref_on w1 = true -> pref_on w2 = true -> w_pw w1 = Some pw -> w_pw w2 = Some pw -> pw <> [] ->
  w_name w1 = w_name w2 -> w_prefs w1 = w_prefs w2 ->
  Forall2 same_sealed (map (seal P pw) (w_accounts w1)) (map (seal P pw) (w_accounts w2)) ->
  render_file P (fst (save_dict P ts rnd w1)) = render_file P (fst (save_dict P ts rnd w2)).
Proof. exact file_depends_on_ciphertexts_only. Qed.
Print Assumptions C13_file_depends_on_ciphertexts_only.

(* WalletStorage.write (temp file, write, flush, fsync, close, exists, [stat], rename, chmod): for EVERY crash
   point -- before any operation, after all of them, or inside the write after any prefix of its bytes -- and every
   initial file system (wallet file present or absent, stale temp file or not) the wallet file holds either exactly
   its previous content (or is still absent) or exactly the new content. *)
Theorem C13_save_atomic : forall umask path pid data t t',
  crashes umask (storage_write path pid data t) t t' ->
  fdata (t' path) = fdata (t path) \/ fdata (t' path) = Some data.
Proof. exact save_atomic. Qed.
Print Assumptions C13_save_atomic.

Theorem C13_save_completes : forall umask path pid data t,
  run_ops umask (storage_write path pid data t) t path =
    Some (mkFile data (match t path with Some f => f_mode f | None => 384 end)).
Proof. exact save_completes. Qed.
Print Assumptions C13_save_completes.

(* the except branch of write (remove, then rename; taken when os.rename refuses an existing target, i.e. on
   Windows) is not atomic: some crash leaves no wallet file at all *)
Theorem C13_fallback_not_atomic : forall umask path pid data t f, t path = Some f ->
  exists t', crashes umask (storage_write_fallback path pid data t) t t' /\ t' path = None.
Proof. exact fallback_not_atomic. Qed.
Print Assumptions C13_fallback_not_atomic.

(* histories: for every sequence of wallet operations (encrypt, decrypt, lock, unlock, save, reload, add account,
   set preference, account-level encrypt/decrypt, overwritten ciphertexts) with the process killed at ANY point of
   ANY of the saves (MSaveCrash n k, all n k), the wallet file is always the complete rendering of a dict that a
   save handed to storage.write, or absent if there never was one *)
Theorem C13_file_always_complete : forall P path umask ops st,
  coherent P path st -> coherent P path (run P path umask ops st).
Proof. exact file_always_complete. Qed.
Print Assumptions C13_file_always_complete.

(* pack then unpack with the same password gives back the JSON text of the wallet (any 16-byte salt/iv) *)
Theorem C13_pack_unpack : forall P, DE P -> B64 P -> ZZ P ->
  forall w pw iv, len16 iv -> is_locked w = false ->
  exists packed, pack P pw iv w = Ok packed /\ unpack P pw packed = Ok (to_json P w).
Proof. exact pack_unpack. Qed.
Print Assumptions C13_pack_unpack.

(* ---- non-vacuity: a toy cipher satisfies the premises, and concrete wallets exercise each statement ---- *)
Example C13_ex_premises : DE toy /\ B64 toy /\ B64nil toy /\ ZZ toy.
Proof. exact (conj toy_DE (conj toy_b64 (conj toy_b64_nil toy_z))). Qed.
Example C13_ex_wf : wf_wallet toy ex_wallet /\ Forall len16 [iv_a; iv_b; iv_c].
Proof. exact (conj ex_wallet_wf ex_rnd_ok). Qed.

(* three accounts (seed + key, key only, watch only): locked, all encrypted; unlocked, all secrets back *)
Example C13_ex_roundtrip :
  match lock toy [iv_a; iv_b; iv_c] ex_wallet with
  | Ok w1 => (is_locked w1, map a_priv (w_accounts w1),
              fst (unlock toy ex_pw w1), map secrets (w_accounts (snd (unlock toy ex_pw w1))))
  | Err _ => (false, [], UFalse, [])
  end = (true, [None; None; None], UTrue, map secrets (w_accounts ex_wallet)).
Proof. vm_compute. reflexivity. Qed.

(* another password: refused by the first account, nothing changes *)
Example C13_ex_wrong_password :
  match lock toy [iv_a; iv_b; iv_c] ex_wallet with
  | Ok w1 => (fst (unlock toy ex_pw2 w1), is_locked (snd (unlock toy ex_pw2 w1)),
              bytes_eqb (a_seed (hd ex_watch (w_accounts (snd (unlock toy ex_pw2 w1)))))
                        (a_seed (hd ex_watch (w_accounts w1))))
  | Err _ => (UTrue, false, false)
  end = (UFalse, true, true).
Proof. vm_compute. reflexivity. Qed.

(* FINDING (machine-checked on the model): accounts encrypted under different passwords -- unlock with the first
   one is refused by the second account, yet the first account has been decrypted and stays decrypted *)
Example C13_ex_partial_unlock :
  let a1 := fst (account_encrypt toy ex_pw [iv_a; iv_b] ex_seeded) in
  let a2 := fst (account_encrypt toy ex_pw2 [iv_c] ex_keyonly) in
  let w := mkWallet [] [] [a1; a2] None in
  (fst (unlock toy ex_pw w), map a_encrypted (w_accounts w), map a_encrypted (w_accounts (snd (unlock toy ex_pw w))))
  = (UFalse, [true; true], [false; true]).
Proof. vm_compute. reflexivity. Qed.

(* FINDING: a seed that fails the word-list check can be encrypted but the correct password no longer unlocks it *)
Example C13_unlock_refuses_correct_password_when_seed_not_in_word_list :
  let w := mkWallet [] [] [ex_badseed] (Some ex_pw) in
  match lock toy [iv_a; iv_b] w with
  | Ok w1 => (fst (unlock toy ex_pw w1), is_locked (snd (unlock toy ex_pw w1)))
  | Err _ => (UTrue, false)
  end = (UFalse, true).
Proof. vm_compute. reflexivity. Qed.

(* a crash just after the rename (n = 8 complete operations) shows the new content; just before it, the old *)
Example C13_ex_crash :
  let path := [byte_of_N 119] in
  let t := fs_set path (Some (mkFile [byte_of_N 1] 420)) (fun _ => None) in
  let ops := storage_write path 7 [byte_of_N 2; byte_of_N 3] t in
  (fdata (crash_at 18 7 0 ops t path), fdata (crash_at 18 8 0 ops t path), fdata (crash_at 18 1 1 ops t (temp_path path 7)))
  = (Some [byte_of_N 1], Some [byte_of_N 2; byte_of_N 3], Some [byte_of_N 2]).
Proof. vm_compute. reflexivity. Qed.

(* encrypted save of the example wallet: the dict holds E outputs (here key ++ plaintext under the toy cipher,
   visibly a function of the key) and the channel key in the clear *)
Example C13_ex_sealed :
  let w := pref_set EOD (JB true) 1 ex_wallet in
  (pref_on w, fst (save_dict toy 1 [iv_a; iv_b; iv_c] w)) =
  (true, public_image toy (w_name w) (w_prefs w) [iv_a; iv_b; iv_c] (map (seal toy ex_pw) (w_accounts w))).
Proof. vm_compute. reflexivity. Qed.

Example C13_ex_pack : match pack toy ex_pw iv_a ex_wallet with
                      | Ok p => unpack toy ex_pw p = Ok (to_json toy ex_wallet)
                      | Err _ => False end.
Proof. vm_compute. reflexivity. Qed.
