(* C02 property theorems: statements only, each closed by [exact].
   H = SHA-384, E/D = AES-CBC+PKCS7 encrypt/decrypt, maxb = MAX_BLOB_SIZE are universally quantified; the
   only facts assumed about them are written as hypotheses of the theorem that needs them:
     D k iv (E k iv p) = Some p,   |E k iv p| = 16*(|p|/16+1),   |H x| = 48. *)
From Coq Require Import NArith ZArith List Bool.
From LV Require Import Lib.Bytes Lib.Decimal Model.C02 Proofs.C02.
Import ListNotations.

(* The pieces a file is cut into concatenate back to the file, each has 1..maxb-1 bytes, and their sizes are
   floor(|f|/(maxb-1)) full pieces plus the remainder: ceil(|f|/(maxb-1)) data blobs. *)
Theorem C02_split_concat : forall (maxb : nat) (f : bytes), (2 <= maxb)%nat -> concat (split maxb f) = f.
Proof. exact split_concat. Qed.
Print Assumptions C02_split_concat.

Theorem C02_blob_sizes : forall (maxb : nat) (f : bytes), (2 <= maxb)%nat ->
  (forall p, In p (split maxb f) -> (1 <= length p <= maxb - 1)%nat) /\
  map (@length Byte.byte) (split maxb f) =
    repeat (maxb - 1)%nat (length f / (maxb - 1)) ++
    (if Nat.eqb (length f mod (maxb - 1)) 0 then [] else [(length f mod (maxb - 1))%nat]) /\
  length (split maxb f) = ((length f + (maxb - 1) - 1) / (maxb - 1))%nat /\
  (f <> [] -> split maxb f <> []).
Proof. exact (fun maxb f Hm => conj (fun p => split_piece_size maxb f p Hm)
               (conj (split_lengths maxb f Hm) (conj (split_count maxb f Hm) (split_nonempty maxb f Hm)))). Qed.
Print Assumptions C02_blob_sizes.

(* With PKCS7 ciphertext length and 16 | maxb (2^21 is), every data blob has 16..maxb bytes. *)
Theorem C02_ciphertext_fits : forall (maxb : nat) (E : bytes -> bytes -> bytes -> bytes) (k iv p : bytes),
  (forall k iv p, length (E k iv p) = (16 * (length p / 16 + 1))%nat) ->
  (2 <= maxb)%nat -> (maxb mod 16 = 0)%nat -> (1 <= length p <= maxb - 1)%nat ->
  (16 <= length (E k iv p) <= maxb)%nat.
Proof. exact ciphertext_bound. Qed.
Print Assumptions C02_ciphertext_fits.

(* The ciphertext lengths of a published file, in N arithmetic: floor(|f|/(maxb-1)) blobs of 16*((maxb-1)/16+1) bytes
   and one of 16*(r/16+1) for the remainder r > 0 (the function the harness evaluates on true 2 MiB runs). *)
Theorem C02_ciphertext_lengths : forall H E (maxb : nat) name key ivf f,
  (forall k iv p, length (E k iv p) = (16 * (length p / 16 + 1))%nat) -> (2 <= maxb)%nat ->
  map (fun c => N.of_nat (length c)) (s_cts (build_stream H E maxb name key ivf f)) =
  expected_lengths (N.of_nat maxb) (N.of_nat (length f)).
Proof. exact ciphertext_lengths. Qed.
Print Assumptions C02_ciphertext_lengths.

(* Round trip: for every file (the empty one included), key, IV sequence and name, decrypting the data blobs in
   descriptor order with the descriptor's key and IVs gives the file back. *)
Theorem C02_roundtrip : forall H E D (maxb : nat) (name : list N) (key : bytes) (ivf : nat -> bytes) (f : bytes),
  (forall k iv p, D k iv (E k iv p) = Some p) -> (2 <= maxb)%nat ->
  decrypt_stream D (s_desc (build_stream H E maxb name key ivf f)) (s_cts (build_stream H E maxb name key ivf f)) = Some f.
Proof. exact roundtrip. Qed.
Print Assumptions C02_roundtrip.

Theorem C02_roundtrip_created : forall H E D (maxb : nat) name key ivf f s,
  (forall k iv p, D k iv (E k iv p) = Some p) -> (2 <= maxb)%nat ->
  create_stream H E maxb name key ivf f = Some s -> decrypt_stream D (s_desc s) (s_cts s) = Some f.
Proof. exact roundtrip_created. Qed.
Print Assumptions C02_roundtrip_created.

(* Blob i is the encryption of piece i under (key, iv_i), is named hex(H ciphertext_i), carries number i, its
   ciphertext length and hex(iv_i); the last entry has number n, length 0 and no hash. *)
Theorem C02_names_and_numbers : forall H E (maxb : nat) name key ivf f,
  let s := build_stream H E maxb name key ivf f in
  let n := length (split maxb f) in
  length (d_blobs (s_desc s)) = S n /\ length (s_cts s) = n /\
  (forall i p, nth_error (split maxb f) i = Some p ->
     let ct := E key (ivf i) p in
     nth_error (s_cts s) i = Some ct /\
     nth_error (d_blobs (s_desc s)) i =
       Some (mkBlob (Z.of_nat i) (Z.of_nat (length ct)) (hex (ivf i)) (Some (hex (H ct))))) /\
  nth_error (d_blobs (s_desc s)) n = Some (mkBlob (Z.of_nat n) 0 (hex (ivf n)) None).
Proof. exact names_and_numbers. Qed.
Print Assumptions C02_names_and_numbers.

(* stream_hash = hex(H(hex(name) ++ hex(key) ++ hex(suggested) ++ H(concat of H(per-blob preimage)))), the per-blob
   preimages being  hex(H ct) ++ dec(i) ++ hex(iv) ++ dec(|ct|)  and, for the terminator,  dec(n) ++ hex(iv) ++ "0";
   the sd blob is as_json of the descriptor and sd_hash = hex(H(sd blob)). *)
Theorem C02_commitments : forall H E (maxb : nat) name key ivf f,
  (forall x, length (H x) = 48%nat) -> (forall k iv p, length (E k iv p) = (16 * (length p / 16 + 1))%nat) ->
  let s := build_stream H E maxb name key ivf f in
  d_shash (s_desc s) =
    hex (H (hex (utf8_enc name) ++ hex key ++ hex (utf8_enc (sanitize name)) ++
            H (concat (map H (data_pres H E key ivf 0 (split maxb f) ++
                              [term_pre (length (split maxb f)) (ivf (length (split maxb f)))]))))) /\
  s_sd_blob s = as_json (s_desc s) /\
  s_sd_hash s = hex (H (s_sd_blob s)).
Proof. exact commitments. Qed.
Print Assumptions C02_commitments.

(* Both layouts create_stream can publish (old_sort = false / true): same descriptor and blobs, the sd blob is exactly
   the layout's JSON and the returned sd_hash is hex(H(sd blob)) -- the name under which that blob is stored. *)
Theorem C02_commitments_both_layouts : forall H E (maxb : nat) old_sort name key ivf f s,
  create_stream_layout H E maxb old_sort name key ivf f = Some s ->
  s_desc s = s_desc (build_stream H E maxb name key ivf f) /\ s_cts s = s_cts (build_stream H E maxb name key ivf f) /\
  s_sd_blob s = (if old_sort then old_sort_json (s_desc s) else as_json (s_desc s)) /\
  s_sd_hash s = hex (H (s_sd_blob s)).
Proof. exact layout_created. Qed.
Print Assumptions C02_commitments_both_layouts.

(* Republish: create_stream into a blob directory that already holds files (name, size).  Whenever a stream is
   returned it is the clean-directory stream -- every data blob named by H of the ciphertext stored for it, decrypting
   in descriptor order gives the file back -- and no data blob was adopted from a file already present under that name
   (whatever that file contains or however long it is); otherwise the publish is refused. *)
Theorem C02_republish_sound : forall H E D (maxb : nat) dir old_sort name key ivf f s,
  (forall k iv p, D k iv (E k iv p) = Some p) -> (2 <= maxb)%nat ->
  create_stream_in H E maxb dir old_sort name key ivf f = Some s ->
  s_desc s = s_desc (build_stream H E maxb name key ivf f) /\
  s_cts s = s_cts (build_stream H E maxb name key ivf f) /\
  decrypt_stream D (s_desc s) (s_cts s) = Some f /\
  (forall c, In c (s_cts s) -> blocked dir (hex (H c)) = false).
Proof. exact republish_sound. Qed.
Print Assumptions C02_republish_sound.

Theorem C02_republish_clean_dir : forall H E (maxb : nat) old_sort name key ivf f,
  create_stream_in H E maxb [] old_sort name key ivf f = create_stream_layout H E maxb old_sort name key ivf f.
Proof. exact republish_clean_dir. Qed.
Print Assumptions C02_republish_clean_dir.

(* sd_hash binds the descriptor: two descriptors whose text fields print without JSON escapes (hex does) and whose
   sd hashes are equal have the same names, key, stream hash and blob entries -- or an explicit H collision.
   (blob hashes compared through BlobInfo.as_dict, which itself identifies None and ''.)  Every descriptor that
   create_stream builds is of that kind. *)
Theorem C02_sd_hash_binding : forall H d1 d2, plain_desc d1 -> plain_desc d2 -> sd_hash H d1 = sd_hash H d2 ->
  (d_name d1 = d_name d2 /\ d_key d1 = d_key d2 /\ d_sugg d1 = d_sugg d2 /\ d_shash d1 = d_shash d2 /\
   map as_dict (d_blobs d1) = map as_dict (d_blobs d2)) \/ (exists x y : bytes, x <> y /\ H x = H y).
Proof. exact sd_hash_binding. Qed.
Print Assumptions C02_sd_hash_binding.

Theorem C02_created_plain : forall H E (maxb : nat) name key ivf f,
  (forall x, length (H x) = 48%nat) -> (forall k iv p, length (E k iv p) = (16 * (length p / 16 + 1))%nat) ->
  plain_desc (s_desc (build_stream H E maxb name key ivf f)).
Proof. exact created_plain. Qed.
Print Assumptions C02_created_plain.

(* Two descriptors with 32-character keys and IVs, 96-character blob hashes, blobs numbered by position, names of
   equal length and the same stream hash are equal -- or the proof exhibits x <> y with H x = H y. *)
Theorem C02_preimage_injective : forall H n1 k1 s1 bs1 n2 k2 s2 bs2 h,
  (forall x, length (H x) = 48%nat) ->
  length k1 = 32%nat -> length k2 = 32%nat -> length n1 = length n2 ->
  fixed_blobs 0 bs1 -> fixed_blobs 0 bs2 ->
  get_stream_hash H n1 k1 s1 bs1 = Some h -> get_stream_hash H n2 k2 s2 bs2 = Some h ->
  (n1 = n2 /\ k1 = k2 /\ s1 = s2 /\ bs1 = bs2) \/ (exists x y : bytes, x <> y /\ H x = H y).
Proof. exact stream_hash_binding. Qed.
Print Assumptions C02_preimage_injective.

(* Hence two descriptor blobs with fixed-width fields and the same stream hash that BOTH load are the same
   descriptor, or an explicit H collision: an accepted tampering of any committed field needs a collision. *)
Theorem C02_accepted_tampering_collides : forall H j1 j2 d1 d2,
  (forall x, length (H x) = 48%nat) ->
  validate H j1 = Ok d1 -> validate H j2 = Ok d2 -> widths j1 -> widths j2 ->
  length (d_name d1) = length (d_name d2) -> j_shash j1 = j_shash j2 ->
  d1 = d2 \/ (exists x y : bytes, x <> y /\ H x = H y).
Proof. exact accepted_tampering_collides. Qed.
Print Assumptions C02_accepted_tampering_collides.

(* The width / equal-name-length conditions are necessary: the preimage is a plain concatenation, so content
   can be moved between stream_name, key and suggested_file_name without changing the stream hash
   (known finding "shift:name>key>sugg"), for every H and every blob list. *)
Theorem C02_preimage_injective_needs_widths : forall H bs,
  get_stream_hash H shift_name1 shift_key1 shift_name1 bs = get_stream_hash H shift_name2 shift_key2 shift_sugg2 bs /\
  shift_key1 <> shift_key2 /\ length shift_key1 = 32%nat /\ length shift_key2 = 32%nat.
Proof. exact boundary_shift_not_bound. Qed.
Print Assumptions C02_preimage_injective_needs_widths.

(* Loading: whatever is accepted is consistent (terminator of length 0 without hash, no zero-length data blob,
   numbering by position, names are hex of valid UTF-8, stream hash = the recomputed commitment) ... *)
Theorem C02_validate_sound : forall H j d, validate H j = Ok d ->
  exists init last name sugg,
    j_blobs j = init ++ [last] /\ b_len last = 0%Z /\ b_hash last = None /\
    Forall (fun b => b_len b <> 0%Z) init /\
    (forall k b, nth_error (j_blobs j) k = Some b -> b_num b = Z.of_nat k) /\
    unhex (j_name j) = Some name /\ utf8_ok name = true /\
    unhex (j_sugg j) = Some sugg /\ utf8_ok sugg = true /\
    get_stream_hash H name (j_key j) sugg (j_blobs j) = Some (j_shash j) /\
    d = mkDesc name (j_key j) sugg (j_blobs j) (j_shash j).
Proof. exact validate_sound. Qed.
Print Assumptions C02_validate_sound.

(* ... each inconsistency class is refused with the error of the first failing check, in the code's order ... *)
Theorem C02_validate_refuses : forall H j,
  (j_blobs j = [] -> validate H j = Err EIndex) /\
  (forall init last, j_blobs j = init ++ [last] ->
     (b_len last <> 0%Z -> validate H j = Err ENoTerminator) /\
     (b_len last = 0%Z -> Exists (fun b => b_len b = 0%Z) init -> validate H j = Err EZeroData) /\
     (b_len last = 0%Z -> Forall (fun b => b_len b <> 0%Z) init ->
        (forall h, b_hash last = Some h -> validate H j = Err ETermHash) /\
        (b_hash last = None ->
           (numbered_ok 0 (j_blobs j) = false -> validate H j = Err EOrder) /\
           (numbered_ok 0 (j_blobs j) = true -> forall name sugg h,
              unhex_decode (j_name j) = Ok name -> unhex_decode (j_sugg j) = Ok sugg ->
              get_stream_hash H name (j_key j) sugg (j_blobs j) = Some h -> h <> j_shash j ->
              validate H j = Err EStreamHash)))).
Proof. exact validate_refuses. Qed.
Print Assumptions C02_validate_refuses.

(* ... and every descriptor create_stream builds is accepted when its sd blob is loaded back. *)
Theorem C02_validate_accepts_created : forall H E (maxb : nat) name key ivf f,
  (forall x, length (H x) = 48%nat) -> (forall k iv p, length (E k iv p) = (16 * (length p / 16 + 1))%nat) ->
  Forall (fun c => c < 55296 \/ (57344 <= c /\ c < 1114112))%N name ->      (* Unicode scalar values *)
  let d := s_desc (build_stream H E maxb name key ivf f) in
  validate H (to_sdj d) = Ok d.
Proof. exact validate_accepts_created_scalar. Qed.
Print Assumptions C02_validate_accepts_created.

(* For ALL names (lists of code points): the sanitised name is non-empty and none of its code points is below 32
   (so no NUL / C0 control character), outside 127..159 (DEL and the C1 controls), slash (47), backslash (92) or one of < > : double-quote | ? star. *)
Theorem C02_sanitize_safe : forall name : list N,
  sanitize name <> [] /\
  forall c, In c (sanitize name) ->
    (32 <= c /\ c <> 47 /\ c <> 92 /\ c <> 60 /\ c <> 62 /\ c <> 58 /\ c <> 34 /\ c <> 124 /\ c <> 63 /\ c <> 42 /\ (c < 127 \/ 159 < c))%N.
Proof. exact sanitize_safe_chars. Qed.
Print Assumptions C02_sanitize_safe.

(* The save-name clause at the place the daemon hands names out: for ANY suggested_file_name found in a loaded
   descriptor (other / older clients do not sanitise at publish time), ManagedStream.suggested_file_name
   (= sanitize of the stripped name) and the name save_file() picks are non-empty and free of code points below 32,
   of slash, backslash and of < > : double-quote | ? star. *)
Theorem C02_save_name_safe : forall sugg n : list N,
  suggested_save_name sugg = Some n \/ save_file_name sugg = Some n ->
  n <> [] /\ forall c, In c n ->
    (32 <= c /\ c <> 47 /\ c <> 92 /\ c <> 60 /\ c <> 62 /\ c <> 58 /\ c <> 34 /\ c <> 124 /\ c <> 63 /\ c <> 42 /\ (c < 127 \/ 159 < c))%N.
Proof. exact save_names_safe_chars. Qed.
Print Assumptions C02_save_name_safe.

(* A save that is cancelled (stop_tasks, stop, delete, second save_file, shutdown) at any point before it completed
   -- after k-1 of the n blob writes, k <= n, or after the last write but before the bookkeeping -- leaves NO file;
   only a save that ran to completion leaves one, and then it is the published file: never a truncated prefix. *)
Theorem C02_cancelled_save : forall (maxb : nat) (f : bytes) (k : nat), (2 <= maxb)%nat ->
  (save_loop [] (split maxb f) k = None /\ (k <= length (split maxb f))%nat) \/
  (save_loop [] (split maxb f) k = Some f /\ (length (split maxb f) < k)%nat).
Proof. exact cancelled_save. Qed.
Print Assumptions C02_cancelled_save.

(* A range request 'bytes=start-' (skip start/(maxb-1) blobs, drop start mod (maxb-1) bytes of the next one) serves
   the file from offset start, for every file and every start. *)
Theorem C02_range_read : forall (maxb : nat) (f : bytes) (start : nat), (2 <= maxb)%nat ->
  range_read maxb (split maxb f) start = skipn start f.
Proof. exact range_read_correct. Qed.
Print Assumptions C02_range_read.

(* The file name stored for a stream recovered from the database (sanitize of the basename) is safe for ANY
   suggested name a descriptor may carry. *)
Theorem C02_recovered_name_safe : forall sugg : list N,
  recovered_file_name sugg <> [] /\ forall c, In c (recovered_file_name sugg) ->
    (32 <= c /\ c <> 47 /\ c <> 92 /\ c <> 60 /\ c <> 62 /\ c <> 58 /\ c <> 34 /\ c <> 124 /\ c <> 63 /\ c <> 42 /\ (c < 127 \/ 159 < c))%N.
Proof. exact recovered_name_safe. Qed.
Print Assumptions C02_recovered_name_safe.

(* ---- non-vacuity: concrete instances (H = identity padded is not needed: structural facts only) ---- *)
Example C02_ex_split : split 4 (bytes_of_Ns [1; 2; 3; 4; 5; 6; 7]%N) =
  [bytes_of_Ns [1; 2; 3]%N; bytes_of_Ns [4; 5; 6]%N; bytes_of_Ns [7]%N].
Proof. vm_compute. reflexivity. Qed.
Example C02_ex_lengths : expected_lengths 2097152 4194303 = [2097152; 2097152; 16]%N.
Proof. vm_compute. reflexivity. Qed.
Example C02_ex_sanitize_con : sanitize [67; 79; 78; 46; 116; 120; 116]%N = default_name ++ [46; 116; 120; 116]%N.
Proof. vm_compute. reflexivity. Qed.
Example C02_ex_sanitize_ctrl : sanitize [97; 10; 46; 116; 1; 120; 47; 116]%N = [97; 46; 116; 120; 116]%N.
Proof. vm_compute. reflexivity. Qed.
(* a terminator-only descriptor whose stream hash is wrong is refused with the stream-hash error, a blob list
   without terminator with the terminator error *)
Example C02_ex_refuse_order : forall H,
  validate H (mkSdj [] [] [] [mkBlob 1 0 [] None] []) = Err EOrder.
Proof. reflexivity. Qed.
Example C02_ex_refuse_terminator : forall H,
  validate H (mkSdj [] [] [] [mkBlob 0 16 [] (Some [])] []) = Err ENoTerminator.
Proof. reflexivity. Qed.

(* a complete instance with toy primitives that satisfy the three hypotheses (H0 a positional checksum repeated 48
   times, E0/D0 PKCS7-style padding only): name "a/b.t\x01xt", 7-byte file, maxb = 4 *)
Example C02_ex_three_blobs : map b_len (d_blobs (s_desc ex_stream)) = [16; 16; 16; 0]%Z.
Proof. vm_compute. reflexivity. Qed.
Example C02_ex_roundtrip : decrypt_stream D0 (s_desc ex_stream) (s_cts ex_stream) = Some ex_file.
Proof. vm_compute. reflexivity. Qed.
Example C02_ex_accepts : validate H0 (to_sdj (s_desc ex_stream)) = Ok (s_desc ex_stream).
Proof. vm_compute. reflexivity. Qed.
Example C02_ex_refuses_tampered_key : validate H0 (tamper_key (to_sdj (s_desc ex_stream))) = Err EStreamHash.
Proof. vm_compute. reflexivity. Qed.
Example C02_ex_suggested_name : d_sugg (s_desc ex_stream) = bytes_of_Ns [97; 98; 46; 116; 120; 116]%N.
Proof. vm_compute. reflexivity. Qed.

(* The streaming read path: one decrypted-blob LRU of any capacity shared by all streams of a blob manager, keyed on
   (stream, position).  For every world of streams, every read sequence and every cache state that only holds true
   entries, each cached read returns exactly what the uncached read of that stream's own blob returns ... *)
Theorem C02_cache_transparent : forall D cap (w : list (desc * list bytes)) ops,
  run_reads D cap w [] ops = map (fun op => read_blob D w (fst op) (snd op)) ops.
Proof. exact cache_transparent_empty. Qed.
Print Assumptions C02_cache_transparent.

(* ... which for a published stream is piece i of its own file. *)
Theorem C02_read_blob_created : forall H E D (maxb : nat) name key ivf f (w : list (desc * list bytes)) sid i p,
  (forall k iv p, D k iv (E k iv p) = Some p) ->
  nth_error w sid = Some (s_desc (build_stream H E maxb name key ivf f), s_cts (build_stream H E maxb name key ivf f)) ->
  nth_error (split maxb f) i = Some p ->
  read_blob D w sid i = Some p.
Proof. exact read_blob_created. Qed.
Print Assumptions C02_read_blob_created.

(* non-vacuity / necessity of the key: with the cache keyed on the position only, the second stream's blob 0 comes
   back as the first stream's plaintext *)
Example C02_ex_bynum_cache_wrong :
  snd (cached_read_bynum D0 ex_world (fst (cached_read_bynum D0 ex_world [] 0 0)) 1 0) = Some (firstn 3 ex_file).
Proof. vm_compute. reflexivity. Qed.
Example C02_ex_own_blob : read_blob D0 ex_world 1 0 = Some ex_file2.
Proof. vm_compute. reflexivity. Qed.
Example C02_ex_cached_own_blob : run_reads D0 32 ex_world [] [(0, 0); (1, 0); (0, 0); (1, 0)]%nat =
  [Some (firstn 3 ex_file); Some ex_file2; Some (firstn 3 ex_file); Some ex_file2].
Proof. vm_compute. reflexivity. Qed.

Example C02_ex_foreign_name : suggested_save_name [32; 46; 46; 47; 46; 46; 47; 120; 10; 113; 46; 109; 112; 52; 10]%N =
  Some [46; 46; 46; 46; 120; 113; 46; 109; 112; 52]%N.
Proof. vm_compute. reflexivity. Qed.
Example C02_ex_blank_name : suggested_save_name [32; 133; 9]%N = None.
Proof. vm_compute. reflexivity. Qed.
(* the range formula before the repair (start / (maxb - 2) blobs skipped) serves wrong bytes: maxb = 4, start = 2 *)
Example C02_ex_range_old_refuted : range_read_old 4 (split 4 ex_file) 2 = bytes_of_Ns [6; 7]%N.
Proof. vm_compute. reflexivity. Qed.
Example C02_ex_range_new : range_read 4 (split 4 ex_file) 2 = bytes_of_Ns [3; 4; 5; 6; 7]%N.
Proof. vm_compute. reflexivity. Qed.
Example C02_ex_cancel_mid : save_loop [] (split 4 ex_file) 3 = None.
Proof. vm_compute. reflexivity. Qed.
Example C02_ex_cancel_late : save_loop [] (split 4 ex_file) 4 = Some ex_file.
Proof. vm_compute. reflexivity. Qed.
