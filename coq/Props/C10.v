(* C10 property theorems: statements only, each closed by [exact]. *)
From Coq Require Import NArith ZArith List Bool.
From LV Require Import Lib.Bytes Model.C10 Proofs.C10 Proofs.C10Client Proofs.C10Frag Proofs.C10Time Proofs.C10Honest Proofs.C10Old Proofs.C10Srv.
Import ListNotations.
Local Open Scope Z_scope.

(* SERVER.  For EVERY sequence of segments a peer sends on a connection, what the server writes is a sequence of
   headers; blob bytes appear only directly after a header that names exactly (hash, length) of a blob the
   server holds verified, and are exactly that blob; availability lists name blobs of the completed index only
   (the download is gated on the blob being verified, not on that index). *)
Theorem C10_server_serves_only_verified :
  forall (req_loads : bytes -> rres) (store : bytes -> option bytes) (completed : bytes -> bool) (frags : list bytes),
    wire_ok store completed (snd (srv_run req_loads store completed fresh_server frags)).
Proof. exact srv_run_wire_ok. Qed.
Print Assumptions C10_server_serves_only_verified.

(* 1200 or more buffered request bytes => the connection is closed, nothing is handled or sent. *)
Theorem C10_server_request_cap :
  forall (req_loads : bytes -> rres) (store : bytes -> option bytes) (completed : bytes -> bool) (s : server) (data : bytes),
    zlen (s_buf s) + zlen data >= MAX_REQUEST_SIZE ->
    srv_data req_loads store completed s data = (mkS (s_buf s) false, [SClose]).
Proof. exact srv_cap. Qed.
Print Assumptions C10_server_request_cap.

(* a segment that completes a '}' but is not a request (bad JSON, an exception in deserialize, no request key) closes *)
Theorem C10_server_bad_json_closes :
  forall (req_loads : bytes -> rres) (store : bytes -> option bytes) (completed : bytes -> bool) (s : server) (data t : bytes),
    zlen (s_buf s) + zlen data < MAX_REQUEST_SIZE -> data <> [] -> after_last_brace data = Some t ->
    (req_loads (s_buf s ++ data) = RBadJson \/ req_loads (s_buf s ++ data) = RRaise \/ req_loads (s_buf s ++ data) = REmpty) ->
    exists s', srv_data req_loads store completed s data = (s', [SClose]) /\ s_open s' = false.
Proof. exact srv_bad_json. Qed.
Print Assumptions C10_server_bad_json_closes.

(* an honest request (its only '}' is its last byte, below the cap) is handled exactly once however it is cut *)
Theorem C10_server_fragmentation_irrelevant :
  forall (req_loads : bytes -> rres) (store : bytes -> option bytes) (completed : bytes -> bool) (body : bytes) (q : request_msg)
         (frags : list bytes),
    no_brace body -> req_loads (body ++ [rbrace]) = RReq q -> zlen (body ++ [rbrace]) < MAX_REQUEST_SIZE ->
    concat frags = body ++ [rbrace] -> (forall f, In f frags -> f <> []) ->
    srv_run req_loads store completed fresh_server frags =
      (mkS [] (negb (existsb (fun o => match o with SClose => true | _ => false end) (handle_request store completed q))),
       handle_request store completed q).
Proof. exact srv_fragmentation. Qed.
Print Assumptions C10_server_fragmentation_irrelevant.

(* SERVER TIMERS (close_on_idle / wait_for(sendfile, transfer_timeout)); tsrv_step mirrors: started_transfer is set
   BEFORE the sendfile await, so the watchdog stops counting idle time while a blob is being sent.
   From the moment a transfer starts, for EVERY sequence of clock advances that sums to less than transfer_timeout,
   the connection is still open and still in that transfer: the idle timer never cuts an in-progress transfer. *)
Theorem C10_server_transfer_not_cut_by_idle :
  forall (idleT transT : Z) (s : tsrv) (d : Z) (dts : list Z),
    t_mode s = TmIdle d -> total dts < transT ->
    tsrv_run idleT transT (tsrv_step idleT transT s TvStart) (map TvAdvance dts)
      = mkT (t_now s + total dts) (TmTransfer (t_now s + transT)).
Proof. exact transfer_not_cut_by_idle. Qed.
Print Assumptions C10_server_transfer_not_cut_by_idle.

(* a transfer that completes in time re-arms a FRESH idle period *)
Theorem C10_server_transfer_done_rearms :
  forall (idleT transT : Z) (s : tsrv) (d : Z) (dts : list Z),
    t_mode s = TmIdle d -> total dts < transT ->
    tsrv_step idleT transT (tsrv_run idleT transT (tsrv_step idleT transT s TvStart) (map TvAdvance dts)) TvDone
      = mkT (t_now s + total dts) (TmIdle (t_now s + total dts + idleT)).
Proof. exact transfer_done_rearms. Qed.
Print Assumptions C10_server_transfer_done_rearms.

(* a silent peer, or one whose requests start no transfer, is closed once idle_timeout has elapsed *)
Theorem C10_server_silent_peer_closed :
  forall (idleT transT : Z) (evs : list tev) (s : tsrv) (d : Z),
    Forall quiet evs -> t_mode s = TmIdle d -> live s -> d <= t_now s + elapsed_t evs ->
    t_mode (tsrv_run idleT transT s evs) = TmClosed.
Proof. exact silent_peer_closed. Qed.
Print Assumptions C10_server_silent_peer_closed.

(* a transfer that never finishes is closed once transfer_timeout has elapsed *)
Theorem C10_server_stalled_transfer_closed :
  forall (idleT transT : Z) (evs : list tev) (s : tsrv) (d : Z),
    Forall unfinished evs -> t_mode s = TmTransfer d -> live s -> d <= t_now s + elapsed_t evs ->
    t_mode (tsrv_run idleT transT s evs) = TmClosed.
Proof. exact stalled_transfer_closed. Qed.
Print Assumptions C10_server_stalled_transfer_closed.

Example C10_ex_slow_reader_served :
  tsrv_trace 30 60 (tsrv_fresh 30 0) [TvAdvance 29; TvStart; TvAdvance 35; TvDone; TvAdvance 29; TvAdvance 1]
  = [true; true; true; true; true; false].
Proof. vm_compute. reflexivity. Qed.

(* SEVERAL WRITERS OF ONE BLOB (the downloader's peer race; composition with C01's writer set).  blob_write mirrors
   AbstractBlob.writers + writer_finished_callback: only a writer that finished with verified bytes closes the others.
   A writer that ends otherwise (corrupted / short / excess / cancelled / still open) leaves every other writer of the
   blob exactly as it was ... *)
Theorem C10_failing_writer_leaves_others :
  forall (H : bytes -> bytes) (hash : bytes) (len : option Z) (ws : list writer) (i : nat) (data : bytes) (w : writer) (j : nat),
    nth_error ws i = Some w ->
    w_fin (fst (writer_write H hash len w data)) <> WResult -> i <> j ->
    nth_error (blob_write H hash len ws i data) j = nth_error ws j.
Proof. exact failing_writer_leaves_others. Qed.
Print Assumptions C10_failing_writer_leaves_others.

(* ... and a writer closes the others only with bytes that hash to the blob hash and have the blob length *)
Theorem C10_closing_writer_verified :
  forall (H : bytes -> bytes) (hash : bytes) (L : Z) (ws : list writer) (i : nat) (data : bytes) (w : writer),
    nth_error ws i = Some w -> w_fin w = WPending -> w_closed w = false ->
    w_fin (fst (writer_write H hash (Some L) w data)) = WResult ->
    H (w_data w ++ data) = hash /\ zlen (w_data w ++ data) = L.
Proof. exact closing_writer_verified. Qed.
Print Assumptions C10_closing_writer_verified.

(* ------------------------------------------------------------------ CLIENT *)

(* FRAGMENTATION.  hdr is an honest header: python-json reads it as response r at its end, it ends in '}', no proper
   prefix ending in '}' is JSON, and it is not longer than the response cap; r announces (hash, n).  Then for EVERY way
   of cutting hdr ++ body into segments (empty ones included, body of any length and content) the writer receives
   exactly body cut at the announced length, the response is delivered exactly once, nothing stays buffered. *)
Theorem C10_fragmentation_irrelevant :
  forall (H : bytes -> bytes) (json_loads : bytes -> jres) (hdr : bytes) (r : response) (hash : bytes) (n : Z),
    json_loads hdr = JResp r ->
    (exists h0, hdr = h0 ++ [rbrace]) ->
    (forall a b, hdr = a ++ rbrace :: b -> b <> [] -> json_loads (a ++ [rbrace]) = JInvalid) ->
    zlen hdr <= MAX_RESPONSE_SIZE ->
    r_blob r = BrIncoming (Some hash) (LInt n) ->
    0 < n <= MAX_BLOB_SIZE ->
    forall (known : option Z) (c0 : client) (body : bytes) (frags : list bytes),
      Init hash n known c0 ->
      concat frags = hdr ++ body ->
      let c := feed H json_loads c0 frags in
      w_data (c_w c) = firstn (Z.to_nat n) body /\ c_delivered c = 1%nat /\ c_fut c = FutResult r /\
      c_buf c = [] /\ c_received c = Z.min n (zlen body) /\ c_len c = Some n.
Proof. exact fragmentation_irrelevant. Qed.
Print Assumptions C10_fragmentation_irrelevant.

(* HONEST TRANSFER COMPLETES.  If moreover r passes the client's checks, the body has the announced length and hashes
   to the requested hash, then for every cutting into segments AND every placement of event-loop runs between them,
   one more loop run ends the download "ok" with the verified byte-identical blob and the connection kept
   (sched_ok: segments are non-empty - asyncio never delivers an empty one - and only segments and loop runs occur). *)
Theorem C10_honest_transfer_completes :
  forall (H : bytes -> bytes) (json_loads : bytes -> jres) (hdr : bytes) (r : response) (hash : bytes) (n : Z) (body : bytes),
    json_loads hdr = JResp r ->
    (exists h0, hdr = h0 ++ [rbrace]) ->
    (forall a b, hdr = a ++ rbrace :: b -> b <> [] -> json_loads (a ++ [rbrace]) = JInvalid) ->
    zlen hdr <= MAX_RESPONSE_SIZE ->
    r_blob r = BrIncoming (Some hash) (LInt n) ->
    0 < n <= MAX_BLOB_SIZE ->
    acceptable hash (Some n) r = true -> zlen body = n -> H body = hash ->
    forall (known : option Z) (d0 : Z) (c0 : client) (evs : list event),
      Start hash n known d0 c0 -> Forall sched_ok evs -> data_of evs = hdr ++ body ->
      let c := drain (run H json_loads c0 evs) in
      c_phase c = PhDone (DlOk n) /\ c_verified c = Some body /\ c_received c = n /\ c_open c = true /\
      w_data (c_w c) = body.
Proof. exact honest_transfer_completes. Qed.
Print Assumptions C10_honest_transfer_completes.

(* ... and every request on a clean connection, reused or new, starts in such a state (several requests per connection) *)
Theorem C10_request_starts :
  forall (hash : bytes) (n : Z) (known : option Z) (c : client),
    c_buf c = [] -> c_lost c = false -> (known = None \/ known = Some n) ->
    Start hash n known (c_now c + c_T c) (request hash known c).
Proof. exact request_starts. Qed.
Print Assumptions C10_request_starts.

(* NEVER POISONED.  For every connection state, every requested (hash, known length >= 0) and EVERY sequence of events
   (any bytes in any segments, late bytes, loop runs, clock advances, connection loss): if the blob ends up verified,
   the saved bytes hash to the requested hash, have the blob's length, and are exactly what the writer was handed. *)
Theorem C10_lying_peer_never_poisons :
  forall (H : bytes -> bytes) (json_loads : bytes -> jres) (c0 : client) (hash : bytes) (known : option Z)
         (evs : list event) (d : bytes),
    match known with Some k => 0 <= k | None => True end ->
    zlen (c_buf c0) <= MAX_RESPONSE_SIZE ->
    let c := run H json_loads (request hash known c0) evs in
    c_verified c = Some d -> H d = hash /\ c_len c = Some (zlen d) /\ d = w_data (c_w c).
Proof. exact never_poisons. Qed.
Print Assumptions C10_lying_peer_never_poisons.

(* NEVER OVER LENGTH: while the writer is open it holds at most the blob's length (nothing without a length), and
   every single _write in such a state stays within the length. *)
Theorem C10_never_over_length :
  forall (H : bytes -> bytes) (json_loads : bytes -> jres) (c0 : client) (hash : bytes) (known : option Z) (evs : list event),
    match known with Some k => 0 <= k | None => True end ->
    zlen (c_buf c0) <= MAX_RESPONSE_SIZE ->
    let c := run H json_loads (request hash known c0) evs in
    (w_closed (c_w c) = false ->
     match c_len c with
     | Some L => zlen (w_data (c_w c)) <= L /\ c_received c <= L
     | None => w_data (c_w c) = [] /\ c_received c = 0
     end) /\
    (forall data L, c_len c = Some L -> w_closed (c_w c) = false ->
       zlen (w_data (c_w (fst (cl_write H c data)))) <= L).
Proof. exact never_over_length. Qed.
Print Assumptions C10_never_over_length.

(* KNOWN FINDING race-length-poison, machine-checked in the model of the code as it is.  A length once stored in the
   blob (e.g. by a lying peer's header, before anything is verified) is never changed or forgotten, whatever happens
   to that download afterwards ... *)
Theorem C10_announced_length_never_forgotten_refuted :
  forall (H : bytes -> bytes) (json_loads : bytes -> jres) (evs : list event) (c : client) (L : Z),
    c_len c = Some L -> c_len (run H json_loads c evs) = Some L.
Proof. exact announced_length_never_forgotten. Qed.
Print Assumptions C10_announced_length_never_forgotten_refuted.

(* ... and with a wrong length L in the blob, the honest response announcing the true length n <> L is refused. *)
Theorem C10_poisoned_length_refuses_refuted :
  forall (hash : bytes) (L n : Z) (r : response),
    r_blob r = BrIncoming (Some hash) (LInt n) -> n <> L -> acceptable hash (Some L) r = false.
Proof. exact poisoned_length_refuses. Qed.
Print Assumptions C10_poisoned_length_refuses_refuted.

(* the whole scenario on a concrete instance: 24-byte blob requested by hash only, a peer announces 25 and closes
   (download cancelled, nothing verified, blob.length = 25), then the honest peer on the same blob is refused *)
Example C10_ex_length_poison_refuted :
  c_phase poisoned = PhDone DlCancelled /\ c_verified poisoned = None /\ c_len poisoned = Some 25 /\
  let retry := drain (run toy_H toy_json2 (request T_HASH (c_len poisoned) poisoned) [EvData T_HDR; EvDrain; EvData T_WIT]) in
  c_phase retry = PhDone (DlClosed 0) /\ c_verified retry = None /\ c_open retry = false.
Proof. exact length_poison_refuted_instance. Qed.

(* RESPONSE CAP: the client never holds more than MAX_RESPONSE_SIZE unrecognised bytes ... *)
Theorem C10_client_buffer_bounded :
  forall (H : bytes -> bytes) (json_loads : bytes -> jres) (c0 : client) (hash : bytes) (known : option Z) (evs : list event),
    match known with Some k => 0 <= k | None => True end ->
    zlen (c_buf c0) <= MAX_RESPONSE_SIZE ->
    zlen (c_buf (run H json_loads (request hash known c0) evs)) <= MAX_RESPONSE_SIZE.
Proof. exact buffer_bounded. Qed.
Print Assumptions C10_client_buffer_bounded.

(* ... because a segment that brings the unrecognised bytes over the cap closes the connection. *)
Theorem C10_client_unrecognised_closes :
  forall (H : bytes -> bytes) (json_loads : bytes -> jres) (c : client) (data : bytes),
    c_open c = true -> c_att c = true -> c_received c = 0 -> c_fut c = FutPending ->
    parse_prefix json_loads (c_buf c ++ data) = PNone ->
    zlen (c_buf c ++ data) > MAX_RESPONSE_SIZE ->
    data_received H json_loads c data = (close (set_buf (c_buf c ++ data) c), false).
Proof. exact unrecognised_closes. Qed.
Print Assumptions C10_client_unrecognised_closes.

(* ... and the scan only ever recognises a response in a '}'-terminated prefix of at most MAX_RESPONSE_SIZE bytes
   that json_loads accepts. *)
Theorem C10_parse_prefix_sound :
  forall (json_loads : bytes -> jres) (msg : bytes) (r : response) (n : nat),
    parse_prefix json_loads msg = PResp r n ->
    json_loads (firstn n msg) = JResp r /\ (exists p, firstn n msg = p ++ [rbrace]) /\ Z.of_nat n <= MAX_RESPONSE_SIZE.
Proof. exact parse_prefix_sound. Qed.
Print Assumptions C10_parse_prefix_sound.

(* THE CLIENT REFUSES: the checks pass only for availability [hash] (or empty), RATE_ACCEPTED, incoming_blob naming the
   requested hash and, when the length is known, that length ... *)
Theorem C10_client_accepts_only_matching :
  forall (hash : bytes) (known : option Z) (r : response),
    acceptable hash known r = true ->
    (r_avail r = AvSingle hash \/ r_avail r = AvFalsy) /\ r_price r = PrAccepted /\
    exists l, r_blob r = BrIncoming (Some hash) l /\ (known = None \/ exists k, known = Some k /\ l = LInt k).
Proof. exact acceptable_sound. Qed.
Print Assumptions C10_client_accepts_only_matching.

(* ... and any response failing them ends the download "closed" at the next loop run: transport closed, writer handle
   closed, nothing more written. *)
Theorem C10_client_refuses :
  forall (c : client) (r : response) (d : Z),
    c_phase c = PhAwaitResp d -> c_fut c = FutResult r -> c_closed_ev c = false -> c_lost c = false ->
    acceptable (c_hash c) (c_len c) r = false ->
    let c' := drain c in
    c_phase c' = PhDone (DlClosed (c_received c)) /\ c_open c' = false /\ c_att c' = false /\
    w_closed (c_w c') = (c_has_w c || w_closed (c_w c)) /\ w_data (c_w c') = w_data (c_w c).
Proof. exact client_refuses. Qed.
Print Assumptions C10_client_refuses.

(* a response announcing another blob than the requested one is dropped: never delivered, nothing written *)
Theorem C10_unrequested_blob_dropped :
  forall (H : bytes -> bytes) (json_loads : bytes -> jres) (c : client) (data : bytes) (r : response) (n : nat)
         (h : option bytes) (l : lenv),
    c_open c = true -> c_att c = true -> c_received c = 0 -> c_fut c = FutPending ->
    parse_prefix json_loads (c_buf c ++ data) = PResp r n -> r_blob r = BrIncoming h l -> h <> Some (c_hash c) ->
    data_received H json_loads c data = (set_buf [] c, false).
Proof. exact unrequested_blob_dropped. Qed.
Print Assumptions C10_unrequested_blob_dropped.

(* TIMEOUTS.  Whatever the peer sends or withholds and however the loop is scheduled: once two peer timeouts of
   (virtual) time have elapsed since the request, the download has ended. *)
Theorem C10_client_bounded_wait :
  forall (H : bytes -> bytes) (json_loads : bytes -> jres) (c0 : client) (hash : bytes) (known : option Z) (evs : list event),
    0 < c_T c0 -> 2 * c_T c0 <= elapsed evs ->
    exists res, c_phase (run H json_loads (request hash known c0) evs) = PhDone res.
Proof. exact bounded_wait. Qed.
Print Assumptions C10_client_bounded_wait.

(* THE REPAIRED DEFECT (F7).  With the condition used before the fix, a blob that begins with something that reads as
   a response (no incoming_blob), delivered as header | body, is never written: the connection is force-closed. *)
Theorem C10_old_condition_refuted :
  forall (H : bytes -> bytes) (json_loads : bytes -> jres) (hdr : bytes) (r : response) (hash : bytes) (n : Z),
    json_loads hdr = JResp r ->
    (exists h0, hdr = h0 ++ [rbrace]) ->
    (forall a b, hdr = a ++ rbrace :: b -> b <> [] -> json_loads (a ++ [rbrace]) = JInvalid) ->
    zlen hdr <= MAX_RESPONSE_SIZE ->
    r_blob r = BrIncoming (Some hash) (LInt n) -> 0 < n <= MAX_BLOB_SIZE ->
    forall (body : bytes) (r' : response) (k : nat),
      parse_prefix json_loads body = PResp r' k -> r_blob r' = BrAbsent ->
      forall (known : option Z) (c0 : client), Init hash n known c0 ->
        let c := run_old H json_loads c0 [EvData hdr; EvData body] in
        c_open c = false /\ c_lost c = true /\ w_data (c_w c) = [] /\ c_received c = 0.
Proof. exact old_condition_refuted. Qed.
Print Assumptions C10_old_condition_refuted.

(* IDLE KEPT CONNECTION (fix a1a028a).  For every history of a request: once the download has ended (ok, closed or
   cancelled) and the connection is still open, the next segment the peer sends - excess or unsolicited bytes - closes it. *)
Theorem C10_idle_connection_closes_on_data :
  forall (H : bytes -> bytes) (json_loads : bytes -> jres) (c0 : client) (hash : bytes) (known : option Z) (evs : list event)
         (res : dlres) (d : bytes),
    let c := run H json_loads (request hash known c0) evs in
    c_phase c = PhDone res -> c_open c = true ->
    c_open (step H json_loads c (EvData d)) = false.
Proof. exact idle_connection_closes_on_data. Qed.
Print Assumptions C10_idle_connection_closes_on_data.

(* ONE DOWNLOAD PER PROTOCOL.  Why BlobDownloader must not hand a busy keep-alive connection to a second download:
   download_blob overwrites blob / writer / future, and the honest header answering the FIRST request is then
   "a blob we didn't request": dropped, never delivered, nothing written. *)
Theorem C10_second_download_on_busy_protocol_refuted :
  forall (H : bytes -> bytes) (json_loads : bytes -> jres) (c : client) (h1 h2 : bytes) (known : option Z) (data : bytes)
         (r : response) (n : nat) (l : lenv),
    c_open c = true -> h1 <> h2 ->
    parse_prefix json_loads (c_buf c ++ data) = PResp r n -> r_blob r = BrIncoming (Some h1) l ->
    data_received H json_loads (start_download h2 known c) data = (set_buf [] (start_download h2 known c), false).
Proof. exact second_download_on_busy_protocol_drops_first. Qed.
Print Assumptions C10_second_download_on_busy_protocol_refuted.

(* MEMORY-ONLY NODE (save_blobs = False): serving its copy of a blob consumes it; asked again for the same hash it
   announces nothing and sends no blob bytes. *)
Theorem C10_memory_only_serves_once :
  forall (store : bytes -> option bytes) (completed : bytes -> bool) (q : request_msg) (h : bytes),
    q_blob q = Some (BqHash h) ->
    let store' := snd (mem_handle_request store completed q) in
    store' h = None /\
    forall q', q_blob q' = Some (BqHash h) ->
      forall o, In o (handle_request store' completed q') ->
        match o with SHeader hd => h_incoming hd = None | SBlob _ => False | _ => True end.
Proof. exact memory_only_serves_once. Qed.
Print Assumptions C10_memory_only_serves_once.

(* ------------------------------------------------------------------ non-vacuity *)
(* all hypotheses about an honest header and a started download are satisfiable together (a table-driven json_loads,
   the literal F7 witness {"lbrycrd_address": "x"} as the blob): the old client fails on it, the repaired one completes *)
Example C10_ex_old_fails :
  let c := run_old toy_H toy_json toy_c0 [EvData T_HDR; EvData T_WIT] in
  c_open c = false /\ c_lost c = true /\ w_data (c_w c) = [] /\ c_received c = 0.
Proof. exact old_condition_refuted_instance. Qed.
Example C10_ex_repaired_completes :
  let c := drain (run toy_H toy_json toy_c0 [EvData T_HDR; EvDrain; EvData T_WIT]) in
  c_phase c = PhDone (DlOk 24) /\ c_verified c = Some T_WIT /\ c_received c = 24 /\ c_open c = true /\
  w_data (c_w c) = T_WIT.
Proof. exact repaired_completes_instance. Qed.
(* a lying peer: one corrupted byte -> hash mismatch -> closed, not verified (toy hash = constant, so use a wrong length) *)
Example C10_ex_timeout :
  c_phase (run toy_H toy_json toy_c0 [EvAdvance 3]) = PhDone (DlClosed 0).
Proof. vm_compute. reflexivity. Qed.
Example C10_ex_server_cap :
  srv_data (fun _ => RBadJson) (fun _ => None) (fun _ => false) (mkS (repeat rbrace 1000) true) (repeat rbrace 200)
  = (mkS (repeat rbrace 1000) false, [SClose]).
Proof. vm_compute. reflexivity. Qed.
