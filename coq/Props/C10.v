(* C10 property theorems: statements only, each closed by [exact]. *)
From Coq Require Import NArith ZArith List Bool.
From LV Require Import Lib.Bytes Model.C10 Proofs.C10.
Import ListNotations.
Local Open Scope Z_scope.

(* SERVER.  For EVERY sequence of segments a peer sends on a connection, what the server writes is a sequence of
   headers; blob bytes appear only directly after a header that names exactly (hash, length) of a blob the
   server holds verified, and are exactly that blob; availability lists name held blobs only. *)
Theorem C10_server_serves_only_verified :
  forall (req_loads : bytes -> rres) (store : bytes -> option bytes) (frags : list bytes),
    wire_ok store (snd (srv_run req_loads store fresh_server frags)).
Proof. exact srv_run_wire_ok. Qed.
Print Assumptions C10_server_serves_only_verified.

(* 1200 or more buffered request bytes => the connection is closed, nothing is handled or sent. *)
Theorem C10_server_request_cap :
  forall (req_loads : bytes -> rres) (store : bytes -> option bytes) (s : server) (data : bytes),
    zlen (s_buf s) + zlen data >= MAX_REQUEST_SIZE ->
    srv_data req_loads store s data = (mkS (s_buf s) false, [SClose]).
Proof. exact srv_cap. Qed.
Print Assumptions C10_server_request_cap.

(* a segment that completes a '}' but is not a request (bad JSON, an exception in deserialize, no request key) closes *)
Theorem C10_server_bad_json_closes :
  forall (req_loads : bytes -> rres) (store : bytes -> option bytes) (s : server) (data t : bytes),
    zlen (s_buf s) + zlen data < MAX_REQUEST_SIZE -> data <> [] -> after_last_brace data = Some t ->
    (req_loads (s_buf s ++ data) = RBadJson \/ req_loads (s_buf s ++ data) = RRaise \/ req_loads (s_buf s ++ data) = REmpty) ->
    exists s', srv_data req_loads store s data = (s', [SClose]) /\ s_open s' = false.
Proof. exact srv_bad_json. Qed.
Print Assumptions C10_server_bad_json_closes.

(* an honest request (its only '}' is its last byte, below the cap) is handled exactly once however it is cut *)
Theorem C10_server_fragmentation_irrelevant :
  forall (req_loads : bytes -> rres) (store : bytes -> option bytes) (body : bytes) (q : request_msg) (frags : list bytes),
    no_brace body -> req_loads (body ++ [rbrace]) = RReq q -> zlen (body ++ [rbrace]) < MAX_REQUEST_SIZE ->
    concat frags = body ++ [rbrace] -> (forall f, In f frags -> f <> []) ->
    srv_run req_loads store fresh_server frags =
      (mkS [] (negb (existsb (fun o => match o with SClose => true | _ => false end) (handle_request store q))),
       handle_request store q).
Proof. exact srv_fragmentation. Qed.
Print Assumptions C10_server_fragmentation_irrelevant.
