(* C03 property theorems: statements only, each closed by [exact].
   Model/C03.v: [select] = CoinSelector.select, [sqlite_select] = database.get_and_reserve_spendable_utxos,
   [choose_from] / [spendable] = Ledger.get_spendable_utxos, [create] = Transaction.create.
   [shuffle] stands for Random.shuffle: every theorem holds for EVERY function that permutes its argument.
   [eff u] = amount minus the fee of the 148-byte input that spends it. *)
From Coq Require Import NArith ZArith List Bool Permutation.
From LV Require Import Model.C03 Proofs.C03.
Import ListNotations.
Local Open Scope Z_scope.

(* Whatever CoinSelector.select answers (every strategy, every list of offered outputs, every target) is a
   duplicate-free sub-list of the offered outputs and, if not empty, its effective amounts cover the target. *)
Theorem C03_select_sound :
  forall fpb shuffle, (forall l, Permutation l (shuffle l)) -> forall target coc, 0 <= coc ->
  forall s txos,
  let r := select fpb shuffle target coc s txos in
  (NoDup txos -> NoDup r) /\ (NoDup (map uid txos) -> NoDup (map uid r)) /\ incl r txos /\
  (r <> [] -> target <= sum_eff fpb r).
Proof. exact select_sound_plain. Qed.
Print Assumptions C03_select_sound.

(* The same for the sqlite chooser: duplicate-free, taken from the offered rows, plain (txo_type 0) outputs
   only, and a non-empty answer covers the amount to reserve. *)
Theorem C03_sqlite_sound :
  forall fpb rows a floor, 0 <= floor ->
  let r := sqlite_select fpb rows a floor in
  (NoDup rows -> NoDup r) /\ (NoDup (map uid rows) -> NoDup (map uid r)) /\ incl r rows /\
  (r <> [] -> a <= sum_eff fpb r) /\ (forall u, In u r -> utype0 u = true).
Proof. exact sqlite_sound_plain. Qed.
Print Assumptions C03_sqlite_sound.

(* Completeness, judged on outputs worth more than the fee to spend them: Ledger.get_spendable_utxos comes
   back empty exactly when the strategy's coverage predicate is false.  Includes the first-descent argument
   for branch_and_bound inside standard (a total inside [d, d + fee] is found within n + 1 <= MAXIMUM_TRIES
   tries, also in the second call of prefer_confirmed, which shares the try counter) and random_draw for
   every permutation. *)
Theorem C03_select_complete :
  forall fpb shuffle, (forall l, Permutation l (shuffle l)) -> 0 <= fpb ->
  forall s free d,
  0 < d -> (forall u, In u free -> 0 < eff fpb u) -> (N.of_nat (length free) < MAXIMUM_TRIES)%N ->
  let fee := CHANGE_EST_SIZE * fpb in
  let r := choose_from fpb shuffle s free d in
  match s with
  | Standard | PreferConfirmed => r = [] <-> sum_eff fpb free < d
  | OnlyConfirmed => r = [] <-> sum_eff fpb (filter (fun u => uheight u >? 0) free) < d
  | ClosestMatch => r = [] <-> forall u, In u free -> eff fpb u < d + fee
  | RandomDraw => r = [] <-> sum_eff fpb free < d + fee
  | BranchAndBound | Sqlite => True      (* see the two _partial theorems *)
  end.
Proof. exact select_complete_five. Qed.
Print Assumptions C03_select_complete.

(* branch_and_bound on its own: a non-empty answer lies in the window, and if ALL offered outputs together
   lie in the window an answer is found.  Missing for the full equivalence: a sub-set inside the window that
   needs more than MAXIMUM_TRIES = 100000 search steps is not found by the code either. *)
Theorem C03_bnb_complete_partial :
  forall fpb shuffle, (forall l, Permutation l (shuffle l)) -> 0 <= fpb ->
  forall free d,
  0 < d -> (forall u, In u free -> 0 < eff fpb u) -> (N.of_nat (length free) < MAXIMUM_TRIES)%N ->
  let fee := CHANGE_EST_SIZE * fpb in
  let r := choose_from fpb shuffle BranchAndBound free d in
  (r <> [] -> d <= sum_eff fpb r <= d + fee) /\ (d <= sum_eff fpb free <= d + fee -> r <> []).
Proof. exact bnb_complete_partial. Qed.
Print Assumptions C03_bnb_complete_partial.

(* the sqlite chooser: exact when every plain output is below 92233720369 dewies (about 922 LBC), the
   smallest amount its windows [floor, floor * multiplier) can fail to reach before floor * multiplier
   passes SQLITE_MAX_INTEGER.  Missing: larger outputs (C03_sqlite_reach_ex shows the bound is real). *)
Theorem C03_sqlite_complete_partial :
  forall fpb shuffle, (forall l, Permutation l (shuffle l)) -> 0 <= fpb ->
  forall free d,
  0 < d -> (forall u, In u free -> 0 < eff fpb u) -> (N.of_nat (length free) < MAXIMUM_TRIES)%N ->
  (forall u, In u free -> utype0 u = true -> uamount u < 92233720369) ->
  (choose_from fpb shuffle Sqlite free d = [] <-> sum_eff fpb (filter utype0 free) < d + CHANGE_EST_SIZE * fpb).
Proof. exact sqlite_ledger_complete_partial. Qed.
Print Assumptions C03_sqlite_complete_partial.

(* create = Ok: the transaction is pre ++ added -> outs ++ change (requested outputs and pre-chosen inputs are
   untouched by construction of [Ok]); the added inputs are distinct, were unreserved outputs of the wallet,
   none of them is a pre-chosen input -- so the complete input list has no duplicate outpoint -- and afterwards
   exactly the pre-chosen and the added inputs have become reserved; with both counts in one compact-size byte
   the fee (inputs minus outputs) is at least the size fee / name fee of the finished transaction and exceeds
   it by at most 5 * cost_of_change + DUST + 4, cost_of_change = (10 + 46) * fee_per_byte. *)
Theorem C03_conservation_and_fee :
  forall fpb fpnc shuffle, (forall l, Permutation l (shuffle l)) -> 0 <= fpb ->
  forall strat pre outs w0, NoDup (map (fun e : utxo * bool => uid (fst e)) w0) ->
  forall added ch w',
  create fpb fpnc shuffle strat pre outs w0 = Ok added ch w' ->
  NoDup (map uid added) /\
  (forall u, In u added -> In u (unreserved w0) /\ ~ In (uid u) (map iid pre)) /\
  (NoDup (map iid pre) -> NoDup (map iid pre ++ map uid added)) /\
  w' = reserve added (set_reserved true (map iid pre) w0) /\
  (zlen pre + zlen added <= 252 -> zlen outs <= 251 ->
   required_fee fpb fpnc pre outs added ch <= tx_fee pre outs added ch
     <= required_fee fpb fpnc pre outs added ch + 5 * ((10 + CHANGE_EST_SIZE) * fpb) + DUST + 4).
Proof. exact create_ok. Qed.
Print Assumptions C03_conservation_and_fee.

(* With requested outputs the loop body runs once; everything is determined: inputs are added iff the
   pre-chosen ones do not cover the cost and are exactly the ledger's selection for the deficit; there is at
   most one change output, present iff surplus - cost_of_change > DUST, worth exactly that; without it the
   surplus left to the miner is at most cost_of_change + DUST; the build is refused iff the selection for
   the deficit is empty. *)
Theorem C03_change_rule :
  forall fpb fpnc shuffle, (forall l, Permutation l (shuffle l)) -> 0 <= fpb ->
  forall strat pre outs w0, NoDup (map (fun e : utxo * bool => uid (fst e)) w0) ->
  outs <> [] ->
  let deficit := cost0 fpb fpnc pre outs - payment0 fpb pre in
  let w1 := set_reserved true (map iid pre) w0 in      (* the pre-chosen inputs are reserved first *)
  let sel := if payment0 fpb pre <? cost0 fpb fpnc pre outs then spendable fpb shuffle strat w1 deficit else [] in
  let surplus := payment0 fpb pre + sum_eff fpb sel - cost0 fpb fpnc pre outs in
  let coc := cost_of_change fpb pre outs (zlen sel) in
  match create fpb fpnc shuffle strat pre outs w0 with
  | Ok added ch w' =>
      added = sel /\ (0 < deficit -> sel <> []) /\ w' = reserve sel w1 /\ 0 <= surplus /\
      match ch with
      | Some c => c = surplus - coc /\ DUST < c
      | None => surplus - coc <= DUST
      end
  | Refused w' => 0 < deficit /\ sel = [] /\ w' = release (map iid pre) w0
  end.
Proof. exact create_with_outputs. Qed.
Print Assumptions C03_change_rule.

(* A refusal always comes from an empty selection for a positive deficit (C03_select_complete says what
   that means per strategy), over the wallet minus what this build had already taken itself. *)
Theorem C03_refuses_only_when_insufficient :
  forall fpb fpnc shuffle, (forall l, Permutation l (shuffle l)) -> 0 <= fpb ->
  forall strat pre outs w0, NoDup (map (fun e : utxo * bool => uid (fst e)) w0) ->
  forall w', create fpb fpnc shuffle strat pre outs w0 = Refused w' ->
  w' = release (map iid pre) w0 /\
  exists held deficit, NoDup (map uid held) /\
    (forall u, In u held -> In u (unreserved w0) /\ ~ In (uid u) (map iid pre)) /\
    0 < deficit /\ spendable fpb shuffle strat (reserve held (set_reserved true (map iid pre) w0)) deficit = [].
Proof. exact create_refused. Qed.
Print Assumptions C03_refuses_only_when_insufficient.

(* create(..., sign=True) = the loop above followed, still inside the try, by tx.sign; [can_sign] says whether
   the final input list can be signed.  After ANY failure -- InsufficientFundsError or an exception out of
   tx.sign (locked account, no key for an input's address) -- the wallet is the original one with the
   transaction's own inputs released: none of them is reserved and nothing became reserved. *)
Theorem C03_release_on_failure :
  forall fpb fpnc shuffle, (forall l, Permutation l (shuffle l)) -> 0 <= fpb ->
  forall strat pre outs can_sign w0, NoDup (map (fun e : utxo * bool => uid (fst e)) w0) ->
  forall w',
  (create_signed fpb fpnc shuffle strat pre outs can_sign w0 = Insufficient w' \/
   create_signed fpb fpnc shuffle strat pre outs can_sign w0 = SignFails w') ->
  w' = release (map iid pre) w0 /\ (forall i, In i (map iid pre) -> ~ In i (reserved_ids w')) /\
  (forall i, In i (reserved_ids w') -> In i (reserved_ids w0)).
Proof. exact release_on_any_failure. Qed.
Print Assumptions C03_release_on_failure.

(* a signed build that succeeds is a successful create (so C03_conservation_and_fee / C03_change_rule apply) *)
Theorem C03_signed_built :
  forall fpb fpnc shuffle strat pre outs w0 can_sign added ch w',
  create_signed fpb fpnc shuffle strat pre outs can_sign w0 = Built added ch w' ->
  create fpb fpnc shuffle strat pre outs w0 = Ok added ch w' /\ can_sign (map iid pre ++ map uid added) = true.
Proof. exact create_signed_built. Qed.
Print Assumptions C03_signed_built.

(* The model has exactly three outcomes: built, refused for lack of funds, failed while signing (an injected
   fault); the correspondence shows the implementation raises nothing else. *)
Theorem C03_no_other_failure :
  forall fpb fpnc shuffle strat pre outs w0 can_sign,
  (exists a c w', create_signed fpb fpnc shuffle strat pre outs can_sign w0 = Built a c w') \/
  (exists w', create_signed fpb fpnc shuffle strat pre outs can_sign w0 = Insufficient w') \/
  (exists w', create_signed fpb fpnc shuffle strat pre outs can_sign w0 = SignFails w').
Proof. exact create_signed_total. Qed.
Print Assumptions C03_no_other_failure.

(* ... and the one place where the code could raise something else inside the selector, the list access
   txos[len(current_selection)] of branch_and_bound, is in range in every state satisfying the loop invariant
   (cv = value of the selection, ca = value of the undecided rest, decided + rest = txos). *)
Theorem C03_bnb_index_in_range :
  forall fpb target coc txos cv ca done rest,
  state_inv fpb txos cv ca done rest ->
  (cv + ca <? target) || (cv >? target + coc) = false -> (cv >=? target) = false -> rest <> [].
Proof. exact bnb_index_in_range. Qed.
Print Assumptions C03_bnb_index_in_range.

(* non-vacuity: a wallet of 1, 1, 3, 5, 10 LBC at 50 dewies per byte *)
Example C03_ex_hyp_nodup : NoDup (map (fun e : utxo * bool => uid (fst e)) ex_wallet).
Proof. exact ex_nodup. Qed.
Example C03_ex_hyp_positive : forall u, In u (unreserved ex_wallet) -> 0 < eff 50 u.
Proof. exact ex_positive. Qed.
Example C03_ex_hyp_perm : forall l, Permutation l (ex_id l).
Proof. exact ex_id_perm. Qed.
Example C03_ex_pay :
  match create 50 0 ex_id Standard [] [mkO 300000000 34 None] ex_wallet with
  | Ok added ch w' => map uid added = [4%N] /\ ch = Some 199987600 /\ reserved_ids w' = [4%N]
  | Refused _ => False
  end.
Proof. exact ex_pay. Qed.
Example C03_ex_exact_no_change :
  match create 50 0 ex_id Standard [] [mkO 299990400 34 None] ex_wallet with
  | Ok added ch w' => map uid added = [3%N] /\ ch = None
  | Refused _ => False
  end.
Proof. exact ex_exact. Qed.
Example C03_ex_refuse :
  create 50 0 ex_id Standard [] [mkO 100000000000 34 None] ex_wallet = Refused ex_wallet.
Proof. exact ex_refuse. Qed.
(* the defect repaired by `fix: Transaction.create reserves the pre-chosen inputs before funding`: the old
   create (no reservation of pre-chosen inputs) puts outpoint 1 into the transaction twice; the repaired one
   takes outpoint 2 and leaves both reserved *)
Example C03_old_create_refuted :
  match create_old 50 0 ex_id Standard [mkI 1 11400 148] [] dup_wallet with
  | Ok added _ _ => In 1%N (map iid [mkI 1 11400 148]) /\ In 1%N (map uid added)
  | Refused _ => False
  end.
Proof. exact create_old_refuted. Qed.
Example C03_repaired_create_ex :
  match create 50 0 ex_id Standard [mkI 1 11400 148] [] dup_wallet with
  | Ok added ch w' => map uid added = [2%N] /\ reserved_ids w' = [1%N; 2%N]
  | Refused _ => False
  end.
Proof. exact create_repaired_ex. Qed.
(* one confirmed output of 2 000 000 LBC is invisible to the sqlite chooser *)
Example C03_sqlite_reach_ex :
  sqlite_select 50 [ex_u 1 200000000000000] 100002300 1 = [] /\ 100002300 <= sum_eff 50 [ex_u 1 200000000000000].
Proof. exact sqlite_reach_is_real. Qed.
