(* C03 property theorems: statements only, each closed by [exact]. *)
From Coq Require Import NArith ZArith List Bool Permutation.
From LV Require Import Model.C03 Proofs.C03.
Import ListNotations.
Local Open Scope Z_scope.

(* Whatever CoinSelector.select answers (every strategy, every list of offered outputs, every target,
   every permutation used by random_draw) is a duplicate-free sub-list of the offered outputs and, if it
   is not empty, its effective amounts (amount minus the fee to spend it) cover the target. *)
Theorem C03_select_sound :
  forall fpb shuffle, (forall l, Permutation l (shuffle l)) -> forall target coc, 0 <= coc ->
  forall s txos,
  let r := select fpb shuffle target coc s txos in
  (NoDup txos -> NoDup r) /\ (NoDup (map uid txos) -> NoDup (map uid r)) /\ incl r txos /\
  (r <> [] -> target <= sum_eff fpb r).
Proof. exact select_sound_plain. Qed.
Print Assumptions C03_select_sound.
