(* C16 property theorems: statements only, each closed by [exact]. *)
From Coq Require Import NArith ZArith List Bool.
From Coq.Strings Require Import Byte.
From LV Require Import Lib.Bytes Wire.Push Wire.Script Model.C16_Env Model.C16_Wire Model.C16_Url Model.C16_All Model.C16_Attrs
  Model.C16_Embed Model.C06 Model.C16_Fee Proofs.C16_Fee Proofs.C16_Env Proofs.C16_Wire Proofs.C16_Url Proofs.C16_All Proofs.C16_Attrs Proofs.C16_Embed.
Import ListNotations.

(* ================= (a) the signature envelope (base.py Signable, purchase.py) ================= *)

(* Signed (any 20-byte channel hash, any 64-byte signature) or unsigned, over ANY payload bytes:
   from_bytes (to_bytes e) = e. *)
Theorem C16_envelope_roundtrip : forall e : envelope, env_wf e -> env_decode (env_encode e) = EnvOk e.
Proof. exact env_roundtrip. Qed.
Print Assumptions C16_envelope_roundtrip.

(* every version byte other than 0 and 1 is refused, whatever follows *)
Theorem C16_envelope_rejects_version : forall (b : byte) (r : bytes),
  b <> x00 -> b <> x01 -> env_decode (b :: r) = EnvVersion.
Proof. exact env_rejects_version. Qed.
Print Assumptions C16_envelope_rejects_version.

(* converse direction: bytes that decode to a well-formed envelope are exactly its encoding *)
Theorem C16_envelope_decode_encode : forall (d : bytes) (e : envelope),
  env_decode d = EnvOk e -> env_wf e -> env_encode e = d.
Proof. exact env_decode_encode. Qed.
Print Assumptions C16_envelope_decode_encode.

(* Claim.from_bytes hands the data to the current decoder exactly when the envelope is accepted
   (first byte 0 or 1); '{' goes to the JSON decoder and everything else to the v1 decoder *)
Theorem C16_claim_dispatch : forall d : bytes, claim_format d = FmtV2 <-> exists e, env_decode d = EnvOk e.
Proof. exact claim_format_v2_iff. Qed.
Print Assumptions C16_claim_dispatch.

Theorem C16_purchase_roundtrip : forall p : bytes, purchase_decode (purchase_encode p) = Some p.
Proof. exact purchase_roundtrip. Qed.
Print Assumptions C16_purchase_roundtrip.

Theorem C16_purchase_rejects : forall d : bytes, (forall r, d <> x50 :: r) -> purchase_decode d = None.
Proof. exact purchase_rejects. Qed.
Print Assumptions C16_purchase_rejects.

(* ================= (b) protobuf wire format ================= *)
Local Open Scope N_scope.

(* every n < 2^64, followed by anything *)
Theorem C16_varint_roundtrip : forall (n : N) (rest : bytes),
  n < two64 -> varint_decode (varint_encode n ++ rest) = Some (n, rest).
Proof. exact varint_roundtrip. Qed.
Print Assumptions C16_varint_roundtrip.

(* canonical length: k bytes suffice below 128^k, and at least k+1 bytes are used from 128^k on *)
Theorem C16_varint_length_le : forall (n : N) (k : nat),
  (1 <= k)%nat -> n < 128 ^ N.of_nat k -> (length (varint_encode n) <= k)%nat.
Proof. exact varint_length_le. Qed.
Print Assumptions C16_varint_length_le.

Theorem C16_varint_length_gt : forall (n : N) (k : nat),
  (k <= 9)%nat -> 128 ^ N.of_nat k <= n -> (k < length (varint_encode n))%nat.
Proof. exact varint_length_gt. Qed.
Print Assumptions C16_varint_length_gt.

(* sint32 / int64 views of a varint (Location.latitude/longitude, Stream.release_time) *)
Theorem C16_zigzag_roundtrip : forall z : Z, zigzag_dec (zigzag_enc z) = z.
Proof. exact zigzag_roundtrip. Qed.
Print Assumptions C16_zigzag_roundtrip.

Theorem C16_int64_roundtrip : forall z : Z, (- 2 ^ 63 <= z < 2 ^ 63)%Z ->
  int64_dec (int64_enc z) = z /\ int64_enc z < two64.
Proof. exact int64_roundtrip. Qed.
Print Assumptions C16_int64_roundtrip.

(* flat messages: any list of canonical fields (number 1..2^61-1, i.e. every tag that fits 64 bits; varint < 2^64, 8 / 4 byte fixed, or
   length-delimited bytes) parses back to the same list *)
Theorem C16_wire_roundtrip : forall fs : list field,
  forallb field_ok fs = true -> wire_parse (ser_fields fs) = WOk fs.
Proof. exact wire_roundtrip. Qed.
Print Assumptions C16_wire_roundtrip.

(* whatever the parser returns is canonical, for ALL byte strings: parse . serialise . parse = parse *)
Theorem C16_wire_parse_normalises : forall (bs : bytes) (fs : list field),
  wire_parse bs = WOk fs -> forallb field_ok fs = true /\ wire_parse (ser_fields fs) = WOk fs.
Proof. exact (fun bs fs H => conj (wire_parse_canonical bs fs H) (wire_parse_normalises bs fs H)). Qed.
Print Assumptions C16_wire_parse_normalises.

(* nested messages, for EVERY schema table: a field tree that fits the schema (sub-messages where the
   schema declares a message, recursively) parses back to itself *)
Theorem C16_wire_tree_roundtrip : forall (sch : schema) (d : nat) (m : N) (fs : list tfield),
  tfields_ok sch m fs = true -> (fdepth fs <= d)%nat -> parse_tree sch d m (ser_tree fs) = WOk fs.
Proof. exact tree_roundtrip. Qed.
Print Assumptions C16_wire_tree_roundtrip.

(* envelope and message together = Claim / Support to_bytes then from_bytes *)
Theorem C16_claim_roundtrip : forall (sch : schema) (d : nat) (m : N) (sig : option (bytes * bytes)) (fs : list tfield),
  sig_wf sig -> tfields_ok sch m fs = true -> (fdepth fs <= d)%nat ->
  decode_all sch d m (encode_all sig fs) = (EnvOk (mk_env sig (ser_tree fs)), WOk fs).
Proof. exact all_roundtrip. Qed.
Print Assumptions C16_claim_roundtrip.

(* without loss: different (signature, fields) never share an encoding *)
Theorem C16_claim_encode_injective : forall (sch : schema) (d : nat) (m : N) sig1 fs1 sig2 fs2,
  sig_wf sig1 -> sig_wf sig2 -> tfields_ok sch m fs1 = true -> tfields_ok sch m fs2 = true ->
  (fdepth fs1 <= d)%nat -> (fdepth fs2 <= d)%nat ->
  encode_all sig1 fs1 = encode_all sig2 fs2 -> sig1 = sig2 /\ fs1 = fs2.
Proof. exact encode_all_inj. Qed.
Print Assumptions C16_claim_encode_injective.

Theorem C16_purchase_message_roundtrip : forall (sch : schema) (d : nat) (m : N) (fs : list tfield),
  tfields_ok sch m fs = true -> (fdepth fs <= d)%nat ->
  purchase_decode_all sch d m (purchase_encode_all fs) = Some (WOk fs).
Proof. exact purchase_all_roundtrip. Qed.
Print Assumptions C16_purchase_message_roundtrip.

(* legacy v1 claims: the payload a legacy signature covers = the message without its publisherSignature
   (field 5); it holds exactly the other fields, and is the message itself when there is no signature *)
Theorem C16_legacy_unsigned_payload : forall fs : list field, forallb field_ok fs = true ->
  v1_unsigned_payload (ser_fields fs) = WOk (ser_fields (drop_field V1_SIGNATURE_FIELD fs)) /\
  wire_parse (ser_fields (drop_field V1_SIGNATURE_FIELD fs)) = WOk (drop_field V1_SIGNATURE_FIELD fs) /\
  ((forall f, In f fs -> fst f <> V1_SIGNATURE_FIELD) -> v1_unsigned_payload (ser_fields fs) = WOk (ser_fields fs)).
Proof. exact v1_unsigned_payload_spec. Qed.
Print Assumptions C16_legacy_unsigned_payload.

Theorem C16_drop_field_spec : forall (k : N) (fs : list field) (f : field),
  In f (drop_field k fs) <-> In f fs /\ fst f <> k.
Proof. exact drop_field_spec. Qed.
Print Assumptions C16_drop_field_spec.

(* ================= (e) the stored form: an object inside an output script ================= *)

(* every object of every size below 2^32 bytes (76, 256 and 65536 included), in a claim_name / update_claim /
   support / OP_RETURN output with any name, claim id and pubkey hash: the generated script, parsed again
   without a hint, yields exactly the object's bytes *)
Theorem C16_embed_extract : forall (c : carrier) (name cid pkh payload : bytes),
  fits name -> fits cid -> fits pkh -> fits payload ->
  exists s, embed c name cid pkh payload = Some s /\ extract_payload s = Some payload.
Proof. exact embed_extract. Qed.
Print Assumptions C16_embed_extract.

(* fields -> to_bytes -> output script -> parse -> from_bytes -> the same fields and signature *)
Theorem C16_embedded_object_roundtrip : forall (sch : schema) (d : nat) (m : N) (c : carrier)
    (name cid pkh : bytes) (sig : option (bytes * bytes)) (fs : list tfield),
  fits name -> fits cid -> fits pkh -> fits (encode_all sig fs) ->
  sig_wf sig -> tfields_ok sch m fs = true -> (fdepth fs <= d)%nat ->
  exists s, embed c name cid pkh (encode_all sig fs) = Some s /\
            match extract_payload s with
            | Some p => decode_all sch d m p = (EnvOk (mk_env sig (ser_tree fs)), WOk fs)
            | None => False
            end.
Proof. exact embedded_object_roundtrip. Qed.
Print Assumptions C16_embedded_object_roundtrip.

(* Stream.update: a new file whose type is not image/video/audio leaves no media info behind; an explicitly
   given width / duration (0 included) is what is stored; nothing given keeps or drops the sub-message with the kind *)
Theorem C16_media_step_non_media : forall (old : mstate) (w h d : option N), media_step old None w h d = None.
Proof. exact media_step_non_media. Qed.
Print Assumptions C16_media_step_non_media.

Theorem C16_media_step_sets_width : forall (old : mstate) (k w : N) (h d : option N), has_dims k = true ->
  exists hh dd, media_step old (Some k) (Some w) h d = Some (k, (w, hh, dd)).
Proof. exact media_step_sets_width. Qed.
Print Assumptions C16_media_step_sets_width.

Theorem C16_media_step_sets_duration : forall (old : mstate) (k : N) (w h : option N) (d : N), has_duration k = true ->
  exists ww hh, media_step old (Some k) w h (Some d) = Some (k, (ww, hh, d)).
Proof. exact media_step_sets_duration. Qed.
Print Assumptions C16_media_step_sets_duration.

Theorem C16_media_step_switch : forall (k k' : N) (vals : mvals), k <> k' ->
  media_step (Some (k', vals)) (Some k) None None None = None /\
  media_step (Some (k, vals)) (Some k) None None None = Some (k, vals).
Proof. exact (fun k k' vals H => conj (media_step_switch k k' vals H) (media_step_keep k vals)). Qed.
Print Assumptions C16_media_step_switch.

(* ================= (f) fee addresses and signature state ================= *)

(* Fee.address: for every stored address (any bytes with a non-zero byte; leading zero bytes -- Bitcoin-style
   '1...' addresses -- included) the text shown decodes to exactly those bytes *)
Theorem C16_fee_address_roundtrip : forall b : bytes, (exists c, In c b /\ c <> x00) ->
  exists t, fee_address b = Some t /\ fee_address_bytes t = Ok b.
Proof. exact fee_address_roundtrip. Qed.
Print Assumptions C16_fee_address_roundtrip.

(* ... and an address text that was set (not all '1') reads back as the same text *)
Theorem C16_fee_address_text_roundtrip : forall t b : bytes,
  fee_address_bytes t = Ok b -> (exists c, In c t /\ c <> one_char) -> fee_address b = Some t.
Proof. exact fee_address_text_roundtrip. Qed.
Print Assumptions C16_fee_address_text_roundtrip.

Theorem C16_fee_address_leading_zero : forall r t : bytes,
  fee_address (x00 :: r) = Some t -> exists t', t = one_char :: t'.
Proof. exact fee_address_leading_zero. Qed.
Print Assumptions C16_fee_address_leading_zero.

(* after ANY history of signing and clearing, an object equals what its own bytes parse back to: signature
   AND signing channel of the decoded envelope are those of the object *)
Theorem C16_signature_state_reparse : forall (ops : list sigop) (payload : bytes), Forall sigop_wf ops ->
  exists d, sig_to_bytes (sig_run ops) payload = Some d /\
            exists e, env_decode d = EnvOk e /\ sig_of_env e = sig_run ops /\ env_payload e = payload.
Proof. exact sig_reparse. Qed.
Print Assumptions C16_signature_state_reparse.

Theorem C16_clear_forgets_channel : forall ops : list sigop,
  st_channel_hash (sig_run (ops ++ [OpClear])) = None /\ st_signature (sig_run (ops ++ [OpClear])) = None.
Proof. exact sig_clear_forgets_channel. Qed.
Print Assumptions C16_clear_forgets_channel.

(* Claim.get_message: asking a typed claim for the view of another type is refused and NEVER changes the claim,
   whatever the sequence of requests; only a fresh claim takes the type it is first asked for *)
Theorem C16_claim_view_typed : forall c req : N,
  fst (claim_view (Some c) req) = Some c /\ (snd (claim_view (Some c) req) = true <-> c = req).
Proof. exact claim_view_typed. Qed.
Print Assumptions C16_claim_view_typed.

Theorem C16_claim_view_history : forall (c : N) (reqs : list N),
  fold_left (fun cur r => fst (claim_view cur r)) reqs (Some c) = Some c.
Proof. exact claim_view_history. Qed.
Print Assumptions C16_claim_view_history.

(* ================= (c) URLs ================= *)

(* every well-formed URL value prints to a string that parses back to exactly that value *)
Theorem C16_url_parse_print : forall u : url, url_wf u -> url_parse (url_print u) = Some u.
Proof. exact url_parse_print. Qed.
Print Assumptions C16_url_parse_print.

(* every accepted string prints back as its canonical spelling (scheme added when omitted, '#' as ':'),
   and its reading is well-formed *)
Theorem C16_url_print_parse : forall (s : str) (u : url),
  url_parse s = Some u -> url_print u = canon s /\ url_wf u.
Proof. exact url_print_parse. Qed.
Print Assumptions C16_url_print_parse.

(* the parser accepts exactly the sentences of the grammar (stated without reference to the parser), each
   with its reading -- for ALL strings *)
Theorem C16_url_grammar : forall (s : str) (u : url), url_parse s = Some u <-> in_grammar s u.
Proof. exact url_parse_iff. Qed.
Print Assumptions C16_url_grammar.

Theorem C16_url_rejects : forall s : str, (forall u, ~ in_grammar s u) -> url_parse s = None.
Proof. exact url_rejects_outside. Qed.
Print Assumptions C16_url_rejects.

(* ANY string containing, anywhere, a forbidden code point other than the structural : # $ / @ is refused *)
Theorem C16_url_rejects_forbidden : forall (s : str) (c : N),
  In c s -> hard_forbidden c = true -> url_parse s = None.
Proof. exact url_rejects_forbidden. Qed.
Print Assumptions C16_url_rejects_forbidden.

(* ... in particular trailing garbage such as the newline that the regex used to let through *)
Theorem C16_url_rejects_trailing_newline : forall s : str, url_parse (s ++ [10]) = None.
Proof. exact url_rejects_trailing_newline. Qed.
Print Assumptions C16_url_rejects_trailing_newline.

(* names never contain a forbidden code point, the structural ones included *)
Theorem C16_url_names_allowed : forall (s : str) (u : url), in_grammar s u ->
  match u with
  | UStream g => forallb name_char (seg_name g) = true
  | UChannel c => forallb name_char (tl (seg_name c)) = true
  | UChannelStream c g => forallb name_char (tl (seg_name c)) = true /\ forallb name_char (seg_name g) = true
  end.
Proof. exact grammar_names_allowed. Qed.
Print Assumptions C16_url_names_allowed.

(* a stream or channel URL (with or without scheme) whose ':' '#' '$' is followed by anything but 1..40
   lower-case hex digits resp. [1-9][0-9]* is refused *)
Theorem C16_url_rejects_bad_modifier : forall (p pre nm : str) (c : N) (x : str),
  scheme_opt p -> (pre = [] \/ pre = [AT]) -> nm <> [] -> forallb name_char nm = true ->
  ~ In SLASH x -> bad_modifier c x ->
  url_parse (p ++ pre ++ nm ++ c :: x) = None.
Proof. exact url_rejects_bad_modifier. Qed.
Print Assumptions C16_url_rejects_bad_modifier.

(* a string has at most one reading; printing is injective; the canonical spelling is a fixed point *)
Theorem C16_url_unambiguous : forall (s : str) (u1 u2 : url), in_grammar s u1 -> in_grammar s u2 -> u1 = u2.
Proof. exact url_unambiguous. Qed.
Print Assumptions C16_url_unambiguous.

Theorem C16_url_print_injective : forall u1 u2 : url, url_wf u1 -> url_wf u2 -> url_print u1 = url_print u2 -> u1 = u2.
Proof. exact url_print_inj. Qed.
Print Assumptions C16_url_print_injective.

Theorem C16_url_canon_stable : forall (s : str) (u : url),
  url_parse s = Some u -> url_parse (canon s) = Some u /\ canon (canon s) = canon s.
Proof. exact url_canon_stable. Qed.
Print Assumptions C16_url_canon_stable.

(* ================= (d) hex / byte-order views of the accessors ================= *)

(* unhexlify (hexlify b) = b for every byte string: sd_hash, file_hash, bt_infohash, public_key *)
Theorem C16_hex_roundtrip : forall b : bytes, unhexlify (hexlify b) = Some b.
Proof. exact unhexlify_hexlify. Qed.
Print Assumptions C16_hex_roundtrip.

(* claim_id / signing_channel_id (reversed byte order): the hash read back is the hash that was set *)
Theorem C16_claim_id_roundtrip : forall h : bytes, hash_of_claim_id (claim_id_of_hash h) = Some h.
Proof. exact claim_id_roundtrip. Qed.
Print Assumptions C16_claim_id_roundtrip.

(* the id of a 20-byte hash is 40 lower-case hex digits, i.e. a full claim id of the URL grammar *)
Theorem C16_claim_id_shape : forall h : bytes, length h = 20%nat ->
  length (claim_id_of_hash h) = 40%nat /\ forallb is_lower_hex (claim_id_of_hash h) = true.
Proof. exact claim_id_shape. Qed.
Print Assumptions C16_claim_id_shape.

(* ================= non-vacuity ================= *)
Example C16_ex_env : env_decode (env_encode (Signed (repeat x07 20) (repeat x05 64) [x0a; x00])) =
                     EnvOk (Signed (repeat x07 20) (repeat x05 64) [x0a; x00]).
Proof. vm_compute. reflexivity. Qed.
Example C16_ex_env_wf : env_wf (Signed (repeat x07 20) (repeat x05 64) [x0a; x00]).
Proof. exact ex_env_wf. Qed.
Example C16_ex_varint : (varint_encode 300, varint_decode [xac; x02; x07]) = ([xac; x02], Some (300, [x07])).
Proof. vm_compute. reflexivity. Qed.
(* message 0 has a sub-message (id 1) at field 1; a tree using it fits, serialises and parses back *)
Example C16_ex_tree :
  let sch := [(0, [(1, KMsg 1); (8, KBytes)]); (1, [(2, KBytes); (5, KVarint)])] in
  let t := [(1, TMsg [(2, TBytes [x61]); (5, TVarint 18446744073709551615)]); (8, TBytes [x68; x69])] in
  (tfields_ok sch 0 t, fdepth t, parse_tree sch 2 0 (ser_tree t)) = (true, 2%nat, WOk t).
Proof. vm_compute. reflexivity. Qed.
(* "lbry://@a#1/b$2"  and its canonical spelling *)
Example C16_ex_url :
  let s := [108; 98; 114; 121; 58; 47; 47; 64; 97; 35; 49; 47; 98; 36; 50] in
  (url_parse s, canon s) =
  (Some (UChannelStream {| seg_name := [64; 97]; seg_mod := MClaimId [49] |}
                        {| seg_name := [98]; seg_mod := MAmount [50] |}),
   [108; 98; 114; 121; 58; 47; 47; 64; 97; 58; 49; 47; 98; 36; 50]).
Proof. vm_compute. reflexivity. Qed.
(* "foo\n", "a:g", "a$0" are refused; the hypotheses of the bad-modifier theorem are inhabited *)
Example C16_ex_reject : (url_parse [102; 111; 111; 10], url_parse [97; 58; 103], url_parse [97; 36; 48]) = (None, None, None).
Proof. vm_compute. reflexivity. Qed.
Example C16_ex_bad_modifier : bad_modifier 58 [103] /\ bad_modifier 36 [48].
Proof. exact bad_modifier_inhabited. Qed.
Example C16_ex_claim_id : (claim_id_of_hash [x01; xab; xff], hash_of_claim_id [x66; x46; x61; x62; x30; x31]) =
                          ([x66; x66; x61; x62; x30; x31], Some [x01; xab; xff]).
Proof. vm_compute. reflexivity. Qed.
Example C16_ex_unsigned_payload :
  v1_unsigned_payload (ser_fields [(1, WVarint 1); (3, WLen [x61]); (5, WLen [x08; x01])]) =
  WOk (ser_fields [(1, WVarint 1); (3, WLen [x61])]).
Proof. vm_compute. reflexivity. Qed.
(* a 76-byte object in a claim_name output: PUSHDATA1 is used and the bytes come back *)
Example C16_ex_embed_76 :
  match embed CarrierClaimName [x6e] [] (repeat x01 20) (repeat x07 76) with
  | Some s => (nth 3 s x00, extract_payload s)
  | None => (x00, None)
  end = (x4c, Some (repeat x07 76)).
Proof. vm_compute. reflexivity. Qed.
Example C16_ex_media_step :
  (media_step (Some (1, (1920, 1080, 3600))) None None None None,
   media_step (Some (1, (1920, 1080, 3600))) (Some 1) (Some 0) None None,
   media_step (Some (1, (1920, 1080, 3600))) (Some 0) None (Some 4) None) =
  (None, Some (1, (0, 1080, 3600)), Some (0, (0, 4, 0))).
Proof. vm_compute. reflexivity. Qed.
(* the 25 raw bytes 00 01 .. 18 of a Bitcoin-style address: the text starts with '1' and decodes back *)
Example C16_ex_btc_address :
  match fee_address (x00 :: map byte_of_N [1;2;3;4;5;6;7;8;9;10;11;12;13;14;15;16;17;18;19;20;21;22;23;24]%N) with
  | Some t => (hd x00 t, fee_address_bytes t)
  | None => (x00, Err EEmpty)
  end = (x31, Ok (x00 :: map byte_of_N [1;2;3;4;5;6;7;8;9;10;11;12;13;14;15;16;17;18;19;20;21;22;23;24]%N)).
Proof. vm_compute. reflexivity. Qed.
