(* C16 property theorems: statements only, each closed by [exact]. *)
From Coq Require Import NArith ZArith List Bool.
From Coq.Strings Require Import Byte.
From LV Require Import Lib.Bytes Model.C16_Env Proofs.C16_Env.
Import ListNotations.

(* ---------- (a) the signature envelope ---------- *)

(* Signed (any 20-byte channel hash, any 64-byte signature) or unsigned, over ANY payload bytes:
   from_bytes (to_bytes e) = e. *)
Theorem C16_envelope_roundtrip : forall e : envelope, env_wf e -> env_decode (env_encode e) = EnvOk e.
Proof. exact env_roundtrip. Qed.
Print Assumptions C16_envelope_roundtrip.

(* every version byte other than 0 and 1 is refused, whatever follows *)
Theorem C16_envelope_rejects_version : forall (b : byte) (r : bytes),
  b <> x00 -> b <> x01 -> env_decode (b :: r) = EnvVersion.
Proof. exact env_rejects_version. Qed.
Print Assumptions C16_envelope_rejects_version.
