(* C08 property theorems: statements only, each closed by [exact].
   dsha (double SHA-256) is universally quantified: no assumption about it anywhere, except the
   explicitly stated fixed-output-length premises of C08_binding_64 / C08_binding_any_width. *)
From Coq Require Import NArith ZArith List Bool.
From Coq.Strings Require Import Byte.
From LV Require Import Wire.CompactSize Wire.Tx Model.C05 Model.C08_Tx Proofs.C08_Tx.
From LV Require Import Lib.Bytes Lib.Decimal Model.C08 Model.C08_Claim Model.C08_Cache Model.C08_Chunk Model.C08_Db Proofs.C08 Proofs.C08_Cache Proofs.C08_Chunk Proofs.C08_Db.
Import ListNotations.

(* Every genuine proof is accepted: for ALL leaf lists and ALL indices, folding the generated branch
   with the index as position gives the Merkle root (induction over the tree levels). *)
Theorem C08_genuine_proofs_accepted : forall (dsha : bytes -> bytes) (l : list bytes) (idx : nat),
  (idx < length l)%nat ->
  exists r, merkle_root dsha l = Some r /\
            fold_branch dsha (branch dsha l idx) (Z.of_nat idx) (nth idx l []) = r.
Proof. exact genuine. Qed.
Print Assumptions C08_genuine_proofs_accepted.

(* Same on the wire format the code receives (hex of the reversed hashes), through
   get_root_of_merkle_tree itself: the result is the hex form of the root. *)
Theorem C08_genuine_proofs_accepted_wire : forall (dsha : bytes -> bytes) (l : list bytes) (idx : nat),
  (idx < length l)%nat ->
  exists r, merkle_root dsha l = Some r /\
    get_root_of_merkle_tree dsha (map wire (branch dsha l idx)) (Z.of_nat idx) (nth idx l []) = Some (wire r).
Proof. exact genuine_wire. Qed.
Print Assumptions C08_genuine_proofs_accepted_wire.

(* Binding: two different (branch, leaf) of equal branch length (siblings pairwise of equal width)
   whose positions agree modulo 2^len and that fold to the same root give an explicit pair of
   different inputs with the same hash, computed by [collision].  No assumption on dsha. *)
Theorem C08_binding : forall (dsha : bytes -> bytes) br1 br2 p1 p2 leaf1 leaf2,
  same_widths br1 br2 ->
  (p1 mod 2 ^ Z.of_nat (length br1) = p2 mod 2 ^ Z.of_nat (length br1))%Z ->
  (br1, leaf1) <> (br2, leaf2) ->
  fold_branch dsha br1 p1 leaf1 = fold_branch dsha br2 p2 leaf2 ->
  exists x y, collision dsha br1 br2 p1 p2 leaf1 leaf2 = Some (x, y) /\ x <> y /\ dsha x = dsha y.
Proof. exact binding. Qed.
Print Assumptions C08_binding.

(* ... and with 32-byte hashes, siblings and leaves the colliding inputs are 64 bytes long. *)
Theorem C08_binding_64 : forall (dsha : bytes -> bytes) br1 br2 p1 p2 leaf1 leaf2,
  (forall x, length (dsha x) = 32%nat) ->
  length br1 = length br2 ->
  Forall (fun b : bytes => length b = 32%nat) br1 -> Forall (fun b : bytes => length b = 32%nat) br2 ->
  length leaf1 = 32%nat -> length leaf2 = 32%nat ->
  (p1 mod 2 ^ Z.of_nat (length br1) = p2 mod 2 ^ Z.of_nat (length br1))%Z ->
  (br1, leaf1) <> (br2, leaf2) ->
  fold_branch dsha br1 p1 leaf1 = fold_branch dsha br2 p2 leaf2 ->
  exists x y, collision dsha br1 br2 p1 p2 leaf1 leaf2 = Some (x, y) /\ x <> y /\ dsha x = dsha y /\
              length x = 64%nat /\ length y = 64%nat.
Proof. exact binding_64. Qed.
Print Assumptions C08_binding_64.

(* The code does not check the width of the siblings it is given; for a hash with a fixed output
   length (any length) and leaves of equal length binding holds for siblings of ANY width. *)
Theorem C08_binding_any_width : forall (dsha : bytes -> bytes) br1 br2 p1 p2 leaf1 leaf2,
  (forall x y, length (dsha x) = length (dsha y)) ->
  length br1 = length br2 -> length leaf1 = length leaf2 ->
  (p1 mod 2 ^ Z.of_nat (length br1) = p2 mod 2 ^ Z.of_nat (length br1))%Z ->
  (br1, leaf1) <> (br2, leaf2) ->
  fold_branch dsha br1 p1 leaf1 = fold_branch dsha br2 p2 leaf2 ->
  exists x y, collision dsha br1 br2 p1 p2 leaf1 leaf2 = Some (x, y) /\ x <> y /\ dsha x = dsha y.
Proof. exact binding_fixed_out. Qed.
Print Assumptions C08_binding_any_width.

(* SPV soundness against the block: an accepted (branch, position, leaf) with the branch length of the
   block's tree and position naming index j carries exactly the j-th transaction hash of the block (and
   the genuine branch) -- otherwise [collision] exhibits a collision.  No assumption on dsha. *)
Theorem C08_verified_means_member : forall (dsha : bytes -> bytes) l br pos leaf r j,
  merkle_root dsha l = Some r -> (j < length l)%nat ->
  (pos mod 2 ^ Z.of_nat (length br) = Z.of_nat j)%Z ->
  same_widths br (branch dsha l j) ->
  fold_branch dsha br pos leaf = r ->
  (leaf = nth j l [] /\ br = branch dsha l j) \/
  exists x y, collision dsha br (branch dsha l j) pos (Z.of_nat j) leaf (nth j l []) = Some (x, y) /\
              x <> y /\ dsha x = dsha y.
Proof. exact verified_member. Qed.
Print Assumptions C08_verified_means_member.

(* Altering the transaction: a different raw transaction accepted with the same branch and position
   gives a collision (either the two transactions themselves or a pair found by [collision]). *)
Theorem C08_tx_mutation : forall (dsha : bytes -> bytes) br pos raw1 raw2,
  raw1 <> raw2 ->
  fold_branch dsha br pos (dsha raw1) = fold_branch dsha br pos (dsha raw2) ->
  exists x y, x <> y /\ dsha x = dsha y /\
    ((x, y) = (raw1, raw2) \/ collision dsha br br pos pos (dsha raw1) (dsha raw2) = Some (x, y)).
Proof. exact tx_mutation. Qed.
Print Assumptions C08_tx_mutation.

(* Altering one position bit k below the branch length: if the altered proof still folds to the same
   root then either both sides hash the very same input at level k -- sibling ++ running hash =
   running hash ++ sibling, i.e. for equal widths the sibling IS the running hash, Bitcoin's
   duplicated last node (see C08_ex_dup_sibling) -- or [collision] returns an explicit collision. *)
Theorem C08_position_bit_mutation : forall (dsha : bytes -> bytes) br pos' pos leaf k,
  (k < length br)%nat ->
  Z.testbit pos' (Z.of_nat k) = negb (Z.testbit pos (Z.of_nat k)) ->
  (forall j, (j < length br)%nat -> j <> k -> Z.testbit pos' (Z.of_nat j) = Z.testbit pos (Z.of_nat j)) ->
  fold_branch dsha br pos' leaf = fold_branch dsha br pos leaf ->
  (nth k br [] ++ fold_branch dsha (firstn k br) pos leaf =
   fold_branch dsha (firstn k br) pos leaf ++ nth k br []) \/
  exists x y, collision dsha br br pos' pos leaf leaf = Some (x, y) /\ x <> y /\ dsha x = dsha y.
Proof. exact position_flip. Qed.
Print Assumptions C08_position_bit_mutation.

Theorem C08_same_input_means_same_node : forall b w : bytes, length b = length w -> b ++ w = w ++ b -> b = w.
Proof. exact app_comm_same_len. Qed.
Print Assumptions C08_same_input_means_same_node.

(* The FOLD does not look at position bits at or above the branch length; since fix 3419b3f
   maybe_verify refuses such positions before folding (C08_verified_position_fits). *)
Theorem C08_high_position_bits_ignored : forall (dsha : bytes -> bytes) br p1 p2 w,
  (p1 mod 2 ^ Z.of_nat (length br) = p2 mod 2 ^ Z.of_nat (length br))%Z ->
  fold_branch dsha br p1 w = fold_branch dsha br p2 w.
Proof. exact fold_branch_mod. Qed.
Print Assumptions C08_high_position_bits_ignored.

(* The generated branch is long enough to address every transaction of the block: n <= 2^len. *)
Theorem C08_branch_covers_block : forall (dsha : bytes -> bytes) l idx,
  (1 <= length l)%nat -> (length l <= 2 ^ length (branch dsha l idx))%nat.
Proof. exact branch_length_covers. Qed.
Print Assumptions C08_branch_covers_block.

(* Branch length +1 (partial: characterisation only).  Accepting a proof extended by one sibling e
   against the root r of the original proof means dsha (e ++ r) = r or dsha (r ++ e) = r, a hash
   input that contains its own hash.  Missing: without an assumption on dsha this cannot be turned
   into a collision, so "fails" is not derived; branch length -1 is the same equation read the other
   way round. *)
Theorem C08_length_mutation_partial : forall (dsha : bytes -> bytes) br e pos leaf,
  fold_branch dsha (br ++ [e]) pos leaf =
  dsha (combine (Z.testbit pos (Z.of_nat (length br))) e (fold_branch dsha br pos leaf)).
Proof. exact fold_branch_snoc. Qed.
Print Assumptions C08_length_mutation_partial.

(* The verified flag of a not yet verified transaction is set iff 0 < height < len(headers) and the
   dict in use carries 'merkle' and 'pos', the siblings decode, the fold from dsha(raw tx) equals
   bytes 36..67 of the header stored at that height, and the position fits the branch
   (0 <= pos < 2^len(branch), fix 3419b3f). *)
Theorem C08_verified_iff : forall (dsha : bytes -> bytes) headers st raw h arg net,
  t_verified st = false ->
  (t_verified (mv_state (maybe_verify dsha headers st raw h arg net)) = true <->
   (0 < h < Z.of_nat (length headers))%Z /\
   exists brs pos br, m_merkle (effective arg net) = Some brs /\ m_pos (effective arg net) = Some pos /\
     decode_branches brs = Some br /\
     fold_branch dsha br pos (dsha raw) = header_root_raw (nth (Z.to_nat h) headers []) /\
     pos_fits brs pos = true).
Proof. exact verified_iff. Qed.
Print Assumptions C08_verified_iff.

(* For every previous state: when the call evaluates a proof the flag is OVERWRITTEN by the result
   of the comparison; in every other case (unknown height, no 'merkle' key, exception) it keeps its
   previous value. *)
Theorem C08_verified_char : forall (dsha : bytes -> bytes) headers st raw h arg net,
  let r := maybe_verify dsha headers st raw h arg net in
  (in_range headers h /\ mv_outcome r = RetTx ->
     (t_verified (mv_state r) = true <-> proof_checks dsha headers raw h (effective arg net))) /\
  (~ (in_range headers h /\ mv_outcome r = RetTx) -> t_verified (mv_state r) = t_verified st).
Proof. exact verified_char. Qed.
Print Assumptions C08_verified_char.

(* Heights without a header (h <= 0 or h >= len(headers)): nothing but tx.height changes, the
   network is not asked. *)
Theorem C08_unknown_height_never_verified : forall (dsha : bytes -> bytes) headers st raw h arg net,
  ~ (0 < h < Z.of_nat (length headers))%Z ->
  let r := maybe_verify dsha headers st raw h arg net in
  t_verified (mv_state r) = t_verified st /\ t_position (mv_state r) = t_position st /\
  mv_outcome r = RetTx /\ mv_fetched r = false.
Proof. exact unknown_height_never_verified. Qed.
Print Assumptions C08_unknown_height_never_verified.

(* The supplied position (and always the height) is recorded on the transaction when the proof is
   evaluated; a position the branch cannot address (negative, or >= 2^len(branch)) is NOT recorded and
   the flag is forced to False (fix 3419b3f; before it, bits at or above the branch length were ignored
   and the bogus value was stored). *)
Theorem C08_position_recorded : forall (dsha : bytes -> bytes) headers st raw h arg net,
  let r := maybe_verify dsha headers st raw h arg net in
  in_range headers h -> mv_outcome r = RetTx ->
  exists brs pos, m_merkle (effective arg net) = Some brs /\ m_pos (effective arg net) = Some pos /\
    (if pos_fits brs pos then t_position (mv_state r) = pos
     else t_position (mv_state r) = t_position st /\ t_verified (mv_state r) = false).
Proof. exact position_recorded. Qed.
Print Assumptions C08_position_recorded.

(* Altering the position beyond the branch: a verified transaction's recorded position is the supplied
   one and lies in [0, 2^len(branch)). *)
Theorem C08_verified_position_fits : forall (dsha : bytes -> bytes) headers st raw h arg net,
  t_verified st = false ->
  t_verified (mv_state (maybe_verify dsha headers st raw h arg net)) = true ->
  exists brs, m_merkle (effective arg net) = Some brs /\
    m_pos (effective arg net) = Some (t_position (mv_state (maybe_verify dsha headers st raw h arg net))) /\
    (0 <= t_position (mv_state (maybe_verify dsha headers st raw h arg net)) < 2 ^ Z.of_nat (length brs))%Z.
Proof. exact verified_position_fits. Qed.
Print Assumptions C08_verified_position_fits.

Theorem C08_height_recorded : forall (dsha : bytes -> bytes) headers st raw h arg net,
  t_height (mv_state (maybe_verify dsha headers st raw h arg net)) = h.
Proof. exact height_recorded. Qed.
Print Assumptions C08_height_recorded.

(* End to end: the genuine proof of transaction idx of a block whose root is in the header at a
   known height is accepted through maybe_verify, with position idx recorded. *)
Theorem C08_genuine_verified : forall (dsha : bytes -> bytes) headers st raws idx h arg net r,
  (idx < length raws)%nat -> in_range headers h ->
  merkle_root dsha (map dsha raws) = Some r ->
  header_root_raw (nth (Z.to_nat h) headers []) = r ->
  effective arg net = {| m_merkle := Some (map wire (branch dsha (map dsha raws) idx));
                         m_pos := Some (Z.of_nat idx) |} ->
  let res := maybe_verify dsha headers st (nth idx raws []) h arg net in
  t_verified (mv_state res) = true /\ t_position (mv_state res) = Z.of_nat idx /\
  t_height (mv_state res) = h /\ mv_outcome res = RetTx.
Proof. exact genuine_verified. Qed.
Print Assumptions C08_genuine_verified.

(* Altering the height: the same proof verifies at another height only if that height has a header
   and this header carries the same Merkle root. *)
Theorem C08_height_mutation : forall (dsha : bytes -> bytes) headers st raw h h' arg net,
  t_verified st = false ->
  t_verified (mv_state (maybe_verify dsha headers st raw h arg net)) = true ->
  t_verified (mv_state (maybe_verify dsha headers st raw h' arg net)) = true ->
  in_range headers h' /\
  header_root_raw (nth (Z.to_nat h') headers []) = header_root_raw (nth (Z.to_nat h) headers []).
Proof. exact height_mutation. Qed.
Print Assumptions C08_height_mutation.

(* End-to-end soundness: if the header at height h carries the root of the block made of raws and a
   not yet verified transaction comes out verified, then the dict in use carried a decodable branch and
   a position such that, whenever the position's low bits name index j of the block and the branch has
   the shape of the block's own branch for j, the transaction's hash IS the hash of the block's j-th
   transaction -- or [collision] exhibits a collision. *)
Theorem C08_verified_tx_in_block : forall (dsha : bytes -> bytes) headers st raw h arg net raws r,
  t_verified st = false ->
  t_verified (mv_state (maybe_verify dsha headers st raw h arg net)) = true ->
  merkle_root dsha (map dsha raws) = Some r ->
  header_root_raw (nth (Z.to_nat h) headers []) = r ->
  exists brs pos br,
    m_merkle (effective arg net) = Some brs /\ m_pos (effective arg net) = Some pos /\
    decode_branches brs = Some br /\
    forall j, (j < length raws)%nat ->
      (pos mod 2 ^ Z.of_nat (length br) = Z.of_nat j)%Z ->
      same_widths br (branch dsha (map dsha raws) j) ->
      (dsha raw = dsha (nth j raws []) /\ br = branch dsha (map dsha raws) j) \/
      exists x y, collision dsha br (branch dsha (map dsha raws) j) pos (Z.of_nat j) (dsha raw) (dsha (nth j raws []))
                    = Some (x, y) /\ x <> y /\ dsha x = dsha y.
Proof. exact verified_tx_in_block. Qed.
Print Assumptions C08_verified_tx_in_block.

(* Why a flipped position bit can stay accepted (the reading of "altering the position"): a block
   with an odd number n >= 3 of transactions and the same block with its last transaction repeated
   have the SAME Merkle root, so position n of the longer block is a genuine proof for the same header. *)
Theorem C08_dup_last_same_root : forall (dsha : bytes -> bytes) (l : list bytes),
  Nat.odd (length l) = true -> (3 <= length l)%nat ->
  merkle_root dsha (l ++ [last l []]) = merkle_root dsha l.
Proof. exact dup_last_same_root. Qed.
Print Assumptions C08_dup_last_same_root.

(* ---------- the cache around maybe_verify_transaction (request_transactions(cached=True), update_headers) ---------- *)
(* For EVERY sequence of cached requests, header extensions and reorganisations, starting from an empty
   cache: a request that is answered from the cache returns a transaction flagged verified whose stored
   bytes and proof check against the header the wallet holds NOW at that height. *)
Theorem C08_cache_hit_sound : forall (dsha : bytes -> bytes) headers0 ops key raw h arg net st,
  let s := final dsha {| w_headers := headers0; w_cache := [] |} ops in
  snd (request dsha s key raw h arg net) = Hit st ->
  t_verified st = true /\
  exists e, lookup key (w_cache s) = Some (Some e) /\ c_st e = st /\
            (0 < t_height st < Z.of_nat (length (w_headers s)))%Z /\
            proof_checks dsha (w_headers s) (c_raw e) (t_height st) (c_resp e).
Proof. exact cache_hit_sound. Qed.
Print Assumptions C08_cache_hit_sound.

(* ... and the same for whatever sits in the cache after a request (served or downloaded). *)
Theorem C08_cache_entries_sound : forall (dsha : bytes -> bytes) headers0 ops key raw h arg net,
  let s := final dsha {| w_headers := headers0; w_cache := [] |} ops in
  let s' := fst (request dsha s key raw h arg net) in
  forall e, lookup key (w_cache s') = Some (Some e) -> entry_ok dsha (w_headers s') e.
Proof. exact request_verified_sound. Qed.
Print Assumptions C08_cache_entries_sound.

(* An item cached while it could not be verified (e.g. its header was not known yet) never answers a
   request: the transaction is downloaded and checked again ... *)
Theorem C08_cached_unverified_is_refetched : forall (dsha : bytes -> bytes) s key raw h arg net e,
  lookup key (w_cache s) = Some (Some e) -> t_verified (c_st e) = false ->
  snd (request dsha s key raw h arg net) =
  Fetched (mv_state (maybe_verify dsha (w_headers s) (fresh h) raw h arg net))
          (mv_outcome (maybe_verify dsha (w_headers s) (fresh h) raw h arg net)).
Proof. exact unverified_item_is_refetched. Qed.
Print Assumptions C08_cached_unverified_is_refetched.

(* ... so a genuine proof presented through the cached path at a height that now has the block's header
   always comes back verified, whatever the cache held. *)
Theorem C08_genuine_request_verified : forall (dsha : bytes -> bytes) s key raws idx h arg net r,
  (idx < length raws)%nat -> in_range (w_headers s) h ->
  merkle_root dsha (map dsha raws) = Some r ->
  header_root_raw (nth (Z.to_nat h) (w_headers s) []) = r ->
  effective arg net = {| m_merkle := Some (map wire (branch dsha (map dsha raws) idx));
                         m_pos := Some (Z.of_nat idx) |} ->
  match snd (request dsha s key (nth idx raws []) h arg net) with
  | Hit st => t_verified st = true
  | Fetched st out => t_verified st = true /\ t_height st = h /\ t_position st = Z.of_nat idx /\ out = RetTx
  end.
Proof. exact genuine_request_verified. Qed.
Print Assumptions C08_genuine_request_verified.

(* ---------- checkpointed header chunks fetched on demand (Headers.get -> ensure_chunk_at -> fetch_chunk) ---------- *)
(* Starting with every checkpointed chunk missing, for EVERY sequence of verification attempts and WHATEVER
   the server answers to the chunk getter: an attempt that ends with the transaction flagged verified
   read its header from a chunk c whose hash equals the built-in checkpoint of that chunk, and the proof
   checks against that header; an attempt that ends in "Checkpoint mismatch" leaves the flag false. *)
Theorem C08_chunk_attempts_sound : forall (dsha : bytes -> bytes) (csize : nat) (cps : list bytes) l,
  Forall2 (fun a o =>
    match o with
    | AttDone r _ =>
        t_verified (mv_state r) = true ->
        exists c, nth_error cps (Z.to_nat (a_height a) / csize) = Some (dsha (concat c)) /\
                  in_range (table csize cps (Z.to_nat (a_height a) / csize) c) (a_height a) /\
                  proof_checks dsha (table csize cps (Z.to_nat (a_height a) / csize) c) (a_raw a) (a_height a)
                               (effective (a_arg a) (a_net a))
    | AttMismatch st => t_verified st = false
    end) l (snd (attempts dsha csize cps [] l)).
Proof. exact chunk_attempts_sound. Qed.
Print Assumptions C08_chunk_attempts_sound.

(* The same after a RESTART on a header file with arbitrary content (edited header inside a chunk, torn
   write, anything): Headers.open keeps a checkpointed chunk only if the stored bytes hash to its
   checkpoint, so every later verified result again read a header of a checkpoint-matching chunk. *)
Theorem C08_chunk_reopen_sound : forall (dsha : bytes -> bytes) (csize : nat) (cps : list bytes) disk l,
  Forall2 (att_ok dsha csize cps) l (snd (attempts dsha csize cps (reopen dsha cps disk) l)).
Proof. exact chunk_reopen_sound. Qed.
Print Assumptions C08_chunk_reopen_sound.

(* the header such a verification reads at height h is header (h - k*csize) of chunk k *)
Theorem C08_chunk_table_reads_chunk : forall (dsha : bytes -> bytes) (csize : nat) (cps : list bytes) k c h d,
  (k * csize <= h < k * csize + length c)%nat -> (h < total csize cps)%nat ->
  nth h (table csize cps k c) d = nth (h - k * csize) c d.
Proof. exact nth_table. Qed.
Print Assumptions C08_chunk_table_reads_chunk.

(* ---------- the leaf of a witness-serialised transaction ---------- *)
(* The txid preimage of the witness encoding of (t, flag, witnesses), trailing bytes included, is the
   legacy encoding of t -- for every well-formed t, i.e. every script length and every number of inputs
   and outputs (252, 253, 254, 65535, 65536, ...). *)
Theorem C08_witness_txid_preimage : forall t flag wits rest,
  wf_tx t -> wf_wits t wits -> (0 < flag < 256)%N ->
  txid_preimage (serialize_segwit t flag wits ++ rest) = Some (serialize t).
Proof. exact preimage_segwit. Qed.
Print Assumptions C08_witness_txid_preimage.

(* End to end: a block whose idx-th transaction has the legacy encoding of t; the server returns t
   witness-serialised together with the genuine proof: verified, position idx recorded. *)
Theorem C08_witness_tx_genuine_verified : forall (dsha : bytes -> bytes) headers st pres idx t flag wits rest h arg net r,
  wf_tx t -> wf_wits t wits -> (0 < flag < 256)%N ->
  (idx < length pres)%nat -> nth idx pres [] = serialize t ->
  in_range headers h ->
  merkle_root dsha (map dsha pres) = Some r ->
  header_root_raw (nth (Z.to_nat h) headers []) = r ->
  effective arg net = {| m_merkle := Some (map wire (branch dsha (map dsha pres) idx));
                         m_pos := Some (Z.of_nat idx) |} ->
  exists res, maybe_verify_raw dsha headers st (serialize_segwit t flag wits ++ rest) h arg net = Some res /\
    t_verified (mv_state res) = true /\ t_position (mv_state res) = Z.of_nat idx /\
    t_height (mv_state res) = h /\ mv_outcome res = RetTx.
Proof. exact witness_tx_genuine_verified. Qed.
Print Assumptions C08_witness_tx_genuine_verified.

(* ---------- restarts and the persisted verdict ---------- *)
(* A restart (close writes the chain held in memory, a new process opens the file) leaves exactly the
   header list the last extension / reorganisation produced, for every history -- in particular after a
   reorganisation that did not change the chain length. *)
Theorem C08_restart_keeps_validated_headers : forall (dsha : bytes -> bytes) headers0 ops,
  w_headers (final dsha {| w_headers := headers0; w_cache := [] |} (ops ++ [OpRestart])) =
  w_headers (final dsha {| w_headers := headers0; w_cache := [] |} ops).
Proof. exact restart_after_any_history. Qed.
Print Assumptions C08_restart_keeps_validated_headers.

Theorem C08_reorg_survives_restart : forall (dsha : bytes -> bytes) headers0 ops fork newh,
  w_headers (final dsha {| w_headers := headers0; w_cache := [] |} (ops ++ [OpReorg fork newh; OpRestart])) =
  firstn fork (w_headers (final dsha {| w_headers := headers0; w_cache := [] |} ops)) ++ newh.
Proof. exact reorg_survives_restart. Qed.
Print Assumptions C08_reorg_survives_restart.

(* The database row read back after a history sync is exactly the verdict of THAT verification (fresh
   transaction, the height the server reports now): earlier verdicts leave no trace. *)
Theorem C08_db_row_is_latest_verdict : forall (dsha : bytes -> bytes) s key raw h arg net,
  let r := maybe_verify dsha (d_headers s) (fresh h) raw h arg net in
  (mv_outcome r = RetTx \/ mv_outcome r = RetNone) ->
  row_lookup key (d_rows (dstep dsha s (DSync key raw h arg net))) =
  Some {| c_raw := raw; c_resp := effective arg net; c_st := mv_state r |}.
Proof. exact row_is_latest_verdict. Qed.
Print Assumptions C08_db_row_is_latest_verdict.

(* So a transaction once verified at height A and re-synced at a height that has no header, or with a
   branch that does not lead to that header's root, is stored unverified at the new height. *)
Theorem C08_db_resync_without_proof_unverifies : forall (dsha : bytes -> bytes) s key raw h arg net,
  let r := maybe_verify dsha (d_headers s) (fresh h) raw h arg net in
  (mv_outcome r = RetTx \/ mv_outcome r = RetNone) ->
  ~ (in_range (d_headers s) h /\ proof_checks dsha (d_headers s) raw h (effective arg net)) ->
  exists e, row_lookup key (d_rows (dstep dsha s (DSync key raw h arg net))) = Some e /\
            t_verified (c_st e) = false /\ t_height (c_st e) = h.
Proof. exact resync_without_proof_unverifies. Qed.
Print Assumptions C08_db_resync_without_proof_unverifies.

(* For EVERY sequence of history syncs, header extensions and restarts from an empty table, a stored row
   flagged verified has a header at its height and its proof leads to that header's root. *)
Theorem C08_db_rows_sound : forall (dsha : bytes -> bytes) headers0 ops key e,
  let s := drun dsha {| d_headers := headers0; d_rows := [] |} ops in
  row_lookup key (d_rows s) = Some e -> t_verified (c_st e) = true ->
  in_range (d_headers s) (t_height (c_st e)) /\
  proof_checks dsha (d_headers s) (c_raw e) (t_height (c_st e)) (c_resp e).
Proof. exact db_rows_sound. Qed.
Print Assumptions C08_db_rows_sound.

(* ---------- non-vacuity (each a closed computation: tuples compared component-wise) ---------- *)
(* a 5-leaf tree (two odd levels), index 4: branch of 3 siblings, fold reaches the root *)
Example C08_ex_genuine :
  let l := map leaf_n [1; 2; 3; 4; 5]%N in
  (length (branch toy_hash l 4), Some (fold_branch toy_hash (branch toy_hash l 4) 4 (nth 4 l []))) =
  (3%nat, merkle_root toy_hash l).
Proof. vm_compute. reflexivity. Qed.

(* hypotheses of C08_binding are inhabited and the collision it returns is explicit *)
Example C08_ex_binding :
  (fold_branch const_hash [leaf_n 1] 0 (leaf_n 9),
   collision const_hash [leaf_n 1] [leaf_n 2] 0 0 (leaf_n 9) (leaf_n 9)) =
  (fold_branch const_hash [leaf_n 2] 0 (leaf_n 9),
   Some (leaf_n 9 ++ leaf_n 1, leaf_n 9 ++ leaf_n 2)).
Proof. vm_compute. reflexivity. Qed.

(* the duplicated-last-node exception is real even for a collision-free hash (the identity):
   block of 3, index 2, branch [l2; l0++l1]: the first sibling is the leaf itself, position 2 folds
   to the root, position 3 (bit 0 flipped) folds to the same root, and no collision exists *)
Example C08_ex_dup_sibling :
  let l := map leaf_n [1; 2; 3]%N in
  let br := branch id_hash l 2 in
  (nth 0 br [], Some (fold_branch id_hash br 2 (nth 2 l [])), fold_branch id_hash br 3 (nth 2 l []),
   collision id_hash br br 3 2 (nth 2 l []) (nth 2 l [])) =
  (nth 2 l [], merkle_root id_hash l, fold_branch id_hash br 2 (nth 2 l []), None).
Proof. vm_compute. reflexivity. Qed.

(* maybe_verify on a 3-header table: genuine proof at height 2 verified with position recorded;
   the same call at height 3 (= len headers) and at height 0 leaves the flag alone; another
   transaction with this proof (dict fetched from the network) is evaluated and not verified *)
Example C08_ex_maybe_verify :
  let raws := map leaf_n [1; 2; 3]%N in
  let l := map toy_hash raws in
  let hdrs := [header_with_root (leaf_n 0); header_with_root (leaf_n 0);
               header_with_root (match merkle_root toy_hash l with Some r => r | None => [] end)] in
  let m := {| m_merkle := Some (map wire (branch toy_hash l 2)); m_pos := Some 2%Z |} in
  let st := {| t_height := (-2)%Z; t_position := (-1)%Z; t_verified := false |} in
  (maybe_verify toy_hash hdrs st (nth 2 raws []) 2 (Some m) m,
   maybe_verify toy_hash hdrs st (nth 2 raws []) 3 (Some m) m,
   maybe_verify toy_hash hdrs st (nth 2 raws []) 0 (Some m) m,
   maybe_verify toy_hash hdrs st (nth 1 raws []) 2 None m) =
  (({| t_height := 2; t_position := 2; t_verified := true |}, RetTx, false),
   ({| t_height := 3; t_position := (-1)%Z; t_verified := false |}, RetTx, false),
   ({| t_height := 0; t_position := (-1)%Z; t_verified := false |}, RetTx, false),
   ({| t_height := 2; t_position := 2; t_verified := false |}, RetTx, true)).
Proof. vm_compute. reflexivity. Qed.

(* ---------- legacy claim_proofs.verify_proof: CORRESPONDENCE ONLY, no theorem ----------
   the model (Model/C08_Claim.v) is only run against the real function; this closed computation just
   shows the model accepts a one-node proof of the empty name and rejects it for another name *)
Example C08_ex_legacy_claim_model :
  let th := leaf_n 7 in
  let pf := {| p_nodes := [{| n_children := []; n_value_hash := None |}];
               p_txhash := Some (wire th); p_nout := Some 1%Z; p_takeover := Some 5%Z |} in
  let root := match outpoint_hash toy_hash th 1 5 with Some oh => toy_hash oh | None => [] end in
  (verify_proof toy_hash pf (wire root) [], verify_proof toy_hash pf (wire root) [x61],
   verify_proof toy_hash pf (wire (leaf_n 1)) []) = (CpTrue, CpInvalid, CpInvalid).
Proof. vm_compute. reflexivity. Qed.

(* cache: verified at height 2, served from the cache after an extension, downloaded again (and now
   rejected) after a reorganisation whose lowest replaced height is 2; a transaction first requested
   above the tip is cached unverified and verified on the next request once its header arrived *)
Example C08_ex_cache :
  let raws := map leaf_n [1; 2; 3]%N in
  let l := map toy_hash raws in
  let root := match merkle_root toy_hash l with Some r => r | None => [] end in
  let m := {| m_merkle := Some (map wire (branch toy_hash l 1)); m_pos := Some 1%Z |} in
  let req := OpRequest (leaf_n 77) (nth 1 raws []) 2 (Some m) m in
  let h0 := [header_with_root (leaf_n 0); header_with_root (leaf_n 0)] in
  snd (run toy_hash {| w_headers := h0; w_cache := [] |}
         [req; OpExtend [header_with_root root]; req; OpExtend [header_with_root (leaf_n 9)]; req;
          OpReorg 2 [header_with_root (leaf_n 5); header_with_root (leaf_n 6)]; req]) =
  [Some (Fetched {| t_height := 2; t_position := (-1)%Z; t_verified := false |} RetTx); None;
   Some (Fetched {| t_height := 2; t_position := 1; t_verified := true |} RetTx); None;
   Some (Hit {| t_height := 2; t_position := 1; t_verified := true |}); None;
   Some (Fetched {| t_height := 2; t_position := 1; t_verified := false |} RetTx)].
Proof. vm_compute. reflexivity. Qed.

(* chunks of 2 headers, one checkpoint: a lying server is refused on every attempt (and nothing is
   stored), the honest chunk is accepted, after which the forged proof is evaluated and rejected *)
Example C08_ex_chunk :
  let raws := map leaf_n [1; 2; 3]%N in
  let l := map toy_hash raws in
  let root := match merkle_root toy_hash l with Some r => r | None => [] end in
  let real := [header_with_root (leaf_n 0); header_with_root (leaf_n 4)] in
  let fake := [header_with_root (leaf_n 0); header_with_root root] in
  let m := {| m_merkle := Some (map wire (branch toy_hash l 1)); m_pos := Some 1%Z |} in
  let att c := {| a_served := c; a_raw := nth 1 raws []; a_height := 1; a_arg := Some m; a_net := m |} in
  attempts toy_hash 2 [toy_hash (concat real)] [] [att fake; att fake; att real; att fake] =
  ([(0%nat, real)],
   [AttMismatch {| t_height := 1; t_position := (-1)%Z; t_verified := false |};
    AttMismatch {| t_height := 1; t_position := (-1)%Z; t_verified := false |};
    AttDone ({| t_height := 1; t_position := 1; t_verified := false |}, RetTx, false) true;
    AttDone ({| t_height := 1; t_position := 1; t_verified := false |}, RetTx, false) false]).
Proof. vm_compute. reflexivity. Qed.

(* database row: verified at height 2, re-synced at height 7 (no header): stored (7, unverified) *)
Example C08_ex_db_row :
  let raws := map leaf_n [1; 2; 3]%N in
  let l := map toy_hash raws in
  let root := match merkle_root toy_hash l with Some r => r | None => [] end in
  let m := {| m_merkle := Some (map wire (branch toy_hash l 1)); m_pos := Some 1%Z |} in
  let h0 := [header_with_root (leaf_n 0); header_with_root (leaf_n 0); header_with_root root] in
  let s1 := drun toy_hash {| d_headers := h0; d_rows := [] |} [DSync (leaf_n 77) (nth 1 raws []) 2 (Some m) m] in
  let s2 := drun toy_hash s1 [DSync (leaf_n 77) (nth 1 raws []) 7 (Some m) m; DRestart] in
  (map (fun kv => c_st (snd kv)) (d_rows s1), map (fun kv => c_st (snd kv)) (d_rows s2)) =
  ([{| t_height := 2; t_position := 1; t_verified := true |}],
   [{| t_height := 7; t_position := (-1)%Z; t_verified := false |}]).
Proof. vm_compute. reflexivity. Qed.

(* REFUTED old behaviour (before fix af7a9e2): when a competing tip of the same height replaced header 2
   without a rewind and the cache was kept, the cached request was a Hit flagged verified although the
   stored proof no longer leads to the root of the header now held at height 2 *)
Example C08_cache_kept_on_replacement_refuted :
  let raws := map leaf_n [1; 2; 3]%N in
  let l := map toy_hash raws in
  let root := match merkle_root toy_hash l with Some r => r | None => [] end in
  let m := {| m_merkle := Some (map wire (branch toy_hash l 1)); m_pos := Some 1%Z |} in
  let h0 := [header_with_root (leaf_n 0); header_with_root (leaf_n 0); header_with_root root] in
  let s1 := final toy_hash {| w_headers := h0; w_cache := [] |} [OpRequest (leaf_n 77) (nth 1 raws []) 2 (Some m) m] in
  let s_old := old_replace s1 2 [header_with_root (leaf_n 5)] in
  let s_new := final toy_hash s1 [OpReplace 2 [header_with_root (leaf_n 5)]] in
  (snd (request toy_hash s_old (leaf_n 77) (nth 1 raws []) 2 (Some m) m),
   bytes_eqb (fold_branch toy_hash (branch toy_hash l 1) 1 (toy_hash (nth 1 raws [])))
             (header_root_raw (nth 2 (w_headers s_old) [])),
   snd (request toy_hash s_new (leaf_n 77) (nth 1 raws []) 2 (Some m) m)) =
  (Hit {| t_height := 2; t_position := 1; t_verified := true |}, false,
   Fetched {| t_height := 2; t_position := 1; t_verified := false |} RetTx).
Proof. vm_compute. reflexivity. Qed.

(* position must fit the branch: the fold alone would still reach the root with position 2+4 (bit 2 is
   not consumed by a 2-sibling branch), maybe_verify refuses it and does not record it *)
Example C08_ex_position_must_fit :
  let raws := map leaf_n [1; 2; 3]%N in
  let l := map toy_hash raws in
  let root := match merkle_root toy_hash l with Some r => r | None => [] end in
  let hdrs := [header_with_root (leaf_n 0); header_with_root root] in
  let m := {| m_merkle := Some (map wire (branch toy_hash l 2)); m_pos := Some 6%Z |} in
  let st := {| t_height := (-2)%Z; t_position := (-1)%Z; t_verified := false |} in
  (bytes_eqb (fold_branch toy_hash (branch toy_hash l 2) 6 (nth 2 l [])) root,
   maybe_verify toy_hash hdrs st (nth 2 raws []) 1 (Some m) m) =
  (true, ({| t_height := 1; t_position := (-1)%Z; t_verified := false |}, RetTx, false)).
Proof. vm_compute. reflexivity. Qed.

(* the sample witness transaction of C05: its preimage is the legacy encoding *)
Example C08_ex_witness_preimage :
  txid_preimage (serialize_segwit sample_tx 1 sample_wits) = Some (serialize sample_tx).
Proof. vm_compute. reflexivity. Qed.
