(* C15 property theorems: statements only, each closed by [exact]; definitions they mention live in
   Wire/Push.v (push, push_header, push_form, tokenize, dtok), Wire/Script.v (templates, generate,
   parse_output / parse_input / parse_sub) , Model/C15.v (classify, row_type) and Proofs/C15.v
   (values_fit, expected, pushed, out_shape, class_shape -- explicit token shapes). *)
From Coq Require Import NArith ZArith List Bool.
From Coq.Strings Require Import Byte.
From LV Require Import Lib.Bytes Wire.Push Wire.Script Model.C15 Proofs.C15.
Import ListNotations.
Local Open Scope N_scope.

(* ---- minimal push encoding, at every length below 2^32 ---- *)

(* push_data writes one of the four length-prefix forms the tokenizer accepts, and no accepted form
   for that length is shorter *)
Theorem C15_push_minimal : forall n, n < 4294967296 ->
  push_form (push_header n) n /\ forall h, push_form h n -> (length (push_header n) <= length h)%nat.
Proof. exact push_minimal. Qed.
Print Assumptions C15_push_minimal.

(* whatever follows, the tokenizer reads a pushed datum back as exactly that datum (b'' as OP_0)
   and continues with the rest *)
Theorem C15_push_roundtrip : forall d r, N.of_nat (length d) < 4294967296 ->
  tokenize (push d ++ r) = tcons (dtok d) (tokenize r).
Proof. exact tokenize_push. Qed.
Print Assumptions C15_push_roundtrip.

(* every accepted (also non-minimal) prefix form reads back the datum *)
Theorem C15_push_forms_sound : forall h d r, push_form h (N.of_nat (length d)) -> d <> [] ->
  tokenize (h ++ d ++ r) = tcons (TData d) (tokenize r).
Proof. exact push_form_tokenize. Qed.
Print Assumptions C15_push_forms_sound.

(* a token list is a complete reading of the script: every data token is a full push (one of the four
   header forms followed by exactly the declared number of bytes) -- a push running past the end of the
   script is never read as a shorter datum *)
Theorem C15_tokens_are_full_pushes : forall s toks, tokenize s = TokOk toks -> tok_weight_ok toks s.
Proof. exact tokenize_complete. Qed.
Print Assumptions C15_tokens_are_full_pushes.

(* ---- generate then parse, under the GLOBAL template order ---- *)

(* every OutputScript template, all values (each pushed datum below 2^32 bytes): the generated script
   parses, with no template hint and trying OutputScript.templates in order, to that template and
   exactly those values *)
Theorem C15_generate_parse_output : forall name ops vs, In (name, ops) output_templates ->
  values_fit ops vs ->
  exists s, generate ops vs = Some s /\ parse_output s = SMatch name (expected ops vs).
Proof. exact generate_parse_output_fit. Qed.
Print Assumptions C15_generate_parse_output.

(* the non-multisig InputScript templates (pubkey, pubkey_hash, script_hash+timelock) under the full
   InputScript.templates order, which also contains script_hash+multi_sig *)
Theorem C15_generate_parse_input : forall name ops vs, In (name, ops) input_simple_templates ->
  values_fit ops vs ->
  exists s, generate ops vs = Some s /\ parse_input s = SMatch name (expected ops vs).
Proof. exact generate_parse_input_fit. Qed.
Print Assumptions C15_generate_parse_input.

(* the time-lock redeem script (PUSH_INTEGER height of any width), parsed with its template hint *)
Theorem C15_generate_parse_timelock : forall vs, values_fit (snd TIME_LOCK_SCRIPT) vs ->
  exists s, generate (snd TIME_LOCK_SCRIPT) vs = Some s /\ s <> [] /\
            parse_sub SubTimeLock s = SMatch T_timelock (expected (snd TIME_LOCK_SCRIPT) vs).
Proof. exact generate_parse_timelock_fit. Qed.
Print Assumptions C15_generate_parse_timelock.

(* spending a time-locked output: signature, pubkey and the generated redeem script round-trip
   together, and the carried subscript yields height and pubkey_hash again *)
Theorem C15_generate_parse_timelock_spend : forall sig pk height pkh,
  N.of_nat (length sig) < LIMIT -> N.of_nat (length pk) < LIMIT -> N.of_nat (length pkh) < LIMIT - 32 ->
  height < 2 ^ 64 ->
  exists src s,
    generate (snd TIME_LOCK_SCRIPT) [(F_height, VInt height); (F_pubkey_hash, VBytes pkh)] = Some src /\
    generate (snd REDEEM_SCRIPT_HASH_TIME_LOCK)
             [(F_signature, VBytes sig); (F_pubkey, VBytes pk); (F_script, VSub SubTimeLock src)] = Some s /\
    parse_input s = SMatch T_script_hash_timelock
                      [(F_signature, VBytes sig); (F_pubkey, VBytes pk); (F_script, VSub SubTimeLock src)] /\
    parse_sub SubTimeLock src = SMatch T_timelock [(F_height, VInt height); (F_pubkey_hash, VBytes pkh)].
Proof. exact generate_parse_timelock_spend. Qed.
Print Assumptions C15_generate_parse_timelock_spend.

(* the VALUE of a PUSH_SUBSCRIPT slot is the nested script's source bytes: generation embeds them
   verbatim (never a re-serialisation of the nested values), in every template ... *)
Theorem C15_subscript_verbatim : forall ops vs s n t t' src,
  generate ops vs = Some s -> In (PushSub n t) ops -> lookup n vs = Some (VSub t' src) ->
  exists pre post, s = pre ++ push src ++ post.
Proof. exact subscript_verbatim_general. Qed.
Print Assumptions C15_subscript_verbatim.

(* ... and for the time-lock spend exactly: signature, pubkey, then the given redeem script *)
Theorem C15_timelock_spend_verbatim : forall sig pk t src,
  generate (snd REDEEM_SCRIPT_HASH_TIME_LOCK)
           [(F_signature, VBytes sig); (F_pubkey, VBytes pk); (F_script, VSub t src)]
  = Some (push sig ++ push pk ++ push src).
Proof. exact timelock_spend_verbatim. Qed.
Print Assumptions C15_timelock_spend_verbatim.

(* ANY non-empty redeem script bytes -- canonically encoded or not, a time-lock script or not -- come
   back from the generated spending input as exactly those bytes *)
Theorem C15_timelock_spend_any_redeem_script : forall sig pk src,
  N.of_nat (length sig) < LIMIT -> N.of_nat (length pk) < LIMIT -> N.of_nat (length src) < LIMIT -> src <> [] ->
  parse_input (push sig ++ push pk ++ push src) =
  SMatch T_script_hash_timelock
         [(F_signature, VBytes sig); (F_pubkey, VBytes pk); (F_script, VSub SubTimeLock src)].
Proof. exact timelock_spend_any_redeem_script. Qed.
Print Assumptions C15_timelock_spend_any_redeem_script.

(* mutually inverse: generating again from the values the parser returned reproduces the script
   byte for byte *)
Theorem C15_parse_then_generate_output : forall name ops vs s vs', In (name, ops) output_templates ->
  values_fit ops vs -> generate ops vs = Some s -> parse_output s = SMatch name vs' ->
  generate ops vs' = Some s.
Proof. exact parse_then_generate_output. Qed.
Print Assumptions C15_parse_then_generate_output.

Theorem C15_parse_then_generate_input : forall name ops vs s vs', In (name, ops) input_simple_templates ->
  values_fit ops vs -> generate ops vs = Some s -> parse_input s = SMatch name vs' ->
  generate ops vs' = Some s.
Proof. exact parse_then_generate_input. Qed.
Print Assumptions C15_parse_then_generate_input.

(* ---- what the parser accepts, on ARBITRARY byte strings ---- *)

(* OutputScript parsing matches a template exactly when the tokens have that template's explicit
   opcode shape, and returns the pushed data as values *)
Theorem C15_parse_output_shapes : forall s name vs,
  parse_output s = SMatch name vs <-> exists toks, tokenize s = TokOk toks /\ out_shape name toks vs.
Proof. exact parse_output_shapes. Qed.
Print Assumptions C15_parse_output_shapes.

(* unambiguous: no token list has two output shapes or two readings *)
Theorem C15_output_unambiguous : forall toks n1 v1 n2 v2,
  out_shape n1 toks v1 -> out_shape n2 toks v2 -> n1 = n2 /\ v1 = v2.
Proof. exact out_shape_unique. Qed.
Print Assumptions C15_output_unambiguous.

(* ValueError exactly when the tokenizer stops on a partial PUSHDATA2/4 length (struct.error,
   re-raised as ValueError by Script.parse) or the tokens have none of the shapes *)
Theorem C15_parse_output_nomatch : forall s, parse_output s = SNoMatch <->
  tokenize s = TokErr StructError \/
  exists toks, tokenize s = TokOk toks /\ forall name vs, ~ out_shape name toks vs.
Proof. exact parse_output_nomatch. Qed.
Print Assumptions C15_parse_output_nomatch.

(* InputScript parsing, all four templates of InputScript.templates (the non-greedy PUSH_MANY parser
   included). The template order is visible in the multi_sig clause: OP_0 <d> <d> also has the
   multi_sig shape but is read as script_hash+timelock with an empty signature, so multi_sig needs
   at least two signatures *)
Theorem C15_parse_input_shapes : forall s name vs,
  parse_input s = SMatch name vs <-> exists toks, tokenize s = TokOk toks /\ in_shape name toks vs.
Proof. exact parse_input_shapes. Qed.
Print Assumptions C15_parse_input_shapes.

(* the subscript of a time-lock spend, parsed under its template hint, on arbitrary byte strings: the
   height is the little-endian value of the first datum, whatever its width *)
Theorem C15_parse_timelock_shapes : forall s name vs,
  parse_sub SubTimeLock s = SMatch name vs <->
  exists h a k, pushed a k /\ name = T_timelock /\
    tokenize s = TokOk ([TData h; TOp OP_CHECKLOCKTIMEVERIFY; TOp OP_DROP] ++ pkh_tail a) /\
    vs = [(F_height, VInt (le_decode h)); (F_pubkey_hash, VBytes k)].
Proof. exact parse_timelock_shapes. Qed.
Print Assumptions C15_parse_timelock_shapes.

(* ---- classification ---- *)

(* claim / update / support / support-with-data / purchase-data / data / payment / empty / no match:
   a script is given a class exactly when its opcodes have that class's shape *)
Theorem C15_classification : forall s c,
  classify s = c <->
  match c with
  | CError => False
  | CNoMatch => tokenize s = TokErr StructError \/ exists toks, tokenize s = TokOk toks /\ class_shape c toks
  | _ => exists toks, tokenize s = TokOk toks /\ class_shape c toks
  end.
Proof. exact classify_iff. Qed.
Print Assumptions C15_classification.

Theorem C15_classification_exclusive : forall c1 c2 toks, shape_class c1 -> shape_class c2 ->
  class_shape c1 toks -> class_shape c2 toks -> c1 = c2.
Proof. exact class_shape_exclusive. Qed.
Print Assumptions C15_classification_exclusive.

(* value locked in a claim, update or support is never classed as payment, data or empty, and its
   txo_to_row type is never 0 ("other", the spendable pool) *)
Theorem C15_claim_never_payment : forall s toks, tokenize s = TokOk toks ->
  (claim_shape toks \/ update_shape toks \/ support_shape toks \/ support_data_shape toks) ->
  classify s <> CPayment /\ classify s <> CData /\ classify s <> CPurchase /\ classify s <> CEmpty /\
  row_type (classify s) <> 0.
Proof. exact claim_never_payment. Qed.
Print Assumptions C15_claim_never_payment.

(* ---- where scripts travel and where the classification is used ---- *)

(* framed by its compact-size length, as inside a serialised transaction, a generated script is read
   back whole and parses to the same template and values: EVERY total script length below 2^63 *)
Theorem C15_generated_output_on_wire : forall name ops vs, In (name, ops) output_templates -> values_fit ops vs ->
  exists s, generate ops vs = Some s /\
    (forall rest, N.of_nat (length s) < 9223372036854775808 ->
       exists s', unframe (frame s ++ rest) = Some (s', rest) /\
                  parse_output s' = SMatch name (expected ops vs)).
Proof. exact generated_output_on_wire. Qed.
Print Assumptions C15_generated_output_on_wire.

Theorem C15_generated_input_on_wire : forall name ops vs, In (name, ops) input_simple_templates -> values_fit ops vs ->
  exists s, generate ops vs = Some s /\
    (forall rest, N.of_nat (length s) < 9223372036854775808 ->
       exists s', unframe (frame s ++ rest) = Some (s', rest) /\
                  parse_input s' = SMatch name (expected ops vs)).
Proof. exact generated_input_on_wire. Qed.
Print Assumptions C15_generated_input_on_wire.

(* daemon 'type' (JSONResponseEncoder), stored txo_type and the coin filter (txo_type IN (other, purchase)):
   a claim / update / support output is shown and stored as such and is never a coin, whatever follows
   it in the transaction (a purchase record included) and for EVERY protobuf decoder *)
Theorem C15_view_locked : forall decodable scripts i s toks,
  nth_error scripts i = Some s -> tokenize s = TokOk toks -> locked_shape toks ->
  exists jt r, view_at decodable scripts i = Some (Some jt, r, false) /\
    (jt = JClaimCreate \/ jt = JClaimUpdate \/ jt = JSupport) /\ (r = 1 \/ r = 3) /\
    (claim_shape toks -> jt = JClaimCreate /\ r = 1) /\
    (update_shape toks -> jt = JClaimUpdate /\ r = 1) /\
    (support_shape toks \/ support_data_shape toks -> jt = JSupport /\ r = 3).
Proof. exact view_locked. Qed.
Print Assumptions C15_view_locked.

Theorem C15_view_purchase_only_payment : forall decodable scripts i jt r sp,
  view_at decodable scripts i = Some (jt, r, sp) -> (jt = Some JPurchase \/ r = 4) ->
  i = O /\ (exists s0 s1 rest, scripts = s0 :: s1 :: rest /\ purchase_record decodable s1 = true /\
                                (classify s0 = CPayment \/ classify s0 = CEmpty \/ classify s0 = CData
                                 \/ classify s0 = CPurchase \/ classify s0 = CNoMatch)) /\
  (jt = Some JPurchase -> exists s0, nth_error scripts 0 = Some s0 /\ (classify s0 = CPayment \/ classify s0 = CEmpty)).
Proof. exact view_purchase_only_payment. Qed.
Print Assumptions C15_view_purchase_only_payment.

(* whatever passes the coin filter (and so may be swept by Account.fund(everything=True)) has no
   claim / update / support shape *)
Theorem C15_spendable_not_locked : forall decodable scripts i s toks jt r,
  nth_error scripts i = Some s -> tokenize s = TokOk toks ->
  view_at decodable scripts i = Some (jt, r, true) -> ~ locked_shape toks.
Proof. exact spendable_not_locked. Qed.
Print Assumptions C15_spendable_not_locked.

(* Database.get_txos' is_internal_transfer ("from me, to me, type other" = change) is never true for
   an output whose opcodes say claim, update or support *)
Theorem C15_internal_not_locked : forall decodable scripts i s toks mi mo,
  nth_error scripts i = Some s -> tokenize s = TokOk toks -> locked_shape toks ->
  internal_at decodable scripts i mi mo = false.
Proof. exact internal_not_locked. Qed.
Print Assumptions C15_internal_not_locked.

(* the fuel of the executable model is never exhausted (the error value exists only in the model) *)
Theorem C15_total : forall s, tokenize s <> TokErr TokFuel /\ parse_output s <> SFuel /\ parse_input s <> SFuel /\
  forall t, parse_sub t s <> SFuel.
Proof. exact no_fuel. Qed.
Print Assumptions C15_total.

(* ---- non-vacuity ---- *)
Example C15_ex_headers :
  (push_header 0, push_header 75, push_header 76, push_header 255, push_header 256, push_header 65535, push_header 65536)
  = (bs [0], bs [75], bs [76; 76], bs [76; 255], bs [77; 0; 1], bs [77; 255; 255], bs [78; 0; 0; 1; 0]).
Proof. vm_compute. reflexivity. Qed.
Example C15_ex_fit : values_fit (snd CLAIM_NAME_PUBKEY) ex_claim_values.
Proof. exact ex_claim_fit. Qed.
Example C15_ex_claim :
  option_map parse_output (generate (snd CLAIM_NAME_PUBKEY) ex_claim_values)
  = Some (SMatch T_claim_name_pkh ex_claim_values).
Proof. vm_compute. reflexivity. Qed.
Example C15_ex_classes :
  (option_map classify (generate (snd CLAIM_NAME_PUBKEY) ex_claim_values),
   option_map classify (generate (snd PAY_PUBKEY_HASH) [(F_pubkey_hash, VBytes ex_hash)]),
   classify (bs [106; 1; 80]), classify (bs [106; 1; 81]), classify [], classify (bs [181]), classify (bs [77; 1]))
  = (Some CClaim, Some CPayment, CPurchase, CData, CEmpty, CNoMatch, CNoMatch).
Proof. vm_compute. reflexivity. Qed.
Example C15_ex_timelock_fit : values_fit (snd TIME_LOCK_SCRIPT) [(F_height, VInt 500); (F_pubkey_hash, VBytes ex_hash)].
Proof. exact ex_timelock_fit. Qed.
Example C15_ex_timelock :
  option_map (parse_sub SubTimeLock) (generate (snd TIME_LOCK_SCRIPT) [(F_height, VInt 500); (F_pubkey_hash, VBytes ex_hash)])
  = Some (SMatch T_timelock [(F_height, VInt 500); (F_pubkey_hash, VBytes ex_hash)]).
Proof. vm_compute. reflexivity. Qed.
Example C15_ex_claim_shape : claim_shape
  ([TOp OP_CLAIM_NAME; TData ex_name; TOp 0; TOp OP_2DROP; TOp OP_DROP] ++ pkh_tail (TData ex_hash)).
Proof. exact ex_claim_shape. Qed.
Example C15_ex_nomatch_shape : class_shape CNoMatch [TOp OP_CLAIM_NAME].
Proof. exact ex_nomatch_shape. Qed.
(* order matters for inputs: OP_0 <data> <data> has the shape of script_hash+timelock (empty signature)
   and of script_hash+multi_sig; the global order gives script_hash+timelock *)
Example C15_ex_input_order :
  parse_input (bs [0; 1; 170; 1; 187]) =
  SMatch T_script_hash_timelock [(F_signature, VBytes []); (F_pubkey, VBytes (bs [170])); (F_script, VSub SubTimeLock (bs [187]))].
Proof. vm_compute. reflexivity. Qed.
Example C15_ex_view :
  tx_view (fun _ => true)
    [bs [181; 1; 97; 1; 98; 109; 117; 118; 169; 1; 99; 136; 172]; bs [106; 2; 80; 1]; bs [118; 169; 1; 99; 136; 172]]
  = [Some (Some JClaimCreate, 1, false); Some (Some JData, 0, true); Some (Some JPayment, 0, true)]
  /\ tx_view (fun _ => true) [bs [118; 169; 1; 99; 136; 172]; bs [106; 2; 80; 1]]
  = [Some (Some JPurchase, 4, true); Some (Some JData, 0, true)].
Proof. exact ex_view. Qed.
(* truncated pushes are rejected, like partial length fields (the lenient reading 6a056162 -> return_data 'ab' is gone) *)
Example C15_ex_truncated :
  (tokenize (bs [106; 5; 97; 98]), tokenize (bs [106; 76]), tokenize (bs [106; 77; 5; 0; 171]),
   classify (bs [106; 5; 97; 98]), parse_input (bs [2; 97; 98; 5; 97]), classify (bs [0; 20; 170; 170]))
  = (TokErr StructError, TokErr StructError, TokErr StructError, CNoMatch, SNoMatch, CNoMatch).
Proof. vm_compute. reflexivity. Qed.
